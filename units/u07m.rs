//! unit: u07m
//! properties: C07
//! note: BumpTransactionEventHandler::handle_htlc_resolution, how a batch of HTLC claims of an anchor channel is put into one transaction (slice: the loop that fills a batch) and how a batch is shrunk when the wallet cannot fund it (slice: the Err arm). The k-th HTLC of the batch is spent by input k and paid to output k - the same position, which is what its SIGHASH_SINGLE|ANYONECANPAY counterparty signature commits to (process_coin_selection, u07l, only appends behind them) - and is handed to coin selection as must-spend entry k with its own outpoint, previous output and the witness weight of its kind (success with a preimage, timeout without); the batch is the LONGEST prefix of the remaining HTLCs whose aggregated weight stays below the transaction's maximum less the budget kept for the wallet's inputs; HTLCs that do not fit stay for the next batch (nothing is skipped, nothing is taken twice). A batch that cannot be funded is retried strictly smaller and given up only when nothing is left of it
//! trusted: R15 (deep slices): the statements from `let mut htlc_weight_sum` to `batch_size = htlc_tx.input.len();`, loop body verbatim, and the body of the `Err(()) =>` arm; R6: `for d in &LIST[a..a + n] { .. break .. }` is an index loop over a..a+n with the same break; env: HTLCDescriptor is an opaque value with its three uninterpreted projections (unsigned_tx_input, previous_utxo, tx_output) and its preimage option; the fn-local constant USER_COINS_WEIGHT_BUDGET is read from the source by a slice of its own; EMPTY_SCRIPT_SIG_WEIGHT folded from chan_utils.rs (over bitcoin's WITNESS_SCALE_FACTOR = 4, restated)
//! trusted: assume_specification for u64::div_ceil (division rounded up) with its std meaning; Option::ok_or and usize::checked_sub are specified by vstd
//! trusted: assume_specification for core::cmp::max / core::cmp::min (std definitions): present in every unit so that a change that introduces them is verified instead of being rejected by the tool
use vstd::prelude::*;
verus! {
use vstd::std_specs::cmp::*;
use core::cmp;
pub assume_specification<T: core::cmp::Ord>[core::cmp::max::<T>](a: T, b: T) -> (r: T)
    ensures T::obeys_cmp_spec() ==> r == (if b.cmp_spec(&a) == core::cmp::Ordering::Less { a } else { b });
pub assume_specification<T: core::cmp::Ord>[core::cmp::min::<T>](a: T, b: T) -> (r: T)
    ensures T::obeys_cmp_spec() ==> r == (if b.cmp_spec(&a) == core::cmp::Ordering::Less { b } else { a });
pub assume_specification[u64::div_ceil](a: u64, b: u64) -> (r: u64) requires b != 0 ensures r as int == (a as int + b as int - 1) / (b as int);   // std: division rounded up
pub const WITNESS_SCALE_FACTOR: usize = 4;   // bitcoin::constants::WITNESS_SCALE_FACTOR
//@const lightning/src/ln/chan_utils.rs EMPTY_SCRIPT_SIG_WEIGHT
#[derive(Copy, PartialEq, Eq)] pub struct OutPoint { pub txid: u64, pub vout: u32 }
impl Clone for OutPoint { fn clone(&self) -> (r: Self) ensures r == *self { *self } }
#[derive(Clone, Copy, PartialEq, Eq)] pub struct TxIn { pub previous_output: OutPoint, pub sequence: u32 }
#[derive(Clone, Copy, PartialEq, Eq)] pub struct TxOut { pub value: u64, pub script: u64 }
pub struct Transaction { pub input: Vec<TxIn>, pub output: Vec<TxOut> }
pub struct Input { pub outpoint: OutPoint, pub previous_utxo: TxOut, pub satisfaction_weight: u64 }
pub struct Secp {}
pub struct PaymentPreimage(pub u64);
pub struct HTLCDescriptor { pub id: u64, pub preimage: Option<PaymentPreimage> }
pub uninterp spec fn input_of(d: HTLCDescriptor) -> TxIn;
pub uninterp spec fn prev_of(d: HTLCDescriptor) -> TxOut;
pub uninterp spec fn output_of(d: HTLCDescriptor) -> TxOut;
impl HTLCDescriptor {
    #[verifier::external_body] pub fn unsigned_tx_input(&self) -> (r: TxIn) ensures r == input_of(*self) { unimplemented!() }
    #[verifier::external_body] pub fn previous_utxo(&self, secp: &Secp) -> (r: TxOut) ensures r == prev_of(*self) { unimplemented!() }
    #[verifier::external_body] pub fn tx_output(&self, secp: &Secp) -> (r: TxOut) ensures r == output_of(*self) { unimplemented!() }
}
pub open spec fn pair_weight(d: HTLCDescriptor, ws: u64, wt: u64) -> int { if d.preimage is Some { ws as int } else { wt as int } }
pub open spec fn weight_of(s: Seq<HTLCDescriptor>, ws: u64, wt: u64) -> int decreases s.len() { if s.len() == 0 { 0 } else { weight_of(s.drop_last(), ws, wt) + pair_weight(s.last(), ws, wt) } }
//@extract lightning/src/events/bump_transaction/mod.rs :: impl BumpTransactionEventHandler :: fn handle_htlc_resolution
//@slice R15
    const USER_COINS_WEIGHT_BUDGET: u64 = $v:lit;
//@with
    fn the_budget_kept_for_the_wallets_inputs() -> u64 { $v }
//@ret r
//@ensures A the-budget-this-unit-computes-with-is-the-one-in-the-source
    r == USER_COINS_WEIGHT_BUDGET,
//@end
pub const USER_COINS_WEIGHT_BUDGET: u64 = 1000;
pub struct Handler { pub secp: Secp }
impl Handler {
//@extract lightning/src/events/bump_transaction/mod.rs :: impl BumpTransactionEventHandler :: fn handle_htlc_resolution
//@slice R15
    let mut htlc_weight_sum = 0; for htlc_descriptor in &htlc_descriptors[broadcasted_htlcs..broadcasted_htlcs + batch_size] { $body:any } batch_size = htlc_tx.input.len();
//@with
    fn fill_a_batch(&self, htlc_descriptors: &Vec<HTLCDescriptor>, broadcasted_htlcs: usize, batch_size_in: usize, htlc_tx: &mut Transaction, must_spend: &mut Vec<Input>, max_tx_weight: u64,
        htlc_success_input_output_pair_weight: u64, htlc_timeout_input_output_pair_weight: u64, htlc_success_witness_weight: u64, htlc_timeout_witness_weight: u64) -> usize {
        let mut batch_size = batch_size_in;
        let ghost rest = htlc_descriptors@.subrange(broadcasted_htlcs as int, broadcasted_htlcs + batch_size_in);
        let mut htlc_weight_sum: u64 = 0;   // (the source leaves the type to inference: u64, from the weights added to it)
        let mut __k: usize = 0;
        proof { assert(rest.take(0) =~= Seq::<HTLCDescriptor>::empty()); assert(htlc_descriptors@.len() == htlc_descriptors.len()); }
        while __k < batch_size
            invariant __k <= batch_size, batch_size == batch_size_in, broadcasted_htlcs + batch_size_in <= htlc_descriptors@.len(), htlc_descriptors@.len() <= usize::MAX, max_tx_weight <= 0x1_0000_0000, (__k == 0 ==> htlc_weight_sum == 0), rest == htlc_descriptors@.subrange(broadcasted_htlcs as int, broadcasted_htlcs + batch_size_in),
                max_tx_weight >= USER_COINS_WEIGHT_BUDGET, htlc_success_input_output_pair_weight < 0x1_0000_0000, htlc_timeout_input_output_pair_weight < 0x1_0000_0000, htlc_success_witness_weight < 0x1_0000_0000, htlc_timeout_witness_weight < 0x1_0000_0000,
                htlc_tx.input@.len() == __k, htlc_tx.output@.len() == __k, must_spend@.len() == __k,
                htlc_weight_sum as int == weight_of(rest.take(__k as int), htlc_success_input_output_pair_weight, htlc_timeout_input_output_pair_weight), (__k > 0 ==> htlc_weight_sum < max_tx_weight - USER_COINS_WEIGHT_BUDGET),
                forall|j: int| 0 <= j < __k ==> htlc_tx.input@[j] == input_of(#[trigger] rest[j]) && htlc_tx.output@[j] == output_of(rest[j])
                    && must_spend@[j].outpoint == input_of(rest[j]).previous_output && must_spend@[j].previous_utxo == prev_of(rest[j])
                    && must_spend@[j].satisfaction_weight == EMPTY_SCRIPT_SIG_WEIGHT + (if rest[j].preimage is Some { htlc_success_witness_weight } else { htlc_timeout_witness_weight }),
            ensures htlc_tx.input@.len() <= batch_size_in, htlc_tx.output@.len() == htlc_tx.input@.len(), must_spend@.len() == htlc_tx.input@.len(),
                htlc_weight_sum as int == weight_of(rest.take(htlc_tx.input@.len() as int), htlc_success_input_output_pair_weight, htlc_timeout_input_output_pair_weight), (htlc_tx.input@.len() > 0 ==> htlc_weight_sum < max_tx_weight - USER_COINS_WEIGHT_BUDGET),
                htlc_tx.input@.len() < batch_size_in ==> htlc_weight_sum + pair_weight(rest[htlc_tx.input@.len() as int], htlc_success_input_output_pair_weight, htlc_timeout_input_output_pair_weight) >= max_tx_weight - USER_COINS_WEIGHT_BUDGET,
                forall|j: int| 0 <= j < htlc_tx.input@.len() ==> htlc_tx.input@[j] == input_of(#[trigger] rest[j]) && htlc_tx.output@[j] == output_of(rest[j])
                    && must_spend@[j].outpoint == input_of(rest[j]).previous_output && must_spend@[j].previous_utxo == prev_of(rest[j])
                    && must_spend@[j].satisfaction_weight == EMPTY_SCRIPT_SIG_WEIGHT + (if rest[j].preimage is Some { htlc_success_witness_weight } else { htlc_timeout_witness_weight }),
            decreases batch_size - __k
        { let htlc_descriptor = &htlc_descriptors[broadcasted_htlcs + __k];
          proof { assert(rest[__k as int] == *htlc_descriptor); assert(rest.take(__k as int + 1).drop_last() =~= rest.take(__k as int)); }
          $body
          __k = __k + 1; }
        batch_size = htlc_tx.input.len();
        batch_size }
//@ret r
//@requires
    old(htlc_tx).input@.len() == 0, old(htlc_tx).output@.len() == 0, old(must_spend)@.len() == 0, broadcasted_htlcs + batch_size_in <= htlc_descriptors@.len(), max_tx_weight >= USER_COINS_WEIGHT_BUDGET, max_tx_weight <= 0x1_0000_0000,   // TRUC_MAX_WEIGHT or MAX_STANDARD_TX_WEIGHT
    htlc_success_input_output_pair_weight < 0x1_0000_0000, htlc_timeout_input_output_pair_weight < 0x1_0000_0000, htlc_success_witness_weight < 0x1_0000_0000, htlc_timeout_witness_weight < 0x1_0000_0000,
//@ensures P C07 the-k-th-htlc-of-a-batch-is-spent-by-input-k-paid-to-output-k-and-handed-to-coin-selection-as-entry-k-and-the-batch-is-the-longest-prefix-that-fits
    ({ let rest = htlc_descriptors@.subrange(broadcasted_htlcs as int, broadcasted_htlcs + batch_size_in); let (ws, wt) = (htlc_success_input_output_pair_weight, htlc_timeout_input_output_pair_weight);
       &&& r <= batch_size_in && final(htlc_tx).input@.len() == r && final(htlc_tx).output@.len() == r && final(must_spend)@.len() == r
       &&& forall|j: int| 0 <= j < r ==> final(htlc_tx).input@[j] == input_of(#[trigger] rest[j]) && final(htlc_tx).output@[j] == output_of(rest[j])
               && final(must_spend)@[j].outpoint == input_of(rest[j]).previous_output && final(must_spend)@[j].previous_utxo == prev_of(rest[j])
               && final(must_spend)@[j].satisfaction_weight == EMPTY_SCRIPT_SIG_WEIGHT + (if rest[j].preimage is Some { htlc_success_witness_weight } else { htlc_timeout_witness_weight })
       &&& (r > 0 ==> weight_of(rest.take(r as int), ws, wt) < max_tx_weight - USER_COINS_WEIGHT_BUDGET)
       &&& (r < batch_size_in ==> weight_of(rest.take(r as int), ws, wt) + pair_weight(rest[r as int], ws, wt) >= max_tx_weight - USER_COINS_WEIGHT_BUDGET) }),
//@mutant htlc_output_put_in_front_of_the_others
    htlc_tx.output.push(htlc_output);
//@with
    htlc_tx.output.insert(0, htlc_output);
//@mutant success_claim_given_the_timeout_witness_weight
    satisfaction_weight: EMPTY_SCRIPT_SIG_WEIGHT + if htlc_descriptor.preimage.is_some() {
//@with
    satisfaction_weight: EMPTY_SCRIPT_SIG_WEIGHT + if htlc_descriptor.preimage.is_none() {
//@mutant batch_allowed_to_reach_the_maximum_weight
    if htlc_weight_sum + input_output_weight >= max_tx_weight - USER_COINS_WEIGHT_BUDGET
//@with
    if htlc_weight_sum + input_output_weight > max_tx_weight
//@end
//@extract lightning/src/events/bump_transaction/mod.rs :: impl BumpTransactionEventHandler :: fn handle_htlc_resolution
//@slice R15
    Ok(selection) => selection, Err(()) => { $arm:any },
//@with
    fn shrink_a_batch_the_wallet_cannot_fund(batch_size_in: usize, htlc_timeout_input_output_pair_weight: u64) -> Result<usize, ()> { let mut batch_size = batch_size_in; $arm }
//@rw R8
    continue;
//@with
    return Ok(batch_size);
//@at before `batch_size = batch_size.checked_sub`
    proof { let wt = htlc_timeout_input_output_pair_weight as int; assert((1000 + wt - 1) / wt >= 1 && (1000 + wt - 1) / wt <= 1000) by(nonlinear_arith) requires wt > 0; }
//@ret r
//@requires
    htlc_timeout_input_output_pair_weight > 0,
//@ensures P C07 a-batch-the-wallet-cannot-fund-is-retried-strictly-smaller-and-given-up-only-when-nothing-is-left
    r is Ok ==> 0 < r->Ok_0 && r->Ok_0 < batch_size_in,
    r is Err ==> batch_size_in as int <= (USER_COINS_WEIGHT_BUDGET as int + htlc_timeout_input_output_pair_weight - 1) / (htlc_timeout_input_output_pair_weight as int),
//@end
}
}
fn main() {}
