//! unit: u05b
//! properties: C05
//! note: HolderCommitmentPoint: the holder's commitment number advances by exactly one and only when the next point is available
//! trusted: env: trait ChannelSigner reduced to get_per_commitment_point (result unconstrained = any signer behaviour); PublicKey opaque 33-byte value; Secp256k1/All/Logger opaque
//! assume: next_transaction_number >= 2 when advance is called (commitment numbers count down from 2^48-1; a channel never reaches 0)
//! assume: Logger callbacks do not panic (R3)
use vstd::prelude::*;
verus! {
#[derive(Clone, Copy)] pub struct PublicKey(pub [u8; 33]);
pub struct All {}
pub struct Secp256k1<T> { pub t: T }
pub trait Logger {}
pub trait ChannelSigner {
    fn get_per_commitment_point(&self, idx: u64, secp_ctx: &Secp256k1<All>) -> Result<PublicKey, ()>;
}
//@extract lightning/src/ln/channel.rs :: struct HolderCommitmentPoint
//@end
impl Clone for HolderCommitmentPoint { fn clone(&self) -> Self { *self } }
impl Copy for HolderCommitmentPoint {}

impl HolderCommitmentPoint {
//@extract lightning/src/ln/channel.rs :: impl HolderCommitmentPoint :: fn can_advance
//@ret r
//@ensures A can_advance-iff-next-point-pending
    r == self.pending_next_point is Some
//@end
//@extract lightning/src/ln/channel.rs :: impl HolderCommitmentPoint :: fn current_transaction_number
//@ret r
//@requires
    self.next_transaction_number < u64::MAX
//@ensures A current-is-next-plus-one
    r == self.next_transaction_number + 1
//@end
//@extract lightning/src/ln/channel.rs :: impl HolderCommitmentPoint :: fn try_resolve_pending
//@strip secp256k1
//@requires
    old(self).next_transaction_number >= 1
//@ensures P C05 resolving-a-pending-point-never-changes-a-number-or-an-existing-point
    final(self).next_transaction_number == old(self).next_transaction_number,
    final(self).current_point == old(self).current_point, final(self).next_point == old(self).next_point,
    final(self).previous_revoked_point == old(self).previous_revoked_point, final(self).last_revoked_point == old(self).last_revoked_point,
    old(self).pending_next_point is Some ==> final(self).pending_next_point == old(self).pending_next_point,
//@end
//@extract lightning/src/ln/channel.rs :: impl HolderCommitmentPoint :: fn advance
//@strip secp256k1
//@ret r
//@requires
    old(self).next_transaction_number >= 2
//@ensures P C05 commitment-numbers-advance-by-exactly-one-and-only-when-next-point-available
    r is Ok <==> old(self).pending_next_point is Some,
    r is Ok ==> final(self).next_transaction_number == old(self).next_transaction_number - 1
        && final(self).current_point == Some(old(self).next_point)
        && final(self).next_point == old(self).pending_next_point->Some_0
        && final(self).last_revoked_point == old(self).current_point
        && final(self).previous_revoked_point == old(self).last_revoked_point,
    r is Err ==> *final(self) == *old(self),
//@mutant skip_two
    next_transaction_number: self.next_transaction_number - 1,
//@with
    next_transaction_number: self.next_transaction_number - 2,
//@mutant revoked_points_not_shifted
    previous_revoked_point: self.last_revoked_point,
//@with
    previous_revoked_point: self.previous_revoked_point,
//@end
}
}
fn main() {}
