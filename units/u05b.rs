//! unit: u05b
//! properties: C05
//! note: HolderCommitmentPoint: the holder's commitment number advances by exactly one and only when the next point is available
//! trusted: env: trait ChannelSigner reduced to get_per_commitment_point (result unconstrained = any signer behaviour); PublicKey opaque 33-byte value; Secp256k1/All/Logger opaque
//! assume: next_transaction_number >= 2 when advance is called (commitment numbers count down from 2^48-1; a channel never reaches 0)
//! assume: Logger callbacks do not panic (R3)
//! plemma: C05 call-site precondition of ChannelSigner::release_commitment_secret in get_last_revoke_and_ack: the only secret requested from the signer is that of commitment next_transaction_number + 2 (the commitment before the current one), never the current or a future one
//! trusted: u05c: FundedChannel/ChannelContext are self skeletons with exactly the fields get_last_revoke_and_ack reads (R5); InboundHTLCState::should_hold_htlc external_body (unconstrained); BlindedMessagePath, ChannelId opaque; R14 folds the const initialiser (1 << 48) - 1
//! trusted: assume_specification for core::cmp::max / core::cmp::min (std definitions): present in every unit so that a change that introduces them is verified instead of being rejected by the tool
use vstd::prelude::*;
verus! {
use vstd::std_specs::cmp::*;
use core::cmp;
pub assume_specification<T: core::cmp::Ord>[core::cmp::max::<T>](a: T, b: T) -> (r: T)
    ensures T::obeys_cmp_spec() ==> r == (if b.cmp_spec(&a) == core::cmp::Ordering::Less { a } else { b });
pub assume_specification<T: core::cmp::Ord>[core::cmp::min::<T>](a: T, b: T) -> (r: T)
    ensures T::obeys_cmp_spec() ==> r == (if b.cmp_spec(&a) == core::cmp::Ordering::Less { b } else { a });
#[derive(Clone, Copy)] pub struct PublicKey(pub [u8; 33]);
pub struct All {}
pub struct Secp256k1<T> { pub t: T }
pub trait Logger {}
// the commitment number whose secret may be released right now (numbers count down): fixed by the caller's precondition
pub uninterp spec fn releasable(idx: u64) -> bool;
pub trait ChannelSigner {
    fn get_per_commitment_point(&self, idx: u64, secp_ctx: &Secp256k1<All>) -> Result<PublicKey, ()>;
    // (P) trace obligation: every call site must show the index is the releasable one
    fn release_commitment_secret(&self, idx: u64) -> Result<[u8; 32], ()>
        requires releasable(idx);
}
//@extract lightning/src/ln/channel.rs :: struct HolderCommitmentPoint
//@end
impl Clone for HolderCommitmentPoint { fn clone(&self) -> Self { *self } }
impl Copy for HolderCommitmentPoint {}

impl HolderCommitmentPoint {
//@extract lightning/src/ln/channel.rs :: impl HolderCommitmentPoint :: fn can_advance
//@ret r
//@ensures A can_advance-iff-next-point-pending
    r == self.pending_next_point is Some
//@end
//@extract lightning/src/ln/channel.rs :: impl HolderCommitmentPoint :: fn current_transaction_number
//@ret r
//@requires
    self.next_transaction_number < u64::MAX
//@ensures A current-is-next-plus-one
    r == self.next_transaction_number + 1
//@end
//@extract lightning/src/ln/channel.rs :: impl HolderCommitmentPoint :: fn next_transaction_number
//@ret r
//@ensures A
    r == self.next_transaction_number
//@end
//@extract lightning/src/ln/channel.rs :: impl HolderCommitmentPoint :: fn next_point
//@ret r
//@ensures A
    r == self.next_point
//@end
//@extract lightning/src/ln/channel.rs :: impl HolderCommitmentPoint :: fn try_resolve_pending
//@strip secp256k1
//@requires
    old(self).next_transaction_number >= 1
//@ensures P C05 resolving-a-pending-point-never-changes-a-number-or-an-existing-point
    final(self).next_transaction_number == old(self).next_transaction_number,
    final(self).current_point == old(self).current_point, final(self).next_point == old(self).next_point,
    final(self).previous_revoked_point == old(self).previous_revoked_point, final(self).last_revoked_point == old(self).last_revoked_point,
    old(self).pending_next_point is Some ==> final(self).pending_next_point == old(self).pending_next_point,
//@end
//@extract lightning/src/ln/channel.rs :: impl HolderCommitmentPoint :: fn advance
//@strip secp256k1
//@ret r
//@requires
    old(self).next_transaction_number >= 2
//@ensures P C05 commitment-numbers-advance-by-exactly-one-and-only-when-next-point-available
    r is Ok <==> old(self).pending_next_point is Some,
    r is Ok ==> final(self).next_transaction_number == old(self).next_transaction_number - 1
        && final(self).current_point == Some(old(self).next_point)
        && final(self).next_point == old(self).pending_next_point->Some_0
        && final(self).last_revoked_point == old(self).current_point
        && final(self).previous_revoked_point == old(self).last_revoked_point,
    r is Err ==> *final(self) == *old(self),
//@mutant skip_two
    next_transaction_number: self.next_transaction_number - 1,
//@with
    next_transaction_number: self.next_transaction_number - 2,
//@mutant revoked_points_not_shifted
    previous_revoked_point: self.last_revoked_point,
//@with
    previous_revoked_point: self.previous_revoked_point,
//@end
}

// ---------------- u05c: which revocation secret is released ----------------
//@extract lightning/src/ln/channel.rs :: const INITIAL_COMMITMENT_NUMBER
//@fold
//@end
#[derive(Clone, Copy)] pub struct ChannelId(pub [u8; 32]);
pub struct BlindedMessagePath {}
pub struct InboundHTLCState {}
impl InboundHTLCState { #[verifier::external_body] fn should_hold_htlc(&self) -> bool { unimplemented!() } }
pub struct InboundHTLCOutput { pub htlc_id: u64, pub state: InboundHTLCState }
//@extract lightning/src/ln/msgs.rs :: struct RevokeAndACK
//@end
pub struct ChannelContext<S: ChannelSigner> { pub holder_signer: S, pub secp_ctx: Secp256k1<All>, pub pending_inbound_htlcs: Vec<InboundHTLCOutput>, pub signer_pending_revoke_and_ack: bool, pub channel_id: ChannelId }
pub struct FundedChannel<S: ChannelSigner> { pub context: ChannelContext<S>, pub holder_commitment_point: HolderCommitmentPoint }

impl<S: ChannelSigner> FundedChannel<S> {
//@extract lightning/src/ln/channel.rs :: impl FundedChannel :: fn get_last_revoke_and_ack
//@strip msgs
//@ret r
//@requires
    old(self).holder_commitment_point.next_transaction_number <= INITIAL_COMMITMENT_NUMBER - 2,
    old(self).holder_commitment_point.next_transaction_number >= 1,
    // the commitment that may be revoked now is the one before the current one: current = next + 1, revoked = next + 2
    releasable((old(self).holder_commitment_point.next_transaction_number + 2) as u64),
    forall|i: u64| i != old(self).holder_commitment_point.next_transaction_number + 2 ==> !releasable(i),
    forall|id: u64| path_for_release_htlc.requires((id,)),
//@ensures P C05 revoke_and_ack-carries-the-next-point-and-never-changes-the-commitment-number
    r is Some ==> r->Some_0.next_per_commitment_point == old(self).holder_commitment_point.next_point,
    final(self).holder_commitment_point.next_transaction_number == old(self).holder_commitment_point.next_transaction_number,
//@loop 1
    invariant forall|id: u64| path_for_release_htlc.requires((id,)),
//@mutant releases_secret_of_the_current_commitment
    .release_commitment_secret(self.holder_commitment_point.next_transaction_number() + 2)
//@with
    .release_commitment_secret(self.holder_commitment_point.next_transaction_number() + 1)
//@end
}
}
fn main() {}
