//! unit: u15d
//! properties: C15
//! note: PeerManager::do_read_event, the function-local macro try_potential_handleerror!: what each ErrorAction a handler (or the transport) answers with does to the connection - DisconnectPeer and DisconnectPeerWithWarning drop it at once (nothing is queued: the read path never writes), the Ignore* actions and the Send* actions keep reading, and the Send* actions queue exactly the error / warning message they carry; together with u15 / u15c (every decryption or handshake failure answers DisconnectPeer) this is the sentence "any corrupted, truncated or unauthenticated byte causes the connection to be dropped"
//! trusted: R15 (deep slice of a function-local macro_rules body; R18: `$peer` is the identifier m_peer bound as a parameter): the `match e.action { .. }` verbatim as a function of the action; `continue` (next iteration of the read loop) is the return value ReadOn, `return Err(PeerHandleError {})` leaves the function as in the source; enqueue_message is a recorder; ErrorAction is extracted (logger::Level, ErrorMessage, WarningMessage opaque); log statements dropped (R3)
//! trusted: R15 (deep slice): process_events: the `match action { .. }` of the arm MessageSendEvent::HandleError verbatim as a function of the action (peers_to_disconnect is a map stub, the function-local macro enqueue_message_to! is the recorder Sender::enqueue_to; R9: the closure mapping the optional error message gets its types; logs dropped)
//! trusted: assume_specification for core::cmp::max / core::cmp::min (std definitions): present in every unit so that a change that introduces them is verified instead of being rejected by the tool
use vstd::prelude::*;
verus! {
use vstd::std_specs::cmp::*;
use core::cmp;
pub assume_specification<T: core::cmp::Ord>[core::cmp::max::<T>](a: T, b: T) -> (r: T)
    ensures T::obeys_cmp_spec() ==> r == (if b.cmp_spec(&a) == core::cmp::Ordering::Less { a } else { b });
pub assume_specification<T: core::cmp::Ord>[core::cmp::min::<T>](a: T, b: T) -> (r: T)
    ensures T::obeys_cmp_spec() ==> r == (if b.cmp_spec(&a) == core::cmp::Ordering::Less { b } else { a });
pub mod logger { pub struct Level { pub l: u8 } }
pub struct ErrorMessage { pub id: u64 }
pub struct WarningMessage { pub id: u64 }
//@extract lightning/src/ln/msgs.rs :: enum ErrorAction
//@end
pub enum Message { Error(ErrorMessage), Warning(WarningMessage), Other }
pub struct Peer { pub id: u64 }
pub struct PeerHandleError {}
pub enum AfterError { ReadOn }
pub struct PeerManager { pub queued: Ghost<Seq<Message>> }
impl PeerManager {
    #[verifier::external_body] pub fn enqueue_message(&mut self, peer: &mut Peer, msg: Message) -> (r: bool) ensures final(self).queued@ == old(self).queued@.push(msg) { unimplemented!() }
//@extract lightning/src/ln/peer_handler.rs :: impl PeerManager :: fn do_read_event
//@metavars
//@strip msgs
//@slice R15
    macro_rules! try_potential_handleerror { ($peer: expr, $thing: expr) => {{ let res = $thing; $lg:any match res { Ok(x) => x, Err(e) => { match e.action { $arms:any } } } }} }
//@with
    fn after_an_error_action(&mut self, m_peer: &mut Peer, action: ErrorAction) -> Result<AfterError, PeerHandleError> { match action { $arms } }
//@rw R8 *
    continue
//@with
    return Ok(AfterError::ReadOn)
//@ret r
//@ensures P C15 an-error-that-asks-for-the-connection-to-be-dropped-drops-it-at-once-and-every-other-error-keeps-reading-after-queueing-exactly-the-message-it-carries
    (action is DisconnectPeer || action is DisconnectPeerWithWarning) ==> r is Err && final(self).queued@ == old(self).queued@,
    (action is IgnoreError || action is IgnoreAndLog || action is IgnoreDuplicateGossip) ==> r is Ok && final(self).queued@ == old(self).queued@,
    action matches ErrorAction::SendErrorMessage { msg } ==> r is Ok && final(self).queued@ == old(self).queued@.push(Message::Error(msg)),
    action matches ErrorAction::SendWarningMessage { msg, .. } ==> r is Ok && final(self).queued@ == old(self).queued@.push(Message::Warning(msg)),
//@mutant disconnect_with_warning_keeps_the_connection
    return Err(PeerHandleError { }); }, msgs::ErrorAction::IgnoreAndLog(level)
//@with
    continue; }, msgs::ErrorAction::IgnoreAndLog(level)
//@mutant duplicate_gossip_drops_the_connection
    msgs::ErrorAction::IgnoreDuplicateGossip => continue,
//@with
    msgs::ErrorAction::IgnoreDuplicateGossip => return Err(PeerHandleError { }),
//@mutant error_message_not_sent
    let msg = Message::Error(msg); let _ = self.enqueue_message(m_peer, msg);
//@with
    let msg = Message::Error(msg);
//@end
}
// ---- PeerManager::process_events, MessageSendEvent::HandleError: what an error action a handler queued does ----
#[derive(Clone, Copy)] pub struct PublicKey { pub id: u64 }
pub struct DisconnectMap { pub m: Ghost<Map<PublicKey, Option<Message>>> }
impl DisconnectMap {
    #[verifier::external_body] pub fn insert(&mut self, k: PublicKey, v: (Option<Message>, &'static str)) -> (r: Option<(Option<Message>, &'static str)>)
        ensures final(self).m@ == old(self).m@.insert(k, v.0) { unimplemented!() }
}
pub struct Sender { pub sent: Ghost<Seq<(PublicKey, Message)>> }
impl Sender {
    // the function-local macro enqueue_message_to!: queue the message for that peer (an unknown peer is skipped: Ok as well)
    #[verifier::external_body] pub fn enqueue_to(&mut self, node_id: &PublicKey, msg: Message) -> (r: Result<(), ()>)
        ensures r is Ok ==> final(self).sent@ == old(self).sent@.push((*node_id, msg)), r is Err ==> final(self).sent@ == old(self).sent@ { unimplemented!() }
}
pub open spec fn as_error(m: Option<ErrorMessage>) -> Option<Message> { match m { Some(e) => Some(Message::Error(e)), None => None } }
//@extract lightning/src/ln/peer_handler.rs :: impl PeerManager :: fn process_events
//@strip msgs
//@slice R15
    MessageSendEvent::HandleError { node_id, action } => { $lg:any match action { $arms:any } }, MessageSendEvent::SendChannelRangeQuery
//@with
    fn do_what_a_queued_error_action_says(sender: &mut Sender, peers_to_disconnect: &mut DisconnectMap, node_id: PublicKey, action: ErrorAction) -> Result<(), ()> { match action { $arms } Ok(()) }
//@rw R5 *
    enqueue_message_to!(&node_id, msg)?;
//@with
    sender.enqueue_to(&node_id, msg)?;
//@rw R9
    msg.map(|msg| Message::<CMH::CustomMessage>::Error(msg))
//@with
    msg.map(|msg: ErrorMessage| -> (o: Message) ensures o == Message::Error(msg) { Message::Error(msg) })
//@rw R16 ?
    ErrorAction::SendWarningMessage { msg, ref log_level }
//@with
    ErrorAction::SendWarningMessage { msg, log_level }
//@rw R8 ?
    if let Some(msg) = msg.as_ref() { } else { }
//@with
//@ret r
//@ensures P C15 a-queued-error-action-that-asks-for-the-connection-to-be-dropped-marks-the-peer-for-disconnection-with-the-message-it-carries-and-the-others-send-their-message-or-nothing
    action matches ErrorAction::DisconnectPeer { msg } ==> r is Ok && final(peers_to_disconnect).m@ == old(peers_to_disconnect).m@.insert(node_id, as_error(msg)) && final(sender).sent@ == old(sender).sent@,
    action matches ErrorAction::DisconnectPeerWithWarning { msg } ==> r is Ok && final(peers_to_disconnect).m@ == old(peers_to_disconnect).m@.insert(node_id, Some(Message::Warning(msg))) && final(sender).sent@ == old(sender).sent@,
    (action is IgnoreError || action is IgnoreAndLog || action is IgnoreDuplicateGossip) ==> r is Ok && final(peers_to_disconnect).m@ == old(peers_to_disconnect).m@ && final(sender).sent@ == old(sender).sent@,
    action matches ErrorAction::SendErrorMessage { msg } ==> final(peers_to_disconnect).m@ == old(peers_to_disconnect).m@ && (r is Ok ==> final(sender).sent@ == old(sender).sent@.push((node_id, Message::Error(msg)))),
    action matches ErrorAction::SendWarningMessage { msg, .. } ==> final(peers_to_disconnect).m@ == old(peers_to_disconnect).m@ && (r is Ok ==> final(sender).sent@ == old(sender).sent@.push((node_id, Message::Warning(msg)))),
//@mutant disconnect_with_warning_only_sends_the_warning
    peers_to_disconnect.insert( node_id, ( Some(Message::Warning(msg)), "DisconnectPeerWithWarning HandleError", ), );
//@with
    let msg = Message::Warning(msg); enqueue_message_to!(&node_id, msg)?;
//@end
}
fn main() {}
