//! unit: u11c
//! properties: C11 C20
//! note: chain notifications reach every listener (chain/mod.rs): the pairing `(T, U)` that lightning-block-sync users hand to the SPV client (chain monitor, channel manager) forwards every connected block AND every disconnection to both members with the arguments it was given; a member that hears connections but not disconnections keeps the effects of reorganised-out transactions
//! trusted: R5: T and U are instantiated with an owned listener stub that records the notifications it receives in a ghost log (the real members are `Deref`s to listeners with interior state; `&self` is written `&mut self` so that the effect on that state can be stated); Header, TransactionData, BlockLocator are opaque/skeleton types
//! trusted: Listen::block_connected (default body of the trait): R5 as above; R6: `block.txdata.iter().enumerate().collect()` is the external_body wrapper iter_enumerate_collect (element i is (i, &txdata[i])); a change to that adapter chain loses the anchor (exit 2)
//! trusted: assume_specification for core::cmp::max / core::cmp::min (std definitions): present in every unit so that a change that introduces them is verified instead of being rejected by the tool
use vstd::prelude::*;
verus! {
use vstd::std_specs::cmp::*;
use core::cmp;
pub assume_specification<T: core::cmp::Ord>[core::cmp::max::<T>](a: T, b: T) -> (r: T)
    ensures T::obeys_cmp_spec() ==> r == (if b.cmp_spec(&a) == core::cmp::Ordering::Less { a } else { b });
pub assume_specification<T: core::cmp::Ord>[core::cmp::min::<T>](a: T, b: T) -> (r: T)
    ensures T::obeys_cmp_spec() ==> r == (if b.cmp_spec(&a) == core::cmp::Ordering::Less { b } else { a });
pub struct Header { pub id: u64 }
pub struct TransactionData { pub id: u64 }
#[derive(Clone, Copy)]
pub struct BlockLocator { pub block_hash: u64, pub height: u32 }
pub enum Note { Connected { header: Header, txdata: TransactionData, height: u32 }, Disconnected { fork_point: BlockLocator } }
pub struct Listener { pub log: Ghost<Seq<Note>> }
impl Listener {
    #[verifier::external_body] pub fn filtered_block_connected(&mut self, header: &Header, txdata: &TransactionData, height: u32)
        ensures final(self).log@ == old(self).log@.push(Note::Connected { header: *header, txdata: *txdata, height }) { unimplemented!() }
    #[verifier::external_body] pub fn blocks_disconnected(&mut self, fork_point: BlockLocator)
        ensures final(self).log@ == old(self).log@.push(Note::Disconnected { fork_point }) { unimplemented!() }
}
pub struct ListenerPair(pub Listener, pub Listener);
impl ListenerPair {
//@extract lightning/src/chain/mod.rs :: impl Listen for (T, U) :: fn filtered_block_connected
//@rw R5
    fn filtered_block_connected(&self,
//@with
    fn filtered_block_connected(&mut self,
//@ensures P C11,C20 a-connected-block-is-forwarded-to-both-members-of-a-listener-pair
    final(self).0.log@ == old(self).0.log@.push(Note::Connected { header: *header, txdata: *txdata, height }),
    final(self).1.log@ == old(self).1.log@.push(Note::Connected { header: *header, txdata: *txdata, height }),
//@mutant second_member_not_told_about_connections
    self.1.filtered_block_connected(header, txdata, height);
//@with
    
//@end
//@extract lightning/src/chain/mod.rs :: impl Listen for (T, U) :: fn blocks_disconnected
//@rw R5
    fn blocks_disconnected(&self,
//@with
    fn blocks_disconnected(&mut self,
//@ensures P C11,C20 a-disconnection-is-forwarded-to-both-members-of-a-listener-pair
    final(self).0.log@ == old(self).0.log@.push(Note::Disconnected { fork_point }),
    final(self).1.log@ == old(self).1.log@.push(Note::Disconnected { fork_point }),
//@mutant first_member_not_told_about_disconnections
    self.0.blocks_disconnected(fork_point);
//@with
    
//@end
}
// ---- Listen::block_connected (default body): a whole block is handed on as all of its transactions, each with its index ----
pub struct Transaction { pub id: u64 }
pub struct Block { pub header: Header, pub txdata: Vec<Transaction> }
pub struct ToldFiltered { pub header: Header, pub txs: Seq<(usize, Transaction)>, pub height: u32 }
pub struct WholeBlockListener { pub log: Ghost<Seq<ToldFiltered>> }
pub open spec fn indexed(v: Seq<Transaction>) -> Seq<(usize, Transaction)> { Seq::new(v.len(), |i: int| (i as usize, v[i])) }
pub open spec fn deref_pairs(v: Seq<(usize, &Transaction)>) -> Seq<(usize, Transaction)> { Seq::new(v.len(), |i: int| (v[i].0, *v[i].1)) }
// R6: `E.iter().enumerate().collect()` into a Vec: element i is (i, &E[i]) (std semantics of Iter / Enumerate / collect)
#[verifier::external_body] pub fn iter_enumerate_collect<'a>(v: &'a Vec<Transaction>) -> (r: Vec<(usize, &'a Transaction)>)
    ensures deref_pairs(r@) == indexed(v@) { v.iter().enumerate().collect() }
impl WholeBlockListener {
    #[verifier::external_body] pub fn filtered_block_connected(&mut self, header: &Header, txdata: &Vec<(usize, &Transaction)>, height: u32)
        ensures final(self).log@ == old(self).log@.push(ToldFiltered { header: *header, txs: deref_pairs(txdata@), height }) { unimplemented!() }
//@extract lightning/src/chain/mod.rs :: trait Listen :: fn block_connected
//@rw R5
    fn block_connected(&self,
//@with
    fn block_connected(&mut self,
//@rw R6
    block.txdata.iter().enumerate().collect();
//@with
    iter_enumerate_collect(&block.txdata);
//@ensures P C11 a-whole-block-is-handed-on-as-every-one-of-its-transactions-with-its-index-under-the-blocks-own-header-and-height
    final(self).log@ == old(self).log@.push(ToldFiltered { header: block.header, txs: indexed(block.txdata@), height }),
//@mutant whole_block_announced_one_height_up
    self.filtered_block_connected(&block.header, &txdata, height);
//@with
    self.filtered_block_connected(&block.header, &txdata, height + 1);
//@end
}
}
fn main() {}
