//! unit: u11c
//! properties: C11 C20
//! note: chain notifications reach every listener (chain/mod.rs): the pairing `(T, U)` that lightning-block-sync users hand to the SPV client (chain monitor, channel manager) forwards every connected block AND every disconnection to both members with the arguments it was given; a member that hears connections but not disconnections keeps the effects of reorganised-out transactions
//! trusted: R5: T and U are instantiated with an owned listener stub that records the notifications it receives in a ghost log (the real members are `Deref`s to listeners with interior state; `&self` is written `&mut self` so that the effect on that state can be stated); Header, TransactionData, BlockLocator are opaque/skeleton types
//! trusted: assume_specification for core::cmp::max / core::cmp::min (std definitions): present in every unit so that a change that introduces them is verified instead of being rejected by the tool
use vstd::prelude::*;
verus! {
use vstd::std_specs::cmp::*;
use core::cmp;
pub assume_specification<T: core::cmp::Ord>[core::cmp::max::<T>](a: T, b: T) -> (r: T)
    ensures T::obeys_cmp_spec() ==> r == (if b.cmp_spec(&a) == core::cmp::Ordering::Less { a } else { b });
pub assume_specification<T: core::cmp::Ord>[core::cmp::min::<T>](a: T, b: T) -> (r: T)
    ensures T::obeys_cmp_spec() ==> r == (if b.cmp_spec(&a) == core::cmp::Ordering::Less { b } else { a });
pub struct Header { pub id: u64 }
pub struct TransactionData { pub id: u64 }
#[derive(Clone, Copy)]
pub struct BlockLocator { pub block_hash: u64, pub height: u32 }
pub enum Note { Connected { header: Header, txdata: TransactionData, height: u32 }, Disconnected { fork_point: BlockLocator } }
pub struct Listener { pub log: Ghost<Seq<Note>> }
impl Listener {
    #[verifier::external_body] pub fn filtered_block_connected(&mut self, header: &Header, txdata: &TransactionData, height: u32)
        ensures final(self).log@ == old(self).log@.push(Note::Connected { header: *header, txdata: *txdata, height }) { unimplemented!() }
    #[verifier::external_body] pub fn blocks_disconnected(&mut self, fork_point: BlockLocator)
        ensures final(self).log@ == old(self).log@.push(Note::Disconnected { fork_point }) { unimplemented!() }
}
pub struct ListenerPair(pub Listener, pub Listener);
impl ListenerPair {
//@extract lightning/src/chain/mod.rs :: impl Listen for (T, U) :: fn filtered_block_connected
//@rw R5
    fn filtered_block_connected(&self,
//@with
    fn filtered_block_connected(&mut self,
//@ensures P C11,C20 a-connected-block-is-forwarded-to-both-members-of-a-listener-pair
    final(self).0.log@ == old(self).0.log@.push(Note::Connected { header: *header, txdata: *txdata, height }),
    final(self).1.log@ == old(self).1.log@.push(Note::Connected { header: *header, txdata: *txdata, height }),
//@mutant second_member_not_told_about_connections
    self.1.filtered_block_connected(header, txdata, height);
//@with
    
//@end
//@extract lightning/src/chain/mod.rs :: impl Listen for (T, U) :: fn blocks_disconnected
//@rw R5
    fn blocks_disconnected(&self,
//@with
    fn blocks_disconnected(&mut self,
//@ensures P C11,C20 a-disconnection-is-forwarded-to-both-members-of-a-listener-pair
    final(self).0.log@ == old(self).0.log@.push(Note::Disconnected { fork_point }),
    final(self).1.log@ == old(self).1.log@.push(Note::Disconnected { fork_point }),
//@mutant first_member_not_told_about_disconnections
    self.0.blocks_disconnected(fork_point);
//@with
    
//@end
}
}
fn main() {}
