//! unit: u10d
//! properties: C10 C01 C12
//! note: FundedChannel::remove_uncommitted_htlcs_and_mark_paused (run when the peer disconnects and when the channel is written), the statements beside the HTLC lists (those are u01j's): a fee update the peer announced but never committed to is forgotten (it will send it again) while one we are part of a commitment exchange for, or our own, is kept; our announcement signatures are marked as not sent again unless the peer is known to have received them; the closing fee negotiation is started over (nothing of the old round is kept); and the channel is marked disconnected - which is also what makes a second call a no-op before any of this is touched
//! trusted: R15 (deep slices): (a) the statements from the test of announcement_sigs_state to the three closing resets, (b) the `if let Some((_, update_state)) = self.context.pending_update_fee { .. }` statement, verbatim, over a context skeleton with the fields they touch (closing values opaque); the AnnouncementSigsState and FeeUpdateState enums are extracted; is_outbound() is the funding's flag (read by a debug assertion: an inbound fee update can only exist on a channel we did not fund - an obligation here, discharged from the precondition that states it)
//! trusted: assume_specification for core::cmp::max / core::cmp::min (std definitions): present in every unit so that a change that introduces them is verified instead of being rejected by the tool
use vstd::prelude::*;
verus! {
use vstd::std_specs::cmp::*;
use core::cmp;
pub assume_specification<T: core::cmp::Ord>[core::cmp::max::<T>](a: T, b: T) -> (r: T)
    ensures T::obeys_cmp_spec() ==> r == (if b.cmp_spec(&a) == core::cmp::Ordering::Less { a } else { b });
pub assume_specification<T: core::cmp::Ord>[core::cmp::min::<T>](a: T, b: T) -> (r: T)
    ensures T::obeys_cmp_spec() ==> r == (if b.cmp_spec(&a) == core::cmp::Ordering::Less { b } else { a });
//@extract lightning/src/ln/channel.rs :: enum AnnouncementSigsState
//@derive Clone Copy
//@end
//@extract lightning/src/ln/channel.rs :: enum FeeUpdateState
//@derive Clone Copy
//@end
impl vstd::std_specs::cmp::PartialEqSpecImpl for AnnouncementSigsState { open spec fn obeys_eq_spec() -> bool { true } open spec fn eq_spec(&self, other: &AnnouncementSigsState) -> bool { *self == *other } }
impl PartialEq for AnnouncementSigsState { #[verifier::external_body] fn eq(&self, o: &AnnouncementSigsState) -> (r: bool) { unimplemented!() } }
impl vstd::std_specs::cmp::PartialEqSpecImpl for FeeUpdateState { open spec fn obeys_eq_spec() -> bool { true } open spec fn eq_spec(&self, other: &FeeUpdateState) -> bool { *self == *other } }
impl PartialEq for FeeUpdateState { #[verifier::external_body] fn eq(&self, o: &FeeUpdateState) -> (r: bool) { unimplemented!() } }
pub struct ClosingFee(pub u64); pub struct ClosingSigned(pub u64);
pub struct Funding { pub outbound: bool }
impl Funding { pub fn is_outbound(&self) -> (r: bool) ensures r == self.outbound { self.outbound } }
pub struct Context { pub announcement_sigs_state: AnnouncementSigsState, pub last_sent_closing_fee: Option<ClosingFee>, pub pending_counterparty_closing_signed: Option<ClosingSigned>, pub closing_fee_limits: Option<(u64, u64)>,
    pub pending_update_fee: Option<(u32, FeeUpdateState)> }
pub struct FundedChannel { pub context: Context, pub funding: Funding }
impl FundedChannel {
//@extract lightning/src/ln/channel.rs :: impl FundedChannel :: fn remove_uncommitted_htlcs_and_mark_paused
//@slice R15
    return Ok(()); } $resets:any let mut inbound_drop_count = 0;
//@with
    fn forget_what_is_renegotiated_after_a_reconnection(&mut self) { $resets }
//@ensures P C10,C01,C12 on-disconnection-announcement-signatures-not-known-to-have-arrived-count-as-not-sent-and-the-closing-fee-negotiation-starts-over
    final(self).context.announcement_sigs_state == (if old(self).context.announcement_sigs_state is PeerReceived { AnnouncementSigsState::PeerReceived } else { AnnouncementSigsState::NotSent }),
    final(self).context.last_sent_closing_fee is None && final(self).context.pending_counterparty_closing_signed is None && final(self).context.closing_fee_limits is None,
    final(self).context.pending_update_fee == old(self).context.pending_update_fee, final(self).funding == old(self).funding,
//@mutant announcement_signatures_the_peer_received_sent_again
    self.context.announcement_sigs_state == AnnouncementSigsState::Committed {
//@with
    self.context.announcement_sigs_state == AnnouncementSigsState::PeerReceived {
//@mutant our_last_closing_fee_kept_across_the_reconnection
    self.context.last_sent_closing_fee = None;
//@with

//@end
//@extract lightning/src/ln/channel.rs :: impl FundedChannel :: fn remove_uncommitted_htlcs_and_mark_paused
//@slice R15
    if let Some((_, update_state)) = self.context.pending_update_fee { $b:any } for htlc in self.context.pending_outbound_htlcs.iter_mut() {
//@with
    fn forget_a_fee_update_the_peer_never_committed(&mut self) { if let Some((_, update_state)) = self.context.pending_update_fee { $b } }
//@requires
    old(self).context.pending_update_fee is Some && old(self).context.pending_update_fee->Some_0.1 is RemoteAnnounced ==> !old(self).funding.outbound,
//@ensures P C10,C01,C12 on-disconnection-a-fee-update-the-peer-announced-but-never-committed-is-forgotten-and-every-other-pending-fee-update-is-kept
    final(self).context.pending_update_fee == (if old(self).context.pending_update_fee is Some && old(self).context.pending_update_fee->Some_0.1 is RemoteAnnounced { None } else { old(self).context.pending_update_fee }),
    final(self).context.announcement_sigs_state == old(self).context.announcement_sigs_state,
//@mutant half_committed_fee_update_forgotten_on_disconnection
    if update_state == FeeUpdateState::RemoteAnnounced {
//@with
    if update_state == FeeUpdateState::RemoteAnnounced || update_state == FeeUpdateState::AwaitingRemoteRevokeToAnnounce {
//@end
}
}
fn main() {}
