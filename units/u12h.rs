//! unit: u12h
//! properties: C12 C17 C07 C05
//! note: also run for C05: the code it constrains lies inside mechanisms those properties name (a change made there for their sake must meet these clauses too)
//! note: the remaining hand-written TLV codecs of persisted objects (network graph entries, claim packages and their solving data, on-chain event entries of the monitor and the claim handler, routes and payment parameters, recipient onion fields, HTLC sources): every record that carries a same-named value on both sides is written under the type the reader takes it from
//! trusted: R21 (TLV tables; `arm=K`, `only=`: as in u12f / u12g): the lists are taken from the functions on every run; the lemmas state that writer and reader agree
//! plemma: C12 lemma_channel_update_info_records: Writeable for ChannelUpdateInfo (gossip.rs): 6 of 7 records
//! plemma: C12 lemma_channel_info_records: Writeable for ChannelInfo (gossip.rs): 6 of 8 records
//! plemma: C12 lemma_node_announcement_info_records: Writeable for NodeAnnouncementInfo (gossip.rs): 6 of 6 records
//! plemma: C12 lemma_counterparty_offered_htlc_output_records: Writeable for CounterpartyOfferedHTLCOutput (package.rs): 8 of 9 records
//! plemma: C12 lemma_counterparty_received_htlc_output_records: Writeable for CounterpartyReceivedHTLCOutput (package.rs): 7 of 8 records
//! plemma: C12 lemma_holder_htlc_output_records: Writeable for HolderHTLCOutput (package.rs): 6 of 7 records
//! plemma: C12 lemma_holder_funding_output_records: Writeable for HolderFundingOutput (package.rs): 5 of 6 records
//! plemma: C12 lemma_package_template_records: Writeable for PackageTemplate (package.rs): 3 of 4 records
//! plemma: C12 lemma_claim_event_entry_records: Writeable for OnchainEventEntry (onchaintx.rs): 4 of 4 records
//! plemma: C12 lemma_route_records: Writeable for Route (router.rs): 4 of 4 records
//! plemma: C12 lemma_route_parameters_records: Writeable for RouteParameters (router.rs): 3 of 4 records
//! plemma: C12 lemma_payment_parameters_records: Writeable for PaymentParameters (router.rs): 7 of 12 records
//! plemma: C12 lemma_counterparty_commitment_parameters_records: Writeable for CounterpartyCommitmentParameters (channelmonitor.rs): 3 of 3 records
//! plemma: C12 lemma_monitor_event_entry_records: Writeable for OnchainEventEntry (channelmonitor.rs): 5 of 5 records
//! plemma: C12 lemma_irrevocably_resolved_htlc_records: Writeable for IrrevocablyResolvedHTLC (channelmonitor.rs): 4 of 4 records
//! plemma: C12 lemma_recipient_onion_fields_records: Writeable for RecipientOnionFields (outbound_payment.rs): 4 of 4 records
//! plemma: C12 lemma_htlc_source_records: Writeable for HTLCSource (channelmanager.rs): 4 of 7 records
//! trusted: assume_specification for core::cmp::max / core::cmp::min (std definitions): present in every unit so that a change that introduces them is verified instead of being rejected by the tool
use vstd::prelude::*;
verus! {
use vstd::std_specs::cmp::*;
use core::cmp;
pub assume_specification<T: core::cmp::Ord>[core::cmp::max::<T>](a: T, b: T) -> (r: T)
    ensures T::obeys_cmp_spec() ==> r == (if b.cmp_spec(&a) == core::cmp::Ordering::Less { a } else { b });
pub assume_specification<T: core::cmp::Ord>[core::cmp::min::<T>](a: T, b: T) -> (r: T)
    ensures T::obeys_cmp_spec() ==> r == (if b.cmp_spec(&a) == core::cmp::Ordering::Less { b } else { a });
//@extract lightning/src/routing/gossip.rs :: impl Writeable for ChannelUpdateInfo :: fn write
//@fields tlvwrite channel_update_info_written arm=0 only=0:last_update,2:enabled,4:cltv_expiry_delta,6:htlc_minimum_msat,10:fees,12:last_update_message
//@mutant minimum_htlc_written_where_the_expiry_delta_belongs
    (4, self.cltv_expiry_delta, required),
//@with
    (4, self.htlc_minimum_msat, required),
//@end
//@extract lightning/src/routing/gossip.rs :: impl Readable for ChannelUpdateInfo :: fn read
//@fields tlvread channel_update_info_read arm=0 only=0:last_update,2:enabled,4:cltv_expiry_delta,6:htlc_minimum_msat,10:fees,12:last_update_message
//@end
pub proof fn lemma_channel_update_info_records() ensures channel_update_info_written() =~= channel_update_info_read() {}
//@extract lightning/src/routing/gossip.rs :: impl Writeable for ChannelInfo :: fn write
//@fields tlvwrite channel_info_written arm=0 only=0:features,1:announcement_received_time,2:node_one,6:node_two,10:capacity_sats,12:announcement_message
//@end
//@extract lightning/src/routing/gossip.rs :: impl Readable for ChannelInfo :: fn read
//@fields tlvread channel_info_read arm=0 only=0:features,1:announcement_received_time,2:node_one,6:node_two,10:capacity_sats,12:announcement_message
//@end
pub proof fn lemma_channel_info_records() ensures channel_info_written() =~= channel_info_read() {}
//@extract lightning/src/routing/gossip.rs :: impl Writeable for NodeAnnouncementInfo :: fn write
//@fields tlvwrite node_announcement_info_written arm=0 only=0:features,2:last_update,4:rgb,6:alias,8:announcement_message,10:addresses
//@end
//@extract lightning/src/routing/gossip.rs :: impl Readable for NodeAnnouncementInfo :: fn read
//@fields tlvread node_announcement_info_read arm=0 only=0:features,2:last_update,4:rgb,6:alias,8:announcement_message,10:addresses
//@end
pub proof fn lemma_node_announcement_info_records() ensures node_announcement_info_written() =~= node_announcement_info_read() {}
//@extract lightning/src/chain/package.rs :: impl Writeable for CounterpartyOfferedHTLCOutput :: fn write
//@fields tlvwrite counterparty_offered_htlc_output_written arm=0 only=0:per_commitment_point,1:outpoint_confirmation_height,2:counterparty_delayed_payment_base_key,4:counterparty_htlc_base_key,6:preimage,8:htlc,11:channel_type_features,13:channel_parameters
//@end
//@extract lightning/src/chain/package.rs :: impl Readable for CounterpartyOfferedHTLCOutput :: fn read
//@fields tlvread counterparty_offered_htlc_output_read arm=0 only=0:per_commitment_point,1:outpoint_confirmation_height,2:counterparty_delayed_payment_base_key,4:counterparty_htlc_base_key,6:preimage,8:htlc,11:channel_type_features,13:channel_parameters
//@end
pub proof fn lemma_counterparty_offered_htlc_output_records() ensures counterparty_offered_htlc_output_written() =~= counterparty_offered_htlc_output_read() {}
//@extract lightning/src/chain/package.rs :: impl Writeable for CounterpartyReceivedHTLCOutput :: fn write
//@fields tlvwrite counterparty_received_htlc_output_written arm=0 only=0:per_commitment_point,1:outpoint_confirmation_height,2:counterparty_delayed_payment_base_key,4:counterparty_htlc_base_key,6:htlc,9:channel_type_features,11:channel_parameters
//@end
//@extract lightning/src/chain/package.rs :: impl Readable for CounterpartyReceivedHTLCOutput :: fn read
//@fields tlvread counterparty_received_htlc_output_read arm=0 only=0:per_commitment_point,1:outpoint_confirmation_height,2:counterparty_delayed_payment_base_key,4:counterparty_htlc_base_key,6:htlc,9:channel_type_features,11:channel_parameters
//@end
pub proof fn lemma_counterparty_received_htlc_output_records() ensures counterparty_received_htlc_output_written() =~= counterparty_received_htlc_output_read() {}
//@extract lightning/src/chain/package.rs :: impl Writeable for HolderHTLCOutput :: fn write
//@fields tlvwrite holder_htlc_output_written arm=0 only=0:amount_msat,1:outpoint_confirmation_height,2:cltv_expiry,4:preimage,7:channel_type_features,9:htlc_descriptor
//@end
//@extract lightning/src/chain/package.rs :: impl Readable for HolderHTLCOutput :: fn read
//@fields tlvread holder_htlc_output_read arm=0 only=0:amount_msat,1:outpoint_confirmation_height,2:cltv_expiry,4:preimage,7:channel_type_features,9:htlc_descriptor
//@end
pub proof fn lemma_holder_htlc_output_records() ensures holder_htlc_output_written() =~= holder_htlc_output_read() {}
//@extract lightning/src/chain/package.rs :: impl Writeable for HolderFundingOutput :: fn write
//@fields tlvwrite holder_funding_output_written arm=0 only=0:funding_redeemscript,1:channel_type_features,3:funding_amount_sats,5:commitment_tx,7:channel_parameters
//@end
//@extract lightning/src/chain/package.rs :: impl Readable for HolderFundingOutput :: fn read
//@fields tlvread holder_funding_output_read arm=0 only=0:funding_redeemscript,1:channel_type_features,3:funding_amount_sats,5:commitment_tx,7:channel_parameters
//@end
pub proof fn lemma_holder_funding_output_records() ensures holder_funding_output_written() =~= holder_funding_output_read() {}
//@extract lightning/src/chain/package.rs :: impl Writeable for PackageTemplate :: fn write
//@fields tlvwrite package_template_written arm=0 only=0:counterparty_spendable_height,2:feerate_previous,6:height_timer
//@end
//@extract lightning/src/chain/package.rs :: impl Readable for PackageTemplate :: fn read
//@fields tlvread package_template_read arm=0 only=0:counterparty_spendable_height,2:feerate_previous,6:height_timer
//@end
pub proof fn lemma_package_template_records() ensures package_template_written() =~= package_template_read() {}
//@extract lightning/src/chain/onchaintx.rs :: impl Writeable for OnchainEventEntry :: fn write
//@fields tlvwrite claim_event_entry_written arm=0 only=0:txid,1:block_hash,2:height,4:event
//@end
//@extract lightning/src/chain/onchaintx.rs :: impl MaybeReadable for OnchainEventEntry :: fn read
//@fields tlvread claim_event_entry_read arm=0 only=0:txid,1:block_hash,2:height,4:event
//@end
pub proof fn lemma_claim_event_entry_records() ensures claim_event_entry_written() =~= claim_event_entry_read() {}
//@extract lightning/src/routing/router.rs :: impl Writeable for Route :: fn write
//@fields tlvwrite route_written arm=0 only=1:payment_params,2:blinded_tails,3:final_value_msat,5:max_total_routing_fee_msat
//@end
//@extract lightning/src/routing/router.rs :: impl Readable for Route :: fn read
//@fields tlvread route_read arm=0 only=1:payment_params,2:blinded_tails,3:final_value_msat,5:max_total_routing_fee_msat
//@end
pub proof fn lemma_route_records() ensures route_written() =~= route_read() {}
//@extract lightning/src/routing/router.rs :: impl Writeable for RouteParameters :: fn write
//@fields tlvwrite route_parameters_written arm=0 only=0:payment_params,1:max_total_routing_fee_msat,2:final_value_msat
//@end
//@extract lightning/src/routing/router.rs :: impl Readable for RouteParameters :: fn read
//@fields tlvread route_parameters_read arm=0 only=0:payment_params,1:max_total_routing_fee_msat,2:final_value_msat
//@end
pub proof fn lemma_route_parameters_records() ensures route_parameters_written() =~= route_parameters_read() {}
//@extract lightning/src/routing/router.rs :: impl Writeable for PaymentParameters :: fn write
//@fields tlvwrite payment_parameters_written arm=0 only=1:max_total_cltv_expiry_delta,3:max_path_count,5:max_channel_saturation_power_of_half,6:expiry_time,7:previously_failed_channels,11:previously_failed_blinded_path_idxs,13:max_path_length
//@end
//@extract lightning/src/routing/router.rs :: impl ReadableArgs<u32> for PaymentParameters :: fn read
//@fields tlvread payment_parameters_read arm=0 only=1:max_total_cltv_expiry_delta,3:max_path_count,5:max_channel_saturation_power_of_half,6:expiry_time,7:previously_failed_channels,11:previously_failed_blinded_path_idxs,13:max_path_length
//@end
pub proof fn lemma_payment_parameters_records() ensures payment_parameters_written() =~= payment_parameters_read() {}
//@extract lightning/src/chain/channelmonitor.rs :: impl Writeable for CounterpartyCommitmentParameters :: fn write
//@fields tlvwrite counterparty_commitment_parameters_written arm=0 only=0:counterparty_delayed_payment_base_key,2:counterparty_htlc_base_key,4:on_counterparty_tx_csv
//@end
//@extract lightning/src/chain/channelmonitor.rs :: impl Readable for CounterpartyCommitmentParameters :: fn read
//@fields tlvread counterparty_commitment_parameters_read arm=0 only=0:counterparty_delayed_payment_base_key,2:counterparty_htlc_base_key,4:on_counterparty_tx_csv
//@end
pub proof fn lemma_counterparty_commitment_parameters_records() ensures counterparty_commitment_parameters_written() =~= counterparty_commitment_parameters_read() {}
//@extract lightning/src/chain/channelmonitor.rs :: impl Writeable for OnchainEventEntry :: fn write
//@fields tlvwrite monitor_event_entry_written arm=0 only=0:txid,1:transaction,2:height,3:block_hash,4:event
//@end
//@extract lightning/src/chain/channelmonitor.rs :: impl MaybeReadable for OnchainEventEntry :: fn read
//@fields tlvread monitor_event_entry_read arm=0 only=0:txid,1:transaction,2:height,3:block_hash,4:event
//@end
pub proof fn lemma_monitor_event_entry_records() ensures monitor_event_entry_written() =~= monitor_event_entry_read() {}
//@extract lightning/src/chain/channelmonitor.rs :: impl Writeable for IrrevocablyResolvedHTLC :: fn write
//@fields tlvwrite irrevocably_resolved_htlc_written arm=0 only=0:mapped_commitment_tx_output_idx,1:resolving_txid,2:payment_preimage,3:resolving_tx
//@end
//@extract lightning/src/chain/channelmonitor.rs :: impl Readable for IrrevocablyResolvedHTLC :: fn read
//@fields tlvread irrevocably_resolved_htlc_read arm=0 only=0:mapped_commitment_tx_output_idx,1:resolving_txid,2:payment_preimage,3:resolving_tx
//@end
pub proof fn lemma_irrevocably_resolved_htlc_records() ensures irrevocably_resolved_htlc_written() =~= irrevocably_resolved_htlc_read() {}
//@extract lightning/src/ln/outbound_payment.rs :: impl ser::Writeable for RecipientOnionFields :: fn write
//@fields tlvwrite recipient_onion_fields_written arm=0 only=0:payment_secret,1:custom_tlvs,2:payment_metadata,3:total_mpp_amount_msat
//@end
//@extract lightning/src/ln/outbound_payment.rs :: impl ser::ReadableArgs<u64> for RecipientOnionFields :: fn read
//@fields tlvread recipient_onion_fields_read arm=0 only=0:payment_secret,1:custom_tlvs,2:payment_metadata,3:total_mpp_amount_msat
//@end
pub proof fn lemma_recipient_onion_fields_records() ensures recipient_onion_fields_written() =~= recipient_onion_fields_read() {}
//@extract lightning/src/ln/channelmanager.rs :: impl Writeable for HTLCSource :: fn write
//@fields tlvwrite htlc_source_written arm=0 only=0:session_priv,2:first_hop_htlc_msat,6:blinded_tail,7:bolt12_invoice
//@end
//@extract lightning/src/ln/channelmanager.rs :: impl Readable for HTLCSource :: fn read
//@fields tlvread htlc_source_read arm=0 only=0:session_priv,2:first_hop_htlc_msat,6:blinded_tail,7:bolt12_invoice
//@end
pub proof fn lemma_htlc_source_records() ensures htlc_source_written() =~= htlc_source_read() {}
}
fn main() {}
