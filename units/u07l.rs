//! unit: u07l
//! properties: C07
//! note: BumpTransactionEventHandler::process_coin_selection (whole): how the wallet's coin selection is put into an anchor / HTLC bump transaction. Every selected UTXO becomes exactly one input, in order, spending that UTXO's outpoint with its sequence and empty script_sig / witness, after the inputs the transaction already had (the anchor or the HTLCs), which are left alone; the change output, when the wallet gave one, is appended after the outputs already there; a transaction that would otherwise have NO output gets one zero-value OP_RETURN (so it always has an output and is never rejected as non-standard), with a three-byte payload exactly when it has a single input - and then its non-witness size is the 65-byte minimum (LDK's debug assertion, proved here from the serialization sizes); outputs already present are never touched
//! trusted: R6: `for ConfirmedUtxo { utxo, .. } in LIST.iter()` is an index loop binding `utxo` to the field of the k-th element; env: Transaction / TxIn / TxOut / OutPoint / Sequence field skeletons; ScriptBuf and Witness are their byte lengths (`ScriptBuf::new()` / `Witness::new()` empty, `ScriptBuf::new_op_return(&[..n bytes..])` is OP_RETURN + one push of n bytes: 1 byte for n = 0 pushes via OP_0, else 2 + n, n < 76); Transaction::base_size is the consensus non-witness serialization size for fewer than 253 inputs and outputs: 10 + sum(41 + script_sig) + sum(9 + script_pubkey); log_debug! dropped (R3)
//! trusted: assume_specification for core::cmp::max / core::cmp::min (std definitions): present in every unit so that a change that introduces them is verified instead of being rejected by the tool
use vstd::prelude::*;
verus! {
use vstd::std_specs::cmp::*;
use core::cmp;
pub assume_specification<T: core::cmp::Ord>[core::cmp::max::<T>](a: T, b: T) -> (r: T)
    ensures T::obeys_cmp_spec() ==> r == (if b.cmp_spec(&a) == core::cmp::Ordering::Less { a } else { b });
pub assume_specification<T: core::cmp::Ord>[core::cmp::min::<T>](a: T, b: T) -> (r: T)
    ensures T::obeys_cmp_spec() ==> r == (if b.cmp_spec(&a) == core::cmp::Ordering::Less { b } else { a });
#[derive(Clone, Copy, PartialEq, Eq)] pub struct OutPoint { pub txid: u64, pub vout: u32 }
#[derive(Clone, Copy, PartialEq, Eq)] pub struct Sequence(pub u32);
#[derive(Clone, Copy, PartialEq, Eq)] pub struct Amount(pub u64);
impl Amount { pub const ZERO: Amount = Amount(0); }
#[derive(Clone, Copy, PartialEq, Eq)] pub struct ScriptBuf { pub len: u64, pub op_return: bool }
impl ScriptBuf {
    pub fn new() -> (r: ScriptBuf) ensures r == (ScriptBuf { len: 0, op_return: false }) { ScriptBuf { len: 0, op_return: false } }
    pub fn new_op_return<const N: usize>(data: &[u8; N]) -> (r: ScriptBuf) requires N < 76 ensures r.op_return, r.len == (if N == 0 { 2 } else { 2 + N as u64 }) { ScriptBuf { len: if N == 0 { 2 } else { 2 + N as u64 }, op_return: true } }
}
#[derive(Clone, Copy, PartialEq, Eq)] pub struct Witness { pub len: u64 }
impl Witness { pub fn new() -> (r: Witness) ensures r.len == 0 { Witness { len: 0 } } }
#[derive(Clone, Copy, PartialEq, Eq)] pub struct TxIn { pub previous_output: OutPoint, pub script_sig: ScriptBuf, pub sequence: Sequence, pub witness: Witness }
#[derive(Copy, PartialEq, Eq)] pub struct TxOut { pub value: Amount, pub script_pubkey: ScriptBuf }
impl Clone for TxOut { fn clone(&self) -> (r: Self) ensures r == *self { *self } }
pub struct Transaction { pub input: Vec<TxIn>, pub output: Vec<TxOut> }
pub open spec fn in_size(s: Seq<TxIn>) -> int decreases s.len() { if s.len() == 0 { 0 } else { in_size(s.drop_last()) + 41 + s.last().script_sig.len as int } }
pub open spec fn out_size(s: Seq<TxOut>) -> int decreases s.len() { if s.len() == 0 { 0 } else { out_size(s.drop_last()) + 9 + s.last().script_pubkey.len as int } }
pub open spec fn base_size_of(tx: Transaction) -> int { 10 + in_size(tx.input@) + out_size(tx.output@) }
impl Transaction {
    #[verifier::external_body] pub fn base_size(&self) -> (r: usize) ensures r as int == base_size_of(*self) { unimplemented!() }
}
pub struct Utxo { pub outpoint: OutPoint, pub output: TxOut, pub satisfaction_weight: u64, pub sequence: Sequence }
pub struct ConfirmedUtxo { pub utxo: Utxo, pub id: u64 }
pub struct CoinSelection { pub confirmed_utxos: Vec<ConfirmedUtxo>, pub change_output: Option<TxOut> }
pub open spec fn input_for(u: ConfirmedUtxo) -> TxIn { TxIn { previous_output: u.utxo.outpoint, script_sig: ScriptBuf { len: 0, op_return: false }, sequence: u.utxo.sequence, witness: Witness { len: 0 } } }
pub struct Handler {}
impl Handler {
//@extract lightning/src/events/bump_transaction/mod.rs :: impl BumpTransactionEventHandler :: fn process_coin_selection
//@rw R6
    for ConfirmedUtxo { utxo, .. } in coin_selection.confirmed_utxos.iter() { $body:any }
//@with
    for __k in it: 0..coin_selection.confirmed_utxos.len()
        invariant tx.output@ == old(tx).output@, tx.input@.len() == old(tx).input@.len() + __k, tx.input@.take(old(tx).input@.len() as int) =~= old(tx).input@,
            forall|j: int| 0 <= j < __k ==> tx.input@[old(tx).input@.len() + j] == input_for(#[trigger] coin_selection.confirmed_utxos@[j]),
    { let utxo = &coin_selection.confirmed_utxos[__k].utxo; $body }
    proof { if tx.input@.len() == 1 && tx.output@.len() == 0 {
        reveal_with_fuel(in_size, 3); reveal_with_fuel(out_size, 3);
        assert(tx.input@.drop_last() =~= Seq::<TxIn>::empty()); } }
//@at before `debug_assert!((tx.base_size()) == (65))`
    proof { reveal_with_fuel(in_size, 3); reveal_with_fuel(out_size, 3); assert(tx.input@.take(1) =~= tx.input@); assert(tx.input@[0] == old(tx).input@[0]); assert(tx.input@.last().script_sig.len == 0);
        assert(tx.input@.drop_last() =~= Seq::<TxIn>::empty()); assert(tx.output@.drop_last() =~= Seq::<TxOut>::empty()); assert(in_size(tx.input@) == 41); assert(out_size(tx.output@) == 14); }
//@requires
    old(tx).input@.len() >= 1, old(tx).input@.len() + coin_selection.confirmed_utxos@.len() < 253,
    forall|j: int| 0 <= j < old(tx).input@.len() ==> (#[trigger] old(tx).input@[j]).script_sig.len == 0,     // the anchor input / the HTLC inputs are segwit inputs
//@ensures P C07 every-selected-utxo-becomes-one-input-in-order-after-the-inputs-already-there-the-change-is-appended-and-a-transaction-without-outputs-gets-one-zero-value-op-return
    final(tx).input@.len() == old(tx).input@.len() + coin_selection.confirmed_utxos@.len(),
    final(tx).input@.take(old(tx).input@.len() as int) =~= old(tx).input@,
    forall|j: int| 0 <= j < coin_selection.confirmed_utxos@.len() ==> final(tx).input@[old(tx).input@.len() + j] == input_for(#[trigger] coin_selection.confirmed_utxos@[j]),
    coin_selection.change_output is Some ==> final(tx).output@ == old(tx).output@.push(coin_selection.change_output->Some_0),
    coin_selection.change_output is None && old(tx).output@.len() > 0 ==> final(tx).output@ == old(tx).output@,
    coin_selection.change_output is None && old(tx).output@.len() == 0 ==> final(tx).output@.len() == 1 && final(tx).output@[0].value == Amount(0) && final(tx).output@[0].script_pubkey.op_return
        && final(tx).output@[0].script_pubkey.len == (if final(tx).input@.len() == 1 { 5u64 } else { 2u64 }),
    final(tx).output@.len() >= 1,
    coin_selection.change_output is None && old(tx).output@.len() == 0 && final(tx).input@.len() == 1 ==> base_size_of(*final(tx)) == 65,
//@mutant selected_utxo_spent_with_the_wrong_sequence
    sequence: utxo.sequence,
//@with
    sequence: Sequence(0),
//@mutant change_output_dropped
    tx.output.push(change_output);
//@with
    let _ = change_output;
//@mutant no_output_added_to_a_transaction_without_outputs
    } else if tx.output.is_empty() {
//@with
    } else if !tx.output.is_empty() {
//@end
}
}
fn main() {}
