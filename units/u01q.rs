//! unit: u01q
//! properties: C01 C02 C03 C09
//! note: FundedChannel::free_holding_cell_htlcs (slices): an HTLC waiting in the holding cell that can no longer be sent is handed back to be failed (never dropped), one that is sent is counted; when nothing was generated no monitor update is produced and the HTLCs to fail are still handed back; otherwise the one monitor update produced takes the id right after the last one (whatever the helpers bumped meanwhile is reset), the channel remembers exactly that id, and the commitment step comes after the preimage steps collected from the claims
//! trusted: R15 (deep slices): the `Err` arm of the send_htlc match for a held AddHTLC, the construction of the monitor update at the top, and the statements from the nothing-generated test to the append of the commitment step, each verbatim as a function of the values in scope (the channel context is a skeleton with latest_monitor_update_id; build_commitment_no_status_check is a stub that bumps the counter by an arbitrary amount >= 1 and returns some steps)
//! trusted: assume_specification for core::cmp::max / core::cmp::min (std definitions): present in every unit so that a change that introduces them is verified instead of being rejected by the tool
use vstd::prelude::*;
verus! {
use vstd::std_specs::cmp::*;
use core::cmp;
pub assume_specification<T: core::cmp::Ord>[core::cmp::max::<T>](a: T, b: T) -> (r: T)
    ensures T::obeys_cmp_spec() ==> r == (if b.cmp_spec(&a) == core::cmp::Ordering::Less { a } else { b });
pub assume_specification<T: core::cmp::Ord>[core::cmp::min::<T>](a: T, b: T) -> (r: T)
    ensures T::obeys_cmp_spec() ==> r == (if b.cmp_spec(&a) == core::cmp::Ordering::Less { b } else { a });
#[derive(Clone, Copy)] pub struct PaymentHash(pub [u8; 32]);
#[derive(Clone, Copy)] pub struct ChannelId(pub u64);
pub struct HTLCSource { pub id: u64 }
impl Clone for HTLCSource { #[verifier::external_body] fn clone(&self) -> (r: Self) ensures r == *self { unimplemented!() } }
// ---- a held HTLC that cannot be sent any more is handed back ----
//@extract lightning/src/ln/channel.rs :: impl FundedChannel :: fn free_holding_cell_htlcs
//@slice R15
    Ok(can_add_htlc) => { $ok:any }, Err((_, msg)) => { $err:any }, } None },
//@with
    fn account_for_a_held_htlc_after_trying_to_send_it(sent: Result<bool, (u8, u8)>, source: &HTLCSource, payment_hash: &PaymentHash, update_add_count_: usize, htlcs_to_fail: &mut Vec<(HTLCSource, PaymentHash)>) -> usize {
        let mut update_add_count = update_add_count_;
        match sent { Ok(can_add_htlc) => { $ok }, Err((_, msg)) => { $err }, }
        update_add_count
    }
//@ret r
//@requires
    update_add_count_ < usize::MAX, sent is Ok ==> sent->Ok_0,
//@ensures P C02,C03,C01 a-held-htlc-that-can-no-longer-be-sent-is-handed-back-with-its-source-and-hash-to-be-failed-and-one-that-was-sent-is-counted-as-an-update
    sent is Ok ==> r == update_add_count_ + 1 && final(htlcs_to_fail)@ == old(htlcs_to_fail)@,
    sent is Err ==> r == update_add_count_ && final(htlcs_to_fail)@ == old(htlcs_to_fail)@.push((*source, *payment_hash)),
//@mutant unsendable_held_htlc_dropped
    htlcs_to_fail.push((source.clone(), *payment_hash));
//@with

//@end
// ---- the one monitor update of a freed holding cell ----
pub struct Step { pub id: u64 }
pub struct ChannelMonitorUpdate { pub update_id: u64, pub updates: Vec<Step>, pub channel_id: Option<ChannelId> }
pub struct Ctx { pub latest_monitor_update_id: u64, pub chan: ChannelId }
impl Ctx { #[verifier::external_body] pub fn channel_id(&self) -> (r: ChannelId) ensures r == self.chan { unimplemented!() } }
pub struct LoggerStub {}
pub struct Chan { pub context: Ctx }
impl Chan {
    #[verifier::external_body] pub fn build_commitment_no_status_check(&mut self, logger: &LoggerStub) -> (r: ChannelMonitorUpdate)
        ensures final(self).context.latest_monitor_update_id > old(self).context.latest_monitor_update_id || final(self).context.latest_monitor_update_id == u64::MAX, final(self).context.chan == old(self).context.chan { unimplemented!() }
//@extract lightning/src/ln/channel.rs :: impl FundedChannel :: fn free_holding_cell_htlcs
//@slice R15
    let mut monitor_update = ChannelMonitorUpdate { update_id: $id:seq, updates: Vec::new(), channel_id: $cid:seq, };
//@with
    fn monitor_update_of_a_freed_holding_cell(&self) -> ChannelMonitorUpdate { let mut monitor_update = ChannelMonitorUpdate { update_id: $id, updates: Vec::new(), channel_id: $cid, }; monitor_update }
//@ret r
//@requires
    self.context.latest_monitor_update_id < u64::MAX,
//@ensures P C09,C01 the-monitor-update-of-a-freed-holding-cell-is-numbered-right-after-the-last-one-and-names-this-channel
    r.update_id == self.context.latest_monitor_update_id + 1, r.channel_id == Some(self.context.chan), r.updates@.len() == 0,
//@end
//@extract lightning/src/ln/channel.rs :: impl FundedChannel :: fn free_holding_cell_htlcs
//@slice R15
    if $nothing:cond { return (None, htlcs_to_fail); } let mut additional_update = self.build_commitment_no_status_check(logger); $reset:straight monitor_update.updates.append(&mut additional_update.updates);
//@with
    fn finish_the_monitor_update_of_a_freed_holding_cell(&mut self, mut monitor_update: ChannelMonitorUpdate, update_add_count: usize, update_fulfill_count: usize, update_fail_count: usize, update_fee: Option<u32>, logger: &LoggerStub) -> Option<ChannelMonitorUpdate> {
        if $nothing { return None; } let mut additional_update = self.build_commitment_no_status_check(logger); $reset monitor_update.updates.append(&mut additional_update.updates);
        Some(monitor_update)
    }
//@ret r
//@ensures P C09,C01 freeing-the-holding-cell-produces-no-monitor-update-when-nothing-was-generated-and-otherwise-one-whose-id-the-channel-remembers-whatever-the-helpers-bumped-with-the-commitment-step-after-the-claims-steps
    (update_add_count == 0 && update_fulfill_count == 0 && update_fail_count == 0 && update_fee is None) ==> r is None && *final(self) == *old(self),
    !(update_add_count == 0 && update_fulfill_count == 0 && update_fail_count == 0 && update_fee is None) ==> r is Some
        && r->Some_0.update_id == monitor_update.update_id && final(self).context.latest_monitor_update_id == monitor_update.update_id
        && r->Some_0.updates@.len() >= monitor_update.updates@.len() && r->Some_0.updates@.take(monitor_update.updates@.len() as int) == monitor_update.updates@,
//@mutant counter_left_where_the_helpers_bumped_it
    self.context.latest_monitor_update_id = monitor_update.update_id;
//@with

//@mutant a_lone_fee_update_produces_no_monitor_update
    && update_fee.is_none()
//@with

//@end
}
}
fn main() {}
