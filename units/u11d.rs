//! unit: u11d
//! properties: C11 C20
//! note: ChannelManager as a chain listener (channelmanager.rs `impl chain::Listen` / `chain::Confirm`): a connected block is handed to transactions_confirmed always and to best_block_updated unless it is the block the manager is already at (a rescan), and it must build on the manager's tip; a disconnection moves the manager's tip to the fork point and tells every channel that height; transactions confirmed below the manager's tip (transactions-first order, a rescan of an older block) make the channels re-evaluate at the tip's height, not at the transaction's
//! trusted: R5: `&self` is written `&mut self`; `self.best_block.read().unwrap()` / `.write().unwrap()` are the accessors best_block_now() / set_best_block() of a skeleton holding the tip by value (no other thread: the contract is for one call); transactions_confirmed / best_block_updated / do_chain_event are recorders writing a ghost log; Header is a skeleton {hash, prev_blockhash} whose block_hash() returns the stored hash; BlockHash compares by value
//! trusted: R15 (deep slices): Confirm::transactions_confirmed: the test `height < last_best_block_height` and the two leading arguments of the best_block_updated call inside the `do_update` closure, verbatim; Listen::blocks_disconnected: the assignment of the new tip and the two leading arguments of the best_block_updated call in its closure; the PersistenceNotifierGuard statements are dropped here (u10: which constructor)
//! assume: the block handed to filtered_block_connected is the manager's current tip or builds on it at the next height (LDK's assert_eq!s: "Blocks must be connected in chain-order"; they are proved from this precondition); a disconnection is to a height below the tip (LDK's assert!)
//! trusted: assume_specification for core::cmp::max / core::cmp::min (std definitions): present in every unit so that a change that introduces them is verified instead of being rejected by the tool
use vstd::prelude::*;
verus! {
use vstd::std_specs::cmp::*;
use core::cmp;
pub assume_specification<T: core::cmp::Ord>[core::cmp::max::<T>](a: T, b: T) -> (r: T)
    ensures T::obeys_cmp_spec() ==> r == (if b.cmp_spec(&a) == core::cmp::Ordering::Less { a } else { b });
pub assume_specification<T: core::cmp::Ord>[core::cmp::min::<T>](a: T, b: T) -> (r: T)
    ensures T::obeys_cmp_spec() ==> r == (if b.cmp_spec(&a) == core::cmp::Ordering::Less { b } else { a });
#[derive(Clone, Copy, Debug)] pub struct BlockHash { pub id: u64 }
impl vstd::std_specs::cmp::PartialEqSpecImpl for BlockHash { open spec fn obeys_eq_spec() -> bool { true } open spec fn eq_spec(&self, other: &BlockHash) -> bool { self.id == other.id } }
impl PartialEq for BlockHash { #[verifier::external_body] fn eq(&self, o: &BlockHash) -> (r: bool) { self.id == o.id } }
#[derive(Clone, Copy)] pub struct Header { pub hash: BlockHash, pub prev_blockhash: BlockHash }
impl Header { #[verifier::external_body] pub fn block_hash(&self) -> (r: BlockHash) ensures r == self.hash { unimplemented!() } }
pub struct TransactionData { pub id: u64 }
#[derive(Clone, Copy)] pub struct BestBlock { pub block_hash: BlockHash, pub height: u32 }
pub enum Told { Confirmed { header: Header, txdata: u64, height: u32 }, BestBlock { header: Header, height: u32 } }
pub struct Manager { pub best_block: BestBlock, pub log: Ghost<Seq<Told>> }
impl Manager {
    #[verifier::external_body] pub fn best_block_now(&self) -> (r: BestBlock) ensures r == self.best_block { unimplemented!() }
    #[verifier::external_body] pub fn transactions_confirmed(&mut self, header: &Header, txdata: &TransactionData, height: u32)
        ensures final(self).best_block == old(self).best_block, final(self).log@ == old(self).log@.push(Told::Confirmed { header: *header, txdata: txdata.id, height }) { unimplemented!() }
    #[verifier::external_body] pub fn best_block_updated(&mut self, header: &Header, height: u32)
        ensures final(self).log@ == old(self).log@.push(Told::BestBlock { header: *header, height }) { unimplemented!() }
//@extract lightning/src/ln/channelmanager.rs :: impl chain::Listen for ChannelManager :: fn filtered_block_connected
//@rw R5
    fn filtered_block_connected(&self,
//@with
    fn filtered_block_connected(&mut self,
//@rw R5
    let best_block = self.best_block.read().unwrap();
//@with
    let best_block = self.best_block_now();
//@requires
    (old(self).best_block.block_hash.id == header.hash.id && old(self).best_block.height == height)
        || (old(self).best_block.block_hash.id == header.prev_blockhash.id && height >= 1 && old(self).best_block.height == height - 1),
//@ensures P C11,C20 a-connected-block-always-has-its-transactions-looked-at-and-moves-the-managers-tip-unless-the-manager-is-already-at-that-block
    ({ let rescan = old(self).best_block.block_hash.id == header.hash.id && old(self).best_block.height == height;
       final(self).log@ =~= old(self).log@.push(Told::Confirmed { header: *header, txdata: txdata.id, height })
            + (if rescan { Seq::<Told>::empty() } else { seq![Told::BestBlock { header: *header, height }] }) }),
//@mutant a_rescanned_block_is_not_looked_at_again
    self.transactions_confirmed(header, txdata, height); if !is_rescan {
//@with
    if !is_rescan { self.transactions_confirmed(header, txdata, height);
//@end
}
// ---- transactions confirmed below the tip: the channels re-evaluate at the tip ----
//@extract lightning/src/ln/channelmanager.rs :: impl chain::Confirm for ChannelManager :: fn transactions_confirmed
//@slice R15
    let last_best_block_height = self.best_block.read().unwrap().height; if $c:cond { let timestamp = self.highest_seen_timestamp.load(Ordering::Acquire); let do_update = |channel: &mut FundedChannel<SP>| { channel.best_block_updated( $h:seq, $t:seq, self.chain_hash,
//@with
    fn channels_are_retold_the_tip_after_transactions_below_it(height: u32, last_best_block_height: u32, timestamp: usize) -> Option<(u32, Option<u32>)> {
        if $c { Some(($h, $t)) } else { None } }
//@ret r
//@ensures P C11 after-transactions-confirmed-below-the-tip-the-channels-re-evaluate-at-the-tips-height-with-the-latest-time-seen
    r == (if height < last_best_block_height { Some((last_best_block_height, Some(timestamp as u32))) } else { None::<(u32, Option<u32>)> }),
//@mutant channels_retold_the_transactions_height
    channel.best_block_updated( last_best_block_height, Some(timestamp as u32),
//@with
    channel.best_block_updated( height, Some(timestamp as u32),
//@end
// ---- a disconnection: the manager's tip becomes the fork point and the channels are told its height ----
#[derive(Clone, Copy)] pub struct BlockLocator { pub block_hash: BlockHash, pub height: u32 }
pub struct TipCell { pub v: BlockLocator }
//@extract lightning/src/ln/channelmanager.rs :: impl chain::Listen for ChannelManager :: fn blocks_disconnected
//@slice R15
    { let mut best_block = self.best_block.write().unwrap(); assert!($a:seq); $set:straight } self.do_chain_event($he:seq, |channel| { channel.best_block_updated( $h:seq, $t:seq, self.chain_hash,
//@with
    fn tip_and_height_told_on_a_disconnection(best_block: &mut TipCell, fork_point: BlockLocator) -> (Option<u32>, u32, Option<u32>) {
        assert($a); $set ($he, $h, $t) }
//@rw R5 *
    *best_block
//@with
    best_block.v
//@rw R5 *
    best_block.height
//@with
    best_block.v.height
//@ret r
//@requires
    old(best_block).v.height > fork_point.height,
//@ensures P C11,C20 a-disconnection-moves-the-managers-tip-to-the-fork-point-and-tells-every-channel-that-height
    final(best_block).v == fork_point, r == (Some(fork_point.height), fork_point.height, None::<u32>),
//@mutant channels_told_the_height_of_the_disconnected_tip
    channel.best_block_updated( fork_point.height, None,
//@with
    channel.best_block_updated( fork_point.height + 1, None,
//@end
}
fn main() {}
