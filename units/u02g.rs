//! unit: u02g
//! properties: C02 C08
//! note: ChannelMonitorImpl::block_confirmed, the sweep that fails a forwarded HTLC back upstream although its downstream copy is still unresolved on chain (to keep the upstream channel open): the HTLC is given up ONLY when the upstream expiry is within LATENCY_GRACE_PERIOD_BLOCKS (3) of the tip - not earlier: until then the downstream counterparty can still claim with the preimage, and a node that has already failed the HTLC back pays downstream without collecting upstream - and it is given up then in any case (the upstream peer would otherwise close the channel)
//! trusted: R15 (deep slice): the statement computing max_expiry_height and the test that follows it, verbatim as a function of the tip height and the upstream expiry (`continue` = the HTLC is left alone); the rest of the loop (duplicate suppression, the event pushed) is not sliced here; LATENCY_GRACE_PERIOD_BLOCKS / HTLC_FAIL_BACK_BUFFER folded from the source
//! trusted: assume_specification for core::cmp::max / core::cmp::min (std definitions): present in every unit so that a change that introduces them is verified instead of being rejected by the tool
use vstd::prelude::*;
verus! {
use vstd::std_specs::cmp::*;
use core::cmp;
pub assume_specification<T: core::cmp::Ord>[core::cmp::max::<T>](a: T, b: T) -> (r: T)
    ensures T::obeys_cmp_spec() ==> r == (if b.cmp_spec(&a) == core::cmp::Ordering::Less { a } else { b });
pub assume_specification<T: core::cmp::Ord>[core::cmp::min::<T>](a: T, b: T) -> (r: T)
    ensures T::obeys_cmp_spec() ==> r == (if b.cmp_spec(&a) == core::cmp::Ordering::Less { b } else { a });
//@const lightning/src/chain/channelmonitor.rs CLTV_CLAIM_BUFFER MAX_BLOCKS_FOR_CONF LATENCY_GRACE_PERIOD_BLOCKS HTLC_FAIL_BACK_BUFFER
//@extract lightning/src/chain/channelmonitor.rs :: impl ChannelMonitorImpl :: fn block_confirmed
//@slice R15
    let max_expiry_height = $m:seq; if inbound_htlc_expiry > max_expiry_height { continue; }
//@with
    fn upstream_htlc_is_given_up_while_downstream_is_unresolved(height: u32, inbound_htlc_expiry: u32) -> bool { let max_expiry_height = $m; if inbound_htlc_expiry > max_expiry_height { return false; } true }
//@ret r
//@ensures P C02,C08 a-forwarded-htlc-whose-downstream-copy-is-unresolved-is-failed-back-upstream-only-within-the-latency-grace-period-of-the-upstream-expiry-and-then-always
    r <==> inbound_htlc_expiry as int <= height as int + LATENCY_GRACE_PERIOD_BLOCKS,
    r ==> inbound_htlc_expiry as int - height as int <= 3,
//@mutant forwarded_htlc_given_up_a_fail_back_buffer_before_the_upstream_expiry
    height.saturating_add(LATENCY_GRACE_PERIOD_BLOCKS)
//@with
    height.saturating_add(HTLC_FAIL_BACK_BUFFER)
//@end
}
fn main() {}
