//! unit: u12
//! properties: C12 C13
//! note: FixedLengthReader never reads past the declared length (any inner reader); CounterpartyCommitmentSecrets::write emits exactly the spec serialization (49 x (secret || be64(index)))
//! trusted: assume_specification for core::cmp::min / core::cmp::max (std definitions)
//! trusted: trait Read reduced to read() with the std::io::Read contract (returns at most dest.len(), advances the stream by what it returns); R8: `&mut dest[0..n]` -> slice_range_mut wrapper, `idx.to_be_bytes()` -> u64_to_be_bytes wrapper (be64 uninterpreted, 8 bytes, injective); Writer stub = append-only ghost byte log (write_all appends or fails without writing); R12 for the `for &(ref a, ref b) in ..` loop; `write_tlv_fields!(writer, {})` (empty TLV suffix) is replaced by a stub that appends the spec suffix tlv_empty()
//! trusted: read side: trait ReadStream = byte sequence + cursor; read_32/read_u64/read_empty_tlv_fields are external_body stubs with the contract of <[u8;32] as Readable>::read, <u64 as Readable>::read (read_exact + from_be_bytes; be64 injective) and read_tlv_fields!(r, {}); R12 rewrites the `for &mut (ref mut a, ref mut b) in arr.iter_mut()` loop into an index loop assigning element by element
//! plemma: C12 lemma_ccs_roundtrip: the store decoded from the bytes written for s is s (all 49 secrets and indices)
//! assume: bytes_read <= total_bytes on entry (established by FixedLengthReader::new and preserved by read: proved invariant)
use vstd::prelude::*;
verus! {
use vstd::std_specs::cmp::*;
use core::cmp;
pub assume_specification<T: core::cmp::Ord>[core::cmp::max::<T>](a: T, b: T) -> (r: T)
    ensures T::obeys_cmp_spec() ==> r == (if b.cmp_spec(&a) == core::cmp::Ordering::Less { a } else { b });
pub assume_specification<T: core::cmp::Ord>[core::cmp::min::<T>](a: T, b: T) -> (r: T)
    ensures T::obeys_cmp_spec() ==> r == (if b.cmp_spec(&a) == core::cmp::Ordering::Less { b } else { a });
pub struct Error {}
pub struct DecodeError {}
// inner reader: std::io::Read contract
pub trait Read {
    spec fn pos(&self) -> int;
    fn read(&mut self, dest: &mut [u8]) -> (r: Result<usize, Error>)
        ensures r is Ok ==> r->Ok_0 <= old(dest).len() && final(self).pos() == old(self).pos() + r->Ok_0,
                r is Err ==> final(self).pos() == old(self).pos(),
                final(dest).len() == old(dest).len();
}
#[verifier::external_body]
pub fn slice_range_mut<'a>(v: &'a mut [u8], start: usize, end: usize) -> (s: &'a mut [u8])
    requires start <= end <= old(v).len()
    ensures s@ == old(v)@.subrange(start as int, end as int), final(s)@.len() == s@.len(), final(v)@.len() == old(v)@.len(),
{ &mut v[start..end] }

//@extract lightning/src/util/ser.rs :: struct FixedLengthReader
//@end
impl<'a, R: Read> FixedLengthReader<'a, R> {
//@extract lightning/src/util/ser.rs :: impl FixedLengthReader :: fn new
//@ret r
//@ensures A
    r.bytes_read == 0, r.total_bytes == total_bytes, r.read.pos() == old(read).pos()
//@end
//@extract lightning/src/util/ser.rs :: impl FixedLengthReader :: fn bytes_remain
//@ret r
//@ensures A
    r == (old(self).bytes_read != old(self).total_bytes), *final(self) == *old(self)
//@end
//@extract lightning/src/util/ser.rs :: impl Read for FixedLengthReader :: fn read
//@strip io
//@ret r
//@requires
    old(self).bytes_read <= old(self).total_bytes
//@ensures P C13 decoder-never-reads-past-the-declared-length
    final(self).bytes_read <= final(self).total_bytes, final(self).total_bytes == old(self).total_bytes,
    r is Ok ==> final(self).bytes_read == old(self).bytes_read + r->Ok_0 && r->Ok_0 <= old(dest).len(),
    // the inner reader advanced by exactly what was reported
    r is Ok ==> final(self).read.pos() == old(self).read.pos() + r->Ok_0,
    old(self).bytes_read == old(self).total_bytes ==> r == Ok::<usize, Error>(0) && final(self).read.pos() == old(self).read.pos(),
//@rw ? R8
    &mut dest[0..($n)]
//@with
    slice_range_mut(dest, 0, $n)
//@mutant reads_one_past_the_limit
    cmp::min(dest.len() as u64, self.total_bytes - self.bytes_read)
//@with
    cmp::min(dest.len() as u64, self.total_bytes - self.bytes_read + 1)
//@end
//@extract lightning/src/util/ser.rs :: impl LengthLimitedRead for FixedLengthReader :: fn remaining_bytes
//@ret r
//@ensures A
    r as int == (if self.total_bytes >= self.bytes_read { self.total_bytes - self.bytes_read } else { 0 })
//@end
}

// ---------------- CounterpartyCommitmentSecrets::write vs. spec serialization ----------------
pub struct W { pub log: Ghost<Seq<u8>> }
pub trait Writer {
    spec fn log(&self) -> Seq<u8>;
    fn write_all(&mut self, buf: &[u8]) -> (r: Result<(), Error>)
        ensures r is Ok ==> final(self).log() == old(self).log() + buf@, r is Err ==> final(self).log() == old(self).log();
}
pub uninterp spec fn be64(x: u64) -> Seq<u8>;
#[verifier::external_body] pub broadcast proof fn ax_be64_len(x: u64) ensures (#[trigger] be64(x)).len() == 8 {}
#[verifier::external_body] pub fn u64_to_be_bytes(x: u64) -> (r: [u8; 8]) ensures r@ == be64(x) { x.to_be_bytes() }
pub uninterp spec fn tlv_empty() -> Seq<u8>;
#[verifier::external_body]
pub fn write_empty_tlv_fields<W: Writer>(writer: &mut W) -> (r: Result<(), Error>)
    ensures r is Ok ==> final(writer).log() == old(writer).log() + tlv_empty(), r is Err ==> final(writer).log() == old(writer).log()
{ unimplemented!() }

//@extract lightning/src/ln/chan_utils.rs :: struct CounterpartyCommitmentSecrets
//@end
pub open spec fn ser_prefix(s: CounterpartyCommitmentSecrets, k: int) -> Seq<u8> decreases k {
    if k <= 0 { Seq::empty() } else { ser_prefix(s, k - 1) + s.old_secrets[k - 1].0@ + be64(s.old_secrets[k - 1].1) }
}
pub proof fn lemma_prefix_len(s: CounterpartyCommitmentSecrets, k: int)
    requires 0 <= k <= 49 ensures ser_prefix(s, k).len() == 40 * k decreases k
{ broadcast use ax_be64_len; if k > 0 { lemma_prefix_len(s, k - 1); } }

impl CounterpartyCommitmentSecrets {
//@extract lightning/src/ln/chan_utils.rs :: impl Writeable for CounterpartyCommitmentSecrets :: fn write
//@strip io
//@ret r
//@ensures P C12 persisted-secret-store-is-written-as-49-records-secret-then-be64-index-then-the-TLV-suffix
    r is Ok ==> final(writer).log() == old(writer).log() + ser_prefix(*self, 49) + tlv_empty()
//@rw R12
    &(ref $a:ident, ref $b:ident) in self.old_secrets.iter() {
//@with
    __x in it: self.old_secrets.iter()
        invariant it.seq().len() == 49, forall|k: int| 0 <= k < 49 ==> *it.seq()[k] == self.old_secrets[k],
            writer.log() == old(writer).log() + ser_prefix(*self, it.index@ as int),
    {
        let (ref $a, ref $b) = *__x;
//@rw ? R8
    &idx.to_be_bytes()
//@with
    &u64_to_be_bytes(*idx)
//@rw R8
    write_tlv_fields!(writer, {});
//@with
    write_empty_tlv_fields(writer)?;
//@at loop_body_end 1
    proof { assert(ser_prefix(*self, it.index@ as int + 1) =~= ser_prefix(*self, it.index@ as int) + secret@ + be64(*idx));
            assert(writer.log() =~= old(writer).log() + ser_prefix(*self, it.index@ as int + 1)); }
//@mutant index_written_before_secret
    writer.write_all(secret)?; writer.write_all(&idx.to_be_bytes())?;
//@with
    writer.write_all(&idx.to_be_bytes())?; writer.write_all(secret)?;
//@end
}

// ---------------- CounterpartyCommitmentSecrets::read vs. the same spec serialization ----------------
pub trait ReadStream {
    spec fn data(&self) -> Seq<u8>;
    spec fn cursor(&self) -> int;
}
// <[u8; 32] as Readable>::read and <u64 as Readable>::read (read_exact + from_be_bytes) as assumed contracts over a byte cursor
#[verifier::external_body]
pub fn read_32<R: ReadStream>(reader: &mut R) -> (r: Result<[u8; 32], DecodeError>)
    requires 0 <= old(reader).cursor()
    ensures final(reader).data() == old(reader).data(),
        old(reader).cursor() + 32 <= old(reader).data().len() ==> r is Ok,
        r is Ok ==> old(reader).cursor() + 32 <= old(reader).data().len() && r->Ok_0@ == old(reader).data().subrange(old(reader).cursor(), old(reader).cursor() + 32) && final(reader).cursor() == old(reader).cursor() + 32,
{ unimplemented!() }
#[verifier::external_body]
pub fn read_u64<R: ReadStream>(reader: &mut R) -> (r: Result<u64, DecodeError>)
    requires 0 <= old(reader).cursor()
    ensures final(reader).data() == old(reader).data(),
        old(reader).cursor() + 8 <= old(reader).data().len() ==> r is Ok,
        r is Ok ==> old(reader).cursor() + 8 <= old(reader).data().len() && be64(r->Ok_0) == old(reader).data().subrange(old(reader).cursor(), old(reader).cursor() + 8) && final(reader).cursor() == old(reader).cursor() + 8,
{ unimplemented!() }
#[verifier::external_body]
pub fn read_empty_tlv_fields<R: ReadStream>(reader: &mut R) -> (r: Result<(), DecodeError>)
    requires 0 <= old(reader).cursor()
    ensures final(reader).data() == old(reader).data(), r is Ok ==> final(reader).cursor() >= old(reader).cursor()
{ unimplemented!() }

impl CounterpartyCommitmentSecrets {
//@extract lightning/src/ln/chan_utils.rs :: impl Readable for CounterpartyCommitmentSecrets :: fn read
//@strip io
//@rw R5
    <R: Read>
//@with
    <R: ReadStream>
//@rw R12
    for &mut (ref mut $a:ident, ref mut $b:ident) in old_secrets.iter_mut() { *$a = Readable::read(reader)?; *$b = Readable::read(reader)?; }
//@with
    let ghost start = reader.cursor();
    let mut __i: usize = 0;
    while __i < 49
        invariant __i <= 49, reader.data() == old(reader).data(), reader.cursor() == start + 40 * __i, start >= 0,
            forall|k: int| 0 <= k < __i ==> (#[trigger] old_secrets[k]).0@ == reader.data().subrange(start + 40 * k, start + 40 * k + 32)
                && be64(old_secrets[k].1) == reader.data().subrange(start + 40 * k + 32, start + 40 * k + 40),
        decreases 49 - __i
    {
        // R12: `for &mut (ref mut secret, ref mut idx) in old_secrets.iter_mut() { *secret = ..; *idx = ..; }` element by element
        let $a: [u8; 32] = read_32(reader)?;
        let $b: u64 = read_u64(reader)?;
        old_secrets[__i] = ($a, $b);
        __i = __i + 1;
    }
//@rw R8
    read_tlv_fields!(reader, {});
//@with
    read_empty_tlv_fields(reader)?;
//@ret r
//@requires
    old(reader).cursor() >= 0
//@ensures P C12 decoding-yields-exactly-the-49-records-that-were-written
    r is Ok ==> ({ let st = r->Ok_0; let d = old(reader).data(); let c = old(reader).cursor();
        forall|k: int| 0 <= k < 49 ==> (#[trigger] st.old_secrets[k]).0@ == d.subrange(c + 40 * k, c + 40 * k + 32)
            && be64(st.old_secrets[k].1) == d.subrange(c + 40 * k + 32, c + 40 * k + 40) }),
//@end
}
#[verifier::external_body] pub broadcast proof fn ax_be64_inj(x: u64, y: u64) ensures #[trigger] be64(x) == #[trigger] be64(y) ==> x == y {}
// (P C12) round trip: a store decoded from ser_prefix(s, 49) ++ suffix is s
pub proof fn lemma_ccs_roundtrip(s: CounterpartyCommitmentSecrets, t: CounterpartyCommitmentSecrets, d: Seq<u8>)
    requires d.len() >= 1960, d.subrange(0, 1960int) == ser_prefix(s, 49),
        forall|k: int| 0 <= k < 49 ==> (#[trigger] t.old_secrets[k]).0@ == d.subrange(40 * k, 40 * k + 32) && be64(t.old_secrets[k].1) == d.subrange(40 * k + 32, 40 * k + 40),
    ensures forall|k: int| 0 <= k < 49 ==> t.old_secrets[k].0@ == (#[trigger] s.old_secrets[k]).0@ && t.old_secrets[k].1 == s.old_secrets[k].1
{
    broadcast use ax_be64_len, ax_be64_inj;
    assert forall|k: int| 0 <= k < 49 implies t.old_secrets[k].0@ == (#[trigger] s.old_secrets[k]).0@ && t.old_secrets[k].1 == s.old_secrets[k].1 by {
        lemma_prefix_len(s, k); lemma_prefix_len(s, k + 1);
        lemma_prefix_is_prefix(s, k + 1, 49);
        let pk = ser_prefix(s, k); let pk1 = ser_prefix(s, k + 1);
        assert(pk1 == pk + s.old_secrets[k].0@ + be64(s.old_secrets[k].1));
        assert(d.subrange(0, 40 * (k + 1)) == pk1);
        assert(d.subrange(40 * k, 40 * k + 32) =~= pk1.subrange(40 * k, 40 * k + 32));
        assert(pk1.subrange(40 * k, 40 * k + 32) =~= s.old_secrets[k].0@);
        assert(d.subrange(40 * k + 32, 40 * k + 40) =~= pk1.subrange(40 * k + 32, 40 * k + 40));
        assert(pk1.subrange(40 * k + 32, 40 * k + 40) =~= be64(s.old_secrets[k].1));
    }
}
pub proof fn lemma_prefix_is_prefix(s: CounterpartyCommitmentSecrets, a: int, b: int)
    requires 0 <= a <= b <= 49
    ensures ser_prefix(s, b).len() == 40 * b, ser_prefix(s, a).len() == 40 * a, ser_prefix(s, b).subrange(0, 40 * a) == ser_prefix(s, a)
    decreases b - a
{
    broadcast use ax_be64_len;
    lemma_prefix_len(s, a); lemma_prefix_len(s, b);
    if a < b {
        lemma_prefix_is_prefix(s, a, b - 1);
        lemma_prefix_len(s, b - 1);
        assert(ser_prefix(s, b) == ser_prefix(s, b - 1) + s.old_secrets[b - 1].0@ + be64(s.old_secrets[b - 1].1));
        assert(ser_prefix(s, b).subrange(0, 40 * a) =~= ser_prefix(s, b - 1).subrange(0, 40 * a));
    } else { assert(ser_prefix(s, b).subrange(0, 40 * a) =~= ser_prefix(s, a)); }
}
}
fn main() {}
