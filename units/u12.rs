//! unit: u12
//! properties: C12 C13
//! note: FixedLengthReader never reads past the declared length (any inner reader); CounterpartyCommitmentSecrets::write emits exactly the spec serialization (49 x (secret || be64(index)))
//! trusted: trait Read reduced to read() with the std::io::Read contract (returns at most dest.len(), advances the stream by what it returns); R8: `&mut dest[0..n]` -> slice_range_mut wrapper, `idx.to_be_bytes()` -> u64_to_be_bytes wrapper (be64 uninterpreted, 8 bytes, injective); Writer stub = append-only ghost byte log (write_all appends or fails without writing); R12 for the `for &(ref a, ref b) in ..` loop; `write_tlv_fields!(writer, {})` (empty TLV suffix) is replaced by a stub that appends the spec suffix tlv_empty()
//! assume: bytes_read <= total_bytes on entry (established by FixedLengthReader::new and preserved by read: proved invariant)
use vstd::prelude::*;
verus! {
use vstd::std_specs::cmp::*;
use core::cmp;
pub assume_specification<T: core::cmp::Ord>[core::cmp::min::<T>](a: T, b: T) -> (r: T)
    ensures T::obeys_cmp_spec() ==> r == (if b.cmp_spec(&a) == core::cmp::Ordering::Less { b } else { a });
pub struct Error {}
pub struct DecodeError {}
// inner reader: std::io::Read contract
pub trait Read {
    spec fn pos(&self) -> int;
    fn read(&mut self, dest: &mut [u8]) -> (r: Result<usize, Error>)
        ensures r is Ok ==> r->Ok_0 <= old(dest).len() && final(self).pos() == old(self).pos() + r->Ok_0,
                r is Err ==> final(self).pos() == old(self).pos(),
                final(dest).len() == old(dest).len();
}
#[verifier::external_body]
pub fn slice_range_mut<'a>(v: &'a mut [u8], start: usize, end: usize) -> (s: &'a mut [u8])
    requires start <= end <= old(v).len()
    ensures s@ == old(v)@.subrange(start as int, end as int), final(s)@.len() == s@.len(), final(v)@.len() == old(v)@.len(),
{ &mut v[start..end] }

//@extract lightning/src/util/ser.rs :: struct FixedLengthReader
//@end
impl<'a, R: Read> FixedLengthReader<'a, R> {
//@extract lightning/src/util/ser.rs :: impl FixedLengthReader :: fn new
//@ret r
//@ensures A
    r.bytes_read == 0, r.total_bytes == total_bytes, r.read.pos() == old(read).pos()
//@end
//@extract lightning/src/util/ser.rs :: impl FixedLengthReader :: fn bytes_remain
//@ret r
//@ensures A
    r == (old(self).bytes_read != old(self).total_bytes), *final(self) == *old(self)
//@end
//@extract lightning/src/util/ser.rs :: impl Read for FixedLengthReader :: fn read
//@strip io
//@ret r
//@requires
    old(self).bytes_read <= old(self).total_bytes
//@ensures P C13 decoder-never-reads-past-the-declared-length
    final(self).bytes_read <= final(self).total_bytes, final(self).total_bytes == old(self).total_bytes,
    r is Ok ==> final(self).bytes_read == old(self).bytes_read + r->Ok_0 && r->Ok_0 <= old(dest).len(),
    // the inner reader advanced by exactly what was reported
    r is Ok ==> final(self).read.pos() == old(self).read.pos() + r->Ok_0,
    old(self).bytes_read == old(self).total_bytes ==> r == Ok::<usize, Error>(0) && final(self).read.pos() == old(self).read.pos(),
//@rw ? R8
    &mut dest[0..($n)]
//@with
    slice_range_mut(dest, 0, $n)
//@mutant reads_one_past_the_limit
    cmp::min(dest.len() as u64, self.total_bytes - self.bytes_read)
//@with
    cmp::min(dest.len() as u64, self.total_bytes - self.bytes_read + 1)
//@end
//@extract lightning/src/util/ser.rs :: impl LengthLimitedRead for FixedLengthReader :: fn remaining_bytes
//@ret r
//@ensures A
    r as int == (if self.total_bytes >= self.bytes_read { self.total_bytes - self.bytes_read } else { 0 })
//@end
}

// ---------------- CounterpartyCommitmentSecrets::write vs. spec serialization ----------------
pub struct W { pub log: Ghost<Seq<u8>> }
pub trait Writer {
    spec fn log(&self) -> Seq<u8>;
    fn write_all(&mut self, buf: &[u8]) -> (r: Result<(), Error>)
        ensures r is Ok ==> final(self).log() == old(self).log() + buf@, r is Err ==> final(self).log() == old(self).log();
}
pub uninterp spec fn be64(x: u64) -> Seq<u8>;
#[verifier::external_body] pub broadcast proof fn ax_be64_len(x: u64) ensures (#[trigger] be64(x)).len() == 8 {}
#[verifier::external_body] pub fn u64_to_be_bytes(x: u64) -> (r: [u8; 8]) ensures r@ == be64(x) { x.to_be_bytes() }
pub uninterp spec fn tlv_empty() -> Seq<u8>;
#[verifier::external_body]
pub fn write_empty_tlv_fields<W: Writer>(writer: &mut W) -> (r: Result<(), Error>)
    ensures r is Ok ==> final(writer).log() == old(writer).log() + tlv_empty(), r is Err ==> final(writer).log() == old(writer).log()
{ unimplemented!() }

//@extract lightning/src/ln/chan_utils.rs :: struct CounterpartyCommitmentSecrets
//@end
pub open spec fn ser_prefix(s: CounterpartyCommitmentSecrets, k: int) -> Seq<u8> decreases k {
    if k <= 0 { Seq::empty() } else { ser_prefix(s, k - 1) + s.old_secrets[k - 1].0@ + be64(s.old_secrets[k - 1].1) }
}
pub proof fn lemma_prefix_len(s: CounterpartyCommitmentSecrets, k: int)
    requires 0 <= k <= 49 ensures ser_prefix(s, k).len() == 40 * k decreases k
{ broadcast use ax_be64_len; if k > 0 { lemma_prefix_len(s, k - 1); } }

impl CounterpartyCommitmentSecrets {
//@extract lightning/src/ln/chan_utils.rs :: impl Writeable for CounterpartyCommitmentSecrets :: fn write
//@strip io
//@ret r
//@ensures P C12 persisted-secret-store-is-written-as-49-records-secret-then-be64-index-then-the-TLV-suffix
    r is Ok ==> final(writer).log() == old(writer).log() + ser_prefix(*self, 49) + tlv_empty()
//@rw R12
    &(ref $a:ident, ref $b:ident) in self.old_secrets.iter() {
//@with
    __x in it: self.old_secrets.iter()
        invariant it.seq().len() == 49, forall|k: int| 0 <= k < 49 ==> *it.seq()[k] == self.old_secrets[k],
            writer.log() == old(writer).log() + ser_prefix(*self, it.index@ as int),
    {
        let (ref $a, ref $b) = *__x;
//@rw ? R8
    &idx.to_be_bytes()
//@with
    &u64_to_be_bytes(*idx)
//@rw R8
    write_tlv_fields!(writer, {});
//@with
    write_empty_tlv_fields(writer)?;
//@at loop_body_end 1
    proof { assert(ser_prefix(*self, it.index@ as int + 1) =~= ser_prefix(*self, it.index@ as int) + secret@ + be64(*idx));
            assert(writer.log() =~= old(writer).log() + ser_prefix(*self, it.index@ as int + 1)); }
//@mutant index_written_before_secret
    writer.write_all(secret)?; writer.write_all(&idx.to_be_bytes())?;
//@with
    writer.write_all(&idx.to_be_bytes())?; writer.write_all(secret)?;
//@end
}
}
fn main() {}
