//! unit: u18m
//! properties: C18
//! note: BOLT-11, what of a parsed invoice string is signed data and what is the signature (lightning-invoice de.rs): SignedRawBolt11Invoice::from_str hands the LAST 104 symbols of the data part (65 bytes: 64 of signature and the recovery id) to the signature parser and EVERYTHING before them to the data-part parser - the two pieces are disjoint and together the whole data part, so no symbol is both signed-over and part of the signature, and none is outside both; a data part shorter than a signature is refused before either index is computed. RawDataPart::from_base32 (whole) reads the first seven symbols as the timestamp and all the rest as tagged fields (u18h), refusing fewer than seven
//! trusted: R15 (deep slices): from_str: the argument expressions of the two parser calls and the function-local constant SIGNATURE_LEN_5, verbatim; R5: `&data[a..b]`, `&data[..b]`, `&data[a..]` on the collected symbols are vstd's slice_subrange; PositiveTimestamp::from_base32 (u18b) and parse_tagged_parts (u18h) are stubs that remember the symbols they were given
//! plemma: C18 lemma_signed_part_and_signature_partition_the_data: the symbols handed to the data-part parser followed by those handed to the signature parser are the data part
//! trusted: assume_specification for core::cmp::max / core::cmp::min (std definitions): present in every unit so that a change that introduces them is verified instead of being rejected by the tool
use vstd::prelude::*;
verus! {
use vstd::std_specs::cmp::*;
use vstd::slice::*;
use core::cmp;
pub assume_specification<T: core::cmp::Ord>[core::cmp::max::<T>](a: T, b: T) -> (r: T)
    ensures T::obeys_cmp_spec() ==> r == (if b.cmp_spec(&a) == core::cmp::Ordering::Less { a } else { b });
pub assume_specification<T: core::cmp::Ord>[core::cmp::min::<T>](a: T, b: T) -> (r: T)
    ensures T::obeys_cmp_spec() ==> r == (if b.cmp_spec(&a) == core::cmp::Ordering::Less { b } else { a });
pub struct Fe32(pub u8);
pub enum Bolt11ParseError { TooShortDataPart, Other(u8) }
pub const SIGNATURE_LEN_5: usize = 104;
//@extract lightning-invoice/src/de.rs :: impl FromStr for SignedRawBolt11Invoice :: fn from_str
//@slice R15
    const SIGNATURE_LEN_5: usize = $v:lit;
//@with
    fn symbols_of_a_signature() -> usize { $v }
//@ret r
//@ensures A the-constant-this-unit-computes-with-is-the-one-in-the-source-65-bytes-are-104-symbols
    r == SIGNATURE_LEN_5 && r * 5 == 65 * 8,
//@end
//@extract lightning-invoice/src/de.rs :: impl FromStr for SignedRawBolt11Invoice :: fn from_str
//@slice R15
    let data_part = RawDataPart::from_base32($x:seq)?;
//@with
    fn symbols_handed_to_the_data_part_parser<'a>(data: &'a [Fe32]) -> &'a [Fe32] { $x }
//@rw R5 ?
    &data[..$b:seq]
//@with
    slice_subrange(data, 0, $b)
//@rw R5 ?
    &data[$a:seq..$b:seq]
//@with
    slice_subrange(data, $a, $b)
//@ret r
//@requires
    data@.len() >= SIGNATURE_LEN_5,
//@ensures P C18 everything-in-front-of-the-last-104-symbols-is-the-signed-data
    r@ =~= data@.subrange(0, data@.len() - 104),
//@mutant last_signed_symbol_left_out_of_the_hash
    &data[..data.len() - SIGNATURE_LEN_5]
//@with
    &data[..data.len() - SIGNATURE_LEN_5 - 1]
//@end
//@extract lightning-invoice/src/de.rs :: impl FromStr for SignedRawBolt11Invoice :: fn from_str
//@slice R15
    signature: Bolt11InvoiceSignature::from_base32($y:seq)?,
//@with
    fn symbols_handed_to_the_signature_parser<'a>(data: &'a [Fe32]) -> &'a [Fe32] { $y }
//@rw R5 ?
    &data[$a:seq..]
//@with
    slice_subrange(data, $a, data.len())
//@rw R5 ?
    &data[$a:seq..$b:seq]
//@with
    slice_subrange(data, $a, $b)
//@ret r
//@requires
    data@.len() >= SIGNATURE_LEN_5,
//@ensures P C18 the-last-104-symbols-are-the-signature
    r@ =~= data@.subrange(data@.len() - 104, data@.len() as int),
//@end
pub proof fn lemma_signed_part_and_signature_partition_the_data(data: Seq<Fe32>) requires data.len() >= 104
    ensures data.subrange(0, data.len() - 104) + data.subrange(data.len() - 104, data.len() as int) =~= data {}
//@extract lightning-invoice/src/de.rs :: impl FromStr for SignedRawBolt11Invoice :: fn from_str
//@slice R15
    if $c:cond { return Err(Bolt11ParseError::TooShortDataPart); } let raw_hrp
//@with
    fn data_part_too_short_for_a_signature(data: &Vec<Fe32>) -> bool { $c }
//@ret r
//@ensures P C18 a-data-part-shorter-than-a-signature-is-refused-before-it-is-split
    r == (data@.len() < 104),
//@end
pub struct PositiveTimestamp { pub from: Ghost<Seq<Fe32>> }
impl PositiveTimestamp { #[verifier::external_body] pub fn from_base32(b32: &[Fe32]) -> (r: Result<PositiveTimestamp, Bolt11ParseError>) ensures r is Ok ==> r->Ok_0.from@ == b32@ { unimplemented!() } }
pub struct Tagged { pub from: Ghost<Seq<Fe32>> }
#[verifier::external_body] pub fn parse_tagged_parts(data: &[Fe32]) -> (r: Result<Tagged, Bolt11ParseError>) ensures r is Ok ==> r->Ok_0.from@ == data@ { unimplemented!() }
pub struct RawDataPart { pub timestamp: PositiveTimestamp, pub tagged_fields: Tagged }
impl RawDataPart {
//@extract lightning-invoice/src/de.rs :: impl FromBase32 for RawDataPart :: fn from_base32
//@rw R5
    Result<Self, Self::Err>
//@with
    Result<Self, Bolt11ParseError>
//@rw * R5
    &data[$a:seq..$b:seq]
//@with
    slice_subrange(data, $a, $b)
//@rw * R5
    &data[$a:seq..]
//@with
    slice_subrange(data, $a, data.len())
//@ret r
//@ensures P C18 the-signed-data-is-seven-symbols-of-timestamp-followed-by-tagged-fields-and-nothing-else
    data@.len() < 7 ==> r is Err,
    r is Ok ==> r->Ok_0.timestamp.from@ =~= data@.subrange(0, 7) && r->Ok_0.tagged_fields.from@ =~= data@.subrange(7, data@.len() as int),
//@mutant first_tagged_symbol_read_twice
    parse_tagged_parts(&data[TIMESTAMP_LEN..])
//@with
    parse_tagged_parts(&data[TIMESTAMP_LEN - 1..])
//@end
}
}
fn main() {}
