//! unit: u13d
//! properties: C13 C17 C12
//! note: hand-written message codecs (msgs.rs): the fixed-position fields of open_channel, accept_channel, their v2 forms, channel_announcement and channel_update are read in the order they are written, field by field (same-typed neighbours - six public keys in a row, five u64 amounts - can be exchanged on one side without a type error and, for a peer with equal values, without failing a round-trip test)
//! trusted: R21 (field sequences): from the top-level statements of a codec function the extractor takes the names of `self(.a)*.NAME.write(w)?;` (writer) and of `let NAME: T = Readable::read(r)?;` (reader), in order, and emits them as a constant sequence; the lemmas state that the two sequences agree; the TLV suffixes (encode_tlv_stream! / decode_tlv_stream!: u13c) and the struct literal that assembles the read values (field-init shorthand: each value goes to the field of its own name) are outside
//! plemma: C13 lemma_open_channel_fields: open_channel is read in the order it is written
//! plemma: C13 lemma_accept_channel_fields: accept_channel likewise
//! plemma: C13 lemma_open_channel_v2_fields: open_channel2 likewise
//! plemma: C13 lemma_accept_channel_v2_fields: accept_channel2 likewise
//! plemma: C13 lemma_channel_announcement_fields: the unsigned channel_announcement likewise (reader written as a struct literal: fields are evaluated in source order)
//! plemma: C13 lemma_channel_announcement_signature_fields: the four signatures of a channel_announcement likewise
//! plemma: C13 lemma_channel_update_fields: the unsigned channel_update likewise
//! plemma: C12 lemma_channel_announcement_fields, lemma_channel_update_fields, lemma_node_announcement_fields: and for C12 (NetworkGraph serialization)
//! plemma: C17 lemma_channel_announcement_fields, lemma_channel_update_fields, lemma_node_announcement_fields: the same three lemmas stand for C17 (the network graph stores and re-reads these messages with these codecs)
//! plemma: C13 lemma_tx_add_input_fields, lemma_reply_channel_range_fields, lemma_node_announcement_fields, lemma_trampoline_onion_packet_fields, lemma_onion_packet_fields: tx_add_input, reply_channel_range, node_announcement (fixed head), the onion packets likewise (the variable-length parts of these messages are under contract in u13 / u13e)
//! trusted: assume_specification for core::cmp::max / core::cmp::min (std definitions): present in every unit so that a change that introduces them is verified instead of being rejected by the tool
use vstd::prelude::*;
verus! {
use vstd::std_specs::cmp::*;
use core::cmp;
pub assume_specification<T: core::cmp::Ord>[core::cmp::max::<T>](a: T, b: T) -> (r: T)
    ensures T::obeys_cmp_spec() ==> r == (if b.cmp_spec(&a) == core::cmp::Ordering::Less { a } else { b });
pub assume_specification<T: core::cmp::Ord>[core::cmp::min::<T>](a: T, b: T) -> (r: T)
    ensures T::obeys_cmp_spec() ==> r == (if b.cmp_spec(&a) == core::cmp::Ordering::Less { b } else { a });
//@extract lightning/src/ln/msgs.rs :: impl Writeable for OpenChannel :: fn write
//@fields write written_open_channel
//@end
//@extract lightning/src/ln/msgs.rs :: impl LengthReadable for OpenChannel :: fn read_from_fixed_length_buffer
//@fields read read_open_channel
//@mutant two_basepoints_read_in_the_other_order
    let revocation_basepoint: PublicKey = Readable::read(r)?; let payment_basepoint: PublicKey = Readable::read(r)?;
//@with
    let payment_basepoint: PublicKey = Readable::read(r)?; let revocation_basepoint: PublicKey = Readable::read(r)?;
//@end
pub proof fn lemma_open_channel_fields() ensures written_open_channel() =~= read_open_channel() {}
//@extract lightning/src/ln/msgs.rs :: impl Writeable for AcceptChannel :: fn write
//@fields write written_accept_channel
//@end
//@extract lightning/src/ln/msgs.rs :: impl LengthReadable for AcceptChannel :: fn read_from_fixed_length_buffer
//@fields read read_accept_channel
//@end
pub proof fn lemma_accept_channel_fields() ensures written_accept_channel() =~= read_accept_channel() {}
//@extract lightning/src/ln/msgs.rs :: impl Writeable for OpenChannelV2 :: fn write
//@fields write written_open_channel_v2
//@end
//@extract lightning/src/ln/msgs.rs :: impl LengthReadable for OpenChannelV2 :: fn read_from_fixed_length_buffer
//@fields read read_open_channel_v2
//@end
pub proof fn lemma_open_channel_v2_fields() ensures written_open_channel_v2() =~= read_open_channel_v2() {}
//@extract lightning/src/ln/msgs.rs :: impl Writeable for AcceptChannelV2 :: fn write
//@fields write written_accept_channel_v2
//@mutant two_amounts_written_in_the_other_order
    self.common_fields.dust_limit_satoshis.write(w)?; self.common_fields.max_htlc_value_in_flight_msat.write(w)?;
//@with
    self.common_fields.max_htlc_value_in_flight_msat.write(w)?; self.common_fields.dust_limit_satoshis.write(w)?;
//@end
//@extract lightning/src/ln/msgs.rs :: impl LengthReadable for AcceptChannelV2 :: fn read_from_fixed_length_buffer
//@fields read read_accept_channel_v2
//@end
pub proof fn lemma_accept_channel_v2_fields() ensures written_accept_channel_v2() =~= read_accept_channel_v2() {}
//@extract lightning/src/ln/msgs.rs :: impl Writeable for UnsignedChannelAnnouncement :: fn write
//@fields write written_channel_announcement
//@end
//@extract lightning/src/ln/msgs.rs :: impl LengthReadable for UnsignedChannelAnnouncement :: fn read_from_fixed_length_buffer
//@fields read read_channel_announcement
//@mutant the_two_bitcoin_keys_read_in_the_other_order
    bitcoin_key_1: Readable::read(r)?, bitcoin_key_2: Readable::read(r)?,
//@with
    bitcoin_key_2: Readable::read(r)?, bitcoin_key_1: Readable::read(r)?,
//@end
pub proof fn lemma_channel_announcement_fields() ensures written_channel_announcement() =~= read_channel_announcement() {}
//@extract lightning/src/ln/msgs.rs :: impl Writeable for ChannelAnnouncement :: fn write
//@fields write written_channel_announcement_signatures
//@end
//@extract lightning/src/ln/msgs.rs :: impl LengthReadable for ChannelAnnouncement :: fn read_from_fixed_length_buffer
//@fields read read_channel_announcement_signatures
//@end
// the writer's last field (`contents`) is read through LengthReadable, which the reader's sequence does not list
pub proof fn lemma_channel_announcement_signature_fields() ensures written_channel_announcement_signatures().drop_last() =~= read_channel_announcement_signatures() {}
//@extract lightning/src/ln/msgs.rs :: impl Writeable for UnsignedChannelUpdate :: fn write
//@fields write written_channel_update
//@end
//@extract lightning/src/ln/msgs.rs :: impl LengthReadable for UnsignedChannelUpdate :: fn read_from_fixed_length_buffer
//@fields read read_channel_update
//@mutant fee_base_and_proportional_fee_read_in_the_other_order
    fee_base_msat: Readable::read(r)?, fee_proportional_millionths: Readable::read(r)?,
//@with
    fee_proportional_millionths: Readable::read(r)?, fee_base_msat: Readable::read(r)?,
//@end
pub proof fn lemma_channel_update_fields() ensures written_channel_update() =~= read_channel_update() {}

// ---- further hand-written codecs: fixed-position fields read in the order written ----
//@extract lightning/src/ln/msgs.rs :: impl Writeable for TxAddInput :: fn write
//@fields write written_tx_add_input only=channel_id,serial_id,prevtx_out,sequence
//@end
//@extract lightning/src/ln/msgs.rs :: impl LengthReadable for TxAddInput :: fn read_from_fixed_length_buffer
//@fields read read_tx_add_input only=channel_id,serial_id,prevtx_out,sequence
//@mutant tx_add_input_sequence_read_before_the_output_index
    let prevtx_out: u32 = Readable::read(r)?; let sequence: u32 = Readable::read(r)?;
//@with
    let sequence: u32 = Readable::read(r)?; let prevtx_out: u32 = Readable::read(r)?;
//@end
pub proof fn lemma_tx_add_input_fields() ensures written_tx_add_input() =~= read_tx_add_input() {}
//@extract lightning/src/ln/msgs.rs :: impl Writeable for ReplyChannelRange :: fn write
//@fields write written_reply_channel_range only=chain_hash,first_blocknum,number_of_blocks,sync_complete
//@end
//@extract lightning/src/ln/msgs.rs :: impl LengthReadable for ReplyChannelRange :: fn read_from_fixed_length_buffer
//@fields read read_reply_channel_range only=chain_hash,first_blocknum,number_of_blocks,sync_complete
//@mutant reply_channel_range_block_fields_swapped
    let first_blocknum: u32 = Readable::read(r)?; let number_of_blocks: u32 = Readable::read(r)?;
//@with
    let number_of_blocks: u32 = Readable::read(r)?; let first_blocknum: u32 = Readable::read(r)?;
//@end
pub proof fn lemma_reply_channel_range_fields() ensures written_reply_channel_range() =~= read_reply_channel_range() {}
//@extract lightning/src/ln/msgs.rs :: impl Writeable for UnsignedNodeAnnouncement :: fn write
//@fields write written_node_announcement only=features,timestamp,node_id,alias
//@end
//@extract lightning/src/ln/msgs.rs :: impl LengthReadable for UnsignedNodeAnnouncement :: fn read_from_fixed_length_buffer
//@fields read read_node_announcement only=features,timestamp,node_id,alias
//@end
pub proof fn lemma_node_announcement_fields() ensures written_node_announcement() =~= read_node_announcement() {}
//@extract lightning/src/ln/msgs.rs :: impl Writeable for TrampolineOnionPacket :: fn write
//@fields write written_trampoline_onion_packet only=version,public_key,hmac
//@end
//@extract lightning/src/ln/msgs.rs :: impl LengthReadable for TrampolineOnionPacket :: fn read_from_fixed_length_buffer
//@fields read read_trampoline_onion_packet only=version,public_key,hmac
//@end
pub proof fn lemma_trampoline_onion_packet_fields() ensures written_trampoline_onion_packet() =~= read_trampoline_onion_packet() {}
//@extract lightning/src/ln/msgs.rs :: impl Writeable for OnionPacket :: fn write
//@fields write written_onion_packet only=version,hmac
//@end
//@extract lightning/src/ln/msgs.rs :: impl Readable for OnionPacket :: fn read
//@fields read read_onion_packet only=version,hmac
//@end
pub proof fn lemma_onion_packet_fields() ensures written_onion_packet() =~= read_onion_packet() {}
}
fn main() {}
