//! unit: u12i
//! properties: C12 C16
//! note: ProbabilisticScorer::read rebuilds the one field it does not store, last_update_time (what the probing-diversity penalty measures time from), from the channel liquidities it did store: it is the latest `last_updated` of any of them (the time of the last datapoint), zero when there are none - not the time the historical buckets were last decayed, which time_passed moves on its own
//! trusted: R15 (deep slice): the statements between reading the liquidities and building the scorer, with the loop body verbatim; R6: `for (_, liq) in MAP.0.iter()` over a hash map as an index loop over its entries in some order (the result, a maximum, does not depend on the order); R5: Duration is written u64 (whole seconds; `Duration::from_secs(0)` -> 0), cmp::max with the std meaning
//! trusted: assume_specification for core::cmp::max / core::cmp::min (std definitions): present in every unit so that a change that introduces them is verified instead of being rejected by the tool
use vstd::prelude::*;
verus! {
use vstd::std_specs::cmp::*;
use core::cmp;
pub assume_specification<T: core::cmp::Ord>[core::cmp::max::<T>](a: T, b: T) -> (r: T)
    ensures T::obeys_cmp_spec() ==> r == (if b.cmp_spec(&a) == core::cmp::Ordering::Less { a } else { b });
pub assume_specification<T: core::cmp::Ord>[core::cmp::min::<T>](a: T, b: T) -> (r: T)
    ensures T::obeys_cmp_spec() ==> r == (if b.cmp_spec(&a) == core::cmp::Ordering::Less { b } else { a });
pub struct ChannelLiquidity { pub last_updated: u64, pub offset_history_last_updated: u64, pub last_datapoint_time: u64 }
pub struct ChannelLiquidities(pub Vec<(u64, ChannelLiquidity)>);
pub struct Duration {}
impl Duration { pub fn from_secs(s: u64) -> (r: u64) ensures r == s { s } }
pub open spec fn latest(s: Seq<(u64, ChannelLiquidity)>) -> u64 decreases s.len() { if s.len() == 0 { 0 } else if latest(s.drop_last()) >= s.last().1.last_updated { latest(s.drop_last()) } else { s.last().1.last_updated } }
//@extract lightning/src/routing/scoring.rs :: impl ReadableArgs for ProbabilisticScorer :: fn read
//@slice R15
    let mut last_update_time = Duration::from_secs(0); for (_, liq) in channel_liquidities.0.iter() { $body:any } Ok(Self {
//@with
    fn time_of_the_last_datapoint_rebuilt_on_read(channel_liquidities: &ChannelLiquidities) -> u64 {
        let mut last_update_time = Duration::from_secs(0);
        let mut __k: usize = 0;
        while __k < channel_liquidities.0.len()
            invariant __k <= channel_liquidities.0@.len(), last_update_time == latest(channel_liquidities.0@.take(__k as int)),
            decreases channel_liquidities.0@.len() - __k
        { proof { assert(channel_liquidities.0@.take(__k as int + 1).drop_last() =~= channel_liquidities.0@.take(__k as int)); }
          let liq = &channel_liquidities.0[__k].1; $body __k = __k + 1; }
        proof { assert(channel_liquidities.0@.take(__k as int) =~= channel_liquidities.0@); }
        last_update_time }
//@ret r
//@ensures P C12,C16 a-scorer-read-back-measures-time-from-the-latest-datapoint-of-any-stored-channel-as-the-scorer-written-did
    r == latest(channel_liquidities.0@),
//@mutant last_update_time_rebuilt_from_the_decay_timestamp
    cmp::max(last_update_time, liq.last_updated)
//@with
    cmp::max(last_update_time, liq.offset_history_last_updated)
//@end
}
fn main() {}
