//! unit: u12d
//! properties: C12 C10
//! note: FundedChannel::write / read, the side lists that travel in TLV fields next to the HTLC records: for every pending outbound HTLC the writer appends one preimage and one attribution-data entry to the lists written as TLV `preimages` / 61 exactly when the reader will take one entry of each for that HTLC (state AwaitingRemoteRevokeToRemove or AwaitingRemovedRemoteRevoke with a Success outcome), and never touches the list of the removed inbound HTLCs (TLV 55); a writer that appends to another list, or for another set of states, produces bytes the reader refuses (DecodeError::InvalidValue) or attaches to the wrong HTLC
//! trusted: R15 (deep slices): FundedChannel::write: the `match &htlc.state { .. }` of the loop over pending_outbound_htlcs, verbatim as a function of one HTLC state and the three lists in scope; FundedChannel read: the match of the loop that hands the preimages and attribution data back, verbatim as a function of one HTLC state and the two iterators
//! trusted: R16: `&Variant(ref x)` patterns on a reference scrutinee are written under default binding modes; R7: the or-pattern arm of the reader with `ref mut` bindings is one arm per alternative
//! trusted: R8: `outcome.into()` (Into<Option<&HTLCFailReason>>: None for Success, the reason for Failure) is the wrapper fail_reason_of with that definition; `iter.next().flatten()` and `fulfill_attribution_data_iter.as_mut().and_then(Iterator::next)` are wrappers over a list with a ghost cursor (take the next element if there is one; for the optional list: None when the list is absent)
//! trusted: dropped: the reader's `debug_assert_eq!(preimage, &PaymentPreimage([0u8; 32]))` (a statement about how the record was initialised further up in read, outside the slice; a `&mut` compared with a `&` is outside the Verus subset)
//! trusted: R5: the writer W is a stub whose writes may fail and have no other effect; OutboundHTLCState / OutboundHTLCOutcome are extracted; OnionPacket, HTLCFailReason, AttributionData opaque; PaymentPreimage skeleton
//! trusted: assume_specification for core::cmp::max / core::cmp::min (std definitions): present in every unit so that a change that introduces them is verified instead of being rejected by the tool
use vstd::prelude::*;
verus! {
use vstd::std_specs::cmp::*;
use core::cmp;
pub assume_specification<T: core::cmp::Ord>[core::cmp::max::<T>](a: T, b: T) -> (r: T)
    ensures T::obeys_cmp_spec() ==> r == (if b.cmp_spec(&a) == core::cmp::Ordering::Less { a } else { b });
pub assume_specification<T: core::cmp::Ord>[core::cmp::min::<T>](a: T, b: T) -> (r: T)
    ensures T::obeys_cmp_spec() ==> r == (if b.cmp_spec(&a) == core::cmp::Ordering::Less { b } else { a });
pub struct OnionPacket {}
pub struct HTLCFailReason {}
pub struct AttributionData { pub id: u64 }
pub struct PaymentPreimage(pub [u8; 32]);
pub struct Error {}
pub enum DecodeError { InvalidValue, ShortRead }
pub struct W {}
pub trait Writeable { fn write(&self, writer: &mut W) -> Result<(), Error>; }
impl Writeable for u8 { #[verifier::external_body] fn write(&self, writer: &mut W) -> Result<(), Error> { unimplemented!() } }
impl Writeable for Box<OnionPacket> { #[verifier::external_body] fn write(&self, writer: &mut W) -> Result<(), Error> { unimplemented!() } }
impl<'a> Writeable for Option<&'a HTLCFailReason> { #[verifier::external_body] fn write(&self, writer: &mut W) -> Result<(), Error> { unimplemented!() } }
//@extract lightning/src/ln/channel.rs :: enum OutboundHTLCState
//@strip msgs
//@end
//@extract lightning/src/ln/channel.rs :: enum OutboundHTLCOutcome
//@end
pub fn fail_reason_of<'a>(o: &'a OutboundHTLCOutcome) -> (r: Option<&'a HTLCFailReason>) {
    match o { OutboundHTLCOutcome::Success { .. } => None, OutboundHTLCOutcome::Failure(r) => Some(r) }
}
// the HTLC states for which the reader takes one preimage and one attribution-data entry from the side lists
pub open spec fn has_side_entries(s: OutboundHTLCState) -> bool {
    match s {
        OutboundHTLCState::AwaitingRemoteRevokeToRemove(OutboundHTLCOutcome::Success { .. }) => true,
        OutboundHTLCState::AwaitingRemovedRemoteRevoke(OutboundHTLCOutcome::Success { .. }) => true,
        _ => false,
    }
}
pub open spec fn outcome_of(s: OutboundHTLCState) -> OutboundHTLCOutcome {
    match s {
        OutboundHTLCState::AwaitingRemoteRevokeToRemove(o) => o,
        OutboundHTLCState::AwaitingRemovedRemoteRevoke(o) => o,
        OutboundHTLCState::RemoteRemoved(o) => o,
        _ => arbitrary(),
    }
}

// ---- writer ----
//@extract lightning/src/ln/channel.rs :: impl Writeable for FundedChannel :: fn write
//@slice R15
    htlc.source.write(writer)?; match &htlc.state { $arms:any } pending_outbound_skimmed_fees.push(htlc.skimmed_fee_msat);
//@with
    fn side_entries_written_for_an_outbound_htlc<'a>(state: &'a OutboundHTLCState, writer: &mut W, preimages: &mut Vec<Option<&'a PaymentPreimage>>,
        fulfill_attribution_data: &mut Vec<&'a Option<AttributionData>>, removed_htlc_attribution_data: &mut Vec<&'a Option<AttributionData>>,
        holding_cell_attribution_data: &mut Vec<Option<&'a AttributionData>>) -> Result<(), Error> {
        match state { $arms } Ok(()) }
//@r16
//@rw R8 *
    outcome.into()
//@with
    fail_reason_of(outcome)
//@ret r
//@ensures P C12,C10 the-writer-appends-a-preimage-and-an-attribution-entry-for-exactly-the-outbound-htlcs-the-reader-takes-them-for
    r is Ok ==> final(removed_htlc_attribution_data)@ == old(removed_htlc_attribution_data)@
        && final(holding_cell_attribution_data)@ == old(holding_cell_attribution_data)@,
    r is Ok && !has_side_entries(*state) ==> final(preimages)@ == old(preimages)@ && final(fulfill_attribution_data)@ == old(fulfill_attribution_data)@,
    r is Ok && has_side_entries(*state) ==> final(preimages)@.len() == old(preimages)@.len() + 1 && final(preimages)@.drop_last() == old(preimages)@
        && final(preimages)@.last() is Some && *(final(preimages)@.last()->0) == outcome_of(*state)->preimage
        && final(fulfill_attribution_data)@.len() == old(fulfill_attribution_data)@.len() + 1 && final(fulfill_attribution_data)@.drop_last() == old(fulfill_attribution_data)@
        && *final(fulfill_attribution_data)@.last() == outcome_of(*state)->attribution_data,
//@mutant attribution_of_a_claimed_htlc_filed_with_the_removed_inbound_htlcs
    fulfill_attribution_data.push(attribution_data); } let reason: Option<&HTLCFailReason> = outcome.into(); reason.write(writer)?; }, &OutboundHTLCState::AwaitingRemovedRemoteRevoke
//@with
    removed_htlc_attribution_data.push(attribution_data); } let reason: Option<&HTLCFailReason> = outcome.into(); reason.write(writer)?; }, &OutboundHTLCState::AwaitingRemovedRemoteRevoke
//@mutant preimage_also_listed_for_a_claim_not_yet_signed_for
    OutboundHTLCState::RemoteRemoved(_) => { 1u8.write(writer)?;
//@with
    OutboundHTLCState::RemoteRemoved(o) => { if let OutboundHTLCOutcome::Success { preimage, .. } = o { preimages.push(Some(preimage)); } 1u8.write(writer)?;
//@end

// ---- reader ----
pub struct PreimageList { pub items: Ghost<Seq<Option<PaymentPreimage>>>, pub pos: Ghost<int> }
pub struct AttributionList { pub items: Ghost<Option<Seq<Option<AttributionData>>>>, pub pos: Ghost<int> }
impl AttributionList {
    pub open spec fn has_next(self) -> bool { self.items@ is Some && self.pos@ < self.items@->0.len() }
    pub open spec fn cur(self) -> Option<AttributionData> { self.items@->0[self.pos@] }
}
// `iter.next().flatten()`
#[verifier::external_body] pub fn next_preimage(iter: &mut PreimageList) -> (r: Option<PaymentPreimage>)
    requires 0 <= old(iter).pos@
    ensures final(iter).items == old(iter).items,
        old(iter).pos@ < old(iter).items@.len() ==> final(iter).pos@ == old(iter).pos@ + 1 && r == old(iter).items@[old(iter).pos@],
        old(iter).pos@ >= old(iter).items@.len() ==> final(iter).pos@ == old(iter).pos@ && r is None { unimplemented!() }
// `fulfill_attribution_data_iter.as_mut().and_then(Iterator::next)`
#[verifier::external_body] pub fn next_attribution(iter: &mut AttributionList) -> (r: Option<Option<AttributionData>>)
    requires 0 <= old(iter).pos@
    ensures final(iter).items == old(iter).items,
        old(iter).has_next() ==> final(iter).pos@ == old(iter).pos@ + 1 && r == Some(old(iter).cur()),
        !old(iter).has_next() ==> final(iter).pos@ == old(iter).pos@ && r is None { unimplemented!() }
//@extract lightning/src/ln/channel.rs :: impl ReadableArgs<(&'a ES, &'b SP, &'c ChannelTypeFeatures)> for FundedChannel<SP> :: fn read
//@slice R15
    for htlc in pending_outbound_htlcs.iter_mut() { match &mut htlc.state { $arms:any } } if iter.next().is_some() {
//@with
    fn side_entries_read_for_an_outbound_htlc(state: &mut OutboundHTLCState, iter: &mut PreimageList, fulfill_attribution_data_iter: &mut AttributionList) -> Result<(), DecodeError> {
        match state { $arms } Ok(()) }
//@r7
//@rw R8 *
    debug_assert!((preimage) == ( &PaymentPreimage([0u8; 32])));
//@with
//@rw R8 *
    iter.next().flatten()
//@with
    next_preimage(iter)
//@rw R8 *
    fulfill_attribution_data_iter .as_mut() .and_then(Iterator::next)
//@with
    next_attribution(fulfill_attribution_data_iter)
//@ret r
//@requires
    0 <= old(iter).pos@, 0 <= old(fulfill_attribution_data_iter).pos@,
//@ensures P C12,C10 the-reader-takes-a-preimage-and-an-attribution-entry-for-exactly-the-outbound-htlcs-with-a-success-outcome-awaiting-the-peers-revocation
    final(iter).items == old(iter).items, final(fulfill_attribution_data_iter).items == old(fulfill_attribution_data_iter).items,
    r is Ok && !has_side_entries(*old(state)) ==> *final(state) == *old(state) && final(iter).pos == old(iter).pos
        && final(fulfill_attribution_data_iter).pos == old(fulfill_attribution_data_iter).pos,
    r is Ok && has_side_entries(*old(state)) ==> has_side_entries(*final(state))
        && final(iter).pos@ == old(iter).pos@ + 1 && final(fulfill_attribution_data_iter).pos@ == old(fulfill_attribution_data_iter).pos@ + 1
        && Some(outcome_of(*final(state))->preimage) == old(iter).items@[old(iter).pos@]
        && old(fulfill_attribution_data_iter).has_next() && outcome_of(*final(state))->attribution_data == old(fulfill_attribution_data_iter).cur(),
    // a record for which the lists hold no entry is refused
    has_side_entries(*old(state)) && (old(iter).pos@ >= old(iter).items@.len() || !old(fulfill_attribution_data_iter).has_next()) ==> r is Err,
//@mutant attribution_not_handed_back_to_a_claim_we_already_signed_for
    }) | OutboundHTLCState::AwaitingRemovedRemoteRevoke(OutboundHTLCOutcome::Success { ref mut preimage, ref mut attribution_data, }) => {
//@with
    }) => {
//@end

// ======== the removed inbound HTLCs (TLV 55) ========
pub mod removed_inbound {
use vstd::prelude::*;
use super::{W, Writeable, Error, AttributionData, PaymentPreimage, DecodeError};
pub struct InboundHTLCResolution {}
pub struct InboundUpdateAdd {}
pub struct OnionErrorPacket { pub data: Vec<u8>, pub attribution_data: Option<AttributionData> }
impl Writeable for InboundHTLCResolution { #[verifier::external_body] fn write(&self, writer: &mut W) -> Result<(), Error> { unimplemented!() } }
impl Writeable for Vec<u8> { #[verifier::external_body] fn write(&self, writer: &mut W) -> Result<(), Error> { unimplemented!() } }
impl Writeable for PaymentPreimage { #[verifier::external_body] fn write(&self, writer: &mut W) -> Result<(), Error> { unimplemented!() } }
impl<'a> Writeable for (&'a [u8; 32], &'a u16) { #[verifier::external_body] fn write(&self, writer: &mut W) -> Result<(), Error> { unimplemented!() } }
//@extract lightning/src/ln/channel.rs :: enum InboundHTLCRemovalReason
//@strip msgs
//@end
//@extract lightning/src/ln/channel.rs :: enum InboundHTLCState
//@end
// the inbound HTLC records for which the reader expects one entry in the list
pub open spec fn has_removed_entry(s: InboundHTLCState) -> bool {
    match s {
        InboundHTLCState::LocalRemoved(InboundHTLCRemovalReason::FailRelay(_)) => true,
        InboundHTLCState::LocalRemoved(InboundHTLCRemovalReason::Fulfill { .. }) => true,
        _ => false,
    }
}
pub open spec fn attribution_of(s: InboundHTLCState) -> Option<AttributionData> {
    match s {
        InboundHTLCState::LocalRemoved(InboundHTLCRemovalReason::FailRelay(p)) => p.attribution_data,
        InboundHTLCState::LocalRemoved(InboundHTLCRemovalReason::Fulfill { attribution_data, .. }) => attribution_data,
        _ => None,
    }
}
//@extract lightning/src/ln/channel.rs :: impl Writeable for FundedChannel :: fn write
//@strip msgs
//@slice R15
    htlc.payment_hash.write(writer)?; match &htlc.state { $arms:any } } let mut preimages
//@with
    fn attribution_entry_written_for_an_inbound_htlc<'a>(state: &'a InboundHTLCState, writer: &mut W, removed_htlc_attribution_data: &mut Vec<&'a Option<AttributionData>>) -> Result<(), Error> {
        match state { $arms } Ok(()) }
//@r16
//@rw R16 *
    removed_htlc_attribution_data.push(&attribution_data);
//@with
    removed_htlc_attribution_data.push(attribution_data);
//@ret r
//@requires
    // the loop skips the HTLCs the peer only announced before it gets here
    !(state is RemoteAnnounced),
//@ensures P C12,C10 the-writer-appends-an-attribution-entry-for-exactly-the-removed-inbound-htlcs-the-reader-expects-one-for
    r is Ok && !has_removed_entry(*state) ==> final(removed_htlc_attribution_data)@ == old(removed_htlc_attribution_data)@,
    r is Ok && has_removed_entry(*state) ==> final(removed_htlc_attribution_data)@.len() == old(removed_htlc_attribution_data)@.len() + 1
        && final(removed_htlc_attribution_data)@.drop_last() == old(removed_htlc_attribution_data)@
        && *final(removed_htlc_attribution_data)@.last() == attribution_of(*state),
//@mutant attribution_of_a_claimed_inbound_htlc_not_listed
    preimage.write(writer)?; removed_htlc_attribution_data.push(&attribution_data);
//@with
    preimage.write(writer)?;
//@end
pub struct InboundHTLCOutput { pub htlc_id: u64, pub state: InboundHTLCState }
//@extract lightning/src/ln/channel.rs :: impl ReadableArgs<(&'a ES, &'b SP, &'c ChannelTypeFeatures)> for FundedChannel<SP> :: fn read
//@slice R15
    let mut removed_htlcs = pending_inbound_htlcs.iter_mut().filter_map(|status| { $body:any });
//@with
    fn record_takes_an_entry_of_the_list(status: &mut InboundHTLCOutput, attribution_data: Option<AttributionData>) -> bool {
        let slot: Option<&mut Option<AttributionData>> = { $body };
        match slot { Some(place) => { *place = attribution_data; true }, None => false } }
//@rw R16
    InboundHTLCRemovalReason::FailRelay(ref mut packet)
//@with
    InboundHTLCRemovalReason::FailRelay(packet)
//@rw R16
    InboundHTLCRemovalReason::Fulfill { ref mut attribution_data, .. }
//@with
    InboundHTLCRemovalReason::Fulfill { attribution_data, .. }
//@ret r
//@ensures P C12,C10 the-reader-hands-an-entry-of-the-list-to-exactly-the-inbound-htlcs-removed-by-a-failure-packet-or-a-claim
    r == has_removed_entry(old(status).state),
    r ==> has_removed_entry(final(status).state) && attribution_of(final(status).state) == attribution_data,
    !r ==> *final(status) == *old(status),
//@mutant claimed_inbound_htlc_skipped_when_handing_the_entries_back
    Some(attribution_data) }, _ => None, } } else { None }
//@with
    None }, _ => None, } } else { None }
//@end
}
}
fn main() {}
