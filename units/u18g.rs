//! unit: u18g
//! properties: C18
//! note: which records of an offer its stateless verification covers (OfferContents::verify, the filter in front of signer::verify_recipient_metadata, whose own contract is u18e): EVERY offer record goes into the HMAC except (a) the metadata record when the metadata is what carries the nonce and the HMAC (verification by metadata), and (b) the issuer id when the signing key is derived (it is checked by re-deriving the key). When the nonce comes from a blinded path (verify_using_recipient_data) the offer was built without a metadata record, so a metadata record IS covered: a copy of the offer with one added does not verify (finding F14). Metadata::derives_recipient_keys is extracted whole
//! trusted: R15 (deep slice): the closure body `match record.r#type { .. }` of the filter, arms verbatim, as a function of the record and the metadata; R8: `record.r#type` is written `record.ty` (raw identifier); env: Metadata with its four variants (payloads: byte vector, nonce, opaque material), PaymentId::LENGTH / Nonce::LENGTH folded from the source; OFFER_METADATA_TYPE / OFFER_ISSUER_ID_TYPE folded from the source
//! trusted: assume_specification for core::cmp::max / core::cmp::min (std definitions): present in every unit so that a change that introduces them is verified instead of being rejected by the tool
use vstd::prelude::*;
verus! {
use vstd::std_specs::cmp::*;
use core::cmp;
pub assume_specification<T: core::cmp::Ord>[core::cmp::max::<T>](a: T, b: T) -> (r: T)
    ensures T::obeys_cmp_spec() ==> r == (if b.cmp_spec(&a) == core::cmp::Ordering::Less { a } else { b });
pub assume_specification<T: core::cmp::Ord>[core::cmp::min::<T>](a: T, b: T) -> (r: T)
    ensures T::obeys_cmp_spec() ==> r == (if b.cmp_spec(&a) == core::cmp::Ordering::Less { b } else { a });
//@const lightning/src/offers/offer.rs OFFER_METADATA_TYPE OFFER_ISSUER_ID_TYPE
pub struct Nonce(pub [u8; 16]);
impl Nonce { pub const LENGTH: usize = 16; }
pub struct PaymentId(pub [u8; 32]);
impl PaymentId { pub const LENGTH: usize = 32; }
pub struct MetadataMaterial { pub id: u64 }
pub enum Metadata { Bytes(Vec<u8>), RecipientData(Nonce), Derived(MetadataMaterial), DerivedSigningPubkey(MetadataMaterial) }
pub struct TlvRecord { pub ty: u64 }
impl Metadata {
//@extract lightning/src/offers/signer.rs :: impl Metadata :: fn derives_recipient_keys
//@ret r
//@ensures A keys-are-derived-for-a-nonce-sized-metadata-a-nonce-from-a-blinded-path-and-at-building-time-when-asked-for
    r == (match *self { Metadata::Bytes(b) => b@.len() == 16, Metadata::RecipientData(_) => true, Metadata::Derived(_) => false, Metadata::DerivedSigningPubkey(_) => true }),
//@end
}
//@extract lightning/src/offers/offer.rs :: impl OfferContents :: fn verify
//@slice R15
    .filter(|record| match record.r#type { $arms:any })
//@with
    fn record_goes_into_the_hmac(record: &TlvRecord, metadata: &Metadata) -> bool { match record.ty { $arms } }
//@ret r
//@ensures P C18 every-offer-record-is-covered-by-the-hmac-except-the-metadata-that-carries-it-and-a-derived-issuer-id-and-with-a-nonce-from-a-blinded-path-an-added-metadata-record-is-covered-too
    r == (if record.ty == 4 { metadata is RecipientData }
          else if record.ty == 22 { !(match *metadata { Metadata::Bytes(b) => b@.len() == 16, Metadata::RecipientData(_) => true, Metadata::Derived(_) => false, Metadata::DerivedSigningPubkey(_) => true }) }
          else { true }),
    OFFER_METADATA_TYPE == 4 && OFFER_ISSUER_ID_TYPE == 22,   // BOLT 12: offer_metadata, offer_issuer_id
//@mutant added_metadata_record_not_covered_when_verifying_with_a_nonce_from_a_blinded_path
    OFFER_METADATA_TYPE => matches!(metadata, Metadata::RecipientData(_)),
//@with
    OFFER_METADATA_TYPE => false,
//@mutant issuer_id_left_out_of_the_hmac_when_no_key_is_derived
    OFFER_ISSUER_ID_TYPE => !metadata.derives_recipient_keys(),
//@with
    OFFER_ISSUER_ID_TYPE => false,
//@end
}
fn main() {}
