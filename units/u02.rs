//! unit: u02
//! properties: C02 C08 C04 C14 C11
//! note: also run for C11: the code it constrains lies inside mechanisms those properties name (a change made there for their sake must meet these clauses too)
//! note: forward admission arithmetic (fee and CLTV) and the timing lemma over the extracted constants
//! trusted: R15 (statement slicing): should_broadcast_holder_commitment_txn scans hash maps through a function-local macro_rules!; the unit extracts the go-on-chain test of scan_commitment! verbatim (both inequalities) as a function of (htlc, direction, height, preimage known); the scan itself is dropped and not claimed
//! trusted: R15/R18 (deep slice + captures): should_broadcast_holder_commitment_txn: the statement computing htlc_outbound inside scan_commitment! and the second argument of the macro's three invocations (our commitment, the counterparty's current and previous commitment), combined into one function of (htlc, which kind of commitment)
//! trusted: R15 (deep slice): should_broadcast_holder_commitment_txn: the early exit in front of the deadline scan (R6: `E.iter().find(|event| P).is_some()` as an index loop carrying P; the other disjuncts of the condition are captured as written); the monitor is a skeleton with the fields that describe what has been seen on chain
//! plemma: C08 lemma_forward_race / lemma_on_chain_heights_close_the_race: with the extracted constants and the extracted on-chain test, a silent or last-moment downstream peer never costs the upstream HTLC
//! trusted: R15 (statement slicing): create_recv_pending_htlc_info is ~150 lines over onion payload types; the unit extracts, on every run, its three consecutive acceptance tests (final CLTV vs onion, PaymentClaimBuffer, amount) with their conditions verbatim and checks them as one function of the variables they read; the rest of the function is dropped and not claimed
//! trusted: assume_specification for Result::or_else (std definition)
//! trusted: env: PaymentConstraints {2 fields} skeleton; BlindedHopFeatures opaque with external_body empty()/requires_unknown_bits_from() (unconstrained)
//! trusted: env: struct UpdateAddHTLC{amount_msat,cltv_expiry}, ChannelConfig{3 fields}, PaymentRelay{3 fields} are field skeletons of the real structs; enum LocalHTLCFailureReason restricted to the 6 variants used; FundedChannel/ChannelContext self skeleton (R5) whose config()/prev_config() accessors are external_body returning the two stored configs
//! trusted: R15 (deep slice): can_forward_htlc_to_outgoing_channel: the unit extracts its last two statements (minimum-amount test and the call of htlc_satisfies_config, which is checked against that function's proved contract) verbatim; the privacy / liveness pre-checks before them (all early Err returns) are dropped and not claimed; NextPacketDetails skeleton
//! trusted: R15 (deep slice): can_forward_htlc_should_intercept: the arm taken when no channel is known under the outgoing id, and the expiry test behind the match, verbatim (the fake-scid tests are uninterpreted predicates of the id; the real check_incoming_htlc_cltv extracted in this unit is the callee)
//! trusted: R15 (deep slice): process_forward_htlcs: the first three argument expressions of its queue_add_htlc call, verbatim, as a function of the three values destructured from the pending forward
//! trusted: R15 (deep slice): claim_funds_internal: the expression computing total_fee_earned_msat inside the PaymentForwarded closure, verbatim
//! trusted: R15 (deep slice): do_chain_event sweeps pending_intercepted_htlcs with a retain closure under a mutex; the unit extracts the closure's keep/fail-back test verbatim as a function of (htlc, height); the pushed failure and the log are dropped; PendingAddHTLCInfo/PendingHTLCInfo skeletons {outgoing_cltv_value}
//! trusted: R15 (deep slice): do_best_block_updated times out AddHTLC entries of the holding cell in a retain closure; the unit extracts the limit and the keep/drop test verbatim as a function of (cltv_expiry, height), and the second component of each of its three Ok result tuples (what is handed back to be failed upstream) as three one-expression functions
//! assume: intercepted forwards have outgoing_cltv_value >= HTLC_FAIL_BACK_BUFFER (they passed check_incoming_htlc_cltv); otherwise the u32 subtraction in the sweep underflows
//! assume: cur_height <= 2^31-1 (block heights)
//! assume: Logger callbacks do not panic (R3)
//! trusted: assume_specification for core::cmp::max / core::cmp::min (std definitions): present in every unit so that a change that introduces them is verified instead of being rejected by the tool
use vstd::prelude::*;
verus! {
use vstd::std_specs::cmp::*;
use core::cmp;
pub assume_specification<T: core::cmp::Ord>[core::cmp::max::<T>](a: T, b: T) -> (r: T)
    ensures T::obeys_cmp_spec() ==> r == (if b.cmp_spec(&a) == core::cmp::Ordering::Less { a } else { b });
pub assume_specification<T: core::cmp::Ord>[core::cmp::min::<T>](a: T, b: T) -> (r: T)
    ensures T::obeys_cmp_spec() ==> r == (if b.cmp_spec(&a) == core::cmp::Ordering::Less { b } else { a });
// std definition of Result::or_else (trusted)
pub assume_specification<T, E, F, O: FnOnce(E) -> Result<T, F>>[core::result::Result::<T, E>::or_else](r: Result<T, E>, op: O) -> (o: Result<T, F>)
    requires r is Err ==> op.requires((r->Err_0,)),
    ensures r is Ok ==> o == Ok::<T, F>(r->Ok_0), r is Err ==> op.ensures((r->Err_0,), o);
// ---- constants (extracted from /repo on every run) ----
//@const lightning/src/chain/channelmonitor.rs MAX_BLOCKS_FOR_CONF CLTV_CLAIM_BUFFER LATENCY_GRACE_PERIOD_BLOCKS ANTI_REORG_DELAY HTLC_FAIL_BACK_BUFFER
//@const lightning/src/ln/channelmanager.rs MIN_CLTV_EXPIRY_DELTA CLTV_FAR_FAR_AWAY MIN_FINAL_CLTV_EXPIRY_DELTA

pub enum LocalHTLCFailureReason { FeeInsufficient, IncorrectCLTVExpiry, CLTVExpiryTooSoon, CLTVExpiryTooFar, OutgoingCLTVTooSoon, AmountBelowMinimum, UnknownNextPeer }
pub struct UpdateAddHTLC { pub htlc_id: u64, pub amount_msat: u64, pub cltv_expiry: u32, pub skimmed_fee_msat: Option<u64> }   // (every numeric field of the message, so that a change reading another one is verified)
#[derive(Clone, Copy)]
pub struct ChannelConfig { pub forwarding_fee_proportional_millionths: u32, pub forwarding_fee_base_msat: u32, pub cltv_expiry_delta: u16 }
pub struct ChannelContext { pub cfg: ChannelConfig, pub prev: Option<ChannelConfig>, pub counterparty_htlc_minimum_msat: u64 }
impl ChannelContext {
    #[verifier::external_body] pub fn config(&self) -> (r: ChannelConfig) ensures r == self.cfg { unimplemented!() }
    #[verifier::external_body] pub fn prev_config(&self) -> (r: Option<ChannelConfig>) ensures r == self.prev { unimplemented!() }
    // accessors of the CURRENT config (so that a change that reads the current policy where the passed-in one is meant is verified, not rejected)
    #[verifier::external_body] pub fn get_fee_proportional_millionths(&self) -> (r: u32) ensures r == self.cfg.forwarding_fee_proportional_millionths { unimplemented!() }
    #[verifier::external_body] pub fn get_outbound_forwarding_fee_base_msat(&self) -> (r: u32) ensures r == self.cfg.forwarding_fee_base_msat { unimplemented!() }
    #[verifier::external_body] pub fn get_cltv_expiry_delta(&self) -> (r: u16) ensures r >= self.cfg.cltv_expiry_delta { unimplemented!() }
    #[verifier::external_body] pub fn get_counterparty_htlc_minimum_msat(&self) -> (r: u64) ensures r == self.counterparty_htlc_minimum_msat { unimplemented!() }
}
pub struct FundedChannel { pub context: ChannelContext }

pub open spec fn fwd_fee(amt: int, c: &ChannelConfig) -> int { amt * (c.forwarding_fee_proportional_millionths as int) / 1000000 + c.forwarding_fee_base_msat as int }

impl FundedChannel {
//@extract lightning/src/ln/channel.rs :: impl FundedChannel :: fn internal_htlc_satisfies_config
//@strip msgs
//@ret r
//@ensures P C02 forward-never-exceeds-received-less-fee-and-delta
    r is Ok ==> amt_to_forward as int + fwd_fee(amt_to_forward as int, config) <= htlc.amount_msat
             && outgoing_cltv_value as int + config.cltv_expiry_delta as int <= htlc.cltv_expiry,
//@ensures A completeness-when-fee-fits-u64
    (amt_to_forward as int * (config.forwarding_fee_proportional_millionths as int) <= u64::MAX
       && amt_to_forward as int + fwd_fee(amt_to_forward as int, config) <= htlc.amount_msat
       && outgoing_cltv_value as int + config.cltv_expiry_delta as int <= htlc.cltv_expiry) ==> r is Ok,
//@rw R9
    .and_then(|$p:ident| $body)
//@with
    .and_then(|$p: u64| -> (o: Option<u64>)
        ensures o == (if $p as int / 1000000 + config.forwarding_fee_base_msat as int <= u64::MAX { Some(($p as int / 1000000 + config.forwarding_fee_base_msat as int) as u64) } else { None::<u64> })
        { $body })
//@at body_start
    proof { assert(amt_to_forward as int * (config.forwarding_fee_proportional_millionths as int) >= 0) by (nonlinear_arith)
                requires amt_to_forward >= 0, config.forwarding_fee_proportional_millionths >= 0; }
//@mutant fee_off_by_one
    (htlc.amount_msat - fee.unwrap()) < amt_to_forward
//@with
    (htlc.amount_msat - fee.unwrap()) + 1 < amt_to_forward
//@mutant cltv_delta_ignored
    outgoing_cltv_value as u64 + config.cltv_expiry_delta as u64
//@with
    outgoing_cltv_value as u64
//@end
//@extract lightning/src/ln/channel.rs :: impl FundedChannel :: fn htlc_satisfies_config
//@strip msgs
//@ret r
//@ensures P C02 a-forward-is-admitted-only-under-the-current-or-the-still-valid-previous-fee-policy
    r is Ok ==> ((amt_to_forward as int + fwd_fee(amt_to_forward as int, &self.context.cfg) <= htlc.amount_msat
                  && outgoing_cltv_value as int + self.context.cfg.cltv_expiry_delta as int <= htlc.cltv_expiry)
              || (self.context.prev is Some
                  && amt_to_forward as int + fwd_fee(amt_to_forward as int, &self.context.prev->Some_0) <= htlc.amount_msat
                  && outgoing_cltv_value as int + self.context.prev->Some_0.cltv_expiry_delta as int <= htlc.cltv_expiry)),
//@rw R9
    .or_else(|$e:ident| $body)
//@with
    .or_else(|$e: LocalHTLCFailureReason| -> (o: Result<(), LocalHTLCFailureReason>)
        ensures o is Ok ==> self.context.prev is Some
            && amt_to_forward as int + fwd_fee(amt_to_forward as int, &self.context.prev->Some_0) <= htlc.amount_msat
            && outgoing_cltv_value as int + self.context.prev->Some_0.cltv_expiry_delta as int <= htlc.cltv_expiry
        $body)
//@mutant previous_config_used_unchecked
    self.internal_htlc_satisfies_config( htlc, amt_to_forward, outgoing_cltv_value, &prev_config, )
//@with
    Ok(())
//@end
}

// ---- the caller that admits a forward to a concrete outgoing channel (R15 slice: the last two statements of can_forward_htlc_to_outgoing_channel) ----
pub struct NextPacketDetails { pub outgoing_amt_msat: u64, pub outgoing_cltv_value: u32 }
//@extract lightning/src/ln/channelmanager.rs :: impl ChannelManager :: fn can_forward_htlc_to_outgoing_channel
//@strip msgs
//@slice R15
    if !will_intercept && !chan.context.is_live() { $live:any } $tail:any }
//@with
    fn can_forward_tail(chan: &mut FundedChannel, msg: &UpdateAddHTLC, next_packet: &NextPacketDetails) -> Result<(), LocalHTLCFailureReason> {
        $tail
    }
//@ret r
//@ensures P C02 the-channel-manager-admits-a-forward-only-with-the-onions-own-amount-and-expiry-checked-against-the-channels-policy-and-minimum
    r is Ok ==> next_packet.outgoing_amt_msat >= old(chan).context.counterparty_htlc_minimum_msat
        && ((next_packet.outgoing_amt_msat as int + fwd_fee(next_packet.outgoing_amt_msat as int, &old(chan).context.cfg) <= msg.amount_msat
                  && next_packet.outgoing_cltv_value as int + old(chan).context.cfg.cltv_expiry_delta as int <= msg.cltv_expiry)
              || (old(chan).context.prev is Some
                  && next_packet.outgoing_amt_msat as int + fwd_fee(next_packet.outgoing_amt_msat as int, &old(chan).context.prev->Some_0) <= msg.amount_msat
                  && next_packet.outgoing_cltv_value as int + old(chan).context.prev->Some_0.cltv_expiry_delta as int <= msg.cltv_expiry)),
//@mutant policy_checked_against_the_incoming_amount
    chan.htlc_satisfies_config(msg, next_packet.outgoing_amt_msat, next_packet.outgoing_cltv_value)
//@with
    chan.htlc_satisfies_config(msg, msg.amount_msat, next_packet.outgoing_cltv_value)
//@mutant below_minimum_forward_admitted
    next_packet.outgoing_amt_msat < chan.context.get_counterparty_htlc_minimum_msat()
//@with
    next_packet.outgoing_amt_msat + 1 < chan.context.get_counterparty_htlc_minimum_msat()
//@end

//@extract lightning/src/ln/onion_payment.rs :: fn check_incoming_htlc_cltv
//@ret r
//@requires
    cur_height <= 0x7fff_ffff,
//@ensures P C08 accepted-forward-expiry-window
    r is Ok <==> (
            cltv_expiry as int >= outgoing_cltv_value + min_cltv_expiry_delta
         && cltv_expiry as int > cur_height + HTLC_FAIL_BACK_BUFFER
         && cltv_expiry as int <= cur_height + CLTV_FAR_FAR_AWAY
         && outgoing_cltv_value as int > cur_height + LATENCY_GRACE_PERIOD_BLOCKS),
//@mutant expiry_off_by_one
    cltv_expiry <= cur_height + HTLC_FAIL_BACK_BUFFER as u32
//@with
    cltv_expiry < cur_height + HTLC_FAIL_BACK_BUFFER as u32
//@end

// ---- a forward to a channel we do NOT have (to be intercepted, or a phantom hop): the arm of can_forward_htlc_should_intercept that stands in for the per-channel policy, and the expiry test every forward goes through (deep R15 slice) ----
pub struct Mgr { pub id: u64 }
pub uninterp spec fn phantom_scid(m: Mgr, scid: u64) -> bool;
pub uninterp spec fn intercept_unknown(m: Mgr, scid: u64) -> bool;
pub mod fake_scid { #[allow(unused_imports)] use super::*; use vstd::prelude::*;
    #[verifier::external_body] pub fn is_valid_phantom(m: &Mgr, scid: u64, h: &Mgr) -> (r: bool) ensures r == phantom_scid(*m, scid) { unimplemented!() } }
impl Mgr {
    #[verifier::external_body] pub fn forward_needs_intercept_to_unknown_chan(&self, scid: u64) -> (r: bool) ensures r == intercept_unknown(*self, scid) { unimplemented!() }
//@extract lightning/src/ln/channelmanager.rs :: impl ChannelManager :: fn can_forward_htlc_should_intercept
//@strip msgs
//@slice R15
    Some(Err(e)) => return Err(e), None => { $arm:any }, }; check_incoming_htlc_cltv( $args:any )?; Ok(intercept)
//@with
    fn admit_a_forward_to_a_channel_we_do_not_have(&self, msg: &UpdateAddHTLC, next_hop: &NextPacketDetails, outgoing_scid: u64, cur_height: u32) -> Result<bool, LocalHTLCFailureReason> {
        let intercept = { $arm };
        check_incoming_htlc_cltv( $args )?; Ok(intercept) }
//@rw R5 ?
    &self.fake_scid_rand_bytes, outgoing_scid, &self.chain_hash,
//@with
    self, outgoing_scid, self,
//@ret r
//@requires
    cur_height <= 0x7fff_ffff,
//@ensures P C02,C08 a-forward-to-a-channel-we-do-not-have-is-admitted-only-for-a-phantom-or-interceptable-id-never-offering-more-than-arrived-with-at-least-the-minimum-cltv-delta-and-inside-the-expiry-window
    r is Ok ==> next_hop.outgoing_amt_msat <= msg.amount_msat
        && msg.cltv_expiry as int >= next_hop.outgoing_cltv_value + MIN_CLTV_EXPIRY_DELTA
        && msg.cltv_expiry as int > cur_height + HTLC_FAIL_BACK_BUFFER && msg.cltv_expiry as int <= cur_height + CLTV_FAR_FAR_AWAY
        && next_hop.outgoing_cltv_value as int > cur_height + LATENCY_GRACE_PERIOD_BLOCKS
        && (phantom_scid(*self, outgoing_scid) || intercept_unknown(*self, outgoing_scid))
        && r->Ok_0 == !phantom_scid(*self, outgoing_scid),
//@mutant forward_to_an_unknown_channel_may_offer_more_than_arrived
    if next_hop.outgoing_amt_msat > msg.amount_msat { return Err(LocalHTLCFailureReason::FeeInsufficient); }
//@with

//@mutant forward_to_an_id_that_is_neither_phantom_nor_interceptable_admitted
    } else { return Err(LocalHTLCFailureReason::UnknownNextPeer); }
//@with
    } else { true }
//@mutant skimmed_fee_tlv_counted_as_part_of_what_arrived
    if next_hop.outgoing_amt_msat > msg.amount_msat {
//@with
    if next_hop.outgoing_amt_msat > msg.amount_msat.saturating_add(msg.skimmed_fee_msat.unwrap_or(0)) {
//@end
}
// (P, C08) the end-to-end race is won for every height / expiry, given the acceptance postcondition
pub proof fn lemma_forward_race(h: int, incoming: int, outgoing: int, delta: int)
    requires delta >= MIN_CLTV_EXPIRY_DELTA, incoming >= outgoing + delta
    ensures
        // downstream silent: we go on chain LATENCY_GRACE after its expiry, need two confirmations + burial,
        // and must still be LATENCY_GRACE before the upstream expiry
        outgoing + LATENCY_GRACE_PERIOD_BLOCKS + 2 * MAX_BLOCKS_FOR_CONF + ANTI_REORG_DELAY + LATENCY_GRACE_PERIOD_BLOCKS <= incoming,
        // downstream claims at the last moment: relaying the preimage leaves the upstream peer its claim buffer
        outgoing + (LATENCY_GRACE_PERIOD_BLOCKS - 1) + LATENCY_GRACE_PERIOD_BLOCKS + CLTV_CLAIM_BUFFER <= incoming,
{}

pub proof fn lemma_div_bound(p: int, prop: int, a: int)
    requires p >= 0, prop >= 0, a == (p * 1_000_000) / (prop + 1_000_000)
    ensures 0 <= a <= p, a + (a * prop) / 1_000_000 <= p
{
    assert(a * (prop + 1_000_000) <= p * 1_000_000) by (nonlinear_arith) requires a == (p * 1_000_000) / (prop + 1_000_000), prop + 1_000_000 > 0, p >= 0;
    assert(a >= 0) by (nonlinear_arith) requires a == (p * 1_000_000) / (prop + 1_000_000), prop + 1_000_000 > 0, p >= 0;
    assert(a * prop + a * 1_000_000 <= p * 1_000_000) by (nonlinear_arith) requires a * (prop + 1_000_000) <= p * 1_000_000;
    assert(a * prop >= 0) by (nonlinear_arith) requires a >= 0, prop >= 0;
    assert(a <= p);
    assert((a * prop) / 1_000_000 <= p - a) by (nonlinear_arith) requires a * prop + a * 1_000_000 <= p * 1_000_000, a * prop >= 0;
}
// blinded forwards
pub struct PaymentRelay { pub cltv_expiry_delta: u16, pub fee_proportional_millionths: u32, pub fee_base_msat: u32 }
pub open spec fn relay_fee(a: int, r: &PaymentRelay) -> int { a * (r.fee_proportional_millionths as int) / 1000000 + r.fee_base_msat as int }

//@extract lightning/src/blinded_path/payment.rs :: fn amt_to_forward_msat
//@ret r
//@ensures P C02 blinded-forward-retains-required-fee
    r is Some ==> r->Some_0 > 0 && r->Some_0 as int + relay_fee(r->Some_0 as int, payment_relay) <= inbound_amt_msat,
//@rw R9
    let fee_for = |$a:ident : u128| $body;
//@with
    let fee_for = |$a: u128| -> (o: u128)
        requires $a <= 0xffff_ffff_ffff_ffff_ffff
        ensures o == ($a * prop) / 1_000_000 + base, o <= 0xffff_ffff_ffff_ffff_ffff * 0xffff_ffff + 0xffff_ffff
        {
            assert($a * prop <= 0xffff_ffff_ffff_ffff_ffff * 0xffff_ffff) by (nonlinear_arith) requires $a <= 0xffff_ffff_ffff_ffff_ffff, prop <= 0xffff_ffff;
            $body };
//@at before `let mut amt_to_forward`
    proof { assert(post_base_fee_inbound_amt * 1_000_000 <= 0xffff_ffff_ffff_ffff * 1_000_000) by (nonlinear_arith) requires post_base_fee_inbound_amt <= 0xffff_ffff_ffff_ffff; }
//@at before `let one_more`
    proof { lemma_div_bound(post_base_fee_inbound_amt as int, prop as int, amt_to_forward as int); }
//@mutant round_up
    (post_base_fee_inbound_amt * 1_000_000) / (prop + 1_000_000)
//@with
    (post_base_fee_inbound_amt * 1_000_000 + prop) / (prop + 1_000_000)
//@end

// ---- blinded forwards: constraints and the (amount, expiry) handed downstream ----
pub struct PaymentConstraints { pub max_cltv_expiry: u32, pub htlc_minimum_msat: u64 }
pub struct BlindedHopFeatures {}
impl BlindedHopFeatures {
    #[verifier::external_body] pub fn empty() -> BlindedHopFeatures { unimplemented!() }
    #[verifier::external_body] pub fn requires_unknown_bits_from(&self, other: &BlindedHopFeatures) -> bool { unimplemented!() }
}
//@extract lightning/src/ln/onion_payment.rs :: fn check_blinded_payment_constraints
//@ret r
//@ensures A blinded-payment-constraints-are-exactly-minimum-amount-and-maximum-expiry
    r is Ok <==> (amt_msat >= constraints.htlc_minimum_msat && cltv_expiry <= constraints.max_cltv_expiry)
//@mutant minimum_not_enforced
    amt_msat < constraints.htlc_minimum_msat ||
//@with
    amt_msat + 1 < constraints.htlc_minimum_msat ||
//@end
//@extract lightning/src/ln/onion_payment.rs :: fn check_blinded_forward
//@strip blinded_path payment
//@ret r
//@ensures P C02 blinded-forward-offers-downstream-no-more-than-received-less-the-relay-fee-and-exactly-the-cltv-delta-less
    r is Ok ==> ({
        let (a, c) = r->Ok_0;
        &&& a > 0 && a as int + relay_fee(a as int, payment_relay) <= inbound_amt_msat
        &&& c as int + payment_relay.cltv_expiry_delta as int == inbound_cltv_expiry
        &&& inbound_amt_msat >= payment_constraints.htlc_minimum_msat && inbound_cltv_expiry <= payment_constraints.max_cltv_expiry
    }),
//@mutant cltv_delta_not_subtracted
    inbound_cltv_expiry.checked_sub( payment_relay.cltv_expiry_delta as u32 )
//@with
    inbound_cltv_expiry.checked_sub( 0 as u32 )
//@end

// ---- final hop (R15 statement slicing): the three acceptance tests of create_recv_pending_htlc_info, in their order ----
//@extract lightning/src/ln/onion_payment.rs :: fn create_recv_pending_htlc_info
//@rw R15
    fn create_recv_pending_htlc_info($params:any) -> $ret { $pre:any if $c1 { return Err(InboundHTLCErr { msg: $m1, reason: LocalHTLCFailureReason::FinalIncorrectCLTVExpiry, $r1:any }) } if $c2 { return Err(InboundHTLCErr { reason: LocalHTLCFailureReason::PaymentClaimBuffer, $r2:any }); } if $c3 { return Err(InboundHTLCErr { reason: LocalHTLCFailureReason::FinalIncorrectHTLCAmount, $r3:any }); } $post:any }
//@with
    fn final_hop_acceptance_tests(onion_cltv_expiry: u32, cltv_expiry: u32, current_height: u32, allow_underpay: bool, onion_amt_msat: u64, amt_msat: u64, counterparty_skimmed_fee_msat: Option<u64>) -> Result<(), u8> {
        if $c1 { return Err(1); }
        if $c2 { return Err(2); }
        if $c3 { return Err(3); }
        Ok(())
    }
//@ret r
//@requires
    current_height <= 0x7fff_ffff,
//@ensures P C08,C04 accepted-final-hop-HTLC-leaves-more-than-the-fail-back-buffer-before-expiry-and-carries-at-least-the-onion-amount
    r is Ok ==> cltv_expiry as int > current_height + HTLC_FAIL_BACK_BUFFER + 1 && onion_cltv_expiry <= cltv_expiry,
    // hence the claim deadline advertised in PaymentClaimable (expiry - HTLC_FAIL_BACK_BUFFER) is still more than one block away
    r is Ok ==> cltv_expiry as int - HTLC_FAIL_BACK_BUFFER as int > current_height + 1,
    r is Ok ==> (if allow_underpay { onion_amt_msat as int <= amt_msat as int + (if counterparty_skimmed_fee_msat is Some { counterparty_skimmed_fee_msat->Some_0 as int } else { 0 }) || amt_msat as int + (if counterparty_skimmed_fee_msat is Some { counterparty_skimmed_fee_msat->Some_0 as int } else { 0 }) > u64::MAX }
                 else { onion_amt_msat <= amt_msat }),
//@mutant final_hop_buffer_shortened
    cltv_expiry <= current_height + HTLC_FAIL_BACK_BUFFER + 1
//@with
    cltv_expiry <= current_height + 1
//@mutant underpaying_final_htlc_accepted
    (!allow_underpay && onion_amt_msat > amt_msat)
//@with
    (!allow_underpay && onion_amt_msat > amt_msat.saturating_mul(2))
//@end

// ---- when the monitor goes on chain for an HTLC (R15 slice of should_broadcast_holder_commitment_txn's scan_commitment! test) ----
pub struct HTLCOutputInCommitment { pub cltv_expiry: u32, pub offered: bool }
//@extract lightning/src/chain/channelmonitor.rs :: impl ChannelMonitorImpl :: fn should_broadcast_holder_commitment_txn
//@rw R15
    fn should_broadcast_holder_commitment_txn<L: Logger>($params:any) -> $ret { $p1:any macro_rules! scan_commitment { ($mp:any) => { for ref htlc in $it { let htlc_outbound = $ho; if ( htlc_outbound && $a ) || ( !htlc_outbound && $b && self.payment_preimages.contains_key(&htlc.payment_hash) ) { $x:any } } } } $q:any }
//@with
    fn must_go_on_chain_for(htlc: &HTLCOutputInCommitment, htlc_outbound: bool, height: u32, preimage_known: bool) -> bool {
        ( htlc_outbound && $a ) || ( !htlc_outbound && $b && preimage_known )
    }
//@ret r
//@requires
    height <= 0x7fff_ffff, htlc.cltv_expiry <= 0x7fff_ffff,
//@ensures P C08 monitor-goes-on-chain-a-grace-period-after-an-outbound-expiry-and-a-claim-buffer-before-an-inbound-expiry-with-known-preimage
    r == ((htlc_outbound && height as int >= htlc.cltv_expiry + LATENCY_GRACE_PERIOD_BLOCKS)
       || (!htlc_outbound && preimage_known && height as int >= htlc.cltv_expiry as int - CLTV_CLAIM_BUFFER as int)),
//@mutant goes_on_chain_one_block_late_for_claimable_inbound
    htlc.cltv_expiry <= height + CLTV_CLAIM_BUFFER
//@with
    htlc.cltv_expiry < height + CLTV_CLAIM_BUFFER
//@end
//@extract lightning/src/chain/channelmonitor.rs :: impl ChannelMonitorImpl :: fn should_broadcast_holder_commitment_txn
//@metavars
//@capture R15
    scan_commitment!(holder_commitment_htlcs!(self, CURRENT), $own:seq);
//@capture R15 nth=1
    scan_commitment!(htlc_outputs.iter().map(|&(ref a, _)| a), $cp1:seq);
//@capture R15 nth=2
    scan_commitment!(htlc_outputs.iter().map(|&(ref a, _)| a), $cp2:seq);
//@slice R15
    let htlc_outbound = $ho:seq; if (
//@with
    fn htlc_is_ours_to_time_out(htlc: &HTLCOutputInCommitment, which_commitment: u8) -> bool {
        // 0: our current commitment, 1: the counterparty's current one, anything else: the counterparty's previous one
        let m_holder_tx = if which_commitment == 0 { $own } else if which_commitment == 1 { $cp1 } else { $cp2 };
        let htlc_outbound = $ho; htlc_outbound
    }
//@ret r
//@ensures P C08 an-htlc-counts-as-outbound-when-we-offered-it-on-our-own-commitment-or-were-offered-it-on-either-unrevoked-counterparty-commitment
    r == ((which_commitment == 0) == htlc.offered),
//@mutant counterparty_commitments_scanned_as_if_ours
    scan_commitment!(htlc_outputs.iter().map(|&(ref a, _)| a), false); } } if let Some(ref txid) = self.funding.prev_counterparty_commitment_txid
//@with
    scan_commitment!(htlc_outputs.iter().map(|&(ref a, _)| a), true); } } if let Some(ref txid) = self.funding.prev_counterparty_commitment_txid
//@end
// the only case in which the deadlines are not looked at: a spend of the funding output is already in a block
pub struct SpendTxid { pub id: u64 }
pub enum MonOnchainEvent { FundingSpendConfirmation { on_local_output_csv: Option<u16> }, HTLCUpdate { id: u64 }, MaturingOutput { id: u64 }, Other }
pub struct MonEventEntry { pub height: u32, pub event: MonOnchainEvent }
pub struct DeadlineMonitor { pub funding_spend_confirmed: Option<SpendTxid>, pub funding_spend_seen: bool, pub holder_tx_signed: bool, pub alternative_funding_confirmed: Option<(SpendTxid, u32)>, pub onchain_events_awaiting_threshold_conf: Vec<MonEventEntry> }
pub open spec fn funding_spend_in_a_block(m: &DeadlineMonitor) -> bool {
    m.funding_spend_confirmed is Some || (exists|k: int| 0 <= k < m.onchain_events_awaiting_threshold_conf@.len() && (#[trigger] m.onchain_events_awaiting_threshold_conf@[k]).event is FundingSpendConfirmation)
}
impl DeadlineMonitor {
//@extract lightning/src/chain/channelmonitor.rs :: impl ChannelMonitorImpl :: fn should_broadcast_holder_commitment_txn
//@rw R4 *
    OnchainEvent::
//@with
    MonOnchainEvent::
//@slice R15
    if $pre:seq self.onchain_events_awaiting_threshold_conf.iter().find(|event| $p:seq).is_some() { return None; }
//@with
    fn htlc_deadlines_are_not_looked_at(&self) -> bool {
        // R6: `E.iter().find(|event| P).is_some()` as an index loop carrying P verbatim
        let mut __found = false; let mut __i: usize = 0;
        while __i < self.onchain_events_awaiting_threshold_conf.len()
            invariant __i <= self.onchain_events_awaiting_threshold_conf@.len(), __found == (exists|k: int| 0 <= k < __i && (#[trigger] self.onchain_events_awaiting_threshold_conf@[k]).event is FundingSpendConfirmation),
            decreases self.onchain_events_awaiting_threshold_conf@.len() - __i
        { let event = &self.onchain_events_awaiting_threshold_conf[__i]; let __b: bool = $p; if __b { __found = true; } __i = __i + 1; }
        if $pre __found { return true; }
        false
    }
//@ret r
//@ensures P C08 the-monitor-stops-watching-htlc-deadlines-only-once-a-spend-of-the-funding-output-is-in-a-block-and-in-no-other-state
    r == funding_spend_in_a_block(self),
//@mutant deadlines_ignored_while_a_splice_is_confirmed_but_not_locked
    if self.funding_spend_confirmed.is_some() ||
//@with
    if self.funding_spend_confirmed.is_some() || self.alternative_funding_confirmed.is_some() ||
//@end
}
// ---- what is actually offered downstream (deep R15 slice of ChannelManager::process_forward_htlcs: the first three arguments of the queue_add_htlc call) ----
#[derive(Clone, Copy)] pub struct FwdPaymentHash(pub [u8; 32]);
//@extract lightning/src/ln/channelmanager.rs :: impl ChannelManager :: fn process_forward_htlcs
//@slice R15
    optimal_channel.queue_add_htlc( $a1, $a2, $a3, htlc_source.clone(), $rest:any )
//@with
    fn values_offered_downstream(outgoing_amt_msat: &u64, payment_hash: &FwdPaymentHash, outgoing_cltv_value: &u32) -> (u64, FwdPaymentHash, u32) { ($a1, $a2, $a3) }
//@ret r
//@ensures P C02,C14 the-htlc-offered-downstream-carries-exactly-the-amount-payment-hash-and-expiry-the-onion-prescribed-and-that-forward-admission-checked
    r.0 == *outgoing_amt_msat && r.1 == *payment_hash && r.2 == *outgoing_cltv_value,
//@end

// ---- what a completed forward earned (deep R15 slice of ChannelManager::claim_funds_internal) ----
//@extract lightning/src/ln/channelmanager.rs :: impl ChannelManager :: fn claim_funds_internal
//@slice R15
    |htlc_claim_value_msat: Option<u64>| -> Option<events::Event> { let total_fee_earned_msat = $fee; debug_assert!
//@with
    fn forward_fee_earned(htlc_claim_value_msat: Option<u64>, forwarded_htlc_value_msat: u64) -> Option<u64> { $fee }
//@ret r
//@requires
    // what forward admission established (internal_htlc_satisfies_config above): the amount claimed upstream covers the amount paid downstream
    htlc_claim_value_msat is Some ==> htlc_claim_value_msat->Some_0 >= forwarded_htlc_value_msat,
//@ensures P C02 the-fee-reported-for-a-forward-is-what-was-claimed-upstream-minus-what-was-paid-downstream
    r == (if htlc_claim_value_msat is Some { Some((htlc_claim_value_msat->Some_0 - forwarded_htlc_value_msat) as u64) } else { None::<u64> }),
//@mutant fee_reported_as_the_whole_claimed_amount
    Some(claimed_htlc_value - forwarded_htlc_value_msat)
//@with
    Some(claimed_htlc_value)
//@end

// ---- when a held (intercepted) forward is given up (deep R15 slice of do_chain_event's sweep over pending_intercepted_htlcs) ----
pub struct PendingHTLCInfo { pub outgoing_cltv_value: u32 }
pub struct PendingAddHTLCInfo { pub forward_info: PendingHTLCInfo }
//@extract lightning/src/ln/channelmanager.rs :: impl ChannelManager :: fn do_chain_event
//@slice R15
    intercepted_htlcs.retain(|_, htlc| { if $cond { $body:any false } else { true } });
//@with
    fn intercepted_htlc_is_failed_back(htlc: &PendingAddHTLCInfo, height: u32) -> bool {
        if $cond { false } else { true }
    }
//@ret kept
//@requires
    htlc.forward_info.outgoing_cltv_value >= HTLC_FAIL_BACK_BUFFER, height <= 0x7fff_ffff,
//@ensures P C08 a-held-forward-that-is-not-failed-back-still-has-more-than-the-fail-back-buffer-to-run
    kept <==> height as int + HTLC_FAIL_BACK_BUFFER < htlc.forward_info.outgoing_cltv_value,
//@mutant held_forward_kept_until_the_grace_period
    HTLC_FAIL_BACK_BUFFER
//@with
    LATENCY_GRACE_PERIOD_BLOCKS
//@end
// ---- when an HTLC still waiting in the holding cell is given up (deep R15 slice of FundedChannel::do_best_block_updated) ----
//@extract lightning/src/ln/channel.rs :: impl FundedChannel :: fn do_best_block_updated
//@slice R15
    let unforwarded_htlc_cltv_limit = $limit; self.context.holding_cell_htlc_updates.retain(|htlc_update| { match htlc_update { &HTLCUpdateAwaitingACK::AddHTLC { ref payment_hash, ref source, ref cltv_expiry, .. } => { if $cond { $push:any false } else { true } }, _ => true } });
//@with
    fn holding_cell_add_is_kept(cltv_expiry: &u32, height: u32) -> bool {
        let unforwarded_htlc_cltv_limit = $limit;
        if $cond { false } else { true }
    }
//@ret kept
//@requires
    height <= 0x7fff_ffff,
//@ensures P C08 an-add-still-in-the-holding-cell-is-released-only-while-it-passes-the-same-outgoing-expiry-test-as-a-fresh-forward
    kept <==> *cltv_expiry as int > height + LATENCY_GRACE_PERIOD_BLOCKS,
//@mutant holding_cell_add_kept_at_the_limit
    *cltv_expiry <= unforwarded_htlc_cltv_limit
//@with
    *cltv_expiry < unforwarded_htlc_cltv_limit
//@end
// ---- ... and every successful exit of do_best_block_updated hands those timed-out HTLCs back to be failed upstream (three deep R15 slices: the second component of each Ok tuple) ----
pub struct TimedOutHTLC { pub id: u64 }
//@extract lightning/src/ln/channel.rs :: impl FundedChannel :: fn do_best_block_updated
//@slice R15
    return Ok((Some(FundingConfirmedMessage::Establishment(channel_ready)), $second, announcement_sigs));
//@with
    fn handed_back_with_channel_ready(timed_out_htlcs: Vec<TimedOutHTLC>) -> Vec<TimedOutHTLC> { $second }
//@ret r
//@ensures P C08 htlcs-timed-out-of-the-holding-cell-are-handed-back-when-channel_ready-is-generated-in-the-same-block
    r@ == timed_out_htlcs@,
//@end
//@extract lightning/src/ln/channel.rs :: impl FundedChannel :: fn do_best_block_updated
//@slice R15
    return Ok((Some(FundingConfirmedMessage::Splice($args:any)), $second, announcement_sigs));
//@with
    fn handed_back_with_splice_locked(timed_out_htlcs: Vec<TimedOutHTLC>) -> Vec<TimedOutHTLC> { $second }
//@ret r
//@ensures P C08 htlcs-timed-out-of-the-holding-cell-are-handed-back-when-splice_locked-is-generated-in-the-same-block
    r@ == timed_out_htlcs@,
//@end
//@extract lightning/src/ln/channel.rs :: impl FundedChannel :: fn do_best_block_updated
//@slice R15
    Ok((None, $second, announcement_sigs)) }
//@with
    fn handed_back_otherwise(timed_out_htlcs: Vec<TimedOutHTLC>) -> Vec<TimedOutHTLC> { $second }
//@ret r
//@ensures P C08 htlcs-timed-out-of-the-holding-cell-are-handed-back-on-the-ordinary-exit
    r@ == timed_out_htlcs@,
//@end
// (P, C08) with the heights above, the forwarding race of lemma_forward_race is the one the monitor really runs:
// downstream silent => on chain at outgoing + LATENCY; upstream claimable (preimage known) => on chain from incoming - CLTV_CLAIM_BUFFER
pub proof fn lemma_on_chain_heights_close_the_race(incoming: int, outgoing: int, delta: int)
    requires delta >= MIN_CLTV_EXPIRY_DELTA, incoming >= outgoing + delta
    ensures
        // the downstream timeout path (on chain at outgoing + LATENCY, two confirmations, burial) completes a grace period before
        // the upstream HTLC expires
        outgoing + LATENCY_GRACE_PERIOD_BLOCKS + 2 * MAX_BLOCKS_FOR_CONF + ANTI_REORG_DELAY + LATENCY_GRACE_PERIOD_BLOCKS <= incoming,
        // the upstream claim path starts (incoming - CLTV_CLAIM_BUFFER) no earlier than a preimage learned at the last moment downstream
        outgoing + (LATENCY_GRACE_PERIOD_BLOCKS - 1) + LATENCY_GRACE_PERIOD_BLOCKS <= incoming - CLTV_CLAIM_BUFFER,
{ lemma_forward_race(0, incoming, outgoing, delta); }
}
fn main() {}
