//! unit: u03c
//! properties: C03 C10 C02 C08 C07
//! note: restart, which outbound HTLCs of a closed channel the monitor reports as failed on chain (ChannelMonitor::get_onchain_failed_outbound_htlcs): an HTLC already reported to the user is not reported again; an HTLC the confirmed commitment does not contain is reported failed; one it contains without an output (dust) is reported failed; one with an output is reported failed only if the resolution recorded for THAT output of the confirmed commitment carries no preimage, and is otherwise still awaited; and which HTLC list stands for the confirmed commitment: the current holder commitment's for its txid, the previous one's for the previous txid, none otherwise
//! trusted: R15/R18 (deep slice of the function-local macro walk_htlcs!): the body of the loop over the candidate HTLCs, with its tests and reported hashes carried verbatim through captures inside a hand-written skeleton: the iterator `find` over the confirmed commitment's HTLCs and the `filter(..).next()` over the recorded resolutions are index loops returning the FIRST match (std definitions), `continue` is `return None`, `res.insert(source.clone(), H)` is `return Some(H)`; the set of HTLCs already reported is an environment set (contains with the std contract); SentHTLCId::from_source uninterpreted; R8: equality of optional sources / optional output indices through structural-equality wrappers
//! trusted: R15 (deep slice): the chain of tests that picks the holder commitment whose HTLCs are walked, the macro argument of each branch read through the two-arm macro which_holder_htlcs! (CURRENT_WITH_SOURCES / PREV_WITH_SOURCES); `X.trust().txid()` is the stub txid of the commitment skeleton
//! trusted: R15 (deep slices): check_spend_holder_transaction: the Option chain that recognises the confirmed transaction (closure bodies and flags carried verbatim into closures with typed headers and ensures, R9; assume_specification for Option::filter and Option::or_else, std definitions) and the two fail_unbroadcast_htlcs! invocations' HTLC-set argument
//! trusted: assume_specification for core::cmp::max / core::cmp::min (std definitions): present in every unit so that a change that introduces them is verified instead of being rejected by the tool
use vstd::prelude::*;
verus! {
use vstd::std_specs::cmp::*;
use core::cmp;
pub assume_specification<T: core::cmp::Ord>[core::cmp::max::<T>](a: T, b: T) -> (r: T)
    ensures T::obeys_cmp_spec() ==> r == (if b.cmp_spec(&a) == core::cmp::Ordering::Less { a } else { b });
pub assume_specification<T: core::cmp::Ord>[core::cmp::min::<T>](a: T, b: T) -> (r: T)
    ensures T::obeys_cmp_spec() ==> r == (if b.cmp_spec(&a) == core::cmp::Ordering::Less { b } else { a });
#[derive(Clone, Copy)] pub struct PaymentHash(pub [u8; 32]);
#[derive(Clone, Copy)] pub struct PaymentPreimage(pub [u8; 32]);
#[derive(Clone, Copy)] pub struct SentHTLCId { pub of: u64 }
#[derive(Clone, Copy)] pub struct HTLCSource { pub id: u64 }
pub uninterp spec fn sent_id(s: HTLCSource) -> SentHTLCId;
impl SentHTLCId { #[verifier::external_body] pub fn from_source(s: &HTLCSource) -> (r: SentHTLCId) ensures r == sent_id(*s) { unimplemented!() } }
pub struct HTLCOutputInCommitment { pub payment_hash: PaymentHash, pub transaction_output_index: Option<u32>, pub amount_msat: u64 }
pub struct IrrevocablyResolvedHTLC { pub commitment_tx_output_idx: Option<u32>, pub payment_preimage: Option<PaymentPreimage> }
pub struct IdSet { pub s: Ghost<Set<SentHTLCId>> }
impl IdSet { #[verifier::external_body] pub fn contains(&self, k: &SentHTLCId) -> (r: bool) ensures r == self.s@.contains(*k) { unimplemented!() } }
pub struct Mon { pub htlcs_resolved_to_user: IdSet, pub htlcs_resolved_on_chain: Vec<IrrevocablyResolvedHTLC> }
#[verifier::external_body] pub fn opt_src_eq(a: Option<&HTLCSource>, b: &Option<HTLCSource>) -> (r: bool) ensures r == (match (a, *b) { (Some(x), Some(y)) => *x == y, (None, None) => true, _ => false }) { unimplemented!() }
#[verifier::external_body] pub fn opt_idx_eq(a: Option<u32>, b: Option<u32>) -> (r: bool) ensures r == (a == b) { a == b }
pub open spec fn first_with_source(l: Seq<(HTLCOutputInCommitment, Option<HTLCSource>)>, s: HTLCSource, i: int) -> bool {
    0 <= i < l.len() && l[i].1 == Some(s) && forall|k: int| 0 <= k < i ==> l[k].1 != Some(s)
}
pub open spec fn first_resolution_of(l: Seq<IrrevocablyResolvedHTLC>, idx: Option<u32>, j: int) -> bool {
    0 <= j < l.len() && l[j].commitment_tx_output_idx == idx && forall|k: int| 0 <= k < j ==> l[k].commitment_tx_output_idx != idx
}
//@extract lightning/src/chain/channelmonitor.rs :: impl ChannelMonitor :: fn get_onchain_failed_outbound_htlcs
//@metavars
//@slice R15
    let htlc_id = SentHTLCId::from_source(source); if $seen:cond { continue; } let confirmed = m_htlc_iter.find(|(_, conf_src)| $same:seq); if let Some((confirmed_htlc, _)) = confirmed { let filter = |v: &&IrrevocablyResolvedHTLC| { $f:seq }; if $dust:cond { res.insert(source.clone(), $h1:seq); } else if let Some(state) = us.htlcs_resolved_on_chain.iter().filter(filter).next() { if $nopre:cond { res.insert(source.clone(), $h2:seq); } } } else { res.insert(source.clone(), $h3:seq); }
//@with
    fn whether_a_candidate_htlc_is_reported_failed(us: &Mon, source: &HTLCSource, candidate_htlc: &HTLCOutputInCommitment, confirmed_htlcs: &Vec<(HTLCOutputInCommitment, Option<HTLCSource>)>) -> Option<PaymentHash> {
        let htlc_id = SentHTLCId::from_source(source);
        if $seen { return None; }
        let mut confirmed: Option<usize> = None;
        let mut i: usize = 0;
        while i < confirmed_htlcs.len()
            invariant_except_break confirmed is None, forall|k: int| 0 <= k < i ==> confirmed_htlcs@[k].1 != Some(*source),
            invariant 0 <= i <= confirmed_htlcs@.len(), !us.htlcs_resolved_to_user.s@.contains(sent_id(*source)),
            ensures (confirmed is Some ==> first_with_source(confirmed_htlcs@, *source, confirmed->Some_0 as int)), !us.htlcs_resolved_to_user.s@.contains(sent_id(*source)),
                (confirmed is None ==> forall|k: int| 0 <= k < confirmed_htlcs@.len() ==> confirmed_htlcs@[k].1 != Some(*source)),
            decreases confirmed_htlcs@.len() - i,
        {
            let conf_src = &confirmed_htlcs[i].1;
            if $same { confirmed = Some(i); break; }
            i += 1;
        }
        if let Some(ci) = confirmed {
            let confirmed_htlc = &confirmed_htlcs[ci].0;
            if $dust { return Some($h1); }
            let mut j: usize = 0;
            while j < us.htlcs_resolved_on_chain.len()
                invariant 0 <= j <= us.htlcs_resolved_on_chain@.len(), forall|k: int| 0 <= k < j ==> us.htlcs_resolved_on_chain@[k].commitment_tx_output_idx != confirmed_htlc.transaction_output_index,
                    !us.htlcs_resolved_to_user.s@.contains(sent_id(*source)), first_with_source(confirmed_htlcs@, *source, ci as int), *confirmed_htlc == confirmed_htlcs@[ci as int].0,
                    confirmed_htlc.transaction_output_index is Some,
                decreases us.htlcs_resolved_on_chain@.len() - j,
            {
                let state = &us.htlcs_resolved_on_chain[j];
                let v = &state;
                if $f { if $nopre { return Some($h2); } return None; }
                j += 1;
            }
            None
        } else { Some($h3) }
    }
//@rw R8
    Some(source) == *conf_src
//@with
    opt_src_eq(Some(source), conf_src)
//@rw R8
    if v.commitment_tx_output_idx == $b:cond {
//@with
    if opt_idx_eq(v.commitment_tx_output_idx, $b) {
//@ret r
//@ensures P C03,C10,C02,C08 on-restart-an-htlc-is-reported-failed-on-chain-only-if-it-was-not-yet-reported-and-the-buried-commitment-lacks-it-or-holds-it-as-dust-or-the-resolution-recorded-for-its-own-output-there-carries-no-preimage
    us.htlcs_resolved_to_user.s@.contains(sent_id(*source)) ==> r is None,
    !us.htlcs_resolved_to_user.s@.contains(sent_id(*source)) ==> (
        (forall|k: int| 0 <= k < confirmed_htlcs@.len() ==> confirmed_htlcs@[k].1 != Some(*source)) ==> r == Some(candidate_htlc.payment_hash)),
    !us.htlcs_resolved_to_user.s@.contains(sent_id(*source)) ==> (forall|i: int| first_with_source(confirmed_htlcs@, *source, i) ==> ({
        let c = confirmed_htlcs@[i].0;
        &&& (c.transaction_output_index is None ==> r == Some(c.payment_hash))
        &&& (c.transaction_output_index is Some ==> (forall|j: int| first_resolution_of(us.htlcs_resolved_on_chain@, c.transaction_output_index, j) ==>
                r == (if us.htlcs_resolved_on_chain@[j].payment_preimage is None { Some(c.payment_hash) } else { None::<PaymentHash> })))
        &&& (c.transaction_output_index is Some && (forall|k: int| 0 <= k < us.htlcs_resolved_on_chain@.len() ==> us.htlcs_resolved_on_chain@[k].commitment_tx_output_idx != c.transaction_output_index) ==> r is None)
    })),
//@mutant resolution_looked_up_under_the_index_in_another_commitment
    v.commitment_tx_output_idx == confirmed_htlc.transaction_output_index
//@with
    v.commitment_tx_output_idx == candidate_htlc.transaction_output_index
//@mutant htlc_with_a_claimed_output_reported_failed
    if state.payment_preimage.is_none() {
//@with
    if state.payment_preimage.is_some() {
//@mutant already_reported_htlc_reported_again
    if us.htlcs_resolved_to_user.contains(&htlc_id) { continue; }
//@with
    if !us.htlcs_resolved_to_user.contains(&htlc_id) { continue; }
//@end

// ---- which holder commitment's HTLCs stand for the confirmed transaction ----
#[derive(Clone, Copy)] pub struct Txid(pub u64);
impl vstd::std_specs::cmp::PartialEqSpecImpl for Txid { open spec fn obeys_eq_spec() -> bool { true } open spec fn eq_spec(&self, other: &Txid) -> bool { self.0 == other.0 } }
impl PartialEq for Txid { fn eq(&self, o: &Txid) -> (r: bool) { self.0 == o.0 } }
pub struct Trusted { pub id: Txid }
impl Trusted { #[verifier::external_body] pub fn txid(&self) -> (r: Txid) ensures r == self.id { unimplemented!() } }
pub struct HolderCommitment { pub id: Txid }
impl HolderCommitment { #[verifier::external_body] pub fn trust(&self) -> (r: Trusted) ensures r.id == self.id { unimplemented!() } }
pub struct FundingScope { pub current_holder_commitment_tx: HolderCommitment, pub prev_holder_commitment_tx: Option<HolderCommitment> }
pub enum Which { CurrentHolder, PrevHolder, Neither }
// reads the HTLC-set argument of the macro invocation, with or without a trailing `.unwrap()`
macro_rules! which_holder_htlcs { (holder_commitment_htlcs!($u:ident, CURRENT_WITH_SOURCES) $($rest:tt)*) => { Which::CurrentHolder }; (holder_commitment_htlcs!($u:ident, PREV_WITH_SOURCES) $($rest:tt)*) => { Which::PrevHolder }; }
//@extract lightning/src/chain/channelmonitor.rs :: impl ChannelMonitor :: fn get_onchain_failed_outbound_htlcs
//@slice R15
    } else if $c2:cond { walk_htlcs!($w1:seq); } else if let Some(prev_commitment_tx) = &funding.prev_holder_commitment_tx { if $c3:cond { walk_htlcs!($w2:seq); } else {
//@with
    fn holder_commitment_whose_htlcs_stand_for_the_confirmed_transaction(confirmed_txid: Txid, funding: &FundingScope) -> Which {
        if $c2 { which_holder_htlcs!($w1) } else if let Some(prev_commitment_tx) = &funding.prev_holder_commitment_tx { if $c3 { which_holder_htlcs!($w2) } else { Which::Neither } } else { Which::Neither } }
//@ret r
//@ensures P C03,C10 when-one-of-our-own-commitments-confirmed-the-htlcs-compared-against-are-those-of-that-very-commitment-the-current-ones-for-the-current-txid-the-previous-ones-for-the-previous-txid
    confirmed_txid == funding.current_holder_commitment_tx.id ==> r is CurrentHolder,
    confirmed_txid != funding.current_holder_commitment_tx.id && funding.prev_holder_commitment_tx is Some && confirmed_txid == funding.prev_holder_commitment_tx->Some_0.id ==> r is PrevHolder,
    confirmed_txid != funding.current_holder_commitment_tx.id && (funding.prev_holder_commitment_tx is None || confirmed_txid != funding.prev_holder_commitment_tx->Some_0.id) ==> r is Neither,
//@mutant previous_holder_commitment_walked_with_the_current_htlcs
    walk_htlcs!(holder_commitment_htlcs!(us, PREV_WITH_SOURCES).unwrap());
//@with
    walk_htlcs!(holder_commitment_htlcs!(us, CURRENT_WITH_SOURCES));
//@end

// ---- check_spend_holder_transaction: which of our commitments a confirmed transaction is, and whose HTLCs are compared with it ----
pub assume_specification<T, P: FnOnce(&T) -> bool>[Option::<T>::filter](o: Option<T>, p: P) -> (r: Option<T>)
    requires o is Some ==> p.requires((&o->Some_0,)),
    ensures o is None ==> r is None, o is Some ==> (r == o || r is None), o is Some ==> p.ensures((&o->Some_0,), r is Some);
pub assume_specification<T, F: FnOnce() -> Option<T>>[Option::<T>::or_else](o: Option<T>, f: F) -> (r: Option<T>)
    requires o is None ==> f.requires(()),
    ensures o is Some ==> r == o, o is None ==> f.ensures((), r);
//@extract lightning/src/chain/channelmonitor.rs :: impl ChannelMonitorImpl :: fn check_spend_holder_transaction
//@slice R15
    let holder_commitment_tx = Some((&funding_spent.current_holder_commitment_tx, $f1:seq)) .filter(|(current_holder_commitment_tx, _)| { $b1:seq }) .or_else(|| { funding_spent .prev_holder_commitment_tx .as_ref() .map(|prev_holder_commitment_tx| (prev_holder_commitment_tx, $f2:seq)) .filter(|(prev_holder_commitment_tx, _)| { $b2:seq }) });
//@with
    fn holder_commitment_that_confirmed<'a>(funding_spent: &'a FundingScope, commitment_txid: Txid) -> Option<(&'a HolderCommitment, bool)> {
        Some((&funding_spent.current_holder_commitment_tx, $f1))
            .filter(|p: &(&HolderCommitment, bool)| -> (b: bool) ensures b == (p.0.id == commitment_txid) { let current_holder_commitment_tx = p.0; $b1 })
            .or_else(|| -> (o: Option<(&'a HolderCommitment, bool)>)
                ensures o == (match funding_spent.prev_holder_commitment_tx { Some(pc) => if pc.id == commitment_txid { Some((&pc, false)) } else { None::<(&'a HolderCommitment, bool)> }, None => None::<(&'a HolderCommitment, bool)> })
            {
                funding_spent.prev_holder_commitment_tx.as_ref()
                    .map(|prev_holder_commitment_tx: &'a HolderCommitment| -> (q: (&'a HolderCommitment, bool)) ensures q == (prev_holder_commitment_tx, false) { (prev_holder_commitment_tx, $f2) })
                    .filter(|p: &(&HolderCommitment, bool)| -> (b: bool) ensures b == (p.0.id == commitment_txid) { let prev_holder_commitment_tx = p.0; $b2 })
            })
    }
//@ret r
//@ensures P C07,C03 a-confirmed-transaction-is-recognised-as-our-current-commitment-by-its-txid-and-only-otherwise-as-the-previous-one-and-is-flagged-accordingly
    funding_spent.current_holder_commitment_tx.id == commitment_txid ==> r == Some((&funding_spent.current_holder_commitment_tx, true)),
    funding_spent.current_holder_commitment_tx.id != commitment_txid ==> r == (match funding_spent.prev_holder_commitment_tx { Some(pc) => if pc.id == commitment_txid { Some((&pc, false)) } else { None::<(&HolderCommitment, bool)> }, None => None::<(&HolderCommitment, bool)> }),
//@mutant previous_commitment_flagged_as_the_current_one
    .map(|prev_holder_commitment_tx| (prev_holder_commitment_tx, false))
//@with
    .map(|prev_holder_commitment_tx| (prev_holder_commitment_tx, true))
//@end
//@extract lightning/src/chain/channelmonitor.rs :: impl ChannelMonitorImpl :: fn check_spend_holder_transaction
//@slice R15
    if current { fail_unbroadcast_htlcs!( self, current_msg, commitment_txid, commitment_tx, height, block_hash, $w1:seq, logger ); } else { fail_unbroadcast_htlcs!( self, current_msg, commitment_txid, commitment_tx, height, block_hash, $w2:seq, logger ); }
//@with
    fn htlcs_compared_with_our_confirmed_commitment(current: bool) -> Which { if current { which_holder_htlcs!($w1) } else { which_holder_htlcs!($w2) } }
//@ret r
//@ensures P C07,C03,C02 htlcs-missing-from-our-confirmed-commitment-are-failed-back-against-the-htlc-set-of-that-very-commitment
    current ==> r is CurrentHolder, !current ==> r is PrevHolder,
//@mutant previous_commitment_compared_with_the_current_htlcs
    holder_commitment_htlcs!(self, PREV_WITH_SOURCES).unwrap(),
//@with
    holder_commitment_htlcs!(self, CURRENT_WITH_SOURCES).unwrap(),
//@end
}
fn main() {}
