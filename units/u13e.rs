//! unit: u13e
//! properties: C13
//! note: variable-length peer messages with hand-written codecs (ping, pong, error, warning) and the length prefix they share (CollectionLength, Vec<u8>): the writer emits exactly the BOLT-1 byte layout, the reader is the BOLT-1 decoder (spec functions dec_*), and decoding what was written returns the message and consumes exactly the written bytes - for every payload length, no bound (this replaces the bounded Kani harness for ping)
//! trusted: R5: the writer generic W is instantiated with LogWriter (append-only ghost byte log: write_all appends or fails), the reader generic R with ByteReader (ghost byte sequence + cursor: read_exact fills the buffer with the next bytes and advances, or fails when fewer are left); io::Error -> DecodeError conversion of `?` is the reader stub's own error type
//! trusted: the Writeable / Readable impls of u16, u64 and [u8; 32] are external_body stubs with the contract "big-endian bytes" (be16 / be64 uninterpreted bijections between the integer and 2 / 8 bytes; proved for the real impls by the Kani group ser-primitives); `String` is a skeleton holding its bytes (len, as_bytes, from_utf8 succeed exactly on utf8() byte strings, utf8 uninterpreted)
//! trusted: R8: `vec![0u8; n]` -> zero_vec(n) (n zero bytes); `w.write_all(&self)` on a Vec<u8> -> write_all(self.as_slice()); `r.read_exact(&mut v)` / `r.read_exact(&mut vec[..])` on a Vec<u8> -> read_exact_vec (same contract on the vector's bytes)
//! trusted: assume_specification for core::cmp::max / core::cmp::min (std definitions): present in every unit so that a change that introduces them is verified instead of being rejected by the tool
//! plemma: C13 lemma_collection_length_roundtrip: every u64 length written is read back, consuming exactly what was written
//! plemma: C13 lemma_ping_roundtrip: a ping that fits a Lightning message (byteslen < 0xffff) is read back with both fields, the padding skipped
//! plemma: C13 lemma_pong_roundtrip: likewise for pong
//! plemma: C13 lemma_witnesses_roundtrip: a list of at most 65535 witnesses of at most 65535 bytes each (tx_signatures) is read back as written, consuming exactly what was written
//! trusted: Witness is held as its consensus encoding; bitcoin's consensus decoder of a Witness is uninterpreted with two assumed facts of the bitcoin crate: it consumes exactly size() bytes, and it decodes an encoding back to the witness
//! plemma: C13 lemma_accountable_roundtrip: the accountable flag of update_add_htlc is read back as written
//! plemma: C13 lemma_error_roundtrip: an error / warning message whose text fits the u16 length is read back with its channel id and text
use vstd::prelude::*;
verus! {
use vstd::std_specs::cmp::*;
use core::cmp;
pub assume_specification<T: core::cmp::Ord>[core::cmp::max::<T>](a: T, b: T) -> (r: T)
    ensures T::obeys_cmp_spec() ==> r == (if b.cmp_spec(&a) == core::cmp::Ordering::Less { a } else { b });
pub assume_specification<T: core::cmp::Ord>[core::cmp::min::<T>](a: T, b: T) -> (r: T)
    ensures T::obeys_cmp_spec() ==> r == (if b.cmp_spec(&a) == core::cmp::Ordering::Less { b } else { a });
pub struct Error {}
pub enum DecodeError { UnknownVersion, UnknownRequiredFeature, InvalidValue, ShortRead, BadLengthDescriptor, Io, UnsupportedCompression, DangerousValue }
// ---- big-endian integers: uninterpreted bijections ----
pub uninterp spec fn be16(x: u16) -> Seq<u8>;
pub uninterp spec fn un16(s: Seq<u8>) -> u16;
pub uninterp spec fn be64(x: u64) -> Seq<u8>;
pub uninterp spec fn un64(s: Seq<u8>) -> u64;
pub uninterp spec fn arr32(s: Seq<u8>) -> [u8; 32];
#[verifier::external_body] pub broadcast proof fn ax_be16(x: u16) ensures (#[trigger] be16(x)).len() == 2, un16(be16(x)) == x {}
#[verifier::external_body] pub broadcast proof fn ax_be64(x: u64) ensures (#[trigger] be64(x)).len() == 8, un64(be64(x)) == x {}
#[verifier::external_body] pub broadcast proof fn ax_arr32(s: Seq<u8>) requires s.len() == 32 ensures (#[trigger] arr32(s))@ == s {}
// ---- writer: append-only byte log ----
pub struct LogWriter { pub log: Ghost<Seq<u8>> }
impl LogWriter {
    #[verifier::external_body] pub fn write_all(&mut self, buf: &[u8]) -> (r: Result<(), Error>)
        ensures r is Ok ==> final(self).log@ == old(self).log@ + buf@, r is Err ==> final(self).log@ == old(self).log@ { unimplemented!() }
}
pub trait Writeable {
    spec fn ser(&self) -> Seq<u8>;
    fn write(&self, w: &mut LogWriter) -> (r: Result<(), Error>)
        ensures r is Ok ==> final(w).log@ =~= old(w).log@ + self.ser();
}
impl Writeable for u16 { open spec fn ser(&self) -> Seq<u8> { be16(*self) } #[verifier::external_body] fn write(&self, w: &mut LogWriter) -> (r: Result<(), Error>) { unimplemented!() } }
impl Writeable for u64 { open spec fn ser(&self) -> Seq<u8> { be64(*self) } #[verifier::external_body] fn write(&self, w: &mut LogWriter) -> (r: Result<(), Error>) { unimplemented!() } }
impl Writeable for [u8; 32] { open spec fn ser(&self) -> Seq<u8> { self@ } #[verifier::external_body] fn write(&self, w: &mut LogWriter) -> (r: Result<(), Error>) { unimplemented!() } }
// ---- reader: byte sequence + cursor ----
pub struct ByteReader { pub data: Ghost<Seq<u8>>, pub pos: Ghost<int> }
impl ByteReader {
    pub open spec fn wf(&self) -> bool { 0 <= self.pos@ <= self.data@.len() }
    #[verifier::external_body] pub fn read_exact_vec(&mut self, buf: &mut Vec<u8>) -> (r: Result<(), DecodeError>)
        requires old(self).wf()
        ensures final(self).data@ == old(self).data@, final(self).wf(), final(buf)@.len() == old(buf)@.len(),
            old(self).pos@ + old(buf)@.len() <= old(self).data@.len() ==> r is Ok && final(self).pos@ == old(self).pos@ + old(buf)@.len()
                && final(buf)@ == old(self).data@.subrange(old(self).pos@, old(self).pos@ + old(buf)@.len()),
            old(self).pos@ + old(buf)@.len() > old(self).data@.len() ==> r is Err,
    { unimplemented!() }
}
pub open spec fn dec_u16(d: Seq<u8>, p: int) -> Option<(u16, int)> { if 0 <= p && p + 2 <= d.len() { Some((un16(d.subrange(p, p + 2)), p + 2)) } else { None } }
pub open spec fn dec_u64(d: Seq<u8>, p: int) -> Option<(u64, int)> { if 0 <= p && p + 8 <= d.len() { Some((un64(d.subrange(p, p + 8)), p + 8)) } else { None } }
pub open spec fn dec_32(d: Seq<u8>, p: int) -> Option<([u8; 32], int)> { if 0 <= p && p + 32 <= d.len() { Some((arr32(d.subrange(p, p + 32)), p + 32)) } else { None } }
pub trait Readable: Sized {
    spec fn dec(d: Seq<u8>, p: int) -> Option<(Self, int)>;
    fn read(r: &mut ByteReader) -> (res: Result<Self, DecodeError>)
        requires old(r).wf()
        ensures final(r).data@ == old(r).data@, final(r).wf(),
            match Self::dec(old(r).data@, old(r).pos@) { Some((v, np)) => res is Ok && res->Ok_0 == v && final(r).pos@ == np, None => res is Err };
}
impl Readable for u16 { open spec fn dec(d: Seq<u8>, p: int) -> Option<(u16, int)> { dec_u16(d, p) } #[verifier::external_body] fn read(r: &mut ByteReader) -> (res: Result<u16, DecodeError>) { unimplemented!() } }
impl Readable for u64 { open spec fn dec(d: Seq<u8>, p: int) -> Option<(u64, int)> { dec_u64(d, p) } #[verifier::external_body] fn read(r: &mut ByteReader) -> (res: Result<u64, DecodeError>) { unimplemented!() } }
impl Readable for [u8; 32] { open spec fn dec(d: Seq<u8>, p: int) -> Option<([u8; 32], int)> { dec_32(d, p) } #[verifier::external_body] fn read(r: &mut ByteReader) -> (res: Result<[u8; 32], DecodeError>) { unimplemented!() } }
pub open spec fn zeros(n: int) -> Seq<u8> { Seq::new(n as nat, |i: int| 0u8) }
#[verifier::external_body] pub fn zero_vec(n: usize) -> (v: Vec<u8>) ensures v@ == zeros(n as int) { vec![0u8; n] }

// ---- CollectionLength: u16, or 0xffff followed by (len - 0xffff) as u64 ----
//@extract lightning/src/util/ser.rs :: struct CollectionLength
//@end
pub open spec fn cl_ser(n: u64) -> Seq<u8> { if n < 0xffff { be16(n as u16) } else { be16(0xffff) + be64((n - 0xffff) as u64) } }
pub open spec fn dec_cl(d: Seq<u8>, p: int) -> Option<(u64, int)> {
    match dec_u16(d, p) { None => None, Some((v, p1)) => if v != 0xffff { Some((v as u64, p1)) } else {
        match dec_u64(d, p1) { None => None, Some((x, p2)) => if x + 0xffff <= u64::MAX { Some(((x + 0xffff) as u64, p2)) } else { None } } } }
}
impl Writeable for CollectionLength {
    open spec fn ser(&self) -> Seq<u8> { cl_ser(self.0) }
//@extract lightning/src/util/ser.rs :: impl Writeable for CollectionLength :: fn write
//@rw R5
    fn write<W: Writer>(&self, writer: &mut W) -> Result<(), io::Error>
//@with
    fn write(&self, writer: &mut LogWriter) -> Result<(), Error>
//@mutant length_65535_written_short
    if self.0 < 0xffff {
//@with
    if self.0 <= 0xffff {
//@end
}
impl Readable for CollectionLength {
    open spec fn dec(d: Seq<u8>, p: int) -> Option<(CollectionLength, int)> { match dec_cl(d, p) { Some((n, np)) => Some((CollectionLength(n), np)), None => None } }
//@extract lightning/src/util/ser.rs :: impl Readable for CollectionLength :: fn read
//@rw R5
    fn read<R: Read>(r: &mut R) -> Result<Self, DecodeError>
//@with
    fn read(r: &mut ByteReader) -> Result<Self, DecodeError>
//@mutant escape_offset_not_added_back
    .checked_add(0xffff)
//@with
    .checked_add(0xfffe)
//@end
}
pub proof fn lemma_slice_of_concat(a: Seq<u8>, b: Seq<u8>, c: Seq<u8>)
    ensures (a + b + c).subrange(a.len() as int, (a.len() + b.len()) as int) == b
{ assert((a + b + c).subrange(a.len() as int, (a.len() + b.len()) as int) =~= b); }
pub proof fn lemma_collection_length_roundtrip(pre: Seq<u8>, n: u64, rest: Seq<u8>)
    ensures dec_cl(pre + cl_ser(n) + rest, pre.len() as int) == Some((n, (pre.len() + cl_ser(n).len()) as int))
{
    broadcast use ax_be16, ax_be64;
    let d = pre + cl_ser(n) + rest;
    let p = pre.len() as int;
    if n < 0xffff {
        lemma_slice_of_concat(pre, be16(n as u16), rest);
    } else {
        let x = (n - 0xffff) as u64;
        assert(d =~= pre + be16(0xffff) + (be64(x) + rest));
        lemma_slice_of_concat(pre, be16(0xffff), be64(x) + rest);
        assert(d =~= (pre + be16(0xffff)) + be64(x) + rest);
        lemma_slice_of_concat(pre + be16(0xffff), be64(x), rest);
    }
}

// ---- Vec<u8>: CollectionLength, then the bytes ----
impl Writeable for Vec<u8> {
    open spec fn ser(&self) -> Seq<u8> { cl_ser(self@.len() as u64) + self@ }
//@extract lightning/src/util/ser.rs :: impl Writeable for Vec<u8> :: fn write
//@rw R5
    fn write<W: Writer>(&self, w: &mut W) -> Result<(), io::Error>
//@with
    fn write(&self, w: &mut LogWriter) -> Result<(), Error>
//@rw R8
    w.write_all(&self)
//@with
    w.write_all(self.as_slice())
//@mutant bytes_written_before_their_length
    CollectionLength(self.len() as u64).write(w)?; w.write_all(&self)
//@with
    w.write_all(&self)?; CollectionLength(self.len() as u64).write(w)
//@end
}

// ---- ping / pong (BOLT 1): u16 num_pong_bytes, u16 byteslen, byteslen ignored bytes ----
//@extract lightning/src/ln/msgs.rs :: struct Ping
//@end
//@extract lightning/src/ln/msgs.rs :: struct Pong
//@end
pub open spec fn dec_ping(d: Seq<u8>, p: int) -> Option<(Ping, int)> {
    match dec_u16(d, p) { None => None, Some((ponglen, p1)) => match dec_u16(d, p1) { None => None, Some((byteslen, p2)) =>
        if p2 + byteslen <= d.len() { Some((Ping { ponglen, byteslen }, p2 + byteslen)) } else { None } } }
}
pub open spec fn dec_pong(d: Seq<u8>, p: int) -> Option<(Pong, int)> {
    match dec_u16(d, p) { None => None, Some((byteslen, p2)) => if p2 + byteslen <= d.len() { Some((Pong { byteslen }, p2 + byteslen)) } else { None } }
}
impl Writeable for Ping {
    open spec fn ser(&self) -> Seq<u8> { be16(self.ponglen) + cl_ser(self.byteslen as u64) + zeros(self.byteslen as int) }
//@extract lightning/src/ln/msgs.rs :: impl Writeable for Ping :: fn write
//@rw R5
    fn write<W: Writer>(&self, w: &mut W) -> Result<(), io::Error>
//@with
    fn write(&self, w: &mut LogWriter) -> Result<(), Error>
//@rw R8
    vec![0u8; $n:seq]
//@with
    zero_vec($n)
//@at body_start
    proof { assert(be16(self.ponglen) + (cl_ser(zeros(self.byteslen as int).len() as u64) + zeros(self.byteslen as int)) =~= self.ser()); }
//@mutant ping_padding_one_short
    vec![0u8; self.byteslen as usize]
//@with
    vec![0u8; self.byteslen as usize - 1]
//@mutant pong_length_not_written
    self.ponglen.write(w)?;
//@with

//@end
}
impl Writeable for Pong {
    open spec fn ser(&self) -> Seq<u8> { cl_ser(self.byteslen as u64) + zeros(self.byteslen as int) }
//@extract lightning/src/ln/msgs.rs :: impl Writeable for Pong :: fn write
//@rw R5
    fn write<W: Writer>(&self, w: &mut W) -> Result<(), io::Error>
//@with
    fn write(&self, w: &mut LogWriter) -> Result<(), Error>
//@rw R8
    vec![0u8; $n:seq]
//@with
    zero_vec($n)
//@end
}
impl Ping {
//@extract lightning/src/ln/msgs.rs :: impl LengthReadable for Ping :: fn read_from_fixed_length_buffer
//@rw R5
    fn read_from_fixed_length_buffer<R: LengthLimitedRead>(r: &mut R) -> Result<Self, DecodeError>
//@with
    fn read_from_fixed_length_buffer(r: &mut ByteReader) -> Result<Self, DecodeError>
//@rw R8
    r.read_exact(&mut vec![0u8; $n:seq][..])
//@with
    { let mut __b = zero_vec($n); r.read_exact_vec(&mut __b) }
//@ret res
//@requires
    old(r).wf(),
//@ensures P C13 a-ping-is-decoded-as-BOLT-1-lays-it-out-and-the-reader-stops-right-after-its-padding
    final(r).data@ == old(r).data@, final(r).wf(),
    match dec_ping(old(r).data@, old(r).pos@) { Some((v, np)) => res is Ok && res->Ok_0 == v && final(r).pos@ == np, None => res is Err },
//@mutant only_half_of_the_ping_padding_skipped
    vec![0u8; byteslen as usize]
//@with
    vec![0u8; byteslen as usize / 2]
//@end
}
impl Pong {
//@extract lightning/src/ln/msgs.rs :: impl LengthReadable for Pong :: fn read_from_fixed_length_buffer
//@rw R5
    fn read_from_fixed_length_buffer<R: LengthLimitedRead>(r: &mut R) -> Result<Self, DecodeError>
//@with
    fn read_from_fixed_length_buffer(r: &mut ByteReader) -> Result<Self, DecodeError>
//@rw R8
    r.read_exact(&mut vec![0u8; $n:seq][..])
//@with
    { let mut __b = zero_vec($n); r.read_exact_vec(&mut __b) }
//@ret res
//@requires
    old(r).wf(),
//@ensures P C13 a-pong-is-decoded-as-BOLT-1-lays-it-out-and-the-reader-stops-right-after-its-padding
    final(r).data@ == old(r).data@, final(r).wf(),
    match dec_pong(old(r).data@, old(r).pos@) { Some((v, np)) => res is Ok && res->Ok_0 == v && final(r).pos@ == np, None => res is Err },
//@end
}
pub proof fn lemma_ping_roundtrip(m: Ping, rest: Seq<u8>)
    requires m.byteslen < 0xffff
    ensures dec_ping(m.ser() + rest, 0) == Some((m, m.ser().len() as int))
{
    broadcast use ax_be16;
    let e = Seq::<u8>::empty();
    let d = m.ser() + rest;
    assert(d =~= e + be16(m.ponglen) + (be16(m.byteslen) + zeros(m.byteslen as int) + rest));
    lemma_slice_of_concat(e, be16(m.ponglen), be16(m.byteslen) + zeros(m.byteslen as int) + rest);
    assert(d =~= be16(m.ponglen) + be16(m.byteslen) + (zeros(m.byteslen as int) + rest));
    lemma_slice_of_concat(be16(m.ponglen), be16(m.byteslen), zeros(m.byteslen as int) + rest);
}
pub proof fn lemma_pong_roundtrip(m: Pong, rest: Seq<u8>)
    requires m.byteslen < 0xffff
    ensures dec_pong(m.ser() + rest, 0) == Some((m, m.ser().len() as int))
{
    broadcast use ax_be16;
    let e = Seq::<u8>::empty();
    let d = m.ser() + rest;
    assert(d =~= e + be16(m.byteslen) + (zeros(m.byteslen as int) + rest));
    lemma_slice_of_concat(e, be16(m.byteslen), zeros(m.byteslen as int) + rest);
}

// ---- error / warning (BOLT 1): channel_id, u16 len, len bytes of text ----
pub uninterp spec fn utf8(s: Seq<u8>) -> bool;
pub struct String { pub bytes: Vec<u8> }
pub struct FromUtf8Error {}
impl String {
    #[verifier::external_body] pub fn len(&self) -> (r: usize) ensures r == self.bytes@.len() { unimplemented!() }
    #[verifier::external_body] pub fn as_bytes(&self) -> (r: &[u8]) ensures r@ == self.bytes@ { unimplemented!() }
    #[verifier::external_body] pub fn from_utf8(v: Vec<u8>) -> (r: Result<String, FromUtf8Error>)
        ensures utf8(v@) ==> r is Ok && r->Ok_0.bytes@ == v@, !utf8(v@) ==> r is Err { unimplemented!() }
}
//@extract lightning/src/ln/types.rs :: struct ChannelId
//@end
impl Writeable for ChannelId {
    open spec fn ser(&self) -> Seq<u8> { self.0@ }
//@extract lightning/src/ln/types.rs :: impl Writeable for ChannelId :: fn write
//@rw R5
    fn write<W: Writer>(&self, w: &mut W) -> Result<(), io::Error>
//@with
    fn write(&self, w: &mut LogWriter) -> Result<(), Error>
//@end
}
impl Readable for ChannelId {
    open spec fn dec(d: Seq<u8>, p: int) -> Option<(ChannelId, int)> { match dec_32(d, p) { Some((a, np)) => Some((ChannelId(a), np)), None => None } }
//@extract lightning/src/ln/types.rs :: impl Readable for ChannelId :: fn read
//@rw R5
    fn read<R: io::Read>(r: &mut R) -> Result<Self, DecodeError>
//@with
    fn read(r: &mut ByteReader) -> Result<Self, DecodeError>
//@end
}
//@extract lightning/src/ln/msgs.rs :: struct ErrorMessage
//@end
//@extract lightning/src/ln/msgs.rs :: struct WarningMessage
//@end
pub open spec fn text_ser(channel_id: ChannelId, text: Seq<u8>) -> Seq<u8> { channel_id.0@ + be16(text.len() as u16) + text }
pub open spec fn dec_text(d: Seq<u8>, p: int) -> Option<(ChannelId, Seq<u8>, int)> {
    match dec_32(d, p) { None => None, Some((cid, p1)) => match dec_u16(d, p1) { None => None, Some((sz, p2)) =>
        if p2 + sz <= d.len() && utf8(d.subrange(p2, p2 + sz)) { Some((ChannelId(cid), d.subrange(p2, p2 + sz), p2 + sz)) } else { None } } }
}
impl Writeable for ErrorMessage {
    open spec fn ser(&self) -> Seq<u8> { text_ser(self.channel_id, self.data.bytes@) }
//@extract lightning/src/ln/msgs.rs :: impl Writeable for ErrorMessage :: fn write
//@rw R5
    fn write<W: Writer>(&self, w: &mut W) -> Result<(), io::Error>
//@with
    fn write(&self, w: &mut LogWriter) -> Result<(), Error>
//@mutant error_text_written_before_its_length
    (self.data.len() as u16).write(w)?; w.write_all(self.data.as_bytes())?;
//@with
    w.write_all(self.data.as_bytes())?; (self.data.len() as u16).write(w)?;
//@end
}
impl Writeable for WarningMessage {
    open spec fn ser(&self) -> Seq<u8> { text_ser(self.channel_id, self.data.bytes@) }
//@extract lightning/src/ln/msgs.rs :: impl Writeable for WarningMessage :: fn write
//@rw R5
    fn write<W: Writer>(&self, w: &mut W) -> Result<(), io::Error>
//@with
    fn write(&self, w: &mut LogWriter) -> Result<(), Error>
//@end
}
impl ErrorMessage {
//@extract lightning/src/ln/msgs.rs :: impl LengthReadable for ErrorMessage :: fn read_from_fixed_length_buffer
//@rw R5
    fn read_from_fixed_length_buffer<R: LengthLimitedRead>(r: &mut R) -> Result<Self, DecodeError>
//@with
    fn read_from_fixed_length_buffer(r: &mut ByteReader) -> Result<Self, DecodeError>
//@rw R8
    r.read_exact(&mut data)
//@with
    r.read_exact_vec(&mut data)
//@ret res
//@requires
    old(r).wf(),
//@ensures P C13 an-error-message-is-decoded-as-BOLT-1-lays-it-out-channel-id-then-exactly-the-announced-number-of-text-bytes
    final(r).data@ == old(r).data@, final(r).wf(),
    match dec_text(old(r).data@, old(r).pos@) { Some((cid, text, np)) => res is Ok && res->Ok_0.channel_id == cid && res->Ok_0.data.bytes@ == text && final(r).pos@ == np, None => res is Err },
//@mutant error_text_length_read_as_one_byte_more
    data.resize(sz, 0);
//@with
    data.resize(sz + 1, 0);
//@end
}
impl WarningMessage {
//@extract lightning/src/ln/msgs.rs :: impl LengthReadable for WarningMessage :: fn read_from_fixed_length_buffer
//@rw R5
    fn read_from_fixed_length_buffer<R: LengthLimitedRead>(r: &mut R) -> Result<Self, DecodeError>
//@with
    fn read_from_fixed_length_buffer(r: &mut ByteReader) -> Result<Self, DecodeError>
//@rw R8
    r.read_exact(&mut data)
//@with
    r.read_exact_vec(&mut data)
//@ret res
//@requires
    old(r).wf(),
//@ensures P C13 a-warning-message-is-decoded-as-BOLT-1-lays-it-out-channel-id-then-exactly-the-announced-number-of-text-bytes
    final(r).data@ == old(r).data@, final(r).wf(),
    match dec_text(old(r).data@, old(r).pos@) { Some((cid, text, np)) => res is Ok && res->Ok_0.channel_id == cid && res->Ok_0.data.bytes@ == text && final(r).pos@ == np, None => res is Err },
//@end
}
pub proof fn lemma_error_roundtrip(channel_id: ChannelId, text: Seq<u8>, rest: Seq<u8>)
    requires text.len() <= 0xffff, utf8(text)
    ensures dec_text(text_ser(channel_id, text) + rest, 0) == Some((channel_id, text, text_ser(channel_id, text).len() as int))
{
    broadcast use ax_be16, ax_arr32;
    let e = Seq::<u8>::empty();
    let n = text.len() as u16;
    let d = text_ser(channel_id, text) + rest;
    assert(d =~= e + channel_id.0@ + (be16(n) + text + rest));
    lemma_slice_of_concat(e, channel_id.0@, be16(n) + text + rest);
    assert(d =~= channel_id.0@ + be16(n) + (text + rest));
    lemma_slice_of_concat(channel_id.0@, be16(n), text + rest);
    assert(d =~= (channel_id.0@ + be16(n)) + text + rest);
    lemma_slice_of_concat(channel_id.0@ + be16(n), text, rest);
    assert(arr32(channel_id.0@)@ == channel_id.0@);
    assert(arr32(channel_id.0@) == channel_id.0) by { assert(arr32(channel_id.0@)@ =~= channel_id.0@); }
}

// ---- Vec<Witness> (the `witnesses` of tx_signatures): u16 count, then per witness its u16 size and its consensus encoding ----
// a bitcoin Witness is held as its consensus encoding; bitcoin's decoder is uninterpreted, with the two facts of the bitcoin crate this codec relies on (trusted)
pub struct Witness { pub enc: Ghost<Seq<u8>> }
impl Witness { #[verifier::external_body] pub fn size(&self) -> (r: usize) ensures r == self.enc@.len() { unimplemented!() } }
pub uninterp spec fn dec_w(d: Seq<u8>, p: int) -> Option<(Witness, int)>;
#[verifier::external_body] pub broadcast proof fn ax_dec_w_consumes_its_size(d: Seq<u8>, p: int)
    ensures (#[trigger] dec_w(d, p)) is Some ==> 0 <= p && dec_w(d, p)->Some_0.1 <= d.len() && dec_w(d, p)->Some_0.1 - p == dec_w(d, p)->Some_0.0.enc@.len() {}
#[verifier::external_body] pub broadcast proof fn ax_dec_w_roundtrip(pre: Seq<u8>, w: Witness, rest: Seq<u8>)
    ensures #[trigger] dec_w(pre + w.enc@ + rest, pre.len() as int) == Some((w, (pre.len() + w.enc@.len()) as int)) {}
impl Writeable for Witness { open spec fn ser(&self) -> Seq<u8> { self.enc@ } #[verifier::external_body] fn write(&self, w: &mut LogWriter) -> (r: Result<(), Error>) { unimplemented!() } }
impl Readable for Witness { open spec fn dec(d: Seq<u8>, p: int) -> Option<(Witness, int)> { dec_w(d, p) } #[verifier::external_body] fn read(r: &mut ByteReader) -> (res: Result<Witness, DecodeError>) { unimplemented!() } }
pub open spec fn ws_items(ws: Seq<Witness>) -> Seq<u8> decreases ws.len() { if ws.len() == 0 { Seq::empty() } else { ws_items(ws.drop_last()) + be16(ws.last().enc@.len() as u16) + ws.last().enc@ } }
pub open spec fn ws_ser(ws: Seq<Witness>) -> Seq<u8> { be16(ws.len() as u16) + ws_items(ws) }
// one element as the reader takes it: the announced size must be EXACTLY the size of the witness that follows
pub open spec fn dec_one_w(d: Seq<u8>, p: int) -> Option<(Witness, int)> {
    match dec_u16(d, p) { None => None, Some((l, p1)) => match dec_w(d, p1) { None => None, Some((w, p2)) => if w.enc@.len() == l as int { Some((w, p2)) } else { None } } }
}
pub open spec fn dec_ws_items(d: Seq<u8>, p: int, k: nat) -> Option<(Seq<Witness>, int)> decreases k {
    if k == 0 { Some((Seq::empty(), p)) } else { match dec_ws_items(d, p, (k - 1) as nat) { None => None, Some((ws, q)) => match dec_one_w(d, q) { None => None, Some((w, q2)) => Some((ws.push(w), q2)) } } }
}
pub open spec fn dec_ws(d: Seq<u8>, p: int) -> Option<(Seq<Witness>, int)> { match dec_u16(d, p) { None => None, Some((n, p1)) => dec_ws_items(d, p1, n as nat) } }
pub proof fn lemma_dec_ws_items_none_stays(d: Seq<u8>, p: int, k: nat, n: nat)
    requires k <= n, dec_ws_items(d, p, k) is None ensures dec_ws_items(d, p, n) is None decreases n
{ if n > k { lemma_dec_ws_items_none_stays(d, p, k, (n - 1) as nat); } }
pub proof fn lemma_dec_ws_items_pos(d: Seq<u8>, p: int, k: nat)
    requires 0 <= p <= d.len() ensures dec_ws_items(d, p, k) is Some ==> p <= dec_ws_items(d, p, k)->Some_0.1 <= d.len() && dec_ws_items(d, p, k)->Some_0.0.len() == k decreases k
{ broadcast use ax_dec_w_consumes_its_size; if k > 0 { lemma_dec_ws_items_pos(d, p, (k - 1) as nat); } }
impl Writeable for Vec<Witness> {
    open spec fn ser(&self) -> Seq<u8> { ws_ser(self@) }
//@extract lightning/src/util/ser.rs :: impl Writeable for Vec<Witness> :: fn write
//@rw R5
    fn write<W: Writer>(&self, w: &mut W) -> Result<(), io::Error>
//@with
    fn write(&self, w: &mut LogWriter) -> Result<(), Error>
//@rw R6
    in self {
//@with
    in self.iter() {
//@loop 1 iter=it
    invariant it.seq().len() == self@.len(), forall|k: int| 0 <= k < self@.len() ==> *it.seq()[k] == self@[k],
        w.log@ =~= old(w).log@ + be16(self@.len() as u16) + ws_items(self@.take(it.index@ as int)),
//@at loop_body_start 1
    proof { assert(self@.take(it.index@ as int + 1).drop_last() =~= self@.take(it.index@ as int)); }
//@at after_loop 1
    proof { assert(self@.take(self@.len() as int) =~= self@); }
//@mutant witness_written_without_its_size
    (witness.size() as u16).write(w)?;
//@with

//@end
}
//@extract lightning/src/util/ser.rs :: impl Readable for Vec<Witness> :: fn read
//@rw R5
    fn read<R: Read>(r: &mut R) -> Result<Self, DecodeError>
//@with
    fn read_witnesses(r: &mut ByteReader) -> Result<Vec<Witness>, DecodeError>
//@rw R12
    _ in 0..num_witnesses {
//@with
    _i in 0..num_witnesses {
//@ret res
//@requires
    old(r).wf(),
//@ensures P C13 the-witnesses-of-tx-signatures-are-decoded-count-first-and-each-witness-must-fill-exactly-the-size-announced-for-it-so-the-reader-never-takes-a-byte-the-prefix-did-not-announce
    final(r).data@ == old(r).data@, final(r).wf(),
    match dec_ws(old(r).data@, old(r).pos@) { Some((ws, np)) => res is Ok && res->Ok_0@ == ws && final(r).pos@ == np, None => res is Err },
//@loop 1 iter=it
    invariant r.data@ == old(r).data@, r.wf(), dec_u16(old(r).data@, old(r).pos@) is Some, num_witnesses == dec_u16(old(r).data@, old(r).pos@)->Some_0.0 as usize,
        it.iter.end == num_witnesses, it.index@ <= num_witnesses, it.iter.start == it.index@,
        dec_ws_items(r.data@, dec_u16(old(r).data@, old(r).pos@)->Some_0.1, it.index@ as nat) == Some((witnesses@, r.pos@)),
//@at loop_body_start 1
    let ghost p1 = dec_u16(old(r).data@, old(r).pos@)->Some_0.1; let ghost k0 = it.index@ as nat;
    proof { broadcast use ax_dec_w_consumes_its_size; assert(dec_ws_items(r.data@, p1, (k0 + 1) as nat) == (match dec_one_w(r.data@, r.pos@) { None => None::<(Seq<Witness>, int)>, Some((w, q2)) => Some((witnesses@.push(w), q2)) }));
        if dec_one_w(r.data@, r.pos@) is None { lemma_dec_ws_items_none_stays(r.data@, p1, (k0 + 1) as nat, num_witnesses as nat); } }
//@mutant witness_longer_than_announced_accepted
    if witness.size() != witness_len {
//@with
    if witness.size() < witness_len {
//@mutant witness_shorter_than_announced_accepted
    if witness.size() != witness_len {
//@with
    if witness.size() > witness_len {
//@end
pub proof fn lemma_witnesses_roundtrip(ws: Seq<Witness>, rest: Seq<u8>)
    requires ws.len() <= 0xffff, forall|k: int| 0 <= k < ws.len() ==> (#[trigger] ws[k]).enc@.len() <= 0xffff
    ensures dec_ws(ws_ser(ws) + rest, 0) == Some((ws, ws_ser(ws).len() as int))
{
    broadcast use ax_be16;
    let d = ws_ser(ws) + rest; let n = ws.len() as u16;
    assert(d =~= Seq::<u8>::empty() + be16(n) + (ws_items(ws) + rest));
    lemma_slice_of_concat(Seq::<u8>::empty(), be16(n), ws_items(ws) + rest);
    lemma_items_roundtrip(ws, ws.len() as nat, rest);
    assert(ws.take(ws.len() as int) =~= ws);
}
pub proof fn lemma_items_concat(a: Seq<Witness>, b: Seq<Witness>)
    ensures ws_items(a + b) =~= ws_items(a) + ws_items(b) decreases b.len()
{
    if b.len() == 0 { assert(a + b =~= a); }
    else { lemma_items_concat(a, b.drop_last()); assert((a + b).drop_last() =~= a + b.drop_last()); assert((a + b).last() == b.last()); }
}
pub proof fn lemma_items_roundtrip(ws: Seq<Witness>, k: nat, rest: Seq<u8>)
    requires k <= ws.len() <= 0xffff, forall|j: int| 0 <= j < ws.len() ==> (#[trigger] ws[j]).enc@.len() <= 0xffff
    ensures dec_ws_items(ws_ser(ws) + rest, 2, k) == Some((ws.take(k as int), (2 + ws_items(ws.take(k as int)).len()) as int))
    decreases k
{
    broadcast use ax_be16, ax_dec_w_roundtrip;
    let d = ws_ser(ws) + rest;
    if k == 0 { assert(ws.take(0) =~= Seq::<Witness>::empty()); }
    else {
        lemma_items_roundtrip(ws, (k - 1) as nat, rest);
        let pre_ws = ws.take(k as int - 1); let x = ws[k as int - 1];
        assert(ws.take(k as int).drop_last() =~= pre_ws); assert(ws.take(k as int).last() == x);
        lemma_items_concat(ws.take(k as int), ws.skip(k as int)); assert(ws.take(k as int) + ws.skip(k as int) =~= ws);
        let tail = ws_items(ws.skip(k as int));
        let pre = be16(ws.len() as u16) + ws_items(pre_ws);
        let l = be16(x.enc@.len() as u16);
        assert(d =~= pre + l + (x.enc@ + tail + rest));
        lemma_slice_of_concat(pre, l, x.enc@ + tail + rest);
        assert(d =~= (pre + l) + x.enc@ + (tail + rest));
        assert(dec_w(d, (pre + l).len() as int) == Some((x, ((pre + l).len() + x.enc@.len()) as int)));
        assert(ws.take(k as int) =~= pre_ws.push(x));
    }
}

// ---- the `accountable` flag of update_add_htlc (bLIP 4): one byte, 7 for true, 0 for false; anything but 7 reads as false ----
impl ByteReader {
    #[verifier::external_body] pub fn read_exact_1(&mut self, buf: &mut [u8; 1]) -> (r: Result<(), DecodeError>)
        requires old(self).wf()
        ensures final(self).data@ == old(self).data@, final(self).wf(),
            old(self).pos@ + 1 <= old(self).data@.len() ==> r is Ok && final(self).pos@ == old(self).pos@ + 1 && final(buf)@[0] == old(self).data@[old(self).pos@],
            old(self).pos@ + 1 > old(self).data@.len() ==> r is Err,
    { unimplemented!() }
}
pub struct AccountableBool<T>(pub T);
impl Writeable for AccountableBool<&bool> {
    open spec fn ser(&self) -> Seq<u8> { seq![if *self.0 { 7u8 } else { 0u8 }] }
//@extract lightning/src/ln/msgs.rs :: impl Writeable for AccountableBool :: fn write
//@rw R5
    fn write<W: Writer>(&self, writer: &mut W) -> Result<(), io::Error>
//@with
    fn write(&self, writer: &mut LogWriter) -> Result<(), Error>
//@rw R8
    writer.write_all(&[wire_value])
//@with
    { let __b = [wire_value]; writer.write_all(&__b) }
//@mutant accountable_written_as_one
    let wire_value = if *self.0 { 7u8 } else { 0u8 };
//@with
    let wire_value = if *self.0 { 1u8 } else { 0u8 };
//@end
}
impl Readable for AccountableBool<bool> {
    open spec fn dec(d: Seq<u8>, p: int) -> Option<(AccountableBool<bool>, int)> { if 0 <= p && p + 1 <= d.len() { Some((AccountableBool(d[p] == 7u8), p + 1)) } else { None } }
//@extract lightning/src/ln/msgs.rs :: impl Readable for AccountableBool :: fn read
//@rw R5
    fn read<R: Read>(reader: &mut R) -> Result<AccountableBool<bool>, DecodeError>
//@with
    fn read(reader: &mut ByteReader) -> Result<AccountableBool<bool>, DecodeError>
//@rw R8
    reader.read_exact(&mut buf)?;
//@with
    reader.read_exact_1(&mut buf)?;
//@mutant any_non_zero_byte_reads_as_accountable
    let bool_value = buf[0] == 7;
//@with
    let bool_value = buf[0] != 0;
//@end
}
pub proof fn lemma_accountable_roundtrip(b: bool, rest: Seq<u8>)
    ensures <AccountableBool<bool> as Readable>::dec(AccountableBool(&b).ser() + rest, 0) == Some((AccountableBool(b), 1int))
{}
}
fn main() {}
