//! unit: u04b
//! properties: C04 C08 C02
//! note: also run for C02: the code it constrains lies inside mechanisms those properties name (a change made there for their sake must meet these clauses too)
//! note: MPP completion condition (check_incoming_mpp_part), its mirror in the MPP timeout (check_mpp_timeout), and the on-chain claim deadline test of one part (MppPart::check_onchain_timeout)
//! trusted: R5: the generic H: HasMppPart + Ord is instantiated with MppPart (one of the two call-site types; its HasMppPart impl is extracted and verified); `impl Iterator<Item=&mut MppPart>` is instantiated as the elements of a Vec<MppPart> (the call sites pass iter_mut() of a vector); ChannelManager self stub (the body reads only self.logger, removed by R3)
//! trusted: R6: `.iter().map(|h| V).sum()` and `.iter_mut().for_each(|h| S)` and `for h in <iter_mut>` become index loops carrying the closure body verbatim; sort_parts() is an external_body wrapper for Vec::sort (a permutation); RecipientOnionFields is a skeleton {total_mpp_amount_msat} and check_merge is external_body (keeps total_mpp_amount_msat, Ok only if both totals agree); HTLCPreviousHopData, PaymentHash opaque
//! trusted: R15 (statement slicing): handle_claimable_htlc works under the claimable_payments mutex with events and HashMap entries; the unit extracts the `let claim_deadline = Some(match <min of part expiries> {..} - HTLC_FAIL_BACK_BUFFER)` statement verbatim (the `.iter().map(..).min()` chain rewritten by R6 into a loop) as a function of the part list; ClaimableHTLC skeleton {mpp_part}
//! trusted: //@oneof: the claim-deadline statement is accepted in two shapes, `E.iter().map(|h| V).min()` (R6 loop, the shape in the tree) and `E.iter().min()/.max().map(|h| V)` (an element picked by the element type's Ord, which is not modelled: iter_pick_by_ord returns some element of E); exactly the shape found is verified against the same contract
//! trusted: R15 (deep slice): inbound_payment::verify decrypts and authenticates the payment secret (ChaCha20/HMAC, outside the verifier); the unit extracts its two final tests (total_msat against the amount and the expiry against the highest seen block time) verbatim as a function of the decoded (min_amt_msat, expiry); decoding those two numbers from the decrypted bytes is the subject of unit u04d (the real decoding statements against the byte layout) together with the Kani harness h_info_bytes (construct_info_bytes is the inverse of that layout); FinalOnionHopData skeleton
//! trusted: R15: claim_payment_internal: the unit extracts the amount re-check (the loop over the parts and the two abort tests, conditions captured) verbatim as a function of the part list; begin_claiming_payment before it and the per-channel claims after it are dropped and not claimed; R6: `for htlc in sources.iter()` becomes an index loop
//! trusted: R15 (deep slice): do_chain_event: the statement that decides whether an accumulating trampoline payment has reached an on-chain deadline (R6: any/all loop, the quantifier in the source selects the answer; each part is tested by the extracted MppPart::check_onchain_timeout)
//! trusted: R15 (deep slice): ClaimablePayments::begin_claiming_payment: the amount_msat expression of the ClaimingPayment it records (R6: `.iter().map(|s| V).sum()` as an index loop with an overflow obligation)
//! trusted: R15 (deep slice): ClaimablePayments::begin_claiming_payment: the custom-TLV refusal test verbatim (the `.iter().any(|(typ, _)| P)` becomes an index loop carrying P, R6)
//! assume: representation invariant of an accumulating payment: the intended sum already held is < MAX_VALUE_MSAT, every part's intended value < MAX_VALUE_MSAT, the sum of received values fits u64; cltv_expiry >= HTLC_FAIL_BACK_BUFFER (implied by acceptance)
//! trusted: assume_specification for core::cmp::max / core::cmp::min (std definitions): present in every unit so that a change that introduces them is verified instead of being rejected by the tool
//! trusted: sweeps: R15 (deep slices): timer_tick_occurred: the closures handed to `claimable_payments.retain` and to `awaiting_trampoline_forwards.retain` verbatim as functions of one payment and the failure list; do_chain_event: the closure of the inner `payment.htlcs.retain` as a function of one part, and the keep-expression of the outer retain (MppPart::check_onchain_timeout, proved above, is a stub answering the uninterpreted reached_onchain_deadline; `V.drain(..).map(|c| c.prev_hop).collect()` is the wrapper drain_prev_hops) (std's retain keeps the entries for which it answers true); R5: the call of check_mpp_timeout (proved above on the real function) is a stub answering the uninterpreted times_out of the parts before the tick and changing nothing but the tick counters; R6: `OUT.extend(V.drain(..).map(|h| E))` is an index loop over the drained elements carrying E verbatim; skeleton types are Copy
use vstd::prelude::*;
// R6: the quantifier of `E.iter().any(..)` / `E.iter().all(..)` selects which of the two accumulated answers is the result
macro_rules! iter_quantifier { (any, $some:expr, $every:expr) => { $some }; (all, $some:expr, $every:expr) => { $every }; }
verus! {
use vstd::std_specs::cmp::*;
use core::cmp;
pub assume_specification<T: core::cmp::Ord>[core::cmp::max::<T>](a: T, b: T) -> (r: T)
    ensures T::obeys_cmp_spec() ==> r == (if b.cmp_spec(&a) == core::cmp::Ordering::Less { a } else { b });
pub assume_specification<T: core::cmp::Ord>[core::cmp::min::<T>](a: T, b: T) -> (r: T)
    ensures T::obeys_cmp_spec() ==> r == (if b.cmp_spec(&a) == core::cmp::Ordering::Less { b } else { a });
//@const lightning/src/ln/msgs.rs MAX_VALUE_MSAT
//@const lightning/src/ln/channelmanager.rs MPP_TIMEOUT_TICKS
//@const lightning/src/chain/channelmonitor.rs MAX_BLOCKS_FOR_CONF CLTV_CLAIM_BUFFER LATENCY_GRACE_PERIOD_BLOCKS HTLC_FAIL_BACK_BUFFER
#[derive(Clone, Copy)] pub struct PaymentHash(pub [u8; 32]);
pub struct HTLCPreviousHopData {}
//@extract lightning/src/ln/channelmanager.rs :: struct MppPart
//@end
//@extract lightning/src/ln/channelmanager.rs :: trait HasMppPart
//@end
impl HasMppPart for MppPart {
//@extract lightning/src/ln/channelmanager.rs :: impl HasMppPart for MppPart :: fn mpp_part
//@ret r
//@ensures A
    *r == *self
//@end
//@extract lightning/src/ln/channelmanager.rs :: impl HasMppPart for MppPart :: fn mpp_part_mut
//@ret r
//@ensures A
    *r == *old(self), *final(self) == *final(r)
//@end
}
impl MppPart {
//@extract lightning/src/ln/channelmanager.rs :: impl MppPart :: fn check_onchain_timeout
//@ret r
//@requires
    self.cltv_expiry >= HTLC_FAIL_BACK_BUFFER
//@ensures P C08 part-times-out-exactly-from-the-advertised-claim-deadline-on
    r == (height as int >= self.cltv_expiry as int - HTLC_FAIL_BACK_BUFFER as int)
//@mutant deadline_one_block_late
    height >= self.cltv_expiry - HTLC_FAIL_BACK_BUFFER
//@with
    height > self.cltv_expiry - HTLC_FAIL_BACK_BUFFER
//@end
}
pub struct RecipientOnionFields { pub total_mpp_amount_msat: u64 }
impl RecipientOnionFields {
    #[verifier::external_body]
	pub fn check_merge(&mut self, further_htlc_fields: &mut Self) -> (r: Result<(), ()>)
        ensures final(self).total_mpp_amount_msat == old(self).total_mpp_amount_msat,
            r is Ok ==> old(self).total_mpp_amount_msat == old(further_htlc_fields).total_mpp_amount_msat
    { unimplemented!() }
}
pub struct ChannelManager {}
#[verifier::external_body]
fn sort_parts(v: &mut Vec<MppPart>)
    ensures final(v)@.len() == old(v)@.len(), final(v)@.to_multiset() == old(v)@.to_multiset(),
        // a permutation: every element of the result is an element of the input (consequence of multiset equality, stated for direct use)
        forall|k: int| 0 <= k < final(v)@.len() ==> exists|j: int| 0 <= j < old(v)@.len() && (#[trigger] final(v)@[k]) == old(v)@[j],
{ unimplemented!() }

pub open spec fn intended_sum(s: Seq<MppPart>) -> int decreases s.len() {
    if s.len() == 0 { 0 } else { intended_sum(s.drop_last()) + s.last().sender_intended_value as int }
}
pub open spec fn value_sum(s: Seq<MppPart>) -> int decreases s.len() {
    if s.len() == 0 { 0 } else { value_sum(s.drop_last()) + s.last().value as int }
}
pub proof fn lemma_isum_step(s: Seq<MppPart>, i: int)
    requires 0 <= i < s.len()
    ensures intended_sum(s.take(i + 1)) == intended_sum(s.take(i)) + s[i].sender_intended_value,
            value_sum(s.take(i + 1)) == value_sum(s.take(i)) + s[i].value,
{ assert(s.take(i + 1).drop_last() =~= s.take(i)); }
pub proof fn lemma_isum_mono(s: Seq<MppPart>, i: int)
    requires 0 <= i <= s.len()
    ensures 0 <= intended_sum(s.take(i)) <= intended_sum(s), 0 <= value_sum(s.take(i)) <= value_sum(s)
    decreases s.len() - i
{
    if i < s.len() { lemma_isum_mono(s, i + 1); lemma_isum_step(s, i); lemma_nonneg(s.take(i)); } else { assert(s.take(i) =~= s); lemma_nonneg(s); }
}
pub proof fn lemma_nonneg(s: Seq<MppPart>) ensures intended_sum(s) >= 0, value_sum(s) >= 0 decreases s.len()
{ if s.len() > 0 { lemma_nonneg(s.drop_last()); } }
pub proof fn lemma_push(s: Seq<MppPart>, x: MppPart)
    ensures intended_sum(s.push(x)) == intended_sum(s) + x.sender_intended_value, value_sum(s.push(x)) == value_sum(s) + x.value
{ assert(s.push(x).drop_last() =~= s); }
// the sums depend only on the intended/received values, which the for_each loop does not touch
pub proof fn lemma_sum_same_values(a: Seq<MppPart>, b: Seq<MppPart>)
    requires a.len() == b.len(), forall|k: int| 0 <= k < a.len() ==> a[k].value == b[k].value && a[k].sender_intended_value == b[k].sender_intended_value
    ensures value_sum(a) == value_sum(b), intended_sum(a) == intended_sum(b)
    decreases a.len()
{ if a.len() > 0 { lemma_sum_same_values(a.drop_last(), b.drop_last()); } }

impl ChannelManager {
//@extract lightning/src/ln/channelmanager.rs :: impl ChannelManager :: fn check_incoming_mpp_part
//@strip msgs
//@rw R5
    <H: HasMppPart + Ord>
//@with
//@rw R5
    htlc_set: &mut Vec<H>
//@with
    htlc_set: &mut Vec<MppPart>
//@rw R5
    new_htlc: H
//@with
    new_htlc: MppPart
//@ret r
//@requires
    intended_sum(old(htlc_set)@) < MAX_VALUE_MSAT, new_htlc.sender_intended_value < MAX_VALUE_MSAT,
    value_sum(old(htlc_set)@) + new_htlc.value <= u64::MAX,
//@ensures P C04 payment-complete-exactly-when-parts-reach-the-committed-total-no-superfluous-part
    ({
        let before = intended_sum(old(htlc_set)@);
        let after = before + new_htlc.sender_intended_value;
        let total = old(payment_onion_fields).total_mpp_amount_msat as int;
        // (P) complete exactly when the parts reach the committed total and it was not complete before
        &&& r == Ok::<bool, ()>(true) ==> before < total && after >= total && after < MAX_VALUE_MSAT
        &&& r == Ok::<bool, ()>(false) ==> after < total && final(htlc_set)@ == old(htlc_set)@.push(new_htlc)
        // (P) no superfluous part once complete, nothing above the representable maximum
        &&& before >= total || after >= MAX_VALUE_MSAT ==> r is Err
        &&& r is Err ==> final(htlc_set)@ == old(htlc_set)@
        // (P) on completion every part records the total value received; the set holds exactly the old parts plus the new one
        &&& r == Ok::<bool, ()>(true) ==> final(htlc_set)@.len() == old(htlc_set)@.len() + 1
              && forall|k: int| 0 <= k < final(htlc_set)@.len() ==> (#[trigger] final(htlc_set)@[k]).total_value_received == Some((value_sum(old(htlc_set)@) + new_htlc.value) as u64)
        &&& final(payment_onion_fields).total_mpp_amount_msat == old(payment_onion_fields).total_mpp_amount_msat
    }),
//@at before_loop 1
    proof { assert(htlc_set@.take(htlc_set@.len() as int) =~= htlc_set@); }
//@loop 1 iter=it
    invariant_except_break
        total_intended_recvd_value == new_htlc.sender_intended_value + intended_sum(htlc_set@.take(it.index@ as int)),
        total_intended_recvd_value < MAX_VALUE_MSAT,
    invariant htlc_set@ == old(htlc_set)@, it.seq().len() == htlc_set@.len(), forall|k: int| 0 <= k < htlc_set@.len() ==> *it.seq()[k] == htlc_set@[k],
        intended_sum(htlc_set@) < MAX_VALUE_MSAT, new_htlc.sender_intended_value < MAX_VALUE_MSAT,
        htlc_set@.take(htlc_set@.len() as int) == htlc_set@,
        total_intended_recvd_value >= new_htlc.sender_intended_value,
    ensures
        htlc_set@ == old(htlc_set)@,
        total_intended_recvd_value >= new_htlc.sender_intended_value,
        total_intended_recvd_value >= MAX_VALUE_MSAT ==> new_htlc.sender_intended_value + intended_sum(htlc_set@) >= MAX_VALUE_MSAT,
        total_intended_recvd_value < MAX_VALUE_MSAT ==> total_intended_recvd_value == new_htlc.sender_intended_value + intended_sum(htlc_set@),
//@at loop_body_start 1
    proof { lemma_isum_step(htlc_set@, it.index@ as int); lemma_isum_mono(htlc_set@, it.index@ as int + 1); }
//@at after_loop 1
    proof { assert(htlc_set@.take(htlc_set@.len() as int) =~= htlc_set@); }
//@rw R6
    let amount_msat = htlc_set.iter().map(|$h:ident| $v).sum();
//@with
    proof { lemma_push(old(htlc_set)@, new_htlc); }
    let ghost pushed = htlc_set@;
    let amount_msat = { // R6: .iter().map(|$h| V).sum()
        let mut __t: u64 = 0; let mut __i: usize = 0;
        while __i < htlc_set.len()
            invariant __i <= htlc_set.len(), htlc_set@ == pushed, value_sum(pushed) <= u64::MAX, __t == value_sum(htlc_set@.take(__i as int)),
            decreases htlc_set.len() - __i
        {
            proof { lemma_isum_step(htlc_set@, __i as int); lemma_isum_mono(htlc_set@, __i as int + 1); }
            let $h = &htlc_set[__i];
            __t = __t + ($v);
            __i = __i + 1;
        }
        proof { assert(htlc_set@.take(htlc_set@.len() as int) =~= htlc_set@); }
        __t };
//@rw R6
    htlc_set.iter_mut().for_each(|$h:ident| $s);
//@with
    { // R6: .iter_mut().for_each(|$h| S)
        let mut __i: usize = 0;
        while __i < htlc_set.len()
            invariant __i <= htlc_set.len(), htlc_set@.len() == pushed.len(),
                forall|k: int| 0 <= k < __i ==> (#[trigger] htlc_set@[k]).total_value_received == Some(amount_msat),
            decreases htlc_set.len() - __i
        {
            let $h = htlc_set.get_mut(__i).unwrap();
            $s;
            __i = __i + 1;
        }
    }
//@rw R8
    htlc_set.sort();
//@with
    let ghost before_sort = htlc_set@;
    sort_parts(htlc_set);
    proof {
        assert forall|k: int| 0 <= k < htlc_set@.len() implies (#[trigger] htlc_set@[k]).total_value_received == Some(amount_msat) by {
            let j = choose|j: int| 0 <= j < before_sort.len() && htlc_set@[k] == before_sort[j];
            assert(before_sort[j].total_value_received == Some(amount_msat));
        }
    }
//@mutant completion_threshold_off_by_one
    } else if total_intended_recvd_value >= total_mpp_value {
//@with
    } else if total_intended_recvd_value + 1 >= total_mpp_value {
//@mutant superfluous_part_accepted
    total_intended_recvd_value - new_htlc.mpp_part().sender_intended_value >= total_mpp_value
//@with
    total_intended_recvd_value - new_htlc.mpp_part().sender_intended_value > total_mpp_value
//@end
}

//@extract lightning/src/ln/channelmanager.rs :: fn check_mpp_timeout
//@rw R5
    <'a>
//@with
//@rw R5
    htlcs: impl Iterator<Item = &'a mut MppPart>
//@with
    htlcs: &mut Vec<MppPart>
//@rw R6
    for $h:ident in htlcs { $body:any }
//@with
    let mut __i: usize = 0;
    while __i < htlcs.len()
        invariant __i <= htlcs.len(), htlcs@.len() == old(htlcs)@.len(), intended_sum(old(htlcs)@) < MAX_VALUE_MSAT,
            total_intended_recvd_value == intended_sum(old(htlcs)@.take(__i as int)),
            forall|k: int| 0 <= k < htlcs@.len() ==> (#[trigger] htlcs@[k]).sender_intended_value == old(htlcs)@[k].sender_intended_value,
            forall|k: int| __i <= k < htlcs@.len() ==> htlcs@[k] == old(htlcs)@[k],
            forall|k: int| 0 <= k < __i ==> (#[trigger] htlcs@[k]).timer_ticks as int == (if old(htlcs)@[k].timer_ticks == 255 { 255int } else { old(htlcs)@[k].timer_ticks + 1 }),
            timed_out <==> exists|k: int| 0 <= k < __i && (#[trigger] old(htlcs)@[k]).timer_ticks + 1 >= MPP_TIMEOUT_TICKS,
        decreases htlcs.len() - __i
    {
        proof { lemma_isum_step(old(htlcs)@, __i as int); lemma_isum_mono(old(htlcs)@, __i as int + 1); }
        let $h = htlcs.get_mut(__i).unwrap();
        $body
        __i = __i + 1;
    }
    proof { assert(old(htlcs)@.take(old(htlcs)@.len() as int) =~= old(htlcs)@); }
//@ret r
//@requires
    intended_sum(old(htlcs)@) < MAX_VALUE_MSAT,
//@ensures P C04 timeout-never-fires-for-a-payment-the-completion-condition-declared-complete
    intended_sum(old(htlcs)@) >= onion_fields.total_mpp_amount_msat ==> !r,
    r <==> (intended_sum(old(htlcs)@) < onion_fields.total_mpp_amount_msat
            && exists|k: int| 0 <= k < old(htlcs)@.len() && (#[trigger] old(htlcs)@[k]).timer_ticks + 1 >= MPP_TIMEOUT_TICKS),
//@mutant complete_payment_may_time_out
    if total_intended_recvd_value >= total_mpp_value {
//@with
    if total_intended_recvd_value > total_mpp_value {
//@end


// ---- the claim deadline advertised in PaymentClaimable (R15 slice of handle_claimable_htlc) ----
pub struct ClaimableHTLC { pub mpp_part: MppPart }
#[verifier::external_body] pub fn iter_pick_by_ord(v: &Vec<ClaimableHTLC>) -> (r: Option<&ClaimableHTLC>)
    ensures v@.len() == 0 ==> r is None, v@.len() > 0 ==> r is Some && exists|k: int| 0 <= k < v@.len() && *r->Some_0 == #[trigger] v@[k] { unimplemented!() }
pub open spec fn min_expiry(s: Seq<ClaimableHTLC>) -> int decreases s.len() {
    if s.len() == 0 { 0x1_0000_0000 } else { let m = min_expiry(s.drop_last()); if (s.last().mpp_part.cltv_expiry as int) < m { s.last().mpp_part.cltv_expiry as int } else { m } }
}
pub proof fn lemma_min_expiry(s: Seq<ClaimableHTLC>)
    ensures forall|k: int| 0 <= k < s.len() ==> min_expiry(s) <= (#[trigger] s[k]).mpp_part.cltv_expiry,
        s.len() > 0 ==> exists|k: int| 0 <= k < s.len() && min_expiry(s) == (#[trigger] s[k]).mpp_part.cltv_expiry,
    decreases s.len()
{
    if s.len() > 0 {
        lemma_min_expiry(s.drop_last());
        assert forall|k: int| 0 <= k < s.len() implies min_expiry(s) <= (#[trigger] s[k]).mpp_part.cltv_expiry by {
            if k < s.len() - 1 { assert(s.drop_last()[k] == s[k]); }
        }
        if (s.last().mpp_part.cltv_expiry as int) < min_expiry(s.drop_last()) {
            assert(s[s.len() - 1] == s.last());
            assert(min_expiry(s) == s[s.len() - 1].mpp_part.cltv_expiry);
        } else {
            // the minimum is attained in the prefix (which is non-empty, else min_expiry(prefix) = 2^32 would exceed any u32)
            assert(s.drop_last().len() > 0);
            let k = choose|k: int| 0 <= k < s.drop_last().len() && min_expiry(s.drop_last()) == (#[trigger] s.drop_last()[k]).mpp_part.cltv_expiry;
            assert(s[k] == s.drop_last()[k]);
            assert(min_expiry(s) == s[k].mpp_part.cltv_expiry);
        }
    }
}
//@extract lightning/src/ln/channelmanager.rs :: impl ChannelManager :: fn handle_claimable_htlc
//@oneof claim_deadline
//@rw R15
    fn handle_claimable_htlc($params:any) -> $ret { $pre:any match self.check_incoming_mpp_part($args) { Ok(true) => { $p2:any let claim_deadline = Some( match claimable_payment.htlcs.iter().map(|$h:ident| $v).min() { Some($d:ident) => $sd, None => { $dbg:any; htlc_expiry }, } - HTLC_FAIL_BACK_BUFFER, ); $q2:any }, $arms:any } }
//@with
    fn advertised_claim_deadline(htlcs: &Vec<ClaimableHTLC>, htlc_expiry: u32) -> Option<u32> {
        Some(
            match { // R6: htlcs.iter().map(|$h| V).min()
                let mut __m: Option<u32> = None; let mut __i: usize = 0;
                while __i < htlcs.len()
                    invariant __i <= htlcs.len(), __i == 0 ==> __m is None,
                        __i > 0 ==> __m is Some && __m->Some_0 as int == min_expiry(htlcs@.take(__i as int)),
                    decreases htlcs.len() - __i
                {
                    proof { assert(htlcs@.take(__i as int + 1).drop_last() =~= htlcs@.take(__i as int)); assert(htlcs@.take(0) =~= Seq::<ClaimableHTLC>::empty()); }
                    let $h = &htlcs[__i];
                    let __v: u32 = $v;
                    __m = match __m { None => Some(__v), Some(__c) => if __v < __c { Some(__v) } else { Some(__c) } };
                    __i = __i + 1;
                }
                proof { assert(htlcs@.take(htlcs@.len() as int) =~= htlcs@); }
                __m
            } { Some($d) => $sd, None => { htlc_expiry }, } - HTLC_FAIL_BACK_BUFFER,
        )
    }
//@ret r
//@requires
    htlcs@.len() >= 1, forall|k: int| 0 <= k < htlcs@.len() ==> (#[trigger] htlcs@[k]).mpp_part.cltv_expiry >= HTLC_FAIL_BACK_BUFFER,
//@ensures P C04 the-advertised-claim-deadline-is-the-earliest-part-expiry-less-the-fail-back-buffer
    r is Some,
    // the deadline is at or below every part's own on-chain time-out height, so no part has timed out at any height strictly below it ...
    forall|k: int| 0 <= k < htlcs@.len() ==> r->Some_0 as int <= (#[trigger] htlcs@[k]).mpp_part.cltv_expiry as int - HTLC_FAIL_BACK_BUFFER as int,
    // ... and at the deadline itself some part does (the node then fails the payment back itself)
    exists|k: int| 0 <= k < htlcs@.len() && r->Some_0 as int == (#[trigger] htlcs@[k]).mpp_part.cltv_expiry as int - HTLC_FAIL_BACK_BUFFER as int,
//@at body_start
    proof { lemma_min_expiry(htlcs@); }
//@mutant deadline_from_the_latest_part
    Some(claim_deadline) => claim_deadline,
//@with
    Some(claim_deadline) => claim_deadline + 1,
//@end
//@extract lightning/src/ln/channelmanager.rs :: impl ChannelManager :: fn handle_claimable_htlc
//@oneof claim_deadline
//@rw R15
    fn handle_claimable_htlc($params:any) -> $ret { $pre:any match self.check_incoming_mpp_part($args) { Ok(true) => { $p2:any let claim_deadline = Some( match claimable_payment.htlcs.iter().$sel:ident().map(|$h:ident| $v) { Some($d:ident) => $sd, None => { $dbg:any; htlc_expiry }, } - HTLC_FAIL_BACK_BUFFER, ); $q2:any }, $arms:any } }
//@with
    fn advertised_claim_deadline(htlcs: &Vec<ClaimableHTLC>, htlc_expiry: u32) -> Option<u32> {
        Some(
            // R6 (second shape): `E.iter().min()` / `.max()` picks an element of E by the element type's own Ord, which is not modelled
            // here: iter_pick_by_ord returns SOME element (None iff E is empty); `.map(|h| V)` keeps the closure body (R9: typed, ensures o == V)
            match iter_pick_by_ord(htlcs).map(|$h: &ClaimableHTLC| -> (o: u32) ensures o == $v { $v }) { Some($d) => $sd, None => { htlc_expiry }, } - HTLC_FAIL_BACK_BUFFER,
        )
    }
//@ret r
//@requires
    htlcs@.len() >= 1, forall|k: int| 0 <= k < htlcs@.len() ==> (#[trigger] htlcs@[k]).mpp_part.cltv_expiry >= HTLC_FAIL_BACK_BUFFER,
//@ensures P C04 the-advertised-claim-deadline-is-the-earliest-part-expiry-less-the-fail-back-buffer
    r is Some,
    // the deadline is at or below every part's own on-chain time-out height, so no part has timed out at any height strictly below it ...
    forall|k: int| 0 <= k < htlcs@.len() ==> r->Some_0 as int <= (#[trigger] htlcs@[k]).mpp_part.cltv_expiry as int - HTLC_FAIL_BACK_BUFFER as int,
    // ... and at the deadline itself some part does (the node then fails the payment back itself)
    exists|k: int| 0 <= k < htlcs@.len() && r->Some_0 as int == (#[trigger] htlcs@[k]).mpp_part.cltv_expiry as int - HTLC_FAIL_BACK_BUFFER as int,
//@at body_start
    proof { lemma_min_expiry(htlcs@); }
//@end

// ---- new blocks: a trampoline accumulation is given up as soon as ANY of its parts reaches its on-chain deadline (R15 slice of do_chain_event) ----
pub struct TrampolineAccumulation { pub htlcs: Vec<MppPart> }
//@extract lightning/src/ln/channelmanager.rs :: impl ChannelManager :: fn do_chain_event
//@slice R15
    let htlc_timed_out = payment.htlcs.iter().$q:ident(|htlc| $p:seq); if htlc_timed_out { let previous_hop_data
//@with
    fn accumulation_reached_an_onchain_deadline(payment: &TrampolineAccumulation, height: u32) -> bool {
        // R6: `E.iter().any(|p| P)` / `.all(|p| P)` as an index loop carrying P verbatim
        let mut __some = false; let mut __every = true; let mut __i: usize = 0;
        while __i < payment.htlcs.len()
            invariant __i <= payment.htlcs@.len(), forall|k: int| 0 <= k < payment.htlcs@.len() ==> (#[trigger] payment.htlcs@[k]).cltv_expiry >= HTLC_FAIL_BACK_BUFFER,
                __some == (exists|k: int| 0 <= k < __i && height as int >= (#[trigger] payment.htlcs@[k]).cltv_expiry as int - HTLC_FAIL_BACK_BUFFER as int),
                __every == (forall|k: int| 0 <= k < __i ==> height as int >= (#[trigger] payment.htlcs@[k]).cltv_expiry as int - HTLC_FAIL_BACK_BUFFER as int),
            decreases payment.htlcs@.len() - __i
        { let htlc = &payment.htlcs[__i]; let __b: bool = $p; if __b { __some = true; } else { __every = false; } __i = __i + 1; }
        let htlc_timed_out = iter_quantifier!($q, __some, __every);
        htlc_timed_out
    }
//@ret r
//@requires
    forall|k: int| 0 <= k < payment.htlcs@.len() ==> (#[trigger] payment.htlcs@[k]).cltv_expiry >= HTLC_FAIL_BACK_BUFFER,
//@ensures P C04,C08 a-trampoline-accumulation-is-failed-back-as-soon-as-any-of-its-parts-reaches-its-on-chain-deadline
    r == (exists|k: int| 0 <= k < payment.htlcs@.len() && height as int >= (#[trigger] payment.htlcs@[k]).cltv_expiry as int - HTLC_FAIL_BACK_BUFFER as int),
//@mutant accumulation_kept_until_every_part_has_expired
    payment.htlcs.iter().any(|htlc| htlc.check_onchain_timeout(height));
//@with
    payment.htlcs.iter().all(|htlc| htlc.check_onchain_timeout(height));
//@end
// ---- the amount PaymentClaimed reports: the sum of what the parts actually delivered (R15 slice of ClaimablePayments::begin_claiming_payment) ----
pub struct ClaimablePaymentStub { pub htlcs: Vec<ClaimableHTLC> }
pub open spec fn parts_of_claimable(s: Seq<ClaimableHTLC>) -> Seq<MppPart> { Seq::new(s.len(), |k: int| s[k].mpp_part) }
//@extract lightning/src/ln/channelmanager.rs :: impl ClaimablePayments :: fn begin_claiming_payment
//@slice R15
    ClaimingPayment { amount_msat: payment.htlcs.iter().map(|$s:ident| $v:seq).sum(), payment_purpose:
//@with
    fn amount_reported_as_claimed(payment: &ClaimablePaymentStub) -> u64 {
        // R6: payment.htlcs.iter().map(|s| V).sum()
        let mut __sum: u64 = 0; let mut __i: usize = 0;
        while __i < payment.htlcs.len()
            invariant __i <= payment.htlcs@.len(), __sum as int == value_sum(parts_of_claimable(payment.htlcs@).take(__i as int)), value_sum(parts_of_claimable(payment.htlcs@)) <= u64::MAX,
            decreases payment.htlcs@.len() - __i
        {
            proof { lemma_isum_step(parts_of_claimable(payment.htlcs@), __i as int); lemma_isum_mono(parts_of_claimable(payment.htlcs@), __i as int + 1); }
            let $s = &payment.htlcs[__i];
            let __v: u64 = $v;
            __sum = __sum + __v;
            __i = __i + 1;
        }
        proof { assert(parts_of_claimable(payment.htlcs@).take(payment.htlcs@.len() as int) =~= parts_of_claimable(payment.htlcs@)); }
        __sum
    }
//@ret r
//@requires
    value_sum(parts_of_claimable(payment.htlcs@)) <= u64::MAX,
//@ensures P C04 the-amount-reported-as-claimed-is-the-sum-of-what-the-parts-actually-delivered
    r as int == value_sum(parts_of_claimable(payment.htlcs@)),
//@mutant claimed_amount_sums_what_the_sender_intended
    |source| source.mpp_part.value
//@with
    |source| source.mpp_part.sender_intended_value
//@end
// ---- claiming: all parts or none (R15 slice of ChannelManager::claim_payment_internal) ----
// the other value in scope at the re-check: ClaimingPayment::amount_msat is computed by begin_claiming_payment as the sum of the parts it hands over
pub struct ClaimingPayment { pub amount_msat: u64 }
pub open spec fn parts_of(s: Seq<ClaimableHTLC>) -> Seq<MppPart> { Seq::new(s.len(), |k: int| s[k].mpp_part) }
//@extract lightning/src/ln/channelmanager.rs :: impl ChannelManager :: fn claim_payment_internal
//@rw R15
    fn claim_payment_internal($params:any) { $pre:any let mut claimable_amt_msat = 0; let mut expected_amt_msat = None; let mut valid_mpp = true; let mut errs = Vec::new(); let per_peer_state = $pps; for htlc in sources.iter() { $loop:any } mem::drop(per_peer_state); if $c1:cond { $r1:any } if $c2:cond { $r2:any } $rest:any }
//@with
    fn claim_amount_recheck(sources: &Vec<ClaimableHTLC>, claiming_payment: &ClaimingPayment) -> (bool, bool) {
        let mut claimable_amt_msat: u64 = 0; let mut expected_amt_msat: Option<u64> = None; let mut valid_mpp = true;
        let mut __i: usize = 0;   // R6: for htlc in sources.iter()
        while __i < sources.len()
            invariant_except_break valid_mpp,
            invariant __i <= sources@.len(), value_sum(parts_of(sources@)) <= u64::MAX,
                valid_mpp ==> claimable_amt_msat as int == value_sum(parts_of(sources@).take(__i as int)),
                valid_mpp && __i == 0 ==> expected_amt_msat is None, valid_mpp && __i > 0 ==> expected_amt_msat == sources@[__i as int - 1].mpp_part.total_value_received,
            ensures valid_mpp ==> __i == sources@.len() && claimable_amt_msat as int == value_sum(parts_of(sources@).take(__i as int))
                    && (__i == 0 ==> expected_amt_msat is None) && (__i > 0 ==> expected_amt_msat == sources@[__i as int - 1].mpp_part.total_value_received),
                !valid_mpp ==> exists|k: int| 0 < k < sources@.len() && sources@[k - 1].mpp_part.total_value_received is Some
                    && #[trigger] sources@[k].mpp_part.total_value_received != sources@[k - 1].mpp_part.total_value_received,
            decreases sources@.len() - __i
        {
            proof { lemma_isum_step(parts_of(sources@), __i as int); lemma_isum_mono(parts_of(sources@), __i as int + 1); }
            let htlc = &sources[__i];
            __i = __i + 1;
            $loop
        }
        proof { assert(parts_of(sources@).take(sources@.len() as int) =~= parts_of(sources@)); }
        if $c1 { return (false, valid_mpp); }
        if $c2 { return (false, valid_mpp); }
        (true, valid_mpp)
    }
//@ret r
//@requires
    value_sum(parts_of(sources@)) <= u64::MAX, claiming_payment.amount_msat as int == value_sum(parts_of(sources@)),
//@ensures P C04 a-payment-is-claimed-only-if-every-part-announced-in-PaymentClaimable-is-still-there-the-parts-add-up-to-the-recorded-total-and-parts-that-disagree-on-that-total-are-never-claimed
    r.0 && r.1 ==> sources@.len() > 0 && sources@.last().mpp_part.total_value_received is Some
        && value_sum(parts_of(sources@)) == sources@.last().mpp_part.total_value_received->Some_0,
    // reachable since F7: a completed payment that lost a part and gained a smaller one holds parts with and without a recorded total
    !r.1 ==> exists|k: int| 0 < k < sources@.len() && sources@[k - 1].mpp_part.total_value_received is Some
        && #[trigger] sources@[k].mpp_part.total_value_received != sources@[k - 1].mpp_part.total_value_received,
//@mutant partial_set_claimed
    claimable_amt_msat != expected_amt_msat.unwrap()
//@with
    claimable_amt_msat > expected_amt_msat.unwrap()
//@end

// ---- claiming: a payment carrying unknown even custom TLVs is not claimed unless the user says it understands them (deep R15 slice of begin_claiming_payment) ----
//@extract lightning/src/ln/channelmanager.rs :: impl ClaimablePayments :: fn begin_claiming_payment
//@slice R15
    let custom_tlvs = &payment.onion_fields.custom_tlvs; if !custom_tlvs_known && custom_tlvs.iter().any(|(typ, _)| $even) { $rej:any return Err(payment.htlcs); }
//@with
    fn claim_refused_for_custom_tlvs(custom_tlvs: &Vec<(u64, Vec<u8>)>, custom_tlvs_known: bool) -> bool {
        !custom_tlvs_known && { // R6: custom_tlvs.iter().any(|(typ, _)| P)
            let mut __any = false; let mut __i: usize = 0;
            while __i < custom_tlvs.len() && !__any
                invariant __i <= custom_tlvs@.len(), __any <==> exists|k: int| 0 <= k < __i && (#[trigger] custom_tlvs@[k]).0 % 2 == 0,
                decreases custom_tlvs@.len() - __i + (if __any { 0int } else { 1int })
            {
                let typ = &custom_tlvs[__i].0;
                if $even { __any = true; }
                __i = __i + 1;
            }
            __any
        }
    }
//@ret r
//@ensures P C04 a-payment-with-an-unknown-even-custom-tlv-is-failed-back-instead-of-claimed-unless-the-caller-vouches-for-its-tlvs
    r <==> (!custom_tlvs_known && exists|k: int| 0 <= k < custom_tlvs@.len() && (#[trigger] custom_tlvs@[k]).0 % 2 == 0),
//@mutant odd_rule_inverted
    custom_tlvs.iter().any(|(typ, _)| typ % 2 == 0)
//@with
    custom_tlvs.iter().any(|(typ, _)| typ % 2 == 1)
//@end

// ---- the stateless invoice check: amount and expiry tests of inbound_payment::verify (deep R15 slice) ----
pub struct PaymentSecret(pub [u8; 32]);
pub struct FinalOnionHopData { pub payment_secret: PaymentSecret, pub total_msat: u64 }
//@extract lightning/src/ln/inbound_payment.rs :: fn verify
//@slice R15
    let min_amt_msat: u64 = $a; let expiry = $b; $checks:any Ok((payment_preimage, min_final_cltv_expiry_delta))
//@with
    fn verify_amount_and_expiry(payment_data: &FinalOnionHopData, min_amt_msat: u64, expiry: u64, highest_seen_timestamp: u64) -> Result<(), ()> {
        $checks
        Ok(())
    }
//@ret r
//@ensures P C04 a-payment-is-accepted-only-if-the-senders-total-covers-the-amount-fixed-in-the-payment-secret-and-the-secret-has-not-expired
    r is Ok <==> (payment_data.total_msat >= min_amt_msat && expiry >= highest_seen_timestamp),
//@mutant underpaying_total_accepted
    payment_data.total_msat < min_amt_msat
//@with
    payment_data.total_msat + 1 < min_amt_msat
//@mutant expired_secret_accepted
    expiry < highest_seen_timestamp
//@with
    expiry + 7200 < highest_seen_timestamp
//@end

// ---- the periodic and per-block sweeps: a payment that timed out is failed back in ALL its parts, one that did not keeps all of them ----
pub mod sweeps {
use vstd::prelude::*;
#[derive(Copy)] pub struct PaymentHash(pub [u8; 32]);
#[derive(Copy)] pub struct PrevHop { pub id: u64 }
#[derive(Clone, Copy)] pub struct Part { pub prev_hop: PrevHop, pub cltv_expiry: u32, pub value: u64, pub timer_ticks: u8, pub total_value_received: Option<u64> }
#[derive(Clone, Copy)] pub struct Claimable { pub mpp_part: Part }
pub struct Fields { pub total_mpp_amount_msat: u64 }
pub struct ClaimablePayment { pub htlcs: Vec<Claimable>, pub onion_fields: Fields }
pub struct TrampolinePayment { pub htlcs: Vec<Part>, pub onion_fields: Fields }
pub enum HTLCSource { PreviousHopData(PrevHop), TrampolineForward { previous_hop_data: Vec<PrevHop>, outbound_payment: Option<u8> } }
pub enum HTLCHandlingFailureType { Receive { payment_hash: PaymentHash }, TrampolineForward {} }
// the decision of check_mpp_timeout (proved on the real function above) for the parts as they are before the tick
pub uninterp spec fn times_out(parts: Seq<Part>, total: u64) -> bool;
pub open spec fn parts_of(h: Seq<Claimable>) -> Seq<Part> { h.map_values(|c: Claimable| c.mpp_part) }
pub open spec fn same_parts_modulo_ticks(a: Seq<Part>, b: Seq<Part>) -> bool {
    a.len() == b.len() && forall|k: int| 0 <= k < a.len() ==> (#[trigger] a[k]).prev_hop == b[k].prev_hop && a[k].cltv_expiry == b[k].cltv_expiry && a[k].value == b[k].value
}
// R5: `check_mpp_timeout(payment.htlcs.iter_mut().map(|htlc| &mut htlc.mpp_part), &payment.onion_fields)`
#[verifier::external_body] pub fn check_mpp_timeout_of_claimable(htlcs: &mut Vec<Claimable>, onion_fields: &Fields) -> (r: bool)
    ensures r == times_out(parts_of(old(htlcs)@), onion_fields.total_mpp_amount_msat), same_parts_modulo_ticks(parts_of(final(htlcs)@), parts_of(old(htlcs)@)) { unimplemented!() }
// R5: `check_mpp_timeout(payment.htlcs.iter_mut(), &payment.onion_fields)`
#[verifier::external_body] pub fn check_mpp_timeout_of_parts(htlcs: &mut Vec<Part>, onion_fields: &Fields) -> (r: bool)
    ensures r == times_out(old(htlcs)@, onion_fields.total_mpp_amount_msat), same_parts_modulo_ticks(final(htlcs)@, old(htlcs)@) { unimplemented!() }
// R6: `V.iter().all(|h| P)` (a statement a change may put in front of the timeout test): the closure carries P as its postcondition, the answer is tied to it per element
#[verifier::external_body] pub fn all_of<T, F: Fn(&T) -> bool>(v: &Vec<T>, f: F) -> (r: bool)
    ensures r ==> forall|k: int| 0 <= k < v@.len() ==> f.ensures((&#[trigger] v@[k],), true), !r ==> exists|k: int| 0 <= k < v@.len() && f.ensures((&#[trigger] v@[k],), false) { unimplemented!() }
// R6: `V.drain(..)`: the elements in order, the vector left empty
#[verifier::external_body] pub fn drain_all<T>(v: &mut Vec<T>) -> (r: Vec<T>) ensures r@ == old(v)@, final(v)@.len() == 0 { unimplemented!() }
pub open spec fn receive_failure(h: Claimable, hash: PaymentHash) -> (HTLCSource, PaymentHash, HTLCHandlingFailureType) {
    (HTLCSource::PreviousHopData(h.mpp_part.prev_hop), hash, HTLCHandlingFailureType::Receive { payment_hash: hash })
}
//@extract lightning/src/ln/channelmanager.rs :: impl ChannelManager :: fn timer_tick_occurred
//@slice R15
    self.claimable_payments.lock().unwrap().claimable_payments.retain( |payment_hash, payment| { if payment.htlcs.is_empty() { debug_assert!(false); return false; } $pre:any let mpp_timeout = check_mpp_timeout( payment.htlcs.iter_mut().map(|htlc| &mut htlc.mpp_part), &payment.onion_fields, ); if $c:cond { timed_out_mpp_htlcs.extend(payment.htlcs.drain(..).map(|h| { $t:any })); } return $keep:seq; }, );
//@with
    fn payment_kept_by_the_timer_tick(payment_hash: &PaymentHash, payment: &mut ClaimablePayment, timed_out_mpp_htlcs: &mut Vec<(HTLCSource, PaymentHash, HTLCHandlingFailureType)>) -> bool {
        if payment.htlcs.is_empty() { debug_assert!(false); return false; }
        $pre
        let ghost before = payment.htlcs@; let ghost out0 = timed_out_mpp_htlcs@;
        let mpp_timeout = check_mpp_timeout_of_claimable(&mut payment.htlcs, &payment.onion_fields);
        if $c {
            // R6: `OUT.extend(V.drain(..).map(|h| E))` as an index loop over the drained elements carrying E verbatim
            let __d = drain_all(&mut payment.htlcs); let mut __k: usize = 0;
            while __k < __d.len()
                invariant __k <= __d@.len(), timed_out_mpp_htlcs@.len() == out0.len() + __k, timed_out_mpp_htlcs@.take(out0.len() as int) == out0,
                    forall|j: int| 0 <= j < __k ==> timed_out_mpp_htlcs@[out0.len() + j] == receive_failure(#[trigger] __d@[j], *payment_hash),
                decreases __d@.len() - __k
            { let h = __d[__k]; timed_out_mpp_htlcs.push($t); __k = __k + 1; }
            proof {
                assert(parts_of(__d@).len() == parts_of(before).len());
                assert forall|j: int| 0 <= j < before.len() implies receive_failure(__d@[j], *payment_hash) == receive_failure(#[trigger] before[j], *payment_hash) by {
                    assert(parts_of(__d@)[j].prev_hop == parts_of(before)[j].prev_hop);
                }
            }
        }
        return $keep; }
//@rw R6 ?
    payment.htlcs.iter().all(|$x:ident| $p:seq)
//@with
    all_of(&payment.htlcs, |$x: &Claimable| -> (b: bool) ensures b == ($p) { $p })
//@ret r
//@requires
    old(payment).htlcs@.len() > 0,
//@ensures P C04 a-payment-that-timed-out-incomplete-is-failed-back-in-every-part-and-forgotten-and-one-that-did-not-keeps-every-part
    r == !times_out(parts_of(old(payment).htlcs@), old(payment).onion_fields.total_mpp_amount_msat),
    r ==> final(timed_out_mpp_htlcs)@ == old(timed_out_mpp_htlcs)@ && same_parts_modulo_ticks(parts_of(final(payment).htlcs@), parts_of(old(payment).htlcs@)),
    !r ==> final(payment).htlcs@.len() == 0 && final(timed_out_mpp_htlcs)@.len() == old(timed_out_mpp_htlcs)@.len() + old(payment).htlcs@.len()
        && final(timed_out_mpp_htlcs)@.take(old(timed_out_mpp_htlcs)@.len() as int) == old(timed_out_mpp_htlcs)@
        && forall|j: int| 0 <= j < old(payment).htlcs@.len() ==> final(timed_out_mpp_htlcs)@[old(timed_out_mpp_htlcs)@.len() + j] == receive_failure(#[trigger] old(payment).htlcs@[j], *payment_hash),
//@mutant timed_out_payment_kept_in_the_map
    return !mpp_timeout;
//@with
    return true;
//@mutant parts_failed_back_although_the_payment_did_not_time_out
    if mpp_timeout { timed_out_mpp_htlcs.extend(
//@with
    if !mpp_timeout { timed_out_mpp_htlcs.extend(
//@end
// R6: `V.drain(..).map(|claimable| claimable.prev_hop).collect()`
#[verifier::external_body] pub fn drain_prev_hops(v: &mut Vec<Part>) -> (r: Vec<PrevHop>)
    ensures final(v)@.len() == 0, r@.len() == old(v)@.len(), forall|k: int| 0 <= k < r@.len() ==> r@[k] == (#[trigger] old(v)@[k]).prev_hop { unimplemented!() }
//@extract lightning/src/ln/channelmanager.rs :: impl ChannelManager :: fn timer_tick_occurred
//@slice R15
    self.awaiting_trampoline_forwards.lock().unwrap().retain(|payment_hash, payment| { if payment.htlcs.is_empty() { debug_assert!(false); return false; } let mpp_timeout = check_mpp_timeout(payment.htlcs.iter_mut(), &payment.onion_fields); if $c:cond { let previous_hop_data = payment.htlcs.drain(..).map(|claimable| claimable.prev_hop).collect(); $push:straight } $keep:seq });
//@with
    fn trampoline_accumulation_kept_by_the_timer_tick(payment_hash: &PaymentHash, payment: &mut TrampolinePayment, timed_out_mpp_htlcs: &mut Vec<(HTLCSource, PaymentHash, HTLCHandlingFailureType)>) -> bool {
        if payment.htlcs.is_empty() { debug_assert!(false); return false; }
        let ghost before = payment.htlcs@;
        let mpp_timeout = check_mpp_timeout_of_parts(&mut payment.htlcs, &payment.onion_fields);
        let ghost after = payment.htlcs@;
        if $c { let previous_hop_data = drain_prev_hops(&mut payment.htlcs);
            proof { assert forall|k: int| 0 <= k < previous_hop_data@.len() implies previous_hop_data@[k] == (#[trigger] before[k]).prev_hop by { assert(after[k].prev_hop == before[k].prev_hop); } }
            $push }
        $keep }
//@ret r
//@requires
    old(payment).htlcs@.len() > 0,
//@ensures P C04 a-trampoline-accumulation-that-timed-out-incomplete-is-failed-back-to-every-previous-hop-and-forgotten
    r == !times_out(old(payment).htlcs@, old(payment).onion_fields.total_mpp_amount_msat),
    r ==> final(timed_out_mpp_htlcs)@ == old(timed_out_mpp_htlcs)@ && same_parts_modulo_ticks(final(payment).htlcs@, old(payment).htlcs@),
    !r ==> final(payment).htlcs@.len() == 0 && final(timed_out_mpp_htlcs)@.len() == old(timed_out_mpp_htlcs)@.len() + 1
        && final(timed_out_mpp_htlcs)@.drop_last() == old(timed_out_mpp_htlcs)@
        && (final(timed_out_mpp_htlcs)@.last().0 matches HTLCSource::TrampolineForward { previous_hop_data, outbound_payment }
            && previous_hop_data@.len() == old(payment).htlcs@.len() && (forall|k: int| 0 <= k < previous_hop_data@.len() ==> previous_hop_data@[k] == (#[trigger] old(payment).htlcs@[k]).prev_hop))
        && final(timed_out_mpp_htlcs)@.last().1 == *payment_hash,
//@mutant timed_out_accumulation_kept_in_the_map
    timed_out_mpp_htlcs.push(( HTLCSource::TrampolineForward { previous_hop_data, outbound_payment: None }, *payment_hash, HTLCHandlingFailureType::TrampolineForward {}, )); } !mpp_timeout
//@with
    timed_out_mpp_htlcs.push(( HTLCSource::TrampolineForward { previous_hop_data, outbound_payment: None }, *payment_hash, HTLCHandlingFailureType::TrampolineForward {}, )); } true
//@end
// ---- new blocks: each part of a claimable payment that reached its on-chain deadline is failed back and dropped, the others stay ----
pub struct FailReason { pub value: u64, pub height: u32 }
#[verifier::external_body] pub fn invalid_payment_err_data(value: u64, height: u32) -> (r: (u64, u32)) ensures r == (value, height) { unimplemented!() }
pub enum LocalHTLCFailureReason { PaymentClaimBuffer, MPPTimeout }
pub struct HTLCFailReason { pub reason: LocalHTLCFailureReason, pub data: (u64, u32) }
impl HTLCFailReason { #[verifier::external_body] pub fn reason(reason: LocalHTLCFailureReason, data: (u64, u32)) -> (r: HTLCFailReason) ensures r.reason == reason, r.data == data { unimplemented!() } }
impl Part { #[verifier::external_body] pub fn check_onchain_timeout(&self, height: u32) -> (r: bool) ensures r == reached_onchain_deadline(*self, height) { unimplemented!() } }
impl Clone for PrevHop { #[verifier::external_body] fn clone(&self) -> (r: Self) ensures r == *self { unimplemented!() } }
impl Clone for PaymentHash { #[verifier::external_body] fn clone(&self) -> (r: Self) ensures r == *self { unimplemented!() } }
// the decision of MppPart::check_onchain_timeout (proved on the real function above)
pub uninterp spec fn reached_onchain_deadline(p: Part, height: u32) -> bool;
//@extract lightning/src/ln/channelmanager.rs :: impl ChannelManager :: fn do_chain_event
//@slice R15
    self.claimable_payments.lock().unwrap().claimable_payments.retain( |payment_hash, payment| { payment.htlcs.retain(|htlc| { $body:any }); $keep:seq }, );
//@with
    fn claimable_part_kept_past_this_block(htlc: &Claimable, payment_hash: &PaymentHash, height: u32, timed_out_htlcs: &mut Vec<(HTLCSource, PaymentHash, HTLCFailReason, HTLCHandlingFailureType)>) -> bool { $body }
//@ret r
//@ensures P C04,C08 a-part-of-a-claimable-payment-that-reached-its-on-chain-deadline-is-failed-back-and-dropped-and-no-other
    r == !reached_onchain_deadline(htlc.mpp_part, height),
    r ==> final(timed_out_htlcs)@ == old(timed_out_htlcs)@,
    !r ==> final(timed_out_htlcs)@.len() == old(timed_out_htlcs)@.len() + 1 && final(timed_out_htlcs)@.drop_last() == old(timed_out_htlcs)@
        && final(timed_out_htlcs)@.last().0 == HTLCSource::PreviousHopData(htlc.mpp_part.prev_hop) && final(timed_out_htlcs)@.last().1 == *payment_hash
        && final(timed_out_htlcs)@.last().2.reason == LocalHTLCFailureReason::PaymentClaimBuffer,
//@mutant part_past_its_deadline_kept_without_failing_it_back
    !htlc_timed_out }); !payment.htlcs.is_empty()
//@with
    true }); !payment.htlcs.is_empty()
//@end
//@extract lightning/src/ln/channelmanager.rs :: impl ChannelManager :: fn do_chain_event
//@slice R15
    self.claimable_payments.lock().unwrap().claimable_payments.retain( |payment_hash, payment| { payment.htlcs.retain(|htlc| { $body:any }); $keep:seq }, );
//@with
    fn claimable_payment_kept_past_this_block(payment: &ClaimablePayment) -> bool { $keep }
//@ret r
//@ensures P C04,C08 a-claimable-payment-stays-known-exactly-while-a-part-of-it-is-left
    r == (payment.htlcs@.len() > 0),
//@end
}
// (P) the two conditions "match exactly" (the code comments demand it): a set is complete for check_incoming_mpp_part
// iff check_mpp_timeout can no longer time it out
pub proof fn lemma_complete_iff_cannot_time_out(parts: Seq<MppPart>, total: u64)
    ensures (intended_sum(parts) >= total) <==> !(intended_sum(parts) < total)
{}
}
fn main() {}
