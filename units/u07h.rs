//! unit: u07h
//! properties: C07 C05 C10 C02 C06 C08
//! note: also run for C06: the code it constrains lies inside mechanisms those properties name (a change made there for their sake must meet these clauses too)
//! note: going on chain with our own commitment (ChannelMonitorImpl::generate_claimable_outpoints_and_watch_outputs, slices): the claim for the funding output is built from the current holder commitment on the funding outpoint; the monitor is marked as having signed its commitment (so that no further channel update is accepted) BEFORE any early return, also when nothing is broadcast because a manually-broadcast funding transaction has not been seen; the force-close event names this channel and its funding outpoint; HTLC claims are added at once only for channels without anchors or zero-fee commitments; and a newly learned preimage claims, on a confirmed counterparty commitment, exactly the offered HTLC outputs with that payment hash, each on its own output index with its own expiry as the claim's locktime (get_counterparty_output_claims_for_preimage, closure body)
//! trusted: R15 (deep slices): generate_claimable_outpoints_and_watch_outputs: the statements from the construction of the funding claim to the manual-broadcast early return (verbatim; the monitor is a skeleton with the fields they touch; HolderFundingOutput::build / PackageTemplate::build_package are recorders of their arguments), and the anchors test in front of the HTLC claims; get_counterparty_output_claims_for_preimage: the body of the filter_map closure verbatim as a function of one HTLC (CounterpartyOfferedHTLCOutput::build records its arguments)
//! trusted: assume_specification for core::cmp::max / core::cmp::min (std definitions): present in every unit so that a change that introduces them is verified instead of being rejected by the tool
use vstd::prelude::*;
verus! {
use vstd::std_specs::cmp::*;
use core::cmp;
pub assume_specification<T: core::cmp::Ord>[core::cmp::max::<T>](a: T, b: T) -> (r: T)
    ensures T::obeys_cmp_spec() ==> r == (if b.cmp_spec(&a) == core::cmp::Ordering::Less { a } else { b });
pub assume_specification<T: core::cmp::Ord>[core::cmp::min::<T>](a: T, b: T) -> (r: T)
    ensures T::obeys_cmp_spec() ==> r == (if b.cmp_spec(&a) == core::cmp::Ordering::Less { b } else { a });
#[derive(Clone, Copy)] pub struct Txid(pub u64);
#[derive(Clone, Copy)] pub struct ChannelId(pub u64);
#[derive(Clone, Copy)] pub struct OutPoint { pub txid: Txid, pub index: u16 }
#[derive(Clone, Copy)] pub struct HolderCommitment { pub id: u64 }
#[derive(Clone, Copy)] pub struct ChannelParameters { pub id: u64 }
#[derive(Clone, Copy)] pub struct ClosureReason { pub id: u64 }
#[derive(Clone, Copy)] pub struct PaymentHash(pub u64);
#[derive(Clone, Copy)] pub struct PaymentPreimage(pub u64);
#[derive(Clone, Copy)] pub struct Point(pub u64);
#[derive(Clone, Copy)] pub struct HTLCOutputInCommitment { pub offered: bool, pub payment_hash: PaymentHash, pub transaction_output_index: Option<u32>, pub cltv_expiry: u32, pub amount_msat: u64 }
impl vstd::std_specs::cmp::PartialEqSpecImpl for PaymentHash { open spec fn obeys_eq_spec() -> bool { true } open spec fn eq_spec(&self, other: &PaymentHash) -> bool { self.0 == other.0 } }
impl PartialEq for PaymentHash { fn eq(&self, o: &PaymentHash) -> (r: bool) { self.0 == o.0 } }
pub struct HolderFundingOutput { pub commitment: HolderCommitment, pub params: ChannelParameters }
impl HolderFundingOutput { #[verifier::external_body] pub fn build(c: HolderCommitment, p: ChannelParameters) -> (r: Self) ensures r.commitment == c, r.params == p { unimplemented!() } }
pub struct CounterpartyOfferedHTLCOutput { pub point: Point, pub preimage: PaymentPreimage, pub htlc: HTLCOutputInCommitment, pub params: ChannelParameters, pub confirmation_height: Option<u32> }
impl CounterpartyOfferedHTLCOutput {
    #[verifier::external_body] pub fn build(point: Point, preimage: PaymentPreimage, htlc: HTLCOutputInCommitment, params: ChannelParameters, confirmation_height: Option<u32>) -> (r: Self)
        ensures r == (CounterpartyOfferedHTLCOutput { point, preimage, htlc, params, confirmation_height }) { unimplemented!() }
}
pub enum PackageSolvingData { HolderFundingOutput(HolderFundingOutput), CounterpartyOfferedHTLCOutput(CounterpartyOfferedHTLCOutput), Other }
pub struct PackageTemplate { pub txid: Txid, pub vout: u32, pub data: PackageSolvingData, pub height: u32 }
impl PackageTemplate {
    #[verifier::external_body] pub fn build_package(txid: Txid, vout: u32, data: PackageSolvingData, height: u32) -> (r: Self) ensures r == (PackageTemplate { txid, vout, data, height }) { unimplemented!() }
}
pub enum MonitorEvent { HolderForceClosedWithInfo { reason: ClosureReason, outpoint: OutPoint, channel_id: ChannelId }, Other }
pub struct BestBlock { pub height: u32 }
pub struct FundingScope { pub current_holder_commitment_tx: HolderCommitment, pub channel_parameters: ChannelParameters, pub outpoint: OutPoint }
impl FundingScope { #[verifier::external_body] pub fn funding_outpoint(&self) -> (r: OutPoint) ensures r == self.outpoint { unimplemented!() } }
pub struct Mon { pub best_block: BestBlock, pub channel_id: ChannelId, pub pending_monitor_events: Vec<MonitorEvent>, pub holder_tx_signed: bool, pub is_manual_broadcast: bool, pub funding_seen_onchain: bool }
impl Mon {
//@extract lightning/src/chain/channelmonitor.rs :: impl ChannelMonitorImpl :: fn generate_claimable_outpoints_and_watch_outputs
//@slice R15
    let holder_commitment_tx = &funding.current_holder_commitment_tx; $body:straight if $manual:cond { return (Vec::new(), Vec::new()); }
//@with
    fn start_going_on_chain_with_our_commitment(&mut self, funding: &FundingScope, generate_monitor_event_with_reason: Option<ClosureReason>, require_funding_seen: bool) -> (Vec<PackageTemplate>, bool) {
        let holder_commitment_tx = &funding.current_holder_commitment_tx; $body
        if $manual { return (Vec::new(), true); }
        (claimable_outpoints, false)
    }
//@ret r
//@ensures P C05,C10,C07 once-the-monitor-decides-to-go-on-chain-it-is-marked-as-having-signed-its-commitment-before-anything-else-can-return-and-the-claim-it-queues-spends-the-funding-output-with-the-current-holder-commitment
    final(self).holder_tx_signed,
    r.1 == (require_funding_seen && old(self).is_manual_broadcast && !old(self).funding_seen_onchain),
    !r.1 ==> r.0@.len() == 1 && r.0@[0] == (PackageTemplate { txid: funding.outpoint.txid, vout: funding.outpoint.index as u32,
        data: PackageSolvingData::HolderFundingOutput(HolderFundingOutput { commitment: funding.current_holder_commitment_tx, params: funding.channel_parameters }), height: old(self).best_block.height }),
    r.1 ==> r.0@.len() == 0,
    final(self).pending_monitor_events@ == (match generate_monitor_event_with_reason {
        Some(reason) => old(self).pending_monitor_events@.push(MonitorEvent::HolderForceClosedWithInfo { reason, outpoint: funding.outpoint, channel_id: old(self).channel_id }),
        None => old(self).pending_monitor_events@ }),
//@mutant commitment_marked_signed_only_when_something_is_broadcast
    self.holder_tx_signed = true;
//@with
    self.holder_tx_signed = !(require_funding_seen && self.is_manual_broadcast && !self.funding_seen_onchain);
//@mutant funding_claim_built_on_output_zero
    funding_outpoint.index as u32,
//@with
    0u32,
//@end
}
pub struct Features { pub zero_fee_htlc: bool, pub zero_fee_commitments: bool }
impl Features {
    #[verifier::external_body] pub fn supports_anchors_zero_fee_htlc_tx(&self) -> (r: bool) ensures r == self.zero_fee_htlc { unimplemented!() }
    #[verifier::external_body] pub fn supports_anchor_zero_fee_commitments(&self) -> (r: bool) ensures r == self.zero_fee_commitments { unimplemented!() }
}
pub struct MonF { pub f: Features }
impl MonF {
    #[verifier::external_body] pub fn channel_type_features(&self) -> (r: &Features) ensures *r == self.f { unimplemented!() }
//@extract lightning/src/chain/channelmonitor.rs :: impl ChannelMonitorImpl :: fn generate_claimable_outpoints_and_watch_outputs
//@slice R15
    let zero_fee_htlcs = $a:seq; let zero_fee_commitments = $b:seq; if $c:cond {
//@with
    fn htlc_claims_are_queued_with_the_commitment(&self) -> bool { let zero_fee_htlcs = $a; let zero_fee_commitments = $b; if $c { true } else { false } }
//@ret r
//@ensures P C07 htlc-claims-are-queued-together-with-the-commitment-only-when-the-channel-has-neither-anchors-nor-zero-fee-commitments-otherwise-they-wait-for-its-confirmation
    r == (!self.f.zero_fee_htlc && !self.f.zero_fee_commitments),
//@mutant htlc_claims_queued_at_once_for_zero_fee_commitment_channels
    if !zero_fee_htlcs && !zero_fee_commitments {
//@with
    if !zero_fee_htlcs {
//@end
}
// ---- a newly learned preimage on a confirmed counterparty commitment ----
pub struct FundingP { pub channel_parameters: ChannelParameters }
//@extract lightning/src/chain/channelmonitor.rs :: impl ChannelMonitorImpl :: fn get_counterparty_output_claims_for_preimage
//@slice R15
    .filter_map(|(htlc, _)| { $body:any })
//@with
    fn claim_for_an_offered_htlc_with_a_newly_learned_preimage(htlc: &HTLCOutputInCommitment, matching_payment_hash: PaymentHash, preimage: PaymentPreimage, per_commitment_point: Point, funding_spent: &FundingP,
        commitment_txid: Txid, confirmation_height: Option<u32>) -> Option<PackageTemplate> { $body }
//@ret r
//@ensures P C07,C02 a-newly-learned-preimage-claims-exactly-the-offered-htlc-outputs-with-its-hash-each-on-its-own-output-with-its-own-expiry-and-this-preimage
    r is Some <==> (htlc.transaction_output_index is Some && htlc.offered && htlc.payment_hash.0 == matching_payment_hash.0),
    r is Some ==> r->Some_0 == (PackageTemplate { txid: commitment_txid, vout: htlc.transaction_output_index->Some_0,
        data: PackageSolvingData::CounterpartyOfferedHTLCOutput(CounterpartyOfferedHTLCOutput { point: per_commitment_point, preimage, htlc: *htlc, params: funding_spent.channel_parameters, confirmation_height }), height: htlc.cltv_expiry }),
//@mutant preimage_claim_also_built_for_htlcs_we_offered
    if htlc.offered && htlc.payment_hash == matching_payment_hash {
//@with
    if htlc.payment_hash == matching_payment_hash {
//@end
// which per-commitment point of the counterparty a claim on one of its commitments is built with (get_point_for_commitment_number WHOLE): the latest point for its latest commitment, the previous point for the one before (both can be valid while a revocation is in flight), none for any other number
pub struct MonP { pub their_cur_per_commitment_points: Option<(u64, Point, Option<Point>)> }
impl MonP {
//@extract lightning/src/chain/channelmonitor.rs :: impl ChannelMonitorImpl :: fn get_point_for_commitment_number
//@rw R5
    -> Option<PublicKey>
//@with
    -> Option<Point>
//@ret r
//@requires
    commitment_number < u64::MAX,
//@ensures P C07,C06 a-claim-on-a-counterparty-commitment-uses-that-commitments-own-per-commitment-point-the-latest-for-the-latest-number-the-previous-for-the-one-before-and-none-otherwise
    r == (match self.their_cur_per_commitment_points {
        None => None::<Point>,
        Some((n, cur, prev)) => if n == commitment_number { Some(cur) } else if prev is Some && n == commitment_number + 1 { prev } else { None::<Point> } }),
//@mutant previous_point_used_for_the_commitment_after_the_latest
    if per_commitment_points.0 == commitment_number + 1 {
//@with
    if per_commitment_points.0 + 1 == commitment_number {
//@end
}
// ---- new blocks (block_confirmed, head): the monitor goes on chain by itself exactly when an HTLC is about to expire (should_broadcast_holder_commitment_txn: proved in u02 / u08), once, naming that HTLC as the reason, and never for a manually broadcast channel whose funding has not been seen ----
pub mod going_on_chain {
use vstd::prelude::*;
#[derive(Clone, Copy)] pub struct PaymentHash(pub u64);
pub enum ClosureReason { HTLCsTimedOut { payment_hash: Option<PaymentHash> }, Other }
pub struct Pkg { pub id: u64 }
pub struct Outs { pub id: u64 }
pub struct LoggerStub {}
pub struct MonB { pub is_manual_broadcast: bool, pub funding_seen_onchain: bool, pub expiring: Option<PaymentHash>, pub calls: Ghost<Seq<(Option<ClosureReason>, bool)>>, pub made: Ghost<(Seq<Pkg>, Seq<Outs>)> }
impl MonB {
    #[verifier::external_body] pub fn should_broadcast_holder_commitment_txn(&self, logger: &LoggerStub) -> (r: Option<PaymentHash>) ensures r == self.expiring { unimplemented!() }
    #[verifier::external_body] pub fn generate_claimable_outpoints_and_watch_outputs(&mut self, reason: Option<ClosureReason>, is_htlc_timeout: bool) -> (r: (Vec<Pkg>, Vec<Outs>))
        ensures final(self).calls@ == old(self).calls@.push((reason, is_htlc_timeout)), r.0@ == old(self).made@.0, r.1@ == old(self).made@.1,
            final(self).is_manual_broadcast == old(self).is_manual_broadcast, final(self).funding_seen_onchain == old(self).funding_seen_onchain, final(self).expiring == old(self).expiring, final(self).made == old(self).made { unimplemented!() }
//@extract lightning/src/chain/channelmonitor.rs :: impl ChannelMonitorImpl :: fn block_confirmed
//@slice R15
    if claimable_outpoints.is_empty() { $body:any } let (onchain_events_reaching_threshold_conf
//@with
    fn go_on_chain_for_an_expiring_htlc(&mut self, claimable_outpoints: &mut Vec<Pkg>, watch_outputs: &mut Vec<Outs>, logger: &LoggerStub) { if claimable_outpoints.is_empty() { $body } }
//@ensures P C07,C08 a-new-block-makes-the-monitor-go-on-chain-once-exactly-when-an-htlc-is-about-to-expire-and-no-claims-were-generated-for-this-block-already-naming-that-htlc-and-not-for-a-manually-broadcast-channel-whose-funding-was-never-seen
    ({ let goes = old(claimable_outpoints)@.len() == 0 && old(self).expiring is Some;
       &&& !goes ==> final(self).calls@ == old(self).calls@ && final(claimable_outpoints)@ == old(claimable_outpoints)@ && final(watch_outputs)@ == old(watch_outputs)@
       &&& goes ==> final(self).calls@ == old(self).calls@.push((Some(ClosureReason::HTLCsTimedOut { payment_hash: Some(old(self).expiring->Some_0) }), false))
       &&& goes && (!old(self).is_manual_broadcast || old(self).funding_seen_onchain) ==> final(claimable_outpoints)@ == old(self).made@.0 && final(watch_outputs)@ == old(watch_outputs)@ + old(self).made@.1
       &&& goes && old(self).is_manual_broadcast && !old(self).funding_seen_onchain ==> final(claimable_outpoints)@ == old(claimable_outpoints)@ && final(watch_outputs)@ == old(watch_outputs)@ }),
//@mutant manually_broadcast_channel_goes_on_chain_before_its_funding_was_seen
    if !self.is_manual_broadcast || self.funding_seen_onchain {
//@with
    if !self.is_manual_broadcast || !self.funding_seen_onchain {
//@end
}
}
}
fn main() {}
