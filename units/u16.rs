//! unit: u16
//! properties: C16
//! note: router fee arithmetic: compute_fees and PaymentPath::update_value_and_recompute_fees, paths of any length
//! trusted: CandidateRouteHop is a stub {min, f} whose htlc_minimum_msat()/fees() accessors are external_body pure functions; NodeFeatures opaque; lifetimes dropped (R5)
//! assume: the running sum of a path's fees fits u64 (get_total_fee_paid_msat adds unchecked; fees are bounded by the amounts, which are bounded by the supply)
//! assume: fits(path, value): the ideal per-hop amounts and fee products fit 60 bits (established by callers via compute_max_final_value_contribution; LDK's unreachable!() relies on it); path_penalty_msat <= 2^60; at most 100 hops
//! trusted: assume_specification for core::cmp::max / core::cmp::min (std definitions): present in every unit so that a change that introduces them is verified instead of being rejected by the tool
use vstd::prelude::*;
verus! {
use vstd::std_specs::cmp::*;
use core::cmp;
pub assume_specification<T: core::cmp::Ord>[core::cmp::max::<T>](a: T, b: T) -> (r: T)
    ensures T::obeys_cmp_spec() ==> r == (if b.cmp_spec(&a) == core::cmp::Ordering::Less { a } else { b });
pub assume_specification<T: core::cmp::Ord>[core::cmp::min::<T>](a: T, b: T) -> (r: T)
    ensures T::obeys_cmp_spec() ==> r == (if b.cmp_spec(&a) == core::cmp::Ordering::Less { b } else { a });
pub struct CandidateRouteHop { pub min: u64, pub f: RoutingFees }
impl CandidateRouteHop {
  #[verifier::external_body] pub fn htlc_minimum_msat(&self) -> (r: u64) ensures r == self.min { self.min }
  #[verifier::external_body] pub fn fees(&self) -> (r: RoutingFees) ensures r == self.f { self.f }
}
pub struct NodeFeatures {}
//@extract lightning-types/src/routing.rs :: struct RoutingFees
//@derive Clone Copy
//@end
//@extract lightning/src/routing/router.rs :: struct PathBuildingHop
//@rw * R5
    <'a>
//@with
//@end
//@extract lightning/src/routing/router.rs :: struct PaymentPath
//@rw * R5
    <'a>
//@with
//@end

pub open spec fn fees_spec(amt: int, f: RoutingFees) -> int { f.base_msat as int + amt * (f.proportional_millionths as int) / 1_000_000 }

//@extract lightning/src/routing/router.rs :: fn compute_fees
//@ret r
//@ensures P C16 fee-is-the-advertised-policy-formula
    r is Some ==> r->Some_0 as int == fees_spec(amount_msat as int, channel_fees),
    r is None <==> (amount_msat as int * channel_fees.proportional_millionths as int > u64::MAX
        || fees_spec(amount_msat as int, channel_fees) > u64::MAX),
//@rw R9
    .and_then(|$p:ident| $body)
//@with
    .and_then(|$p: u64| -> (o: Option<u64>)
        ensures o == (if channel_fees.base_msat as int + $p as int / 1_000_000 <= u64::MAX { Some((channel_fees.base_msat as int + $p as int / 1_000_000) as u64) } else { None::<u64> })
        { $body })
//@mutant base_fee_dropped
    (channel_fees.base_msat as u64).checked_add(part / 1_000_000)
//@with
    (0 as u64).checked_add(part / 1_000_000)
//@end

//@extract lightning/src/routing/router.rs :: fn compute_fees_saturating
//@ret r
//@ensures A saturating-variant-never-below-the-formula
    r as int == (if amount_msat as int * channel_fees.proportional_millionths as int > u64::MAX || fees_spec(amount_msat as int, channel_fees) > u64::MAX { u64::MAX as int } else { fees_spec(amount_msat as int, channel_fees) }),
//@rw R9
    .map(|$p:ident| $body)
//@with
    .map(|$p: u64| -> (o: u64) ensures o == $p / 1_000_000 { $body })
//@end

// amount carried over hop j = sum of fee_msat of hops j..len
pub open spec fn carried(hops: Seq<(PathBuildingHop, NodeFeatures)>, j: int) -> int
    decreases hops.len() - j
{
    if j >= hops.len() || j < 0 { 0 } else { hops[j].0.fee_msat as int + carried(hops, j + 1) }
}

// sum of fee_msat over hops[0..upto) leaving out the last hop of the path (whose fee_msat is the value delivered)
pub open spec fn fees_before_last(hops: Seq<(PathBuildingHop, NodeFeatures)>, upto: int) -> int decreases upto {
    if upto <= 0 { 0 } else { fees_before_last(hops, upto - 1) + (if upto - 1 != hops.len() - 1 { hops[upto - 1].0.fee_msat as int } else { 0 }) }
}
pub open spec fn same_candidates(a: Seq<(PathBuildingHop, NodeFeatures)>, b: Seq<(PathBuildingHop, NodeFeatures)>) -> bool {
    a.len() == b.len() && forall|k: int| 0 <= k < a.len() ==> a[k].0.candidate == b[k].0.candidate
}

// (P) the property's sentence, per hop
pub open spec fn route_ok_from(hops: Seq<(PathBuildingHop, NodeFeatures)>, i: int) -> bool {
    &&& forall|j: int| i <= j < hops.len() ==> carried(hops, j) >= #[trigger] hops[j].0.candidate.min
    &&& forall|j: int| i <= j < hops.len() - 1 ==> (#[trigger] hops[j].0.fee_msat) as int >= fees_spec(carried(hops, j + 1), hops[j + 1].0.candidate.f)
}


pub open spec fn maxi(a: int, b: int) -> int { if a >= b { a } else { b } }
// amount entering hop i in the ideal computation
pub open spec fn tspec(h: Seq<(PathBuildingHop, NodeFeatures)>, value: int, i: int) -> int
    decreases h.len() - i
{
    if i >= h.len() - 1 { maxi(h[h.len() - 1].0.candidate.min as int, value) }
    else { maxi(h[i].0.candidate.min as int, tspec(h, value, i + 1) + fees_spec(tspec(h, value, i + 1), h[i + 1].0.candidate.f)) }
}
pub proof fn lemma_tspec_mono(h: Seq<(PathBuildingHop, NodeFeatures)>, value: int, i: int)
    requires 0 <= i < h.len(), value >= 0
    ensures tspec(h, value, i) >= value, i < h.len() - 1 ==> tspec(h, value, i) >= tspec(h, value, i + 1),
            forall|k: int| i <= k < h.len() ==> tspec(h, value, i) >= #[trigger] tspec(h, value, k)
    decreases h.len() - i
{
    if i < h.len() - 1 {
        lemma_tspec_mono(h, value, i + 1);
        let t = tspec(h, value, i + 1);
        assert(t * (h[i + 1].0.candidate.f.proportional_millionths as int) >= 0) by (nonlinear_arith) requires t >= 0, h[i + 1].0.candidate.f.proportional_millionths >= 0;
    }
}
pub proof fn lemma_carried_suffix(a: Seq<(PathBuildingHop, NodeFeatures)>, b: Seq<(PathBuildingHop, NodeFeatures)>, j: int)
    requires a.len() == b.len(), 0 <= j, forall|k: int| j <= k < a.len() ==> a[k].0.fee_msat == b[k].0.fee_msat
    ensures carried(a, j) == carried(b, j)
    decreases a.len() - j
{
    if j < a.len() { lemma_carried_suffix(a, b, j + 1); }
}
pub open spec fn fits(h: Seq<(PathBuildingHop, NodeFeatures)>, value: int) -> bool {
    &&& tspec(h, value, 0) <= 0x0fff_ffff_ffff_ffff
    &&& forall|k: int| 1 <= k < h.len() ==> (#[trigger] tspec(h, value, k)) * (h[k].0.candidate.f.proportional_millionths as int) <= 0x0fff_ffff_ffff_ffff
}


impl PaymentPath {
//@extract lightning/src/routing/router.rs :: impl PaymentPath :: fn get_value_msat
//@ret r
//@requires
    self.hops.len() >= 1
//@ensures A
    r == self.hops[self.hops.len() - 1].0.fee_msat
//@end
//@extract lightning/src/routing/router.rs :: impl PaymentPath :: fn get_total_fee_paid_msat
//@ret r
//@requires
    forall|k: int| 0 <= k <= self.hops@.len() ==> #[trigger] fees_before_last(self.hops@, k) <= u64::MAX,
//@ensures P C16 the-fees-a-path-pays-are-what-every-hop-but-the-last-carries-as-its-fee
    r as int == fees_before_last(self.hops@, self.hops@.len() as int),
//@rw R6
    for (i, (hop, _)) in self.hops.iter().enumerate() { $body:any }
//@with
    let mut i: usize = 0;
    while i < self.hops.len()
        invariant i <= self.hops@.len(), result as int == fees_before_last(self.hops@, i as int),
            forall|k: int| 0 <= k <= self.hops@.len() ==> #[trigger] fees_before_last(self.hops@, k) <= u64::MAX,
        decreases self.hops@.len() - i
    {
        let hop = &self.hops[i].0;
        proof { assert(fees_before_last(self.hops@, i as int + 1) <= u64::MAX); }
        $body
        i = i + 1;
    }
//@mutant last_hops_value_counted_as_a_fee
    if i != self.hops.len() - 1 {
//@with
    if i != self.hops.len() {
//@end
//@extract lightning/src/routing/router.rs :: impl PaymentPath :: fn get_path_penalty_msat
//@rw R9
    .map(|h| h.0.path_penalty_msat)
//@with
    .map(|h: &(PathBuildingHop, NodeFeatures)| -> (o: u64) ensures o == h.0.path_penalty_msat { h.0.path_penalty_msat })
//@ret r
//@ensures A
    r == (if self.hops@.len() > 0 { self.hops@[0].0.path_penalty_msat } else { u64::MAX }),
//@end
//@extract lightning/src/routing/router.rs :: impl PaymentPath :: fn get_cost_msat
//@ret r
//@requires
    forall|k: int| 0 <= k <= self.hops@.len() ==> #[trigger] fees_before_last(self.hops@, k) <= u64::MAX,
//@ensures P C16 a-paths-cost-is-its-fees-plus-the-scorers-penalty-saturating
    ({ let c = fees_before_last(self.hops@, self.hops@.len() as int) + (if self.hops@.len() > 0 { self.hops@[0].0.path_penalty_msat as int } else { u64::MAX as int });
       r as int == (if c > u64::MAX { u64::MAX as int } else { c }) }),
//@end
//@extract lightning/src/routing/router.rs :: impl PaymentPath :: fn get_cost_per_msat
//@ret r
//@requires
    self.hops@.len() >= 1, self.hops@[self.hops@.len() - 1].0.fee_msat > 0,
    forall|k: int| 0 <= k <= self.hops@.len() ==> #[trigger] fees_before_last(self.hops@, k) <= u64::MAX,
//@ensures P C16 paths-are-ranked-by-cost-per-msat-delivered-and-a-path-of-unbounded-cost-ranks-last
    ({ let c = fees_before_last(self.hops@, self.hops@.len() as int) + self.hops@[0].0.path_penalty_msat as int;
       let v = self.hops@[self.hops@.len() - 1].0.fee_msat as int;
       r as int == (if c >= u64::MAX { u64::MAX as int } else { (c * 0x1_0000_0000_0000_0000) / v }) }),
//@at before `if fee_cost == u64::MAX`
    proof { assert(((fee_cost as u128) << 64u128) == (fee_cost as u128) * 0x1_0000_0000_0000_0000u128) by (bit_vector); }
//@end
//@extract lightning/src/routing/router.rs :: impl PaymentPath :: fn update_value_and_recompute_fees
//@ret ret
//@requires
    old(self).hops.len() >= 1, old(self).hops.len() <= 100,
    fits(old(self).hops@, value_msat as int),
    forall|k: int| 0 <= k < old(self).hops.len() ==> old(self).hops[k].0.path_penalty_msat <= 0x0fff_ffff_ffff_ffff,
//@ensures P C16 every-forwarding-node-paid-its-advertised-fee-and-every-hop-carries-its-minimum
    route_ok_from(final(self).hops@, 0),
//@ensures A frame-and-return-value
    same_candidates(final(self).hops@, old(self).hops@),
    ret == final(self).hops[final(self).hops.len() - 1].0.fee_msat,
    ret >= value_msat,
//@at before_loop 1
    let ghost n = self.hops.len() as int;
    let ghost h0 = self.hops@;
    let ghost v = value_msat as int;
    proof { lemma_tspec_mono(h0, v, 0); assert(v <= tspec(h0, v, 0)); }
//@loop 1 iter=iter
    invariant
        self.hops.len() == n, n >= 1, n <= 100, h0.len() == n, v == value_msat, value_msat <= 0x0fff_ffff_ffff_ffff,
        iter.seq().len() == n,
        forall|j: int| 0 <= j < n ==> iter.seq()[j] == n - 1 - j,
        same_candidates(self.hops@, h0),
        fits(h0, v),
        forall|k: int| 0 <= k < n - iter.index@ ==> self.hops[k].0.path_penalty_msat <= 0x0fff_ffff_ffff_ffff,
        iter.index@ == 0 ==> total_fee_paid_msat == 0 && extra_contribution_msat == 0,
        iter.index@ >= 1 ==> ({
            let p = n - iter.index@;
            &&& route_ok_from(self.hops@, p)
            &&& carried(self.hops@, p) == tspec(h0, v, p)
            &&& extra_contribution_msat == self.hops[n - 1].0.fee_msat - value_msat
            &&& extra_contribution_msat <= 0x0fff_ffff_ffff_ffff
            &&& p >= 1 ==> (total_fee_paid_msat + value_msat + extra_contribution_msat == tspec(h0, v, p) + self.hops[p].0.hop_use_fee_msat
                           && self.hops[p].0.hop_use_fee_msat == fees_spec(tspec(h0, v, p), h0[p].0.candidate.f))
        }),
//@at loop_body_start 1
    let ghost pre = self.hops@;
    proof { assert(i == n - 1 - iter.index@); lemma_tspec_mono(h0, v, i as int); lemma_tspec_mono(h0, v, 0);
            assert(tspec(h0, v, 0) >= tspec(h0, v, i as int));
            if i < n - 1 {
                assert(tspec(h0, v, i as int) >= tspec(h0, v, i as int + 1) + fees_spec(tspec(h0, v, i as int + 1), h0[i as int + 1].0.candidate.f));
            }
    }
//@at before `if i != 0 {`
    proof { assert(cur_hop_transferred_amount_msat as int == tspec(h0, v, i as int)); }
//@at loop_body_end 1
    proof {
        let post = self.hops@;
        assert(forall|k: int| 0 <= k < n && k != i ==> post[k] == pre[k]);
        lemma_carried_suffix(post, pre, i as int + 1);
        assert(carried(post, i as int) == post[i as int].0.fee_msat + carried(post, i as int + 1));
        assert forall|j: int| i < j < n implies carried(post, j) == carried(pre, j) by { lemma_carried_suffix(post, pre, j); }
    }
//@mutant min_not_enforced_on_intermediate_hops
    total_fee_paid_msat += extra_fees_msat; cur_hop_fees_msat += extra_fees_msat;
//@with
    total_fee_paid_msat += extra_fees_msat;
//@end
}
}
fn main() {}
