//! unit: u02b
//! properties: C02 C10 C07
//! note: RAA blockers (PeerState::actions_blocking_raa_monitor_updates): registering a blocker on a channel appends it to that channel's list and never drops a blocker already registered (for this or any other channel) -- the monitor update of the downstream peer's next revoke_and_ack stays held until every upstream preimage it depends on is durably persisted
//! trusted: R15/R6e (deep slice): claim_mpp_part, duplicate-claim branch: `entry.get_mut().retain(|iter| BODY)` with its captured flag `found_blocker`, as an index loop over the channel's blocker list carrying BODY verbatim (entry API elided: the function works on the list the entry lends); the removal of an emptied list after it is not sliced
//! trusted: R15/R18 (deep slice of the function-local macro scan_commitment! in is_resolving_htlc_output): the fields of the HTLCSpendConfirmation event pushed when a confirmed spend needs no upstream action, verbatim as a function of the values in scope (monitor skeleton with both CSV delays)
//! trusted: R15 (deep slice): from_channel_manager_data: the body of `for prev_hop in prev_htlcs` inside the filter_map closure that collects pending_claims_to_replay, verbatim as a function of one previous hop and the variables in scope at that point (the loop's `continue` and the closure's `fail_read = true; return None` are returned as the values Skip / FailRead); channel_monitors is a stub map answering from a ghost map, a monitor answers its ids and the number of its claimable balances
//! trusted: R15 (deep slice): ChannelManager::process_pending_monitor_events: the body of the MonitorEvent::HTLCEvent arm (the logger construction is dropped), verbatim as a function of the event and the channel it came from; R5: the manager is a stub whose claim_funds_internal / fail_htlc_backwards_internal record their arguments in a ghost log (`&self` written `&mut self`); HTLCSource::failure_type and SentHTLCId::from_source are uninterpreted functions of the source
//! assume: htlc_value_satoshis is at most the 21e6 BTC supply (the source multiplies by 1000 unchecked)
//! trusted: R15 (deep slices): the statement(s) that register an RAA blocker in (a) internal_update_fulfill_htlc (body of `for prev_hop in res.0.previous_hop_data()`), (b) claim_mpp_part (live-channel arm), (c) claim_mpp_part (closed-channel arm, `.or_default()`), (d) from_channel_manager_data (re-registering the blockers of queued EmitEventOptionAndFreeOtherChannel actions on reload), each verbatim as a function of the blocker map; everything around them (the channel state machine call, the preimage monitor update, the completion actions) is dropped and not claimed here
//! trusted: R15 (deep slice): handle_monitor_update_release: the predicate of the `retain` that removes the completed blocker from its channel's list, verbatim as a bool function; RAAMonitorUpdateBlockingAction's derived PartialEq is structural equality; the retain call itself and the removal of an emptied list are dropped and not claimed; raa_monitor_updates_held: the closure body and the default of `.get(&channel_id).map(|v| ..).unwrap_or(..)` (first disjunct) are placed in the two arms of a match on the looked-up list (std semantics of Option::map / unwrap_or); the second disjunct (pending ReleaseRAAChannelMonitorUpdate events) is dropped and not claimed
//! trusted: R15 (deep slices): ChannelMonitorImpl::is_resolving_htlc_output: the two predicates that decide whether an on-chain preimage claim has already been reported (closure bodies of the `any` over pending_monitor_events) and the two HTLCUpdate values pushed as MonitorEvent::HTLCEvent, verbatim as functions; struct HTLCUpdate is extracted; HTLCSource opaque with structural equality; scanning the commitment for the HTLC, the ANTI_REORG_DELAY bookkeeping and the timeout branch are dropped and not claimed
//! trusted: env: the BTreeMap<ChannelId, Vec<RAAMonitorUpdateBlockingAction>> is an environment type whose entry API carries the std contracts, written with Verus' mutable-reference prophecy: entry(k) lends the slot of k (None when absent), what is left in the slot is what the map holds afterwards; or_insert_with / or_insert / or_default fill an empty slot (with the result of the closure / the value / an empty Vec) and lend the vector; Vec::new has vstd's specification; a key closure without a specification is unconstrained; RAAMonitorUpdateBlockingAction is opaque, from_prev_hop_data is an uninterpreted function of the hop data; R3: log_trace! statements removed; R10: `blocked_peer_state.lock().unwrap()` is written `blocked_peer_state` (Mutex guard elided: single-threaded reading)
//! trusted: assume_specification for core::cmp::max / core::cmp::min (std definitions): present in every unit so that a change that introduces them is verified instead of being rejected by the tool
//! trusted: outbound_claim: R15 (deep slice): claim_funds_internal, arm OutboundRoute: the expression that chooses the event completion action, verbatim as a function of the values in scope (the equality of the next channel's counterparty and the path's first hop is LDK's debug_assert_eq!, taken as the precondition)
use vstd::prelude::*;
verus! {
use vstd::std_specs::cmp::*;
use core::cmp;
pub assume_specification<T: core::cmp::Ord>[core::cmp::max::<T>](a: T, b: T) -> (r: T)
    ensures T::obeys_cmp_spec() ==> r == (if b.cmp_spec(&a) == core::cmp::Ordering::Less { a } else { b });
pub assume_specification<T: core::cmp::Ord>[core::cmp::min::<T>](a: T, b: T) -> (r: T)
    ensures T::obeys_cmp_spec() ==> r == (if b.cmp_spec(&a) == core::cmp::Ordering::Less { b } else { a });
#[derive(Clone, Copy)]
pub struct ChannelId(pub [u8; 32]);
pub struct HTLCPreviousHopData { pub opaque: u64 }
pub struct RAAMonitorUpdateBlockingAction { pub opaque: u64 }
pub uninterp spec fn blocker_of(h: HTLCPreviousHopData) -> RAAMonitorUpdateBlockingAction;
impl RAAMonitorUpdateBlockingAction {
    #[verifier::external_body] pub fn from_prev_hop_data(prev_hop: &HTLCPreviousHopData) -> (r: Self) ensures r == blocker_of(*prev_hop) { unimplemented!() }
}
impl vstd::std_specs::cmp::PartialEqSpecImpl for RAAMonitorUpdateBlockingAction { open spec fn obeys_eq_spec() -> bool { true } open spec fn eq_spec(&self, other: &RAAMonitorUpdateBlockingAction) -> bool { *self == *other } }
impl PartialEq for RAAMonitorUpdateBlockingAction { #[verifier::external_body] fn eq(&self, o: &RAAMonitorUpdateBlockingAction) -> (r: bool) { unimplemented!() } }
impl Clone for RAAMonitorUpdateBlockingAction { #[verifier::external_body] fn clone(&self) -> (r: Self) ensures r == *self { unimplemented!() } }
pub type Blockers = Seq<RAAMonitorUpdateBlockingAction>;
pub struct BlockerMap { pub m: Ghost<Map<ChannelId, Blockers>> }
pub struct Entry<'a> { pub slot: &'a mut Option<Vec<RAAMonitorUpdateBlockingAction>> }
pub open spec fn getm(m: Map<ChannelId, Blockers>, k: ChannelId) -> Option<Blockers> { if m.contains_key(k) { Some(m[k]) } else { None } }
pub open spec fn optv(o: Option<Vec<RAAMonitorUpdateBlockingAction>>) -> Option<Blockers> { match o { Some(v) => Some(v@), None => None } }
pub open spec fn listed(m: Map<ChannelId, Blockers>, k: ChannelId) -> Blockers { if m.contains_key(k) { m[k] } else { Seq::empty() } }
impl BlockerMap {
    #[verifier::external_body]
    pub fn entry<'a>(&'a mut self, k: ChannelId) -> (e: Entry<'a>)
        ensures optv(*e.slot) == getm(old(self).m@, k),
            final(self).m@ == (match optv(*final(e.slot)) { Some(v) => old(self).m@.insert(k, v), None => old(self).m@.remove(k) }),
    { unimplemented!() }
}
impl<'a> Entry<'a> {
    #[verifier::external_body]
    pub fn or_insert_with<F: FnOnce() -> Vec<RAAMonitorUpdateBlockingAction>>(self, f: F) -> (r: &'a mut Vec<RAAMonitorUpdateBlockingAction>)
        requires f.requires(()),
        ensures (*old(self.slot)) is Some ==> *r == (*old(self.slot))->Some_0,
            (*old(self.slot)) is None ==> f.ensures((), *r),
            *final(self.slot) == Some(*final(r)),
    { unimplemented!() }
    #[verifier::external_body]
    pub fn or_insert(self, v: Vec<RAAMonitorUpdateBlockingAction>) -> (r: &'a mut Vec<RAAMonitorUpdateBlockingAction>)
        ensures (*old(self.slot)) is Some ==> *r == (*old(self.slot))->Some_0,
            (*old(self.slot)) is None ==> *r == v,
            *final(self.slot) == Some(*final(r)),
    { unimplemented!() }
    #[verifier::external_body]
    pub fn or_default(self) -> (r: &'a mut Vec<RAAMonitorUpdateBlockingAction>)
        ensures (*old(self.slot)) is Some ==> *r == (*old(self.slot))->Some_0,
            (*old(self.slot)) is None ==> r@ == Seq::<RAAMonitorUpdateBlockingAction>::empty(),
            *final(self.slot) == Some(*final(r)),
    { unimplemented!() }
}
pub struct UpdateFulfillHTLC { pub channel_id: ChannelId, pub htlc_id: u64 }
pub struct HopId { pub channel_id: ChannelId }
pub struct PeerState { pub actions_blocking_raa_monitor_updates: BlockerMap }
// the blocker lists after `b` was registered for channel `k`: b is appended to k's list, every other list is as before
// the blocker lists `n` after `b` was registered for channel `k` on top of the lists `m`: k's list has gained exactly b (as a multiset: the position
// of the new blocker in the list is not part of the property), every other list is as before, and no list was dropped
pub open spec fn is_registered(n: Map<ChannelId, Blockers>, m: Map<ChannelId, Blockers>, k: ChannelId, b: RAAMonitorUpdateBlockingAction) -> bool {
    n.dom() =~= m.dom().insert(k) && (forall|o: ChannelId| m.contains_key(o) && o != k ==> #[trigger] n[o] == m[o])
        && n[k].to_multiset() =~= listed(m, k).to_multiset().insert(b)
}

//@extract lightning/src/ln/channelmanager.rs :: impl ChannelManager :: fn internal_update_fulfill_htlc
//@slice R15
    for prev_hop in res.0.previous_hop_data() { $body:straight }
//@with
    fn hold_next_raa_for_forwarded_claim(peer_state: &mut PeerState, msg: &UpdateFulfillHTLC, prev_hop: &HTLCPreviousHopData) { $body }
//@at body_start
    broadcast use vstd::seq_lib::group_to_multiset_ensures;
//@ensures P C02 a-fulfilled-forwarded-htlc-registers-its-raa-blocker-on-the-downstream-channel-and-keeps-every-blocker-already-there
    is_registered(final(peer_state).actions_blocking_raa_monitor_updates.m@, old(peer_state).actions_blocking_raa_monitor_updates.m@, msg.channel_id, blocker_of(*prev_hop)),
//@mutant blocker_dropped_when_the_channel_already_has_one
    .or_insert_with(Vec::new) .push(RAAMonitorUpdateBlockingAction::from_prev_hop_data(prev_hop));
//@with
    .or_insert_with(|| { vec![RAAMonitorUpdateBlockingAction::from_prev_hop_data(prev_hop)] });
//@end

//@extract lightning/src/ln/channelmanager.rs :: impl ChannelManager :: fn claim_mpp_part
//@slice R15
    if let Some(raa_blocker) = raa_blocker_opt { $body:straight } if let Some(data) = self.handle_new_monitor_update(
//@with
    fn hold_next_raa_for_claim_on_live_channel(peer_state: &mut PeerState, chan_id: ChannelId, raa_blocker_opt: Option<RAAMonitorUpdateBlockingAction>) {
        if let Some(raa_blocker) = raa_blocker_opt { $body }
    }
//@at body_start
    broadcast use vstd::seq_lib::group_to_multiset_ensures;
//@ensures P C02 a-claim-on-a-live-channel-registers-its-raa-blocker-and-keeps-every-blocker-already-there
    raa_blocker_opt is Some ==> is_registered(final(peer_state).actions_blocking_raa_monitor_updates.m@, old(peer_state).actions_blocking_raa_monitor_updates.m@, chan_id, raa_blocker_opt->Some_0),
    raa_blocker_opt is None ==> final(peer_state).actions_blocking_raa_monitor_updates.m@ =~= old(peer_state).actions_blocking_raa_monitor_updates.m@,
//@mutant blocker_list_replaced
    .entry(chan_id) .or_insert_with(Vec::new) .push(raa_blocker);
//@with
    .entry(chan_id) .or_insert_with(Vec::new); 
//@end
//@extract lightning/src/ln/channelmanager.rs :: impl ChannelManager :: fn claim_mpp_part
//@slice R15
    let (action_opt, raa_blocker_opt) = completion_action(None, false); if let Some(raa_blocker) = raa_blocker_opt { $body:straight }
//@with
    fn hold_next_raa_for_claim_on_closed_channel(peer_state: &mut PeerState, prev_hop: &HopId, raa_blocker_opt: Option<RAAMonitorUpdateBlockingAction>) {
        if let Some(raa_blocker) = raa_blocker_opt { $body }
    }
//@at body_start
    broadcast use vstd::seq_lib::group_to_multiset_ensures;
//@ensures P C02 a-claim-against-a-closed-channel-registers-its-raa-blocker-and-keeps-every-blocker-already-there
    raa_blocker_opt is Some ==> is_registered(final(peer_state).actions_blocking_raa_monitor_updates.m@, old(peer_state).actions_blocking_raa_monitor_updates.m@, prev_hop.channel_id, raa_blocker_opt->Some_0),
    raa_blocker_opt is None ==> final(peer_state).actions_blocking_raa_monitor_updates.m@ =~= old(peer_state).actions_blocking_raa_monitor_updates.m@,
//@end
//@extract lightning/src/ln/channelmanager.rs :: impl ChannelManager :: fn from_channel_manager_data
//@slice R15
    if let Some(blocked_peer_state) = per_peer_state.get(blocked_node_id) { $body:straight } else {
//@with
    fn reregister_blocker_on_reload(blocked_peer_state: &mut PeerState, blocked_channel_id: &ChannelId, blocking_action: &RAAMonitorUpdateBlockingAction) { $body }
//@rw R10
    blocked_peer_state .lock() .unwrap()
//@with
    blocked_peer_state
//@at body_start
    broadcast use vstd::seq_lib::group_to_multiset_ensures;
//@ensures P C02,C10 on-reload-the-raa-blocker-of-a-queued-completion-action-is-registered-again-and-keeps-every-blocker-already-there
    is_registered(final(blocked_peer_state).actions_blocking_raa_monitor_updates.m@, old(blocked_peer_state).actions_blocking_raa_monitor_updates.m@, *blocked_channel_id, *blocking_action),
//@mutant reload_registers_under_the_wrong_channel
    .entry(*blocked_channel_id)
//@with
    .entry(ChannelId([0; 32]))
//@end

// ---- releasing: a completed blocker removes itself and nothing else ---------------------------------
//@extract lightning/src/ln/channelmanager.rs :: impl ChannelManager :: fn handle_monitor_update_release
//@slice R15
    entry.get_mut().retain(|iter| $pred:cond); if entry.get().is_empty() { entry.remove(); }
//@with
    fn blocker_is_kept_on_release(iter: &RAAMonitorUpdateBlockingAction, blocker: RAAMonitorUpdateBlockingAction) -> bool { $pred }
//@ret r
//@ensures P C02 releasing-a-completed-blocker-removes-that-blocker-and-keeps-every-other-blocker-of-the-channel
    r == (*iter != blocker),
//@mutant release_drops_the_other_blockers
    retain(|iter| iter != &blocker)
//@with
    retain(|iter| iter == &blocker)
//@end

// ---- a duplicate claim frees ONE copy of its own blocker and no other (claim_mpp_part, FreeDuplicateClaimImmediately) ----------
//@extract lightning/src/ln/channelmanager.rs :: impl ChannelManager :: fn claim_mpp_part
//@slice R15
    let mut found_blocker = false; entry.get_mut().retain(|iter| { $body:any }); if entry.get().is_empty() {
//@with
    fn free_one_copy_of_the_duplicate_claims_blocker(list: &mut Vec<RAAMonitorUpdateBlockingAction>, blocker: RAAMonitorUpdateBlockingAction) -> bool {
        let mut found_blocker = false;
        // R6e: V.retain(|iter| BODY) as an index loop carrying BODY verbatim (the closure's captured state `found_blocker` is a local)
        let ghost orig = list@;
        let ghost mut fidx: int = -1;
        let mut __i: usize = 0;
        while __i < list.len()
            invariant
                __i <= list@.len() <= orig.len(),
                ({ let k = orig.len() - (list@.len() - __i);
                   &&& list@.skip(__i as int) == orig.skip(k)
                   &&& !found_blocker ==> (fidx == -1 && k == __i && list@.take(__i as int) == orig.take(k) && forall|j: int| 0 <= j < k ==> orig[j] != blocker)
                   &&& found_blocker ==> (0 <= fidx < k && orig[fidx] == blocker && (forall|j: int| 0 <= j < fidx ==> orig[j] != blocker) && list@.take(__i as int) == orig.take(k).remove(fidx)) }),
            decreases list@.len() - __i
        {
            let ghost k = orig.len() - (list@.len() - __i);
            let ghost cur = list@;
            let ghost was_found = found_blocker;
            proof { assert(cur[__i as int] == cur.skip(__i as int)[0]); assert(orig[k] == orig.skip(k)[0]); }
            let __keep = { let iter = &list[__i]; $body };
            proof { assert(cur.skip(__i as int).skip(1) =~= cur.skip(__i as int + 1)); assert(orig.skip(k).skip(1) =~= orig.skip(k + 1)); if !was_found && found_blocker { fidx = k; } }
            if __keep { __i = __i + 1;
                proof { assert(list@.take(__i as int) =~= cur.take(__i as int - 1).push(cur[__i as int - 1])); assert(orig.take(k + 1) =~= orig.take(k).push(orig[k]));
                        if was_found { assert(orig.take(k + 1).remove(fidx) =~= orig.take(k).remove(fidx).push(orig[k])); } }
            } else { list.remove(__i);
                proof { assert(list@ =~= cur.remove(__i as int)); assert(list@.skip(__i as int) =~= cur.skip(__i as int + 1)); assert(list@.take(__i as int) =~= cur.take(__i as int));
                        assert(orig.take(k + 1).remove(k) =~= orig.take(k)); }
            }
        }
        proof { assert(orig.take(orig.len() as int) =~= orig); assert(list@.take(list@.len() as int) =~= list@); }
        found_blocker
    }
//@ret r
//@ensures P C02 a-duplicate-claim-removes-exactly-the-first-copy-of-its-own-blocker-every-other-blocker-of-the-channel-stays-registered
    r ==> exists|i: int| 0 <= i < old(list)@.len() && old(list)@[i] == blocker && (forall|j: int| 0 <= j < i ==> old(list)@[j] != blocker) && #[trigger] old(list)@.remove(i) == final(list)@,
    !r ==> final(list)@ == old(list)@ && forall|j: int| 0 <= j < old(list)@.len() ==> old(list)@[j] != blocker,
//@mutant blockers_of_other_htlcs_in_front_are_freed_too
    *iter != blocker || !first_blocker
//@with
    *iter != blocker && !first_blocker
//@end

// ---- holding: a channel with a registered blocker keeps its revoke_and_ack monitor update held -------
//@extract lightning/src/ln/channelmanager.rs :: impl ChannelManager :: fn raa_monitor_updates_held
//@slice R15
    actions_blocking_raa_monitor_updates .get(&channel_id).map(|v| $p:cond).unwrap_or($d:cond) ||
//@with
    fn listed_blockers_hold_the_update(blockers: Option<&Vec<RAAMonitorUpdateBlockingAction>>) -> bool {
        match blockers { Some(v) => { $p }, None => { $d } }
    }
//@ret r
//@ensures P C02 the-monitor-update-of-a-revoke-and-ack-is-held-while-the-channel-has-any-registered-blocker
    r == (blockers is Some && blockers->Some_0@.len() > 0),
//@mutant update_released_despite_blockers
    .map(|v| !v.is_empty())
//@with
    .map(|v| v.is_empty())
//@end

// ---- on-chain preimage from the downstream monitor (is_resolving_htlc_output) -------------------------
pub mod onchain_preimage {
use vstd::prelude::*;
#[derive(Clone, Copy)] pub struct PaymentHash(pub [u8; 32]);
#[derive(Clone, Copy)] pub struct PaymentPreimage(pub [u8; 32]);
pub struct HTLCSource { pub id: u64 }
impl vstd::std_specs::cmp::PartialEqSpecImpl for HTLCSource { open spec fn obeys_eq_spec() -> bool { true } open spec fn eq_spec(&self, other: &HTLCSource) -> bool { *self == *other } }
impl PartialEq for HTLCSource { #[verifier::external_body] fn eq(&self, o: &HTLCSource) -> (r: bool) { unimplemented!() } }
impl vstd::std_specs::cmp::PartialEqSpecImpl for PaymentHash { open spec fn obeys_eq_spec() -> bool { true } open spec fn eq_spec(&self, other: &PaymentHash) -> bool { *self == *other } }
impl PartialEq for PaymentHash { #[verifier::external_body] fn eq(&self, o: &PaymentHash) -> (r: bool) { unimplemented!() } }
//@extract lightning/src/chain/channelmonitor.rs :: struct HTLCUpdate
//@end
//@extract lightning/src/chain/channelmonitor.rs :: impl ChannelMonitorImpl :: fn is_resolving_htlc_output
//@slice R15 nth=1
    if !self.pending_monitor_events.iter().any( |update| if let &MonitorEvent::HTLCEvent(ref upd) = update { $p:cond } else { false }) {
//@with
    fn accepted_preimage_claim_already_reported(upd: &HTLCUpdate, source: HTLCSource, payment_hash: PaymentHash) -> bool { $p }
//@ret r
//@ensures P C02 a-preimage-seen-on-chain-is-treated-as-already-reported-only-if-an-event-for-that-very-htlc-is-queued
    r == (upd.source == source),
//@mutant another_htlc_with_the_same_hash_counts_as_reported
    if accepted_preimage_claim { if !self.pending_monitor_events.iter().any( |update| if let &MonitorEvent::HTLCEvent(ref upd) = update { upd.source == source }
//@with
    if accepted_preimage_claim { if !self.pending_monitor_events.iter().any( |update| if let &MonitorEvent::HTLCEvent(ref upd) = update { upd.payment_hash == payment_hash }
//@end
//@extract lightning/src/chain/channelmonitor.rs :: impl ChannelMonitorImpl :: fn is_resolving_htlc_output
//@slice R15 nth=2
    if !self.pending_monitor_events.iter().any( |update| if let &MonitorEvent::HTLCEvent(ref upd) = update { $p:cond } else { false }) {
//@with
    fn offered_preimage_claim_already_reported(upd: &HTLCUpdate, source: HTLCSource, payment_hash: PaymentHash) -> bool { $p }
//@ret r
//@ensures P C02 a-preimage-seen-on-chain-is-treated-as-already-reported-only-if-an-event-for-that-very-htlc-is-queued
    r == (upd.source == source),
//@end
//@extract lightning/src/chain/channelmonitor.rs :: impl ChannelMonitorImpl :: fn is_resolving_htlc_output
//@slice R15 nth=1
    self.pending_monitor_events.push(MonitorEvent::HTLCEvent(HTLCUpdate { $fields:any }));
//@with
    fn event_for_accepted_preimage_claim(source: HTLCSource, payment_preimage: PaymentPreimage, payment_hash: PaymentHash, amount_msat: u64) -> HTLCUpdate { HTLCUpdate { $fields } }
//@ret r
//@ensures P C02 the-event-handed-to-the-manager-names-the-htlc-and-carries-the-preimage-read-from-the-chain
    r.source == source, r.payment_preimage == Some(payment_preimage), r.payment_hash == payment_hash, r.htlc_value_satoshis == amount_msat / 1000,
//@end
//@extract lightning/src/chain/channelmonitor.rs :: impl ChannelMonitorImpl :: fn is_resolving_htlc_output
//@slice R15 nth=2
    self.pending_monitor_events.push(MonitorEvent::HTLCEvent(HTLCUpdate { $fields:any }));
//@with
    fn event_for_offered_preimage_claim(source: HTLCSource, payment_preimage: PaymentPreimage, payment_hash: PaymentHash, amount_msat: u64) -> HTLCUpdate { HTLCUpdate { $fields } }
//@ret r
//@ensures P C02 the-event-handed-to-the-manager-names-the-htlc-and-carries-the-preimage-read-from-the-chain
    r.source == source, r.payment_preimage == Some(payment_preimage), r.payment_hash == payment_hash, r.htlc_value_satoshis == amount_msat / 1000,
//@mutant preimage_left_out_of_the_event
    payment_preimage: Some(payment_preimage), payment_hash, htlc_value_satoshis: amount_msat / 1000, })); } } else {
//@with
    payment_preimage: None, payment_hash, htlc_value_satoshis: amount_msat / 1000, })); } } else {
//@end
// ---- a confirmed spend of an HTLC output that needs no upstream action is remembered with the preimage it revealed and, for our own HTLC-Success, the delay of OUR outputs ----
pub struct CounterpartyParams { pub on_counterparty_tx_csv: u16 }
pub struct SpendMonitor { pub on_holder_tx_csv: u16, pub counterparty_commitment_params: CounterpartyParams }
pub struct SpentHTLC { pub offered: bool, pub amount_msat: u64, pub transaction_output_index: Option<u32> }
pub struct SpendingInput { pub previous_output: PrevOut }
pub struct PrevOut { pub vout: u32 }
impl SpendMonitor {
//@extract lightning/src/chain/channelmonitor.rs :: impl ChannelMonitorImpl :: fn is_resolving_htlc_output
//@metavars
//@slice R15
    let outbound_htlc = $ob:seq; self.onchain_events_awaiting_threshold_conf.push(OnchainEventEntry { $hdr:any event: OnchainEvent::HTLCSpendConfirmation { commitment_tx_output_idx: $idx:seq, preimage: $pre:seq, on_to_local_output_csv: $csv:seq, }, });
//@with
    fn htlc_spend_confirmation_fields(&self, input: &SpendingInput, htlc_output: &SpentHTLC, m_holder_tx: bool, accepted_preimage_claim: bool, offered_preimage_claim: bool, payment_preimage: PaymentPreimage) -> (u32, Option<PaymentPreimage>, Option<u16>) {
        let outbound_htlc = $ob; ($idx, $pre, $csv) }
//@ret r
//@ensures P C07 a-confirmed-htlc-spend-is-remembered-under-its-output-with-the-preimage-it-revealed-and-our-own-htlc-success-keeps-the-balance-until-the-delay-of-our-own-outputs-has-passed
    r.0 == input.previous_output.vout,
    r.1 == (if accepted_preimage_claim || offered_preimage_claim { Some(payment_preimage) } else { None }),
    r.2 == (if accepted_preimage_claim && m_holder_tx != htlc_output.offered { Some(self.on_holder_tx_csv) } else { None }),
//@mutant our_htlc_success_waits_for_the_counterpartys_delay
    Some(self.on_holder_tx_csv) } else { None },
//@with
    Some(self.counterparty_commitment_params.on_counterparty_tx_csv) } else { None },
//@end
}
// ---- ChannelManager::process_pending_monitor_events: what the manager does with an on-chain resolution reported by the downstream monitor ----
#[derive(Clone, Copy)] pub struct PublicKey { pub id: u64 }
#[derive(Clone, Copy)] pub struct ChannelId { pub id: u64 }
#[derive(Clone, Copy)] pub struct OutPoint { pub txid: u64, pub index: u16 }
pub struct AttributionData {}
pub struct Duration {}
pub enum LocalHTLCFailureReason { OnChainTimeout, ChannelClosed, Other }
pub struct HTLCFailReason { pub code: LocalHTLCFailureReason }
impl HTLCFailReason { #[verifier::external_body] pub fn from_failure_code(c: LocalHTLCFailureReason) -> (r: HTLCFailReason) ensures r.code == c { unimplemented!() } }
pub struct HTLCHandlingFailureType { pub node: PublicKey, pub chan: ChannelId, pub of: u64 }
impl HTLCSource { #[verifier::external_body] pub fn failure_type(&self, counterparty_node: PublicKey, channel_id: ChannelId) -> (r: HTLCHandlingFailureType) ensures r == (HTLCHandlingFailureType { node: counterparty_node, chan: channel_id, of: self.id }) { unimplemented!() } }
pub struct SentHTLCId { pub of: u64 }
impl SentHTLCId { #[verifier::external_body] pub fn from_source(s: &HTLCSource) -> (r: SentHTLCId) ensures r.of == s.id { unimplemented!() } }
pub struct PaymentCompleteUpdate { pub counterparty_node_id: PublicKey, pub channel_funding_outpoint: OutPoint, pub channel_id: ChannelId, pub htlc_id: SentHTLCId }
pub enum Did {
    ClaimedUpstream { source: HTLCSource, payment_preimage: PaymentPreimage, forwarded_htlc_value_msat: u64, skimmed_fee_msat: Option<u64>, from_onchain: bool, next_channel_counterparty_node_id: PublicKey, next_channel_outpoint: OutPoint, next_channel_id: ChannelId, next_user_channel_id: Option<u128>, next_htlc_id: Option<u64> },
    FailedUpstream { source: HTLCSource, payment_hash: PaymentHash, code: LocalHTLCFailureReason, failure_type: HTLCHandlingFailureType, completion: Option<PaymentCompleteUpdate> },
}
pub struct Manager { pub did: Ghost<Seq<Did>> }
impl Manager {
    #[verifier::external_body] pub fn claim_funds_internal(&mut self, source: HTLCSource, payment_preimage: PaymentPreimage, forwarded_htlc_value_msat: u64, skimmed_fee_msat: Option<u64>, from_onchain: bool,
        next_channel_counterparty_node_id: PublicKey, next_channel_outpoint: OutPoint, next_channel_id: ChannelId, next_user_channel_id: Option<u128>, next_htlc_id: Option<u64>, attribution_data: Option<AttributionData>, send_timestamp: Option<Duration>)
        ensures final(self).did@ == old(self).did@.push(Did::ClaimedUpstream { source, payment_preimage, forwarded_htlc_value_msat, skimmed_fee_msat, from_onchain, next_channel_counterparty_node_id, next_channel_outpoint, next_channel_id, next_user_channel_id, next_htlc_id }) { unimplemented!() }
    #[verifier::external_body] pub fn fail_htlc_backwards_internal(&mut self, source: &HTLCSource, payment_hash: &PaymentHash, onion_error: &HTLCFailReason, failure_type: HTLCHandlingFailureType, from_monitor_update_completion: Option<PaymentCompleteUpdate>)
        ensures final(self).did@ == old(self).did@.push(Did::FailedUpstream { source: *source, payment_hash: *payment_hash, code: onion_error.code, failure_type, completion: from_monitor_update_completion }) { unimplemented!() }
//@extract lightning/src/ln/channelmanager.rs :: impl ChannelManager :: fn process_pending_monitor_events
//@slice R15
    MonitorEvent::HTLCEvent(htlc_update) => { needs_persist = true; let logger = $lg:seq; if let Some(preimage) = htlc_update.payment_preimage { $claim:any } else { $fail:any } },
//@with
    fn act_on_onchain_htlc_resolution(&mut self, htlc_update: HTLCUpdate, counterparty_node_id: PublicKey, funding_outpoint: OutPoint, channel_id: ChannelId) { if let Some(preimage) = htlc_update.payment_preimage { $claim } else { $fail } }
//@requires
    htlc_update.htlc_value_satoshis <= 21_000_000 * 100_000_000,
//@ensures P C02 a-preimage-the-downstream-monitor-saw-on-chain-claims-the-upstream-htlc-with-that-preimage-and-a-downstream-timeout-fails-that-very-htlc-back
    final(self).did@ == old(self).did@.push(match htlc_update.payment_preimage {
        Some(preimage) => Did::ClaimedUpstream { source: htlc_update.source, payment_preimage: preimage, forwarded_htlc_value_msat: (htlc_update.htlc_value_satoshis * 1000) as u64, skimmed_fee_msat: None, from_onchain: true,
            next_channel_counterparty_node_id: counterparty_node_id, next_channel_outpoint: funding_outpoint, next_channel_id: channel_id, next_user_channel_id: None, next_htlc_id: None },
        None => Did::FailedUpstream { source: htlc_update.source, payment_hash: htlc_update.payment_hash, code: LocalHTLCFailureReason::OnChainTimeout,
            failure_type: HTLCHandlingFailureType { node: counterparty_node_id, chan: channel_id, of: htlc_update.source.id },
            completion: Some(PaymentCompleteUpdate { counterparty_node_id, channel_funding_outpoint: funding_outpoint, channel_id, htlc_id: SentHTLCId { of: htlc_update.source.id } }) },
    }),
//@mutant onchain_claim_not_marked_as_from_chain
    None, true, counterparty_node_id,
//@with
    None, false, counterparty_node_id,
//@end
}
// ---- restart: a preimage a downstream monitor holds is replayed against the monitor of the channel the HTLC came in on ----------
pub struct PrevHop { pub channel_id: ChannelId, pub counterparty_node_id: Option<PublicKey>, pub htlc_id: u64 }
pub struct HTLCInCommitment { pub amount_msat: u64 }
pub struct Balance {}
pub struct Mon { pub id: ChannelId, pub cp: PublicKey, pub funding: OutPoint, pub n_balances: nat }
impl Mon {
    #[verifier::external_body] pub fn get_claimable_balances(&self) -> (r: Vec<Balance>) ensures r@.len() == self.n_balances { unimplemented!() }
    #[verifier::external_body] pub fn get_counterparty_node_id(&self) -> (r: PublicKey) ensures r == self.cp { unimplemented!() }
    #[verifier::external_body] pub fn get_funding_txo(&self) -> (r: OutPoint) ensures r == self.funding { unimplemented!() }
    #[verifier::external_body] pub fn channel_id(&self) -> (r: ChannelId) ensures r == self.id { unimplemented!() }
}
pub struct MonMap { pub m: Ghost<Map<ChannelId, Mon>> }
impl MonMap { #[verifier::external_body] pub fn get(&self, k: &ChannelId) -> (r: Option<&Mon>) ensures r is Some <==> self.m@.contains_key(*k), r is Some ==> *r->Some_0 == self.m@[*k] { unimplemented!() } }
pub struct ReadArgs { pub channel_monitors: MonMap }
pub enum Replay { Skip, FailRead, Claim((HTLCSource, PaymentPreimage, u64, bool, PublicKey, OutPoint, ChannelId, Option<u128>)) }
//@extract lightning/src/ln/channelmanager.rs :: impl ChannelManager :: fn from_channel_manager_data
//@slice R15
    for prev_hop in prev_htlcs { let inbound_edge_monitor = match args.channel_monitors.get($k:seq) { Some(monitor) => monitor, None => continue, }; if $empty:cond { continue; } if $nocp:cond { fail_read = true; return None; } return Some(( $t:seq )); } None
//@with
    fn replay_of_a_preimage_the_downstream_monitor_holds(args: &ReadArgs, prev_hop: &PrevHop, channel_id: &ChannelId, monitor: &Mon, htlc_source: HTLCSource, payment_preimage: PaymentPreimage, htlc: &HTLCInCommitment, is_channel_closed: bool, user_channel_id_opt: Option<u128>) -> Replay {
        // `continue` (next previous hop) is Replay::Skip, `fail_read = true; return None` is Replay::FailRead
        let inbound_edge_monitor = match args.channel_monitors.get($k) { Some(monitor) => monitor, None => { return Replay::Skip; } };
        if $empty { return Replay::Skip; }
        if $nocp { return Replay::FailRead; }
        Replay::Claim(( $t ))
    }
//@ret r
//@ensures P C02,C10 on-restart-a-forwarded-htlcs-preimage-is-replayed-upstream-unless-the-monitor-of-the-channel-it-came-in-on-is-gone-or-has-nothing-left-to-claim
    // the decision looks at the monitor of the INBOUND edge (the channel the HTLC came in on), not at the downstream one being walked
    (!args.channel_monitors.m@.contains_key(prev_hop.channel_id) || args.channel_monitors.m@[prev_hop.channel_id].n_balances == 0) ==> r is Skip,
    (args.channel_monitors.m@.contains_key(prev_hop.channel_id) && args.channel_monitors.m@[prev_hop.channel_id].n_balances > 0) ==> (
        if prev_hop.counterparty_node_id is None { r is FailRead }
        else { r == Replay::Claim((htlc_source, payment_preimage, htlc.amount_msat, is_channel_closed, monitor.cp, monitor.funding, monitor.id, user_channel_id_opt)) }),
//@mutant inbound_edge_looked_up_under_the_downstream_channel
    match args.channel_monitors.get(&prev_hop.channel_id) {
//@with
    match args.channel_monitors.get(channel_id) {
//@end
}

// ---- claim_funds_internal, our own payment: which monitor update the claim's event releases once the user has seen it ----
pub mod outbound_claim {
use vstd::prelude::*;
#[derive(Clone, Copy)] pub struct PublicKey { pub id: u64 }
#[derive(Clone, Copy)] pub struct OutPoint { pub id: u64 }
#[derive(Clone, Copy)] pub struct ChannelId { pub id: u64 }
#[derive(Clone, Copy)] pub struct SentHTLCId { pub id: u64 }
pub struct RouteHop { pub pubkey: PublicKey }
pub struct Path { pub hops: Vec<RouteHop> }
pub struct PaymentCompleteUpdate { pub counterparty_node_id: PublicKey, pub channel_funding_outpoint: OutPoint, pub channel_id: ChannelId, pub htlc_id: SentHTLCId }
pub enum EventCompletionAction {
    ReleaseRAAChannelMonitorUpdate { counterparty_node_id: PublicKey, channel_funding_outpoint: Option<OutPoint>, channel_id: ChannelId },
    ReleasePaymentCompleteChannelMonitorUpdate(PaymentCompleteUpdate),
}
//@extract lightning/src/ln/channelmanager.rs :: impl ChannelManager :: fn claim_funds_internal
//@slice R15
    let mut ev_completion_action = $e:seq; let logger = WithContext::for_payment(
//@with
    fn update_released_by_the_claims_event(from_onchain: bool, next_channel_counterparty_node_id: PublicKey, next_channel_outpoint: OutPoint, next_channel_id: ChannelId, htlc_id: SentHTLCId, path: &Path) -> Option<EventCompletionAction> {
        let mut ev_completion_action = $e; ev_completion_action }
//@ret r
//@requires
    path.hops@.len() >= 1, next_channel_counterparty_node_id == path.hops@[0].pubkey,
//@ensures P C02,C10 the-event-for-a-claimed-outbound-htlc-releases-the-update-of-the-channel-the-claim-came-from-the-held-revocation-for-a-claim-by-message-the-payment-complete-update-for-a-claim-seen-on-chain
    from_onchain ==> r == Some(EventCompletionAction::ReleasePaymentCompleteChannelMonitorUpdate(PaymentCompleteUpdate { counterparty_node_id: next_channel_counterparty_node_id,
        channel_funding_outpoint: next_channel_outpoint, channel_id: next_channel_id, htlc_id })),
    !from_onchain ==> r == Some(EventCompletionAction::ReleaseRAAChannelMonitorUpdate { counterparty_node_id: next_channel_counterparty_node_id, channel_funding_outpoint: Some(next_channel_outpoint), channel_id: next_channel_id }),
//@mutant on_chain_claim_releases_the_held_revocation_instead
    let mut ev_completion_action = if from_onchain {
//@with
    let mut ev_completion_action = if from_onchain && false {
//@end
}
}
fn main() {}
