//! unit: u15b
//! properties: C15
//! note: read-buffer framing of PeerManager::do_read_event after the handshake: the buffer is sized for the announced body plus its 16-byte tag for every u16 length, and reset to the 18-byte header afterwards
//! trusted: R15 (deep slice): process_events, UpdateHTLCs arm: the statement that announces a batch of commitment_signed messages, verbatim (the enqueue macro call is dropped; the function returns the StartBatch it would enqueue); CommitmentSigned::TYPE is the BOLT 2 message type 132
//! assume: at most 65535 commitment_signed messages per update (one per funding scope; `len() as u16`)
//! trusted: R15 (deep slice): do_attempt_write_data: the statement that advances the gossip-backfill cursor past the channel just sent, verbatim as a function of the announcement (InitSyncTracker skeleton); the short_channel_id is NOT bounded by a precondition: a graph without chain access accepts any id a peer announces (finding F5)
//! trusted: R15 (deep slices): do_handle_message_holding_peer_lock: the test that refuses a non-Init message while no Init has been accepted and ALL the tests between computing our features and accepting an Init (unknown required features either way, an Init already accepted), verbatim as a function of the peer, the message and our features (feature sets opaque, `requires_unknown_bits_from` uninterpreted; the log statements dropped by R3); the feature / chain compatibility tests and the handlers' peer_connected notifications are not sliced (handlers are reached through shared references to objects with interior state)
//! trusted: R15 (statement slicing, deep form): do_read_event is ~600 lines under three locks with function-local macros; the unit extracts, on every run, (a) the statements between `let msg_len = ..decrypt_length_header..` and `peer.pending_read_is_header = false;` and (b) the "Reset read buffer" statements of the body branch, verbatim, as two functions of the two Peer fields they touch; everything else of do_read_event is dropped and not claimed
//! trusted: env: Peer skeleton {pending_read_buffer, pending_read_is_header}; PeerHandleError empty struct (as in the source)
//! trusted: assume_specification for Vec::capacity (some value >= len; std definition)
//! trusted: R15 (deep slice): do_attempt_write_data: the statements from taking the front of pending_outbound_buffer to the end of the loop body (send_data, offset bookkeeping, pop) verbatim as a function; the queue is a stub over a Vec with the std VecDeque contracts of front / pop_front; SocketDescriptor::send_data is external_body with its documented contract (accepts a prefix) and a ghost log; `&buf[off..]` is the external_body wrapper vec_from (R8); the capacity-shrinking statements (memory only) are dropped (R15); gossip backfill and message generation before these statements are dropped and not claimed
//! trusted: R15 (deep slice): do_read_event: the block that copies incoming bytes into pending_read_buffer verbatim as a function of (the two Peer fields, data, read_pos); `buf[a..a+n].copy_from_slice(&data[b..b+n])` is the external_body wrapper copy_range (R8); assume_specification for core::cmp::min / max
//! assume: usize is at least 32 bits (vstd's usize model)
#![feature(allocator_api)]
use vstd::prelude::*;
verus! {
pub struct PeerHandleError {}
// std: capacity is some number >= len (trusted); resize: see below
pub assume_specification<T, A: std::alloc::Allocator>[std::vec::Vec::<T, A>::capacity](v: &std::vec::Vec<T, A>) -> (r: usize)
    ensures r >= v@.len();
pub struct Peer { pub pending_read_buffer: Vec<u8>, pub pending_read_is_header: bool }

// (P) framing invariant carried across reads: while waiting for a body the buffer is at least 18 bytes, so the body
// branch's `pending_read_buffer.len() - 16` cannot underflow and decrypt_message always sees a tag
pub open spec fn frame_inv(p: Peer) -> bool {
    if p.pending_read_is_header { p.pending_read_buffer@.len() == 18 } else { p.pending_read_buffer@.len() >= 18 }
}

//@extract lightning/src/ln/peer_handler.rs :: impl PeerManager :: fn do_read_event
//@slice R15
    let msg_len = try_potential_handleerror!(peer, res); $size:any peer.pending_read_is_header = false;
//@with
    fn read_buffer_after_length_header(peer: &mut Peer, msg_len: u16) -> Result<(), PeerHandleError> {
        $size
        peer.pending_read_is_header = false;
        Ok(())
    }
//@ret r
//@ensures P C15 every-announced-body-length-0-to-65535-is-framed-without-panic-and-bodies-shorter-than-a-type-tag-are-refused
    r is Ok <==> msg_len >= 2,
    r is Ok ==> final(peer).pending_read_buffer@.len() == msg_len as int + 16 && !final(peer).pending_read_is_header,
//@ensures P C15 framing-invariant-kept
    r is Ok ==> frame_inv(*final(peer)),
//@mutant tag_room_added_in_u16
    msg_len as usize + 16
//@with
    (msg_len + 16) as usize
//@end

//@extract lightning/src/ln/peer_handler.rs :: impl PeerManager :: fn do_read_event
//@slice R15
    let message_result = wire::read($rd); $reset:any peer.pending_read_is_header = true; let their_node_id = $x;
//@with
    fn read_buffer_after_body(peer: &mut Peer) {
        $reset
        peer.pending_read_is_header = true;
    }
//@ensures P C15 after-a-body-the-buffer-waits-for-exactly-one-18-byte-length-header
    final(peer).pending_read_buffer@.len() == 18 && final(peer).pending_read_is_header,
//@ensures P C15 framing-invariant-kept
    frame_inv(*final(peer)),
//@mutant header_buffer_too_short
    resize(18, 0)
//@with
    resize(16, 0)
//@end


// ---- sending: partial socket writes never lose, repeat or reorder a byte (deep R15 slice of do_attempt_write_data) ----
// the socket: send_data accepts a prefix of what it is given (SocketDescriptor contract) and `sent` is the ghost log of everything it has accepted
pub struct Descriptor { pub sent: Ghost<Seq<u8>> }
impl Descriptor {
    #[verifier::external_body] pub fn send_data(&mut self, data: &[u8], continue_read: bool) -> (r: usize)
        ensures r <= data@.len(), final(self).sent@ == old(self).sent@ + data@.take(r as int) { unimplemented!() }
}
// the queue of encrypted messages waiting to be written (a VecDeque<Vec<u8>> in the source): front / pop_front / len / capacity as in std
pub struct OutQueue { pub q: Vec<Vec<u8>> }
impl OutQueue {
    #[verifier::external_body] pub fn front(&self) -> (r: Option<&Vec<u8>>) ensures self.q@.len() == 0 ==> r is None, self.q@.len() > 0 ==> r is Some && *r->Some_0 == self.q@[0] { unimplemented!() }
    #[verifier::external_body] pub fn pop_front(&mut self) -> (r: Option<Vec<u8>>) ensures old(self).q@.len() > 0 ==> final(self).q@ == old(self).q@.skip(1), old(self).q@.len() == 0 ==> final(self).q@ == old(self).q@ { unimplemented!() }
}
#[verifier::external_body] pub fn vec_from(v: &Vec<u8>, from: usize) -> (r: &[u8]) requires from <= v@.len() ensures r@ == v@.skip(from as int) { unimplemented!() }
pub struct WritePeer { pub pending_outbound_buffer: OutQueue, pub pending_outbound_buffer_first_msg_offset: usize, pub sent_pause_read: bool, pub awaiting_write_event: bool }
// the bytes still to be written: all queued messages back to back, minus what has already been written of the first one
pub open spec fn flat(s: Seq<Vec<u8>>) -> Seq<u8> decreases s.len() { if s.len() == 0 { Seq::<u8>::empty() } else { s[0]@ + flat(s.skip(1)) } }
pub open spec fn unsent(p: WritePeer) -> Seq<u8> { flat(p.pending_outbound_buffer.q@).skip(p.pending_outbound_buffer_first_msg_offset as int) }
//@extract lightning/src/ln/peer_handler.rs :: impl PeerManager :: fn do_attempt_write_data
//@slice R15
    let next_buff = match peer.pending_outbound_buffer.front() { None => { $none:any }, Some(buff) => buff, }; force_one_write = false; $write:any }
//@with
    fn write_front_message(peer: &mut WritePeer, descriptor: &mut Descriptor, should_read: bool) -> bool {
        let next_buff = match peer.pending_outbound_buffer.front() { None => { return false; }, Some(buff) => buff, };
        proof {
            let s = peer.pending_outbound_buffer.q@; let off = peer.pending_outbound_buffer_first_msg_offset as int;
            assert(flat(s) == s[0]@ + flat(s.skip(1)));
            assert(flat(s).skip(off) =~= s[0]@.skip(off) + flat(s.skip(1)));
        }
        let ghost front = *next_buff; let ghost off0 = peer.pending_outbound_buffer_first_msg_offset as int; let ghost rest = flat(peer.pending_outbound_buffer.q@.skip(1));
        $write
        proof {
            let n = descriptor.sent@.len() - old(descriptor).sent@.len();
            assert(descriptor.sent@ =~= old(descriptor).sent@ + front@.skip(off0).take(n));
            if off0 + n == front@.len() {
                assert(front@.skip(off0).take(n) =~= front@.skip(off0));
                assert(unsent(*peer) =~= rest);
            } else {
                assert(flat(peer.pending_outbound_buffer.q@) == front@ + rest);
                assert(unsent(*peer) =~= front@.skip(off0).skip(n) + rest);
                assert(front@.skip(off0) =~= front@.skip(off0).take(n) + front@.skip(off0).skip(n));
            }
        }
        true
    }
//@rw R8
    &next_buff[peer.pending_outbound_buffer_first_msg_offset..]
//@with
    vec_from(next_buff, peer.pending_outbound_buffer_first_msg_offset)
//@rw R9 ?
    peer.pending_outbound_buffer_first_msg_offset += data_sent;
//@with
    let __len_hint = next_buff.len();   // R9 hint (pure): brings `len <= usize::MAX` into the context
    peer.pending_outbound_buffer_first_msg_offset += data_sent;
//@rw R15
    const VEC_SIZE: usize = $vs; let large_capacity = $lc; let lots_of_slack = $ls; if large_capacity && lots_of_slack { $shrink:any }
//@with
    
//@ret r
//@requires
    old(peer).pending_outbound_buffer.q@.len() > 0 ==> old(peer).pending_outbound_buffer_first_msg_offset <= old(peer).pending_outbound_buffer.q@[0]@.len(),
//@ensures P C15 however-the-socket-fragments-writes-the-bytes-handed-to-it-plus-the-bytes-still-queued-are-always-the-queued-stream-nothing-lost-repeated-or-reordered
    old(descriptor).sent@ + unsent(*old(peer)) == final(descriptor).sent@ + unsent(*final(peer)),
    final(peer).pending_outbound_buffer.q@.len() > 0 ==> final(peer).pending_outbound_buffer_first_msg_offset <= final(peer).pending_outbound_buffer.q@[0]@.len(),
    !r ==> final(descriptor).sent@ == old(descriptor).sent@ && final(peer).pending_outbound_buffer.q@ == old(peer).pending_outbound_buffer.q@,
//@mutant offset_not_advanced_after_a_partial_write
    peer.pending_outbound_buffer_first_msg_offset += data_sent;
//@with
    peer.pending_outbound_buffer_first_msg_offset += 0;
//@end

// ---- receiving: the incoming byte stream is copied into the frame buffer in order, whatever the fragmentation (deep R15 slice of do_read_event) ----
use vstd::std_specs::cmp::*;
use core::cmp;
pub assume_specification<T: core::cmp::Ord>[core::cmp::min::<T>](a: T, b: T) -> (r: T)
    ensures T::obeys_cmp_spec() ==> r == (if b.cmp_spec(&a) == core::cmp::Ordering::Less { b } else { a });
pub assume_specification<T: core::cmp::Ord>[core::cmp::max::<T>](a: T, b: T) -> (r: T)
    ensures T::obeys_cmp_spec() ==> r == (if b.cmp_spec(&a) == core::cmp::Ordering::Less { a } else { b });
#[verifier::external_body]
pub fn copy_range(dst: &mut Vec<u8>, dst_from: usize, src: &[u8], src_from: usize, n: usize)
    requires dst_from + n <= old(dst)@.len(), src_from + n <= src@.len()
    ensures final(dst)@ == old(dst)@.take(dst_from as int) + src@.subrange(src_from as int, src_from + n) + old(dst)@.skip(dst_from + n)
{ unimplemented!() }
pub struct ReadPeer { pub pending_read_buffer: Vec<u8>, pub pending_read_buffer_pos: usize }
//@extract lightning/src/ln/peer_handler.rs :: impl PeerManager :: fn do_read_event
//@slice R15
    assert!(peer.pending_read_buffer.len() > peer.pending_read_buffer_pos); { $copy:any } if peer.pending_read_buffer_pos == peer.pending_read_buffer.len() {
//@with
    fn copy_incoming_bytes(peer: &mut ReadPeer, data: &[u8], read_pos_: usize) -> usize {
        let mut read_pos = read_pos_;
        { $copy }
        read_pos
    }
//@rw R8
    peer.pending_read_buffer [peer.pending_read_buffer_pos..peer.pending_read_buffer_pos + data_to_copy] .copy_from_slice(&data[read_pos..read_pos + data_to_copy]);
//@with
    copy_range(&mut peer.pending_read_buffer, peer.pending_read_buffer_pos, data, read_pos, data_to_copy);
//@ret r
//@requires
    old(peer).pending_read_buffer@.len() > old(peer).pending_read_buffer_pos, read_pos_ <= data@.len(),
//@ensures P C15 incoming-bytes-are-appended-to-the-frame-in-order-none-skipped-or-repeated-up-to-the-end-of-the-frame-or-of-the-data
    ({ let n = if old(peer).pending_read_buffer@.len() - old(peer).pending_read_buffer_pos <= data@.len() - read_pos_ { old(peer).pending_read_buffer@.len() - old(peer).pending_read_buffer_pos } else { data@.len() - read_pos_ };
       r == read_pos_ + n && final(peer).pending_read_buffer_pos == old(peer).pending_read_buffer_pos + n
       && final(peer).pending_read_buffer@ == old(peer).pending_read_buffer@.take(old(peer).pending_read_buffer_pos as int) + data@.subrange(read_pos_ as int, read_pos_ + n)
              + old(peer).pending_read_buffer@.skip(old(peer).pending_read_buffer_pos + n) }),
//@mutant read_position_not_advanced
    read_pos += data_to_copy;
//@with
    read_pos += 0;
//@end
// ---- gossip backfill: the cursor moves past the channel just sent for EVERY short_channel_id a peer can have put into the graph ----
pub struct UnsignedChannelAnnouncement { pub short_channel_id: u64 }
pub struct ChannelAnnouncement { pub contents: UnsignedChannelAnnouncement }
pub enum InitSyncTracker { NoSyncRequested, ChannelsSyncing(u64), NodesSyncing(u64) }
pub struct SyncPeer { pub sync_status: InitSyncTracker }
//@extract lightning/src/ln/peer_handler.rs :: impl PeerManager :: fn do_attempt_write_data
//@slice R15
    { peer.sync_status = InitSyncTracker::ChannelsSyncing($next:any); let msg = Message::ChannelAnnouncement(announce);
//@with
    fn cursor_after_sending_a_channel(peer: &mut SyncPeer, announce: &ChannelAnnouncement) { peer.sync_status = InitSyncTracker::ChannelsSyncing($next); }
//@ensures P C15 after-a-channel-is-sent-to-a-syncing-peer-the-cursor-is-past-it-or-at-the-end-marker-for-every-short-channel-id-without-overflow
    final(peer).sync_status == InitSyncTracker::ChannelsSyncing(if announce.contents.short_channel_id == u64::MAX { u64::MAX } else { (announce.contents.short_channel_id + 1) as u64 }),
//@mutant cursor_addition_unchecked
    announce.contents.short_channel_id.saturating_add(1),
//@with
    announce.contents.short_channel_id + 1,
//@end
// ---- process_events: several commitment_signed for one channel (splice pending) are announced as a batch of exactly that size ----
pub struct CommitmentSigned { pub id: u64 }
impl CommitmentSigned { pub const TYPE: u16 = 132; }
#[derive(Clone, Copy)] pub struct BatchChannelId { pub id: u64 }
pub struct StartBatch { pub channel_id: BatchChannelId, pub batch_size: u16, pub message_type: Option<u16> }
//@extract lightning/src/ln/peer_handler.rs :: impl PeerManager :: fn process_events
//@strip msgs
//@slice R15
    if $c:cond { let msg = StartBatch { $fields:any }; let msg = Message::StartBatch(msg); enqueue_message_to_peer!(&mut *peer, node_id, msg)?; }
//@with
    fn batch_announcement(commitment_signed: &Vec<CommitmentSigned>, channel_id: &BatchChannelId) -> Option<StartBatch> { if $c { let msg = StartBatch { $fields }; Some(msg) } else { None } }
//@ret r
//@requires
    commitment_signed@.len() <= 65535,
//@ensures P C15 more-than-one-commitment-signed-for-a-channel-is-preceded-by-a-start-batch-announcing-exactly-their-number-and-type-and-a-single-one-is-not
    commitment_signed@.len() > 1 ==> r == Some(StartBatch { channel_id: *channel_id, batch_size: commitment_signed@.len() as u16, message_type: Some(132u16) }),
    commitment_signed@.len() <= 1 ==> r is None,
//@mutant two_commitment_signed_sent_without_a_batch
    if commitment_signed.len() > 1 {
//@with
    if commitment_signed.len() > 2 {
//@end
// ---- Init before anything else, and only once (do_handle_message_holding_peer_lock) -------------------------------------------
pub struct InitFeatures {}
pub struct GatePeer { pub their_features: Option<InitFeatures> }
//@extract lightning/src/ln/peer_handler.rs :: impl PeerManager :: fn do_handle_message_holding_peer_lock
//@slice R15
    peer_lock.their_features = Some(msg.features); return Ok(None); } else if $c:cond { return Err(PeerHandleError {}.into()); }
//@with
    fn message_before_init_is_refused(peer_lock: &GatePeer) -> bool { $c }
//@ret r
//@ensures P C15 any-message-other-than-init-is-refused-until-the-peers-init-has-been-accepted
    r == (peer_lock.their_features is None),
//@mutant messages_accepted_before_init
    } else if peer_lock.their_features.is_none() {
//@with
    } else if peer_lock.their_features.is_some() {
//@end
pub struct Features { pub id: u64 }
pub uninterp spec fn requires_unknown(a: Features, b: Features) -> bool;
impl Features { #[verifier::external_body] pub fn requires_unknown_bits_from(&self, other: &Features) -> (r: bool) ensures r == requires_unknown(*self, *other) { unimplemented!() } }
pub struct InitMsg { pub features: Features }
pub struct PeerFeatures { pub their_features: Option<Features> }
pub struct PublicKey(pub u64);
pub struct MessageHandlingError {}
impl PeerHandleError { #[verifier::external_body] pub fn into(self) -> MessageHandlingError { unimplemented!() } }
pub struct Manager { pub ours: Features }
impl Manager {
    #[verifier::external_body] pub fn init_features(&self, their_node_id: PublicKey) -> (r: Features) ensures r == self.ours { unimplemented!() }
//@extract lightning/src/ln/peer_handler.rs :: impl PeerManager :: fn do_handle_message_holding_peer_lock
//@slice R15
    let our_features = self.init_features(their_node_id); $checks:any if msg.features.initial_routing_sync() && !msg.features.supports_gossip_queries() {
//@with
    fn an_init_is_accepted(&self, peer_lock: &PeerFeatures, msg: &InitMsg, their_node_id: PublicKey) -> Result<(), MessageHandlingError> { let our_features = self.init_features(their_node_id); $checks Ok(()) }
//@ret r
//@ensures P C15 an-init-is-accepted-only-from-a-peer-whose-init-was-not-accepted-before-and-whose-required-features-we-know-and-who-knows-ours
    r is Ok <==> (peer_lock.their_features is None && !requires_unknown(msg.features, self.ours) && !requires_unknown(self.ours, msg.features)),
//@mutant second_init_on_a_live_connection_accepted
    if peer_lock.their_features.is_some() { return Err(PeerHandleError {}.into()); }
//@with

//@end
}
}
fn main() {}
