//! unit: u15b
//! properties: C15
//! note: read-buffer framing of PeerManager::do_read_event after the handshake: the buffer is sized for the announced body plus its 16-byte tag for every u16 length, and reset to the 18-byte header afterwards
//! trusted: R15 (statement slicing, deep form): do_read_event is ~600 lines under three locks with function-local macros; the unit extracts, on every run, (a) the statements between `let msg_len = ..decrypt_length_header..` and `peer.pending_read_is_header = false;` and (b) the "Reset read buffer" statements of the body branch, verbatim, as two functions of the two Peer fields they touch; everything else of do_read_event is dropped and not claimed
//! trusted: env: Peer skeleton {pending_read_buffer, pending_read_is_header}; PeerHandleError empty struct (as in the source)
//! trusted: assume_specification for Vec::capacity (some value >= len; std definition)
//! assume: usize is at least 32 bits (vstd's usize model)
#![feature(allocator_api)]
use vstd::prelude::*;
verus! {
pub struct PeerHandleError {}
// std: capacity is some number >= len (trusted); resize: see below
pub assume_specification<T, A: std::alloc::Allocator>[std::vec::Vec::<T, A>::capacity](v: &std::vec::Vec<T, A>) -> (r: usize)
    ensures r >= v@.len();
pub struct Peer { pub pending_read_buffer: Vec<u8>, pub pending_read_is_header: bool }

// (P) framing invariant carried across reads: while waiting for a body the buffer is at least 18 bytes, so the body
// branch's `pending_read_buffer.len() - 16` cannot underflow and decrypt_message always sees a tag
pub open spec fn frame_inv(p: Peer) -> bool {
    if p.pending_read_is_header { p.pending_read_buffer@.len() == 18 } else { p.pending_read_buffer@.len() >= 18 }
}

//@extract lightning/src/ln/peer_handler.rs :: impl PeerManager :: fn do_read_event
//@slice R15
    let msg_len = try_potential_handleerror!(peer, res); $size:any peer.pending_read_is_header = false;
//@with
    fn read_buffer_after_length_header(peer: &mut Peer, msg_len: u16) -> Result<(), PeerHandleError> {
        $size
        peer.pending_read_is_header = false;
        Ok(())
    }
//@ret r
//@ensures P C15 every-announced-body-length-0-to-65535-is-framed-without-panic-and-bodies-shorter-than-a-type-tag-are-refused
    r is Ok <==> msg_len >= 2,
    r is Ok ==> final(peer).pending_read_buffer@.len() == msg_len as int + 16 && !final(peer).pending_read_is_header,
//@ensures P C15 framing-invariant-kept
    r is Ok ==> frame_inv(*final(peer)),
//@mutant tag_room_added_in_u16
    msg_len as usize + 16
//@with
    (msg_len + 16) as usize
//@end

//@extract lightning/src/ln/peer_handler.rs :: impl PeerManager :: fn do_read_event
//@slice R15
    let message_result = wire::read($rd); $reset:any peer.pending_read_is_header = true; let their_node_id = $x;
//@with
    fn read_buffer_after_body(peer: &mut Peer) {
        $reset
        peer.pending_read_is_header = true;
    }
//@ensures P C15 after-a-body-the-buffer-waits-for-exactly-one-18-byte-length-header
    final(peer).pending_read_buffer@.len() == 18 && final(peer).pending_read_is_header,
//@ensures P C15 framing-invariant-kept
    frame_inv(*final(peer)),
//@mutant header_buffer_too_short
    resize(18, 0)
//@with
    resize(16, 0)
//@end

}
fn main() {}
