//! unit: u12c
//! properties: C12
//! note: ProbabilisticScorer persistence (routing/scoring.rs ChannelLiquidity): every field is written under the TLV type it is read back from, so what is read back is the liquidity record that was written (offsets, both histories, and the three time stamps)
//! trusted: the TLV macros are given their stream semantics: the unit defines write_tlv_fields! / read_tlv_fields! as macros over a TLV record table (a ghost map from type to encoded value): `(t, e, required)` on the writing side records val(e) under t and must come in strictly increasing type order (precondition of the table's put); on the reading side `(t, v, required)` assigns the value recorded under t (the table of a written record has it) and `(t, v, option)` assigns Some of it, or None when the type is absent; that the real macros implement these semantics (ordering, lengths, unknown types) is the subject of u13c and the Kani groups, not of this unit; encoded values are uninterpreted and injective per Rust type (axiom: two values of one type with the same encoding are equal)
//! trusted: env: Duration, HistoricalBucketRangeTracker, LegacyHistoricalBucketRangeTracker opaque; HistoricalLiquidityTracker::{from_min_max, writeable_min_offset_history, writeable_max_offset_history} external_body with their bodies' meaning (the derived field total_valid_points_tracked is recomputed and not compared); ChannelLiquidity is a field skeleton; the extracted read/write are verified as inherent functions
//! plemma: C12 lemma_channel_liquidity_round_trip: reading the table that write produced gives back every field of the record
use vstd::prelude::*;
macro_rules! write_tlv_fields { ($w:expr, { $(($t:expr, $e:expr, $kind:tt)),* $(,)* }) => { $( $w.put($t, &$e); )* } }
macro_rules! read_tlv_one {
    ($r:expr, $t:expr, $v:ident, required) => { $v = $r.get_required($t); };
    ($r:expr, $t:expr, $v:ident, option) => { $v = $r.get_option($t); };
}
macro_rules! read_tlv_fields { ($r:expr, { $(($t:expr, $v:ident, $kind:tt)),* $(,)* }) => { $( read_tlv_one!($r, $t, $v, $kind); )* } }
verus! {
pub struct Error {}
pub struct DecodeError {}
pub struct Val { pub id: int }
pub trait TlvVal: Sized { spec fn val(&self) -> Val; }
#[derive(Clone, Copy)] pub struct Duration { pub secs: u64, pub nanos: u32 }
impl Duration { pub fn from_secs(s: u64) -> (r: Duration) ensures r.secs == s, r.nanos == 0 { Duration { secs: s, nanos: 0 } } }
pub struct HistoricalBucketRangeTracker { pub id: u64 }
pub struct LegacyHistoricalBucketRangeTracker { pub id: u64 }
pub uninterp spec fn val_u64(x: u64) -> Val;
pub uninterp spec fn val_dur(x: Duration) -> Val;
pub uninterp spec fn val_hist(x: HistoricalBucketRangeTracker) -> Val;
pub uninterp spec fn val_legacy(x: LegacyHistoricalBucketRangeTracker) -> Val;
impl TlvVal for u64 { open spec fn val(&self) -> Val { val_u64(*self) } }
impl TlvVal for Duration { open spec fn val(&self) -> Val { val_dur(*self) } }
impl TlvVal for HistoricalBucketRangeTracker { open spec fn val(&self) -> Val { val_hist(*self) } }
impl TlvVal for LegacyHistoricalBucketRangeTracker { open spec fn val(&self) -> Val { val_legacy(*self) } }
impl<'a, T: TlvVal> TlvVal for &'a T { open spec fn val(&self) -> Val { (**self).val() } }
#[verifier::external_body] pub proof fn axiom_inj_u64(a: u64, b: u64) requires val_u64(a) == val_u64(b) ensures a == b {}
#[verifier::external_body] pub proof fn axiom_inj_dur(a: Duration, b: Duration) requires val_dur(a) == val_dur(b) ensures a == b {}
#[verifier::external_body] pub proof fn axiom_inj_hist(a: HistoricalBucketRangeTracker, b: HistoricalBucketRangeTracker) requires val_hist(a) == val_hist(b) ensures a == b {}
// the TLV record table
pub struct TlvTable { pub m: Ghost<Map<u64, Val>>, pub last: Ghost<Option<u64>> }
impl TlvTable {
    // a stream carries its records in strictly increasing type order (the reader refuses anything else, u13c): writing a type that is not above
    // the last one written is an obligation of the writer
    #[verifier::external_body] pub fn put<T: TlvVal>(&mut self, t: u64, e: &T)
        requires old(self).last@ is None || t > old(self).last@->Some_0,
        ensures final(self).m@ == old(self).m@.insert(t, e.val()), final(self).last@ == Some(t) { unimplemented!() }
    #[verifier::external_body] pub fn get_required<T: TlvVal>(&self, t: u64) -> (r: T) requires self.m@.contains_key(t) ensures r.val() == self.m@[t] { unimplemented!() }
    #[verifier::external_body] pub fn get_option<T: TlvVal>(&self, t: u64) -> (r: Option<T>)
        ensures r is Some == self.m@.contains_key(t), r is Some ==> r->Some_0.val() == self.m@[t] { unimplemented!() }
}
pub struct HistoricalLiquidityTracker { pub min_liquidity_offset_history: HistoricalBucketRangeTracker, pub max_liquidity_offset_history: HistoricalBucketRangeTracker }
impl HistoricalLiquidityTracker {
    #[verifier::external_body] pub fn from_min_max(min_liquidity_offset_history: HistoricalBucketRangeTracker, max_liquidity_offset_history: HistoricalBucketRangeTracker) -> (r: HistoricalLiquidityTracker)
        ensures r.min_liquidity_offset_history == min_liquidity_offset_history, r.max_liquidity_offset_history == max_liquidity_offset_history { unimplemented!() }
    #[verifier::external_body] pub fn writeable_min_offset_history(&self) -> (r: &HistoricalBucketRangeTracker) ensures *r == self.min_liquidity_offset_history { unimplemented!() }
    #[verifier::external_body] pub fn writeable_max_offset_history(&self) -> (r: &HistoricalBucketRangeTracker) ensures *r == self.max_liquidity_offset_history { unimplemented!() }
}
impl LegacyHistoricalBucketRangeTracker { #[verifier::external_body] pub fn into_current(self) -> (r: HistoricalBucketRangeTracker) { unimplemented!() } }
impl HistoricalBucketRangeTracker { #[verifier::external_body] pub fn new() -> (r: HistoricalBucketRangeTracker) { unimplemented!() } }
pub struct ChannelLiquidity { pub min_liquidity_offset_msat: u64, pub max_liquidity_offset_msat: u64, pub liquidity_history: HistoricalLiquidityTracker, pub last_updated: Duration, pub offset_history_last_updated: Duration, pub last_datapoint_time: Duration }
// the table write produces for a record
pub open spec fn table_of(x: ChannelLiquidity) -> Map<u64, Val> {
    Map::<u64, Val>::empty().insert(0, val_u64(x.min_liquidity_offset_msat)).insert(2, val_u64(x.max_liquidity_offset_msat)).insert(4, val_dur(x.last_updated))
        .insert(5, val_hist(x.liquidity_history.min_liquidity_offset_history)).insert(7, val_hist(x.liquidity_history.max_liquidity_offset_history))
        .insert(9, val_dur(x.offset_history_last_updated)).insert(11, val_dur(x.last_datapoint_time))
}
impl ChannelLiquidity {
//@extract lightning/src/routing/scoring.rs :: impl Writeable for ChannelLiquidity :: fn write
//@rw R5
    fn write<W: Writer>(&self, w: &mut W) -> Result<(), io::Error>
//@with
    fn write(&self, w: &mut TlvTable) -> Result<(), Error>
//@ret r
//@requires
    old(w).m@ == Map::<u64, Val>::empty(), old(w).last@ is None,
//@ensures P C12 every-field-of-a-liquidity-record-is-written-under-its-own-tlv-type
    r is Ok, final(w).m@ =~= table_of(*self),
//@mutant records_written_out_of_type_order
    (9, self.offset_history_last_updated, required), (11, self.last_datapoint_time, required),
//@with
    (11, self.last_datapoint_time, required), (9, self.offset_history_last_updated, required),
//@mutant decay_time_written_from_the_datapoint_time
    (9, self.offset_history_last_updated, required),
//@with
    (9, self.last_datapoint_time, required),
//@end
//@extract lightning/src/routing/scoring.rs :: impl Readable for ChannelLiquidity :: fn read
//@rw R5
    fn read<R: Read>(r: &mut R) -> Result<Self, DecodeError>
//@with
    fn read(r: &TlvTable) -> Result<Self, DecodeError>
//@ret res
//@requires
    r.m@.contains_key(0) && r.m@.contains_key(2) && r.m@.contains_key(4),
//@ensures P C12 every-field-of-a-liquidity-record-is-read-from-the-tlv-type-it-is-written-under
    res is Ok,
    val_u64(res->Ok_0.min_liquidity_offset_msat) == r.m@[0], val_u64(res->Ok_0.max_liquidity_offset_msat) == r.m@[2], val_dur(res->Ok_0.last_updated) == r.m@[4],
    r.m@.contains_key(5) ==> val_hist(res->Ok_0.liquidity_history.min_liquidity_offset_history) == r.m@[5],
    r.m@.contains_key(7) ==> val_hist(res->Ok_0.liquidity_history.max_liquidity_offset_history) == r.m@[7],
    r.m@.contains_key(9) ==> val_dur(res->Ok_0.offset_history_last_updated) == r.m@[9],
    r.m@.contains_key(11) ==> val_dur(res->Ok_0.last_datapoint_time) == r.m@[11],
    !r.m@.contains_key(9) ==> res->Ok_0.offset_history_last_updated == res->Ok_0.last_updated,
    !r.m@.contains_key(11) ==> res->Ok_0.last_datapoint_time == res->Ok_0.last_updated,
//@mutant datapoint_time_read_from_the_decay_time
    (11, last_datapoint_time, option),
//@with
    (9, last_datapoint_time, option),
//@end
}
pub proof fn lemma_channel_liquidity_round_trip(x: ChannelLiquidity, y: ChannelLiquidity)
    requires   // y is what read returns on the table write produced for x (the two contracts above)
        val_u64(y.min_liquidity_offset_msat) == table_of(x)[0], val_u64(y.max_liquidity_offset_msat) == table_of(x)[2], val_dur(y.last_updated) == table_of(x)[4],
        val_hist(y.liquidity_history.min_liquidity_offset_history) == table_of(x)[5], val_hist(y.liquidity_history.max_liquidity_offset_history) == table_of(x)[7],
        val_dur(y.offset_history_last_updated) == table_of(x)[9], val_dur(y.last_datapoint_time) == table_of(x)[11],
    ensures y.min_liquidity_offset_msat == x.min_liquidity_offset_msat, y.max_liquidity_offset_msat == x.max_liquidity_offset_msat, y.last_updated == x.last_updated,
        y.liquidity_history == x.liquidity_history, y.offset_history_last_updated == x.offset_history_last_updated, y.last_datapoint_time == x.last_datapoint_time,
{
    axiom_inj_u64(y.min_liquidity_offset_msat, x.min_liquidity_offset_msat);
    axiom_inj_u64(y.max_liquidity_offset_msat, x.max_liquidity_offset_msat);
    axiom_inj_dur(y.last_updated, x.last_updated);
    axiom_inj_dur(y.offset_history_last_updated, x.offset_history_last_updated);
    axiom_inj_dur(y.last_datapoint_time, x.last_datapoint_time);
    axiom_inj_hist(y.liquidity_history.min_liquidity_offset_history, x.liquidity_history.min_liquidity_offset_history);
    axiom_inj_hist(y.liquidity_history.max_liquidity_offset_history, x.liquidity_history.max_liquidity_offset_history);
}
}
fn main() {}
