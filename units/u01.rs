//! unit: u01
//! properties: C01 C02
//! note: send-window helpers (adjust_capacity_for_*_reserved_fee, adjust_min_max_htlc_for_dust_exposure, adjust_boundaries_*/adjust_min_max_htlc_if_max_dust_htlc_produces_no_output), get_available_balances and the end-to-end send-window soundness theorem
//! note: BOLT-3 fee formulas (chan_utils) and next-commitment statistics (tx_builder): msat-exact conservation for HTLC lists of any length
//! trusted: assume_specification for core::cmp::max (std definition); ChannelTypeFeatures is a two-boolean stub whose supports_* methods are external_body pure functions of those booleans
//! trusted: rule R6 rewrites iterator chains (.iter().filter(..).count(), .iter().filter_map(|h| (C).then_some(V)).sum()) into index loops carrying the closure body verbatim; sum() becomes checked `+` (overflow obligation, stronger than release semantics)
//! trusted: assume_specification for core::cmp::min; u64_to_i64_or_max is an external_body wrapper for `x.try_into().unwrap_or(i64::MAX)` (R8); get_next_splice_out_maximum_sat is NOT under contract (external_body stub with unconstrained result: FnMut closure assigning a captured local is outside Verus); its result only feeds AvailableBalances.next_splice_out_maximum_sat
//! plemma: C01 theorem_send_window_sound: every amount inside the reported send window yields a valid next commitment on both sides with the counterparty-selected reserve kept (any number of pending HTLCs)
//! plemma: C01 lemma_window_sound_one_commitment: for the funder the fee of the commitment with the fee-spike buffer is still covered above the reserve; for the fundee a non-dust amount leaves the counterparty able to pay the fee above the reserve we selected
//! assume: dust limits and reserves in [1, 21e14] sat resp. <= 21e14 sat; value_to_holder_msat <= channel value; max_dust_htlc_exposure_msat <= 21e18 and current local dust exposure <= max for the dust-exposure window clause
//! assume: channel value and dust limits <= 21e14 sat; at most 2000 pending HTLCs; sum of pending HTLC amounts <= 2.1e18 msat; addl_nondust_htlc_count <= 2
//! assume: feerate_per_kw == 0 for zero-fee-commitment channels (LDK's debug_assert, kept as an obligation at call sites)
use vstd::prelude::*;
verus! {
use vstd::std_specs::cmp::*;
use core::cmp;
pub assume_specification<T: core::cmp::Ord>[core::cmp::min::<T>](a: T, b: T) -> (r: T)
    ensures T::obeys_cmp_spec() ==> r == (if b.cmp_spec(&a) == core::cmp::Ordering::Less { b } else { a });
pub assume_specification<T: core::cmp::Ord>[core::cmp::max::<T>](a: T, b: T) -> (r: T)
    ensures T::obeys_cmp_spec() ==> r == (if b.cmp_spec(&a) == core::cmp::Ordering::Less { a } else { b });

// ---------------- env (trusted) ----------------
pub struct ChannelTypeFeatures { pub anchors: bool, pub zfc: bool }
impl ChannelTypeFeatures {
    #[verifier::external_body]
    pub fn supports_anchors_zero_fee_htlc_tx(&self) -> (r: bool) ensures r == self.anchors { self.anchors }
    #[verifier::external_body]
    pub fn supports_anchor_zero_fee_commitments(&self) -> (r: bool) ensures r == self.zfc { self.zfc }
}
//@const lightning/src/ln/channel.rs ANCHOR_OUTPUT_VALUE_SATOSHI FEE_SPIKE_BUFFER_FEE_INCREASE_MULTIPLE
//@const lightning/src/ln/chan_utils.rs COMMITMENT_TX_WEIGHT_PER_HTLC

//@template R6count
    { // R6: $s.iter().filter(|$h| ..).count()
        let __s = $s; let mut __n: usize = 0; let mut __i: usize = 0;
        while __i < __s.len()
            invariant __i <= __s.len(), __s@ == $s@, valid_htlcs(__s@), #EXTRA#
                __n == cnt_if(__s@.take(__i as int), #PRED#),
            decreases __s.len() - __i
        {
            proof { lemma_step(__s@, __i as int, #PRED#);
                    lemma_prefix_bounds(__s@, __i as int, #PRED#); }
            let $h = &__s[__i];
            if $body { __n = __n + 1; }
            __i = __i + 1;
        }
        proof { assert(__s@.take(__s@.len() as int) =~= __s@); lemma_bounds($s@, #PRED#); }
        __n }
//@endtemplate
//@template R6sum
    { // R6: $s.iter().filter_map(|$h| ($c).then_some($v)).sum()
        let __s = $s; let mut __t: u64 = 0; let mut __i: usize = 0;
        while __i < __s.len()
            invariant __i <= __s.len(), __s@ == $s@, valid_htlcs(__s@), #EXTRA#
                __t == sum_if(__s@.take(__i as int), #PRED#),
            decreases __s.len() - __i
        {
            proof { lemma_step(__s@, __i as int, #PRED#);
                    lemma_prefix_bounds(__s@, __i as int + 1, #PRED#); }
            let $h = &__s[__i];
            if $c { __t = __t + $v; }
            __i = __i + 1;
        }
        proof { assert(__s@.take(__s@.len() as int) =~= __s@); lemma_bounds($s@, #PRED#); }
        __t }
//@endtemplate

// ---------------- specs ----------------
pub open spec fn base_weight(ct: &ChannelTypeFeatures) -> int { if ct.anchors { 1124 } else { 724 } }
pub open spec fn commit_fee_spec(feerate: int, n: int, ct: &ChannelTypeFeatures) -> int {
    feerate * (base_weight(ct) + n * 172) / 1000
}
pub open spec fn success_w(ct: &ChannelTypeFeatures) -> int { if ct.anchors { 706 } else { 703 } }
pub open spec fn timeout_w(ct: &ChannelTypeFeatures) -> int { if ct.anchors { 666 } else { 663 } }
pub open spec fn second_stage_spec(ct: &ChannelTypeFeatures, feerate: int) -> (int, int) {
    if ct.anchors || ct.zfc { (0, 0) } else { (feerate * success_w(ct) / 1000, feerate * timeout_w(ct) / 1000) }
}
pub open spec fn anchors_spec(ct: &ChannelTypeFeatures) -> int { if ct.anchors { 660 } else { 0 } }

//@extract lightning/src/sign/tx_builder.rs :: struct HTLCAmountDirection
//@end

pub open spec fn is_dust_spec(h: HTLCAmountDirection, local: bool, feerate: int, dust: int, ct: &ChannelTypeFeatures) -> bool {
    let (s, t) = second_stage_spec(ct, feerate);
    let f = if h.outbound == local { t } else { s };
    (h.amount_msat as int) / 1000 < dust + f
}

pub open spec fn sum_if(s: Seq<HTLCAmountDirection>, p: spec_fn(HTLCAmountDirection) -> bool) -> int
    decreases s.len()
{
    if s.len() == 0 { 0 } else { sum_if(s.drop_last(), p) + (if p(s.last()) { s.last().amount_msat as int } else { 0 }) }
}
pub open spec fn cnt_if(s: Seq<HTLCAmountDirection>, p: spec_fn(HTLCAmountDirection) -> bool) -> int
    decreases s.len()
{
    if s.len() == 0 { 0 } else { cnt_if(s.drop_last(), p) + (if p(s.last()) { 1int } else { 0 }) }
}
pub open spec fn total(s: Seq<HTLCAmountDirection>) -> int { sum_if(s, |h: HTLCAmountDirection| true) }

pub proof fn lemma_step(s: Seq<HTLCAmountDirection>, i: int, p: spec_fn(HTLCAmountDirection) -> bool)
    requires 0 <= i < s.len()
    ensures sum_if(s.take(i + 1), p) == sum_if(s.take(i), p) + (if p(s[i]) { s[i].amount_msat as int } else { 0 }),
            cnt_if(s.take(i + 1), p) == cnt_if(s.take(i), p) + (if p(s[i]) { 1int } else { 0 }),
{
    assert(s.take(i + 1).drop_last() =~= s.take(i));
}
pub proof fn lemma_bounds(s: Seq<HTLCAmountDirection>, p: spec_fn(HTLCAmountDirection) -> bool)
    ensures 0 <= sum_if(s, p) <= total(s), 0 <= cnt_if(s, p) <= s.len()
    decreases s.len()
{
    if s.len() > 0 { lemma_bounds(s.drop_last(), p); }
}
pub proof fn lemma_prefix_bounds(s: Seq<HTLCAmountDirection>, i: int, p: spec_fn(HTLCAmountDirection) -> bool)
    requires 0 <= i <= s.len()
    ensures 0 <= sum_if(s.take(i), p) <= total(s), 0 <= cnt_if(s.take(i), p) <= i
    decreases s.len() - i
{
    lemma_bounds(s.take(i), p);
    lemma_total_prefix(s, i);
}
pub proof fn lemma_total_prefix(s: Seq<HTLCAmountDirection>, i: int)
    requires 0 <= i <= s.len()
    ensures total(s.take(i)) <= total(s)
    decreases s.len() - i
{
    if i < s.len() { lemma_total_prefix(s, i + 1); lemma_step(s, i, |h: HTLCAmountDirection| true); }
    else { assert(s.take(i) =~= s); }
}
pub proof fn lemma_split(s: Seq<HTLCAmountDirection>)
    ensures sum_if(s, |h: HTLCAmountDirection| h.outbound) + sum_if(s, |h: HTLCAmountDirection| !h.outbound) == total(s)
    decreases s.len()
{
    if s.len() > 0 { lemma_split(s.drop_last()); }
}


// ---------------- chan_utils ----------------
//@extract lightning/src/ln/chan_utils.rs :: fn htlc_success_tx_weight
//@ret r
//@ensures A
    r == success_w(channel_type_features)
//@end
//@extract lightning/src/ln/chan_utils.rs :: fn htlc_timeout_tx_weight
//@ret r
//@ensures A
    r == timeout_w(channel_type_features)
//@end
//@extract lightning/src/ln/chan_utils.rs :: fn commitment_tx_base_weight
//@ret r
//@ensures A
    r == base_weight(channel_type_features)
//@end
//@extract lightning/src/ln/chan_utils.rs :: fn commit_tx_fee_sat
//@ret r
//@requires
    num_htlcs <= 100_000,
//@ensures P C01 commitment-fee-is-the-BOLT3-formula
    r == commit_fee_spec(feerate_per_kw as int, num_htlcs as int, channel_type_features),
    r <= 0xffff_ffff * 17_300,
//@at body_start
    proof {
        assert(feerate_per_kw as int * (base_weight(channel_type_features) + num_htlcs as int * 172) <= 0xffff_ffff * (1124 + 100_000 * 172)) by (nonlinear_arith)
            requires 0 <= feerate_per_kw <= 0xffff_ffff, 0 <= num_htlcs <= 100_000, 0 < base_weight(channel_type_features) <= 1124;
        assert(feerate_per_kw as int * (base_weight(channel_type_features) + num_htlcs as int * 172) >= 0) by (nonlinear_arith)
            requires 0 <= feerate_per_kw, 0 <= num_htlcs, 0 < base_weight(channel_type_features);
    }
//@mutant division_moved_inside
    (commitment_tx_base_weight(channel_type_features) + num_htlcs as u64 * COMMITMENT_TX_WEIGHT_PER_HTLC) / 1000
//@with
    ((commitment_tx_base_weight(channel_type_features) + num_htlcs as u64 * COMMITMENT_TX_WEIGHT_PER_HTLC) / 1000)
//@end
//@extract lightning/src/ln/chan_utils.rs :: fn second_stage_tx_fees_sat
//@ret r
//@ensures A
    (r.0 as int, r.1 as int) == second_stage_spec(channel_type, feerate_sat_per_1000_weight as int),
    r.0 <= 0xffff_ffff, r.1 <= 0xffff_ffff,
//@at body_start
    proof {
        assert(feerate_sat_per_1000_weight as int * 703 / 1000 <= 0xffff_ffff) by (nonlinear_arith) requires 0 <= feerate_sat_per_1000_weight <= 0xffff_ffff;
        assert(feerate_sat_per_1000_weight as int * 663 / 1000 <= 0xffff_ffff) by (nonlinear_arith) requires 0 <= feerate_sat_per_1000_weight <= 0xffff_ffff;
    }
//@end

// ---------------- tx_builder ----------------
impl HTLCAmountDirection {
//@extract lightning/src/sign/tx_builder.rs :: impl HTLCAmountDirection :: fn is_dust
//@ret r
//@requires
    broadcaster_dust_limit_satoshis <= 21_000_000_0000_0000,
//@ensures A
    r == is_dust_spec(*self, local, feerate_per_kw as int, broadcaster_dust_limit_satoshis as int, channel_type)
//@mutant dust_test_le
    self.amount_msat / 1000 < broadcaster_dust_limit_satoshis + htlc_tx_fee_sat
//@with
    self.amount_msat / 1000 <= broadcaster_dust_limit_satoshis + htlc_tx_fee_sat
//@end
}

//@extract lightning/src/sign/tx_builder.rs :: fn total_anchors_sat
//@ret r
//@ensures A
    r == anchors_spec(channel_type)
//@end

//@extract lightning/src/sign/tx_builder.rs :: fn checked_sub_from_funder
//@ret r
//@ensures P C01 exactly-the-funders-side-decreases
    r is Ok <==> (if is_outbound_from_holder { value_to_holder >= value_to_subtract } else { value_to_counterparty >= value_to_subtract }),
    r is Ok ==> (if is_outbound_from_holder {
            r->Ok_0.0 == value_to_holder - value_to_subtract && r->Ok_0.1 == value_to_counterparty
        } else {
            r->Ok_0.0 == value_to_holder && r->Ok_0.1 == value_to_counterparty - value_to_subtract }),
//@end

//@extract lightning/src/sign/tx_builder.rs :: fn saturating_sub_from_funder
//@ret r
//@ensures A
    r == (if is_outbound_from_holder {
        ((if value_to_holder >= value_to_subtract { (value_to_holder - value_to_subtract) as u64 } else { 0u64 }), value_to_counterparty)
      } else {
        (value_to_holder, (if value_to_counterparty >= value_to_subtract { (value_to_counterparty - value_to_subtract) as u64 } else { 0u64 })) })
//@end

pub open spec fn has_output_spec(ob: bool, h: int, c: int, feerate: int, n: int, dust: int, ct: &ChannelTypeFeatures) -> bool {
    let fee = commit_fee_spec(feerate, n, ct) * 1000;
    let h2 = if ob { if h >= fee { h - fee } else { 0 } } else { h };
    let c2 = if ob { c } else { if c >= fee { c - fee } else { 0 } };
    !(h2 < dust * 1000 && c2 < dust * 1000 && n == 0 && !ct.zfc)
}


//@extract lightning/src/sign/tx_builder.rs :: fn has_output
//@ret r
//@requires
    nondust_htlc_count <= 100_000, broadcaster_dust_limit_satoshis <= 21_000_000_0000_0000,
//@ensures P C01 has-output-iff-not-all-below-dust
    r == has_output_spec(is_outbound_from_holder, holder_balance_before_fee_msat as int, counterparty_balance_before_fee_msat as int,
        feerate_per_kw as int, nondust_htlc_count as int, broadcaster_dust_limit_satoshis as int, channel_type)
//@end

pub open spec fn htlc_fees_spec(feerate: int, na: int, no: int, ct: &ChannelTypeFeatures) -> int {
    let (s, t) = second_stage_spec(ct, feerate);
    na * s + no * t
}

//@extract lightning/src/ln/chan_utils.rs :: fn htlc_tx_fees_sat
//@ret r
//@requires
    num_accepted_htlcs <= 100_000, num_offered_htlcs <= 100_000,
//@ensures A
    r == htlc_fees_spec(feerate_per_kw as int, num_accepted_htlcs as int, num_offered_htlcs as int, channel_type_features),
    r <= 2 * 100_000 * 0xffff_ffff,
//@at before `num_accepted_htlcs as u64 * htlc_success_tx_fee_sat`
    proof {
        assert(num_accepted_htlcs as int * htlc_success_tx_fee_sat as int <= 100_000 * 0xffff_ffff) by (nonlinear_arith)
            requires 0 <= num_accepted_htlcs <= 100_000, 0 <= htlc_success_tx_fee_sat <= 0xffff_ffff;
        assert(num_offered_htlcs as int * htlc_timeout_tx_fee_sat as int <= 100_000 * 0xffff_ffff) by (nonlinear_arith)
            requires 0 <= num_offered_htlcs <= 100_000, 0 <= htlc_timeout_tx_fee_sat <= 0xffff_ffff;
    }
//@end

pub open spec fn dust_buffer_spec(f: int) -> int {
    let a = if f + 2530 > 0xffff_ffff { 0xffff_ffff } else { f + 2530 };
    let b = if f * 1250 > 0xffff_ffff { 0xffff_ffff } else { f * 1250 / 1000 };
    if a >= b { a } else { b }
}

//@extract lightning/src/sign/tx_builder.rs :: fn get_dust_buffer_feerate
//@ret r
//@ensures A
    r == dust_buffer_spec(feerate_per_kw as int), r >= feerate_per_kw
//@rw R9
    .map(|$v:ident| $body)
//@with
    .map(|$v: u32| -> (o: u32) ensures o == $v / 1000 { $body })
//@end

pub open spec fn valid_htlcs(s: Seq<HTLCAmountDirection>) -> bool {
    s.len() <= 2000 && total(s) <= 21_000_000_0000_0000_000
}

pub open spec fn p_accepted_nondust(local: bool, fr: int, dust: int, ct: &ChannelTypeFeatures) -> spec_fn(HTLCAmountDirection) -> bool {
    |h: HTLCAmountDirection| h.outbound != local && !is_dust_spec(h, local, fr, dust, ct)
}
pub open spec fn p_offered_nondust(local: bool, fr: int, dust: int, ct: &ChannelTypeFeatures) -> spec_fn(HTLCAmountDirection) -> bool {
    |h: HTLCAmountDirection| h.outbound == local && !is_dust_spec(h, local, fr, dust, ct)
}
pub open spec fn p_dust(local: bool, fr: int, dust: int, ct: &ChannelTypeFeatures) -> spec_fn(HTLCAmountDirection) -> bool {
    |h: HTLCAmountDirection| is_dust_spec(h, local, fr, dust, ct)
}
pub open spec fn p_nondust(local: bool, fr: int, dust: int, ct: &ChannelTypeFeatures) -> spec_fn(HTLCAmountDirection) -> bool {
    |h: HTLCAmountDirection| !is_dust_spec(h, local, fr, dust, ct)
}

pub open spec fn cphf_spec(local: bool, s: Seq<HTLCAmountDirection>, dbf: int, fr: int, dust: int, ct: &ChannelTypeFeatures) -> (int, int) {
    let na = cnt_if(s, p_accepted_nondust(local, dbf, dust, ct));
    let no = cnt_if(s, p_offered_nondust(local, dbf, dust, ct));
    ((commit_fee_spec(fr, na + no, ct) + htlc_fees_spec(fr, na, no, ct)) * 1000,
     (commit_fee_spec(fr, na + 1 + no, ct) + htlc_fees_spec(fr, na + 1, no, ct)) * 1000)
}


//@extract lightning/src/sign/tx_builder.rs :: fn commit_plus_htlc_tx_fees_msat
//@ret r
//@requires
    valid_htlcs(next_commitment_htlcs@), broadcaster_dust_limit_satoshis <= 21_000_000_0000_0000,
//@ensures A
    (r.0 as int, r.1 as int) == cphf_spec(local, next_commitment_htlcs@, dust_buffer_feerate as int, feerate as int, broadcaster_dust_limit_satoshis as int, channel_type),
    r.0 <= 1_000_000_000_000_000_000, r.1 <= 1_000_000_000_000_000_000,
//@rw nth=1 R6
    $s:ident.iter().filter(|$h:ident| $body).count()
//@with_template R6count
    PRED = p_accepted_nondust(local, dust_buffer_feerate as int, broadcaster_dust_limit_satoshis as int, channel_type)
    EXTRA = broadcaster_dust_limit_satoshis <= 21_000_000_0000_0000,
//@rw nth=1 R6
    $s:ident.iter().filter(|$h:ident| $body).count()
//@with_template R6count
    PRED = p_offered_nondust(local, dust_buffer_feerate as int, broadcaster_dust_limit_satoshis as int, channel_type)
    EXTRA = broadcaster_dust_limit_satoshis <= 21_000_000_0000_0000,
//@end

pub open spec fn dust_exposure_spec(local: bool, s: Seq<HTLCAmountDirection>, fr: int, limiting: Option<u32>, dust: int, ct: &ChannelTypeFeatures) -> (int, Option<int>) {
    let lim = match limiting { Some(l) => l as int, None => fr };
    let excess = if fr >= lim { fr - lim } else { 0 };
    let dbf = dust_buffer_spec(fr);
    let d = sum_if(s, p_dust(local, dbf, dust, ct));
    if local || excess == 0 { (d, None) } else {
        let (a, b) = cphf_spec(local, s, dbf, excess, dust, ct);
        (d + a, Some(d + b))
    }
}


//@extract lightning/src/sign/tx_builder.rs :: fn get_dust_exposure_stats
//@ret r
//@requires
    valid_htlcs(commitment_htlcs@), broadcaster_dust_limit_satoshis <= 21_000_000_0000_0000,
    channel_type.zfc ==> feerate_per_kw == 0,
//@ensures P C01 dust-exposure-is-the-sum-of-HTLCs-dust-at-the-buffered-feerate-plus-excess-fees
    ({ let sp = dust_exposure_spec(local, commitment_htlcs@, feerate_per_kw as int, dust_exposure_limiting_feerate, broadcaster_dust_limit_satoshis as int, channel_type);
        r.0 as int == sp.0 && (r.1 is Some <==> sp.1 is Some) && (r.1 is Some ==> r.1->Some_0 as int == sp.1->Some_0) }),
//@rw nth=1 R6
    $s:ident.iter().filter_map(|$h:ident| { $c.then_some($v) }).sum()
//@with_template R6sum
    PRED = p_dust(local, dust_buffer_feerate as int, broadcaster_dust_limit_satoshis as int, channel_type)
    EXTRA = broadcaster_dust_limit_satoshis <= 21_000_000_0000_0000,
//@end

//@extract lightning/src/sign/tx_builder.rs :: struct NextCommitmentStats
//@end

pub open spec fn spiked_spec(fr: int, spike: bool, ct: &ChannelTypeFeatures) -> int {
    if spike && !ct.anchors { if fr * 2 > 0xffff_ffff { 0xffff_ffff } else { fr * 2 } } else { fr }
}


pub open spec fn stats_spec(local: bool, ob: bool, cv: int, vth: int, s: Seq<HTLCAmountDirection>, addl: int, fr: int, spike: bool,
    lim: Option<u32>, dust: int, ct: &ChannelTypeFeatures) -> Option<(int, int, int)>
{
    if cv * 1000 < vth { None } else {
        let vtc = cv * 1000 - vth;
        let out = sum_if(s, |h: HTLCAmountDirection| h.outbound);
        let inn = sum_if(s, |h: HTLCAmountDirection| !h.outbound);
        if vth < out || vtc < inn { None } else {
            let h0 = vth - out; let c0 = vtc - inn; let anc = 1000 * anchors_spec(ct);
            if (ob && h0 < anc) || (!ob && c0 < anc) { None } else {
                let h1 = if ob { h0 - anc } else { h0 }; let c1 = if ob { c0 } else { c0 - anc };
                let sp = spiked_spec(fr, spike, ct);
                let spn = cnt_if(s, p_nondust(local, sp, dust, ct));
                if !has_output_spec(ob, h1, c1, sp, spn, dust, ct) { None } else {
                    let n = cnt_if(s, p_nondust(local, fr, dust, ct)) + addl;
                    let fee = 1000 * commit_fee_spec(sp, n, ct);
                    if (ob && h1 < fee) || (!ob && c1 < fee) { None } else {
                        Some((if ob { h1 - fee } else { h1 }, if ob { c1 } else { c1 - fee }, dust_exposure_spec(local, s, fr, lim, dust, ct).0))
                    }
                }
            }
        }
    }
}

//@extract lightning/src/sign/tx_builder.rs :: fn get_next_commitment_stats
//@ret r
//@ensures A full-functional-contract-the-function-computes-exactly-stats_spec
    ({ let sp = stats_spec(local, is_outbound_from_holder, channel_value_satoshis as int, value_to_holder_msat as int, next_commitment_htlcs@, addl_nondust_htlc_count as int,
            feerate_per_kw as int, assume_fee_spike, dust_exposure_limiting_feerate, broadcaster_dust_limit_satoshis as int, channel_type);
       (r is Ok <==> sp is Some) && (r is Ok ==> r->Ok_0.holder_balance_msat == sp->Some_0.0 && r->Ok_0.counterparty_balance_msat == sp->Some_0.1 && r->Ok_0.dust_exposure_msat == sp->Some_0.2) }),
//@requires
    valid_htlcs(next_commitment_htlcs@),
    broadcaster_dust_limit_satoshis <= 21_000_000_0000_0000,
    channel_value_satoshis <= 21_000_000_0000_0000,
    addl_nondust_htlc_count <= 2,
    channel_type.zfc ==> feerate_per_kw == 0,
//@ensures P C01 conservation-every-pending-HTLC-exactly-once-funder-pays-anchors-and-fee
    r is Ok ==> ({
        let st = r->Ok_0;
        let sp = spiked_spec(feerate_per_kw as int, assume_fee_spike, channel_type);
        let n = cnt_if(next_commitment_htlcs@, p_nondust(local, feerate_per_kw as int, broadcaster_dust_limit_satoshis as int, channel_type)) + addl_nondust_htlc_count;
        let fee = commit_fee_spec(sp, n, channel_type);
        &&& st.holder_balance_msat + st.counterparty_balance_msat + total(next_commitment_htlcs@)
              + 1000 * anchors_spec(channel_type) + 1000 * fee == 1000 * channel_value_satoshis
        // non-funder pays nothing but its own HTLCs
        &&& is_outbound_from_holder ==> st.counterparty_balance_msat == channel_value_satoshis * 1000 - value_to_holder_msat
                - sum_if(next_commitment_htlcs@, |h: HTLCAmountDirection| !h.outbound)
        &&& !is_outbound_from_holder ==> st.holder_balance_msat == value_to_holder_msat
                - sum_if(next_commitment_htlcs@, |h: HTLCAmountDirection| h.outbound)
        &&& st.dust_exposure_msat as int == dust_exposure_spec(local, next_commitment_htlcs@, feerate_per_kw as int, dust_exposure_limiting_feerate, broadcaster_dust_limit_satoshis as int, channel_type).0
    }),
//@rw nth=1 R6
    $s:ident.iter().filter_map(|$h:ident| $c.then_some($v)).sum()
//@with_template R6sum
    PRED = |h: HTLCAmountDirection| h.outbound
    EXTRA =
//@rw nth=1 R6
    $s:ident.iter().filter_map(|$h:ident| $c.then_some($v)).sum()
//@with_template R6sum
    PRED = |h: HTLCAmountDirection| !h.outbound
    EXTRA =
//@rw nth=1 R6
    $s:ident.iter().filter(|$h:ident| $body).count()
//@with_template R6count
    PRED = p_nondust(local, spiked_feerate as int, broadcaster_dust_limit_satoshis as int, channel_type)
    EXTRA = broadcaster_dust_limit_satoshis <= 21_000_000_0000_0000,
//@rw nth=1 R6
    $s:ident.iter().filter(|$h:ident| $body).count()
//@with_template R6count
    PRED = p_nondust(local, feerate_per_kw as int, broadcaster_dust_limit_satoshis as int, channel_type)
    EXTRA = broadcaster_dust_limit_satoshis <= 21_000_000_0000_0000,
//@at before `let commit_tx_fee_sat = commit_tx_fee_sat(`
    proof { lemma_split(next_commitment_htlcs@); }
//@mutant fee_at_unspiked_feerate
    let commit_tx_fee_sat = commit_tx_fee_sat( spiked_feerate,
//@with
    let commit_tx_fee_sat = commit_tx_fee_sat( feerate_per_kw,
//@mutant anchors_charged_to_non_funder
    checked_sub_from_funder( is_outbound_from_holder, value_to_holder_after_htlcs_msat,
//@with
    checked_sub_from_funder( !is_outbound_from_holder, value_to_holder_after_htlcs_msat,
//@mutant inbound_htlcs_not_subtracted
    value_to_counterparty_msat.checked_sub(inbound_htlcs_value_msat)
//@with
    value_to_counterparty_msat.checked_sub(0)
//@end

// =====================  send-window helpers  =====================
//@extract lightning/src/sign/tx_builder.rs :: struct ChannelConstraints
//@derive Clone Copy
//@end
//@extract lightning/src/ln/channel.rs :: struct AvailableBalances
//@end
// =====================  U01h: end-to-end soundness of the send window (composition lemma)  =====================
pub open spec fn ssub(a: int, b: int) -> int { if a >= b { a - b } else { 0 } }
pub open spec fn affordable(a: int, cap: int, spiked: int, n: int, d: int, ct: &ChannelTypeFeatures) -> bool {
    if a / 1000 >= d { a + commit_fee_spec(spiked, n + 2, ct) * 1000 <= cap } else { a + commit_fee_spec(spiked, n + 1, ct) * 1000 <= cap }
}
pub open spec fn cp_affordable(a: int, rbal: int, fr: int, n: int, d: int, hres: int, ct: &ChannelTypeFeatures) -> bool {
    a / 1000 >= d ==> rbal >= commit_fee_spec(fr, n + 1, ct) * 1000 + hres * 1000
}
pub proof fn lemma_push_sums(s: Seq<HTLCAmountDirection>, h: HTLCAmountDirection, p: spec_fn(HTLCAmountDirection) -> bool)
    ensures sum_if(s.push(h), p) == sum_if(s, p) + (if p(h) { h.amount_msat as int } else { 0 }),
            cnt_if(s.push(h), p) == cnt_if(s, p) + (if p(h) { 1int } else { 0 }),
{
    assert(s.push(h).drop_last() =~= s);
}
pub proof fn lemma_fee_mono2(f1: int, f2: int, n1: int, n2: int, ct: &ChannelTypeFeatures)
    requires 0 <= f1 <= f2, 0 <= n1 <= n2
    ensures 0 <= commit_fee_spec(f1, n1, ct) <= commit_fee_spec(f2, n2, ct)
{
    assert(f1 * (base_weight(ct) + n1 * 172) <= f2 * (base_weight(ct) + n2 * 172)) by (nonlinear_arith) requires 0 <= f1 <= f2, 0 <= n1 <= n2, base_weight(ct) > 0;
    assert(f1 * (base_weight(ct) + n1 * 172) >= 0) by (nonlinear_arith) requires 0 <= f1, 0 <= n1, base_weight(ct) > 0;
}

// One commitment (`local` tells which), one new outbound HTLC of `a` msat inside the window: the commitment stays valid and reserves are kept.
pub proof fn lemma_window_sound_one_commitment(local: bool, ob: bool, cv: int, vth: int, s: Seq<HTLCAmountDirection>, fr: int, lim: Option<u32>,
    dust: int, cres: int, hres: int, a: int, ct: &ChannelTypeFeatures)
    requires
        0 <= fr <= 0xffff_ffff, 1 <= dust, 0 <= cres, 0 <= hres, 1 <= a <= 0xffff_ffff_ffff_ffff, 0 <= cv, 0 <= vth,
        ct.zfc ==> fr == 0,
        // the current state is valid on this commitment
        stats_spec(local, ob, cv, vth, s, 0, fr, false, lim, dust, ct) is Some,
        ({  let out = sum_if(s, |h: HTLCAmountDirection| h.outbound); let inn = sum_if(s, |h: HTLCAmountDirection| !h.outbound);
            let anc = 1000 * anchors_spec(ct);
            let lb = ssub(ssub(vth, out), if ob { anc } else { 0 }); let rb = ssub(ssub(cv * 1000 - vth, inn), if ob { 0 } else { anc });
            let ocap = ssub(lb, cres * 1000);
            let n = cnt_if(s, p_nondust(local, fr, dust, ct));
            let (sf, tf) = second_stage_spec(ct, fr);
            let d = dust + (if local { tf } else { sf });           // non-dust threshold (sat) of an OUTBOUND htlc on this commitment
            let sp = spiked_spec(fr, true, ct);
            // what the window helpers guarantee for this amount (their verified postconditions)
            &&& a <= ocap
            &&& ob ==> affordable(a, ocap, sp, n, d, ct)
            &&& !ob ==> cp_affordable(a, rb, fr, n, d, hres, ct)
            &&& a / 1000 < d ==> has_output_spec(ob, lb - a, rb, fr, n, dust, ct)
        }),
    ensures ({
        let h = HTLCAmountDirection { outbound: true, amount_msat: a as u64 };
        let r = stats_spec(local, ob, cv, vth, s.push(h), 0, fr, false, lim, dust, ct);
        // (P) an HTLC inside the reported window is accepted: the next commitment is valid and both reserves are respected
        &&& r is Some
        &&& r->Some_0.0 >= cres * 1000
        &&& !ob ==> r->Some_0.1 >= hres * 1000 || (a / 1000 < dust + (if local { second_stage_spec(ct, fr).1 } else { second_stage_spec(ct, fr).0 }))
        // (P) funder: even with the fee-spike buffer (one more non-dust HTLC at the spiked feerate) the fee is covered above the reserve
        &&& ob ==> ({
                let out = sum_if(s, |x: HTLCAmountDirection| x.outbound); let anc = 1000 * anchors_spec(ct);
                let h1 = vth - out - a - anc;
                let n2 = cnt_if(s.push(h), p_nondust(local, fr, dust, ct));
                h1 >= 1000 * commit_fee_spec(spiked_spec(fr, true, ct), n2 + 1, ct) + cres * 1000 })
    }),
{
    let h = HTLCAmountDirection { outbound: true, amount_msat: a as u64 };
    let po = |x: HTLCAmountDirection| x.outbound;
    let pi = |x: HTLCAmountDirection| !x.outbound;
    lemma_push_sums(s, h, po);
    lemma_push_sums(s, h, pi);
    lemma_push_sums(s, h, p_nondust(local, fr, dust, ct));
    lemma_bounds(s, po); lemma_bounds(s, pi); lemma_bounds(s, p_nondust(local, fr, dust, ct));
    let n = cnt_if(s, p_nondust(local, fr, dust, ct));
    let sp = spiked_spec(fr, true, ct);
    lemma_fee_mono2(fr, sp, n, n + 1, ct);
    lemma_fee_mono2(fr, sp, n + 1, n + 2, ct);
    lemma_fee_mono2(fr, fr, n, n + 1, ct);
    assert(spiked_spec(fr, false, ct) == fr);
}

// what one commitment (with n existing non-dust HTLCs and HTLC dust threshold d) lets the funder add: the spec of the closure
pub open spec fn avail_spec(cap: int, spiked: int, n: int, d: int, ct: &ChannelTypeFeatures) -> int {
    let maxf = commit_fee_spec(spiked, n + 2, ct) * 1000;
    let minf = commit_fee_spec(spiked, n + 1, ct) * 1000;
    let a = if cap >= maxf { cap - maxf } else { 0 };
    if a < d * 1000 { let b = if cap >= minf { cap - minf } else { 0 }; if d * 1000 - 1 <= b { d * 1000 - 1 } else { b } } else { a }
}
pub proof fn lemma_fee_mono(f: int, n1: int, n2: int, ct: &ChannelTypeFeatures)
    requires 0 <= f, 0 <= n1 <= n2
    ensures commit_fee_spec(f, n1, ct) <= commit_fee_spec(f, n2, ct), 0 <= commit_fee_spec(f, n1, ct)
{
    assert(f * (base_weight(ct) + n1 * 172) <= f * (base_weight(ct) + n2 * 172)) by (nonlinear_arith) requires 0 <= f, 0 <= n1 <= n2, base_weight(ct) > 0;
    assert(f * (base_weight(ct) + n1 * 172) >= 0) by (nonlinear_arith) requires 0 <= f, 0 <= n1, base_weight(ct) > 0;
}
pub proof fn lemma_avail_sound(a: int, cap: int, spiked: int, n: int, d: int, ct: &ChannelTypeFeatures)
    requires 1 <= a <= avail_spec(cap, spiked, n, d, ct), 0 <= spiked, 0 <= n, 1 <= d, 0 <= cap
    ensures affordable(a, cap, spiked, n, d, ct)
{
    lemma_fee_mono(spiked, n + 1, n + 2, ct);
}

//@extract lightning/src/sign/tx_builder.rs :: fn adjust_capacity_for_holder_reserved_fee
//@ret r
//@requires
    local_nondust_htlc_count <= 2000, remote_nondust_htlc_count <= 2000,
        1 <= channel_constraints.holder_dust_limit_satoshis <= 21_000_000_0000_0000, 1 <= channel_constraints.counterparty_dust_limit_satoshis <= 21_000_000_0000_0000,
//@ensures P C01 every-amount-up-to-the-limit-passes-the-funders-fee-check-on-both-commitments
    r <= outbound_capacity_msat,
        
        forall|a: int| 1 <= a <= r ==>
            #[trigger] affordable(a, outbound_capacity_msat as int, spiked_feerate as int, local_nondust_htlc_count as int, channel_constraints.holder_dust_limit_satoshis + second_stage_spec(channel_type, feerate_per_kw as int).1, channel_type)
            && affordable(a, outbound_capacity_msat as int, spiked_feerate as int, remote_nondust_htlc_count as int, channel_constraints.counterparty_dust_limit_satoshis + second_stage_spec(channel_type, feerate_per_kw as int).0, channel_type),
//@at after `= | nondust_htlc_count`
    : usize
//@at after `nondust_htlc_count , htlc_dust_limit_sat`
    : u64
//@at after `, htlc_dust_limit_sat |`
     -> (o: u64)
            requires nondust_htlc_count <= 2000, 1 <= htlc_dust_limit_sat <= 21_000_000_0000_0000 + 0xffff_ffff
            ensures o as int == avail_spec(outbound_capacity_msat as int, spiked_feerate as int, nondust_htlc_count as int, htlc_dust_limit_sat as int, channel_type),
                o <= outbound_capacity_msat
//@at after `real_htlc_success_tx_fee_sat , ) ;`
        proof {
            let cap = outbound_capacity_msat as int; let sp = spiked_feerate as int;
            let dl = (channel_constraints.holder_dust_limit_satoshis + real_htlc_timeout_tx_fee_sat) as int;
            let dr = (channel_constraints.counterparty_dust_limit_satoshis + real_htlc_success_tx_fee_sat) as int;
            assert forall|a: int| 1 <= a <= available_capacity_on_local_commitment && a <= available_capacity_on_remote_commitment implies
                #[trigger] affordable(a, cap, sp, local_nondust_htlc_count as int, dl, channel_type) && affordable(a, cap, sp, remote_nondust_htlc_count as int, dr, channel_type) by {
                lemma_avail_sound(a, cap, sp, local_nondust_htlc_count as int, dl, channel_type);
                lemma_avail_sound(a, cap, sp, remote_nondust_htlc_count as int, dr, channel_type);
            }
        }
//@mutant fee_buffer_one_htlc_short
    commit_tx_fee_sat(spiked_feerate, nondust_htlc_count + 2, channel_type)
//@with
    commit_tx_fee_sat(spiked_feerate, nondust_htlc_count + 1, channel_type)
//@end

//@extract lightning/src/sign/tx_builder.rs :: fn adjust_capacity_for_counterparty_reserved_fee
//@ret r
//@requires
    local_nondust_htlc_count <= 2000, remote_nondust_htlc_count <= 2000,
        1 <= channel_constraints.holder_dust_limit_satoshis <= 21_000_000_0000_0000, 1 <= channel_constraints.counterparty_dust_limit_satoshis <= 21_000_000_0000_0000,
        channel_constraints.holder_selected_channel_reserve_satoshis <= 21_000_000_0000_0000,
//@ensures P C01 fundee-case-non-dust-amounts-leave-the-counterparty-able-to-pay-the-fee-above-our-reserve
    r <= outbound_capacity_msat,
        
        forall|a: int| 1 <= a <= r ==>
            #[trigger] cp_affordable(a, remote_balance_before_fee_msat as int, feerate_per_kw as int, local_nondust_htlc_count as int,
                channel_constraints.holder_dust_limit_satoshis + second_stage_spec(channel_type, feerate_per_kw as int).1, channel_constraints.holder_selected_channel_reserve_satoshis as int, channel_type)
            && cp_affordable(a, remote_balance_before_fee_msat as int, feerate_per_kw as int, remote_nondust_htlc_count as int,
                channel_constraints.counterparty_dust_limit_satoshis + second_stage_spec(channel_type, feerate_per_kw as int).0, channel_constraints.holder_selected_channel_reserve_satoshis as int, channel_type),
//@at after `= | nondust_htlc_count`
    : usize
//@at after `nondust_htlc_count , htlc_dust_limit_sat`
    : u64
//@at after `, htlc_dust_limit_sat |`
     -> (o: u64)
            requires nondust_htlc_count <= 2000, 1 <= htlc_dust_limit_sat <= 21_000_000_0000_0000 + 0xffff_ffff
            ensures o <= outbound_capacity_msat,
                remote_balance_before_fee_msat < commit_fee_spec(feerate_per_kw as int, nondust_htlc_count + 1, channel_type) * 1000 + channel_constraints.holder_selected_channel_reserve_satoshis * 1000
                    ==> o <= htlc_dust_limit_sat * 1000 - 1,
//@mutant reserve_ignored
    commit_tx_fee_sat * 1000 + channel_constraints.holder_selected_channel_reserve_satoshis * 1000
//@with
    commit_tx_fee_sat * 1000
//@end

pub open spec fn min_nondust_sat(local: bool, feerate: int, dust: int, ct: &ChannelTypeFeatures) -> int {
    let (s, t) = second_stage_spec(ct, feerate);
    dust + (if local { t } else { s })
}
pub proof fn lemma_has_output_mono(ob: bool, h1: int, h2: int, c: int, feerate: int, n: int, dust: int, ct: &ChannelTypeFeatures)
    requires h1 <= h2, has_output_spec(ob, h1, c, feerate, n, dust, ct)
    ensures has_output_spec(ob, h2, c, feerate, n, dust, ct)
{}
//@extract lightning/src/sign/tx_builder.rs :: fn adjust_boundaries_if_max_dust_htlc_produces_no_output
//@ret r
//@requires
    nondust_htlc_count <= 2000, 1 <= dust_limit_satoshis <= 21_000_000_0000_0000,
        holder_balance_before_fee_msat <= 21_000_000_0000_0000_000, counterparty_balance_before_fee_msat <= 21_000_000_0000_0000_000,
//@ensures P C01 every-dust-amount-in-the-adjusted-window-leaves-the-commitment-with-an-output
    r.0 >= next_outbound_htlc_minimum_msat, r.1 <= available_capacity_msat,
        
        forall|a: int| 1 <= a && r.0 <= a <= r.1 && a <= holder_balance_before_fee_msat && a / 1000 < min_nondust_sat(local, feerate_per_kw as int, dust_limit_satoshis as int, channel_type)
            ==> #[trigger] has_output_spec(is_outbound_from_holder, holder_balance_before_fee_msat - a, counterparty_balance_before_fee_msat as int,
                    feerate_per_kw as int, nondust_htlc_count as int, dust_limit_satoshis as int, channel_type),
//@at after `} } else {`
            proof {
                let hb = holder_balance_before_fee_msat as int;
                let md = max_dust_htlc_msat as int;
                assert forall|a: int| 1 <= a && a / 1000 < min_nondust_sat(local, feerate_per_kw as int, dust_limit_satoshis as int, channel_type) && a <= hb implies
                    #[trigger] has_output_spec(is_outbound_from_holder, hb - a, counterparty_balance_before_fee_msat as int, feerate_per_kw as int, nondust_htlc_count as int, dust_limit_satoshis as int, channel_type) by {
                    assert(a <= md);
                    let hsub = if hb >= md { hb - md } else { 0 };
                    lemma_has_output_mono(is_outbound_from_holder, hsub, hb - a, counterparty_balance_before_fee_msat as int, feerate_per_kw as int, nondust_htlc_count as int, dust_limit_satoshis as int, channel_type);
                }
            }
//@mutant min_balance_ignores_fee
    cmp::max(dust_limit_satoshis + current_tx_fee_sat, spike_buffer_tx_fee_sat) * 1000
//@with
    dust_limit_satoshis * 1000
//@end

#[verifier::external_body]
pub fn u64_to_i64_or_max(x: u64) -> (r: i64) ensures r as int == (if x <= 0x7fff_ffff_ffff_ffff { x as int } else { 0x7fff_ffff_ffff_ffff }) { x.try_into().unwrap_or(i64::MAX) }
// exposure after adding an OUTBOUND htlc of `a` msat, on the local (holder) commitment, at the buffered feerate
pub open spec fn local_exposure_after(s: Seq<HTLCAmountDirection>, a: int, fr: int, lim: Option<u32>, cc: ChannelConstraints, ct: &ChannelTypeFeatures) -> int {
    let base = dust_exposure_spec(true, s, fr, lim, cc.holder_dust_limit_satoshis as int, ct).0;
    let h = HTLCAmountDirection { outbound: true, amount_msat: a as u64 };
    base + (if is_dust_spec(h, true, dust_buffer_spec(fr), cc.holder_dust_limit_satoshis as int, ct) { a } else { 0 })
}

//@extract lightning/src/sign/tx_builder.rs :: fn adjust_min_max_htlc_for_dust_exposure
//@ret r
//@requires
    valid_htlcs(pending_htlcs@), channel_type.zfc ==> feerate_per_kw == 0,
        1 <= channel_constraints.holder_dust_limit_satoshis <= 21_000_000_0000_0000, 1 <= channel_constraints.counterparty_dust_limit_satoshis <= 21_000_000_0000_0000,
//@ensures P C02 every-amount-in-the-adjusted-window-keeps-local-dust-exposure-within-the-configured-maximum
    r.1 <= available_capacity_msat, r.0 >= channel_constraints.counterparty_htlc_minimum_msat,
        
        (max_dust_htlc_exposure_msat <= 21_000_000_0000_0000_000
          && dust_exposure_spec(true, pending_htlcs@, feerate_per_kw as int, dust_exposure_limiting_feerate, channel_constraints.holder_dust_limit_satoshis as int, channel_type).0 <= max_dust_htlc_exposure_msat) ==>
        forall|a: int| 1 <= a && r.0 <= a <= r.1 && a <= 21_000_000_0000_0000_000 ==>
            #[trigger] local_exposure_after(pending_htlcs@, a, feerate_per_kw as int, dust_exposure_limiting_feerate, *channel_constraints, channel_type) <= max_dust_htlc_exposure_msat,
//@rw ? R8
    $x:ident.try_into().unwrap_or(i64::MAX)
//@with
    u64_to_i64_or_max($x)
//@at after `remote_dust_exposure_msat ) ;`
        proof { if max_dust_htlc_exposure_msat <= 21_000_000_0000_0000_000
          && dust_exposure_spec(true, pending_htlcs@, feerate_per_kw as int, dust_exposure_limiting_feerate, channel_constraints.holder_dust_limit_satoshis as int, channel_type).0 <= max_dust_htlc_exposure_msat {
            let t = buffer_dust_limit_timeout_sat as int;
            lemma_bounds(pending_htlcs@, p_dust(true, dust_buffer_spec(feerate_per_kw as int), channel_constraints.holder_dust_limit_satoshis as int, channel_type));
            assert(local_dust_exposure_msat <= 21_000_000_0000_0000_000);
            assert forall|a: int| 1 <= a && next_outbound_htlc_minimum_msat <= a <= available_capacity_msat && a <= 21_000_000_0000_0000_000 implies
                #[trigger] local_exposure_after(pending_htlcs@, a, feerate_per_kw as int, dust_exposure_limiting_feerate, *channel_constraints, channel_type) <= max_dust_htlc_exposure_msat by {
                let h = HTLCAmountDirection { outbound: true, amount_msat: a as u64 };
                let d = is_dust_spec(h, true, dust_buffer_spec(feerate_per_kw as int), channel_constraints.holder_dust_limit_satoshis as int, channel_type);
                assert(d == (a / 1000 < t));
                assert((a / 1000 < t) == (a < t * 1000));
            }
        } }
//@at before `if local_dust_exposure_msat as i64`
    proof { lemma_bounds(pending_htlcs@, p_dust(true, dust_buffer_spec(feerate_per_kw as int), channel_constraints.holder_dust_limit_satoshis as int, channel_type)); }
//@mutant dust_window_not_narrowed
    if available_capacity_msat < dust_exposure_dust_limit_msat { available_capacity_msat = cmp::min(available_capacity_msat, remaining_limit_msat);
//@with
    if available_capacity_msat < dust_exposure_dust_limit_msat { available_capacity_msat = cmp::max(available_capacity_msat, remaining_limit_msat);
//@end

pub open spec fn dl_spec(fr: int, cc: ChannelConstraints, ct: &ChannelTypeFeatures) -> int { cc.holder_dust_limit_satoshis + second_stage_spec(ct, fr).1 }
pub open spec fn dr_spec(fr: int, cc: ChannelConstraints, ct: &ChannelTypeFeatures) -> int { cc.counterparty_dust_limit_satoshis + second_stage_spec(ct, fr).0 }

pub open spec fn no_output_guard(a: int, ob: bool, lb: int, rb: int, fr: int, n: int, dust: int, d: int, ct: &ChannelTypeFeatures) -> bool {
    a / 1000 < d ==> has_output_spec(ob, lb - a, rb, fr, n, dust, ct)
}

//@extract lightning/src/sign/tx_builder.rs :: fn adjust_min_max_htlc_if_max_dust_htlc_produces_no_output
//@ret r
//@requires
    local_nondust_htlc_count <= 2000, remote_nondust_htlc_count <= 2000,
    1 <= channel_constraints.holder_dust_limit_satoshis <= 21_000_000_0000_0000, 1 <= channel_constraints.counterparty_dust_limit_satoshis <= 21_000_000_0000_0000,
    local_balance_before_fee_msat <= 21_000_000_0000_0000_000, remote_balance_before_fee_msat <= 21_000_000_0000_0000_000,
//@ensures P C01 every-dust-amount-in-the-window-leaves-both-commitments-with-an-output-and-the-window-is-never-widened
    r.0 >= next_outbound_htlc_minimum_msat, r.1 <= available_capacity_msat,
    forall|a: int| 1 <= a && r.0 <= a <= r.1 && a <= local_balance_before_fee_msat ==>
        #[trigger] no_output_guard(a, is_outbound_from_holder, local_balance_before_fee_msat as int, remote_balance_before_fee_msat as int, feerate_per_kw as int,
            local_nondust_htlc_count as int, channel_constraints.holder_dust_limit_satoshis as int, dl_spec(feerate_per_kw as int, *channel_constraints, channel_type), channel_type)
        && no_output_guard(a, is_outbound_from_holder, local_balance_before_fee_msat as int, remote_balance_before_fee_msat as int, feerate_per_kw as int,
            remote_nondust_htlc_count as int, channel_constraints.counterparty_dust_limit_satoshis as int, dr_spec(feerate_per_kw as int, *channel_constraints, channel_type), channel_type),
//@end

#[verifier::external_body]
fn get_next_splice_out_maximum_sat(a: bool, b: u64, c: u64, d: u64, e: usize, f: usize, g: u32, h: u32, i: &ChannelConstraints, j: &ChannelTypeFeatures) -> u64 { unimplemented!() }

// the facts lemma_window_sound_one_commitment needs, for both commitments
pub open spec fn window_facts(a: int, ob: bool, cv: int, vth: int, s: Seq<HTLCAmountDirection>, fr: int, cc: ChannelConstraints, ct: &ChannelTypeFeatures) -> bool {
    let out = sum_if(s, |h: HTLCAmountDirection| h.outbound); let inn = sum_if(s, |h: HTLCAmountDirection| !h.outbound);
    let anc = 1000 * anchors_spec(ct);
    let lb = ssub(ssub(vth, out), if ob { anc } else { 0 }); let rb = ssub(ssub(cv * 1000 - vth, inn), if ob { 0 } else { anc });
    let ocap = ssub(lb, cc.counterparty_selected_channel_reserve_satoshis * 1000);
    let ln = cnt_if(s, p_nondust(true, fr, cc.holder_dust_limit_satoshis as int, ct));
    let rn = cnt_if(s, p_nondust(false, fr, cc.counterparty_dust_limit_satoshis as int, ct));
    let sp = spiked_spec(fr, true, ct);
    let dl = dl_spec(fr, cc, ct); let dr = dr_spec(fr, cc, ct);
    &&& a <= ocap
    &&& ob ==> affordable(a, ocap, sp, ln, dl, ct) && affordable(a, ocap, sp, rn, dr, ct)
    &&& !ob ==> cp_affordable(a, rb, fr, ln, dl, cc.holder_selected_channel_reserve_satoshis as int, ct) && cp_affordable(a, rb, fr, rn, dr, cc.holder_selected_channel_reserve_satoshis as int, ct)
    &&& no_output_guard(a, ob, lb, rb, fr, ln, cc.holder_dust_limit_satoshis as int, dl, ct)
    &&& no_output_guard(a, ob, lb, rb, fr, rn, cc.counterparty_dust_limit_satoshis as int, dr, ct)
}


//@extract lightning/src/sign/tx_builder.rs :: fn get_available_balances
//@strip ln channel
//@ret r
//@requires
    valid_htlcs(pending_htlcs@), channel_value_satoshis <= 21_000_000_0000_0000, value_to_holder_msat <= channel_value_satoshis * 1000,
    1 <= channel_constraints.holder_dust_limit_satoshis <= 21_000_000_0000_0000, 1 <= channel_constraints.counterparty_dust_limit_satoshis <= 21_000_000_0000_0000,
    channel_constraints.counterparty_selected_channel_reserve_satoshis <= 21_000_000_0000_0000, channel_constraints.holder_selected_channel_reserve_satoshis <= 21_000_000_0000_0000,
    channel_type.zfc ==> feerate_per_kw == 0,
//@ensures P C01 every-amount-inside-the-reported-send-window-satisfies-the-hypotheses-of-the-soundness-theorem-on-both-commitments
    forall|a: int| 1 <= a && r.next_outbound_htlc_minimum_msat <= a <= r.next_outbound_htlc_limit_msat ==>
        #[trigger] window_facts(a, is_outbound_from_holder, channel_value_satoshis as int, value_to_holder_msat as int, pending_htlcs@, feerate_per_kw as int, channel_constraints, channel_type),
//@ensures P C02 reported-dust-exposure-and-window-respect-the-configured-maximum
    (max_dust_htlc_exposure_msat <= 21_000_000_0000_0000_000
      && dust_exposure_spec(true, pending_htlcs@, feerate_per_kw as int, dust_exposure_limiting_feerate, channel_constraints.holder_dust_limit_satoshis as int, channel_type).0 <= max_dust_htlc_exposure_msat) ==>
    forall|a: int| 1 <= a && r.next_outbound_htlc_minimum_msat <= a <= r.next_outbound_htlc_limit_msat && a <= 21_000_000_0000_0000_000 ==>
        #[trigger] local_exposure_after(pending_htlcs@, a, feerate_per_kw as int, dust_exposure_limiting_feerate, channel_constraints, channel_type) <= max_dust_htlc_exposure_msat,
//@rw nth=1 R6
    $s:ident.iter().filter(|$h:ident| $body).count()
//@with_template R6count
    PRED = p_nondust(true, feerate_per_kw as int, channel_constraints.holder_dust_limit_satoshis as int, channel_type)
    EXTRA = channel_constraints.holder_dust_limit_satoshis <= 21_000_000_0000_0000,
//@rw nth=1 R6
    $s:ident.iter().filter(|$h:ident| $body).count()
//@with_template R6count
    PRED = p_nondust(false, feerate_per_kw as int, channel_constraints.counterparty_dust_limit_satoshis as int, channel_type)
    EXTRA = channel_constraints.counterparty_dust_limit_satoshis <= 21_000_000_0000_0000,
//@rw nth=1 R6
    $s:ident.iter().filter_map(|$h:ident| $c.then_some($v)).sum()
//@with_template R6sum
    PRED = |h: HTLCAmountDirection| h.outbound
    EXTRA =
//@rw nth=1 R6
    $s:ident.iter().filter_map(|$h:ident| $c.then_some($v)).sum()
//@with_template R6sum
    PRED = |h: HTLCAmountDirection| !h.outbound
    EXTRA =
//@rw nth=1 R6
    $s:ident.iter().filter(|$h:ident| $body).count()
//@with_template R6count
    PRED = |h: HTLCAmountDirection| h.outbound
    EXTRA = 
//@at before `AvailableBalances {`
    proof {
        let s = pending_htlcs@; let cc = channel_constraints; let fr = feerate_per_kw as int; let ob = is_outbound_from_holder;
        let cv = channel_value_satoshis as int; let vth = value_to_holder_msat as int;
        let out = sum_if(s, |h: HTLCAmountDirection| h.outbound); let inn = sum_if(s, |h: HTLCAmountDirection| !h.outbound);
        let anc = 1000 * anchors_spec(channel_type);
        let lb = ssub(ssub(vth, out), if ob { anc } else { 0 }); let rb = ssub(ssub(cv * 1000 - vth, inn), if ob { 0 } else { anc });
        assert(local_balance_before_fee_msat as int == lb);
        assert(remote_balance_before_fee_msat as int == rb);
        assert(outbound_capacity_msat as int == ssub(lb, cc.counterparty_selected_channel_reserve_satoshis * 1000));
        assert(spiked_feerate as int == spiked_spec(fr, true, channel_type));
        assert forall|a: int| 1 <= a && next_outbound_htlc_minimum_msat <= a <= available_capacity_msat implies
            #[trigger] window_facts(a, ob, cv, vth, s, fr, cc, channel_type) by
        {
            let ln = local_nondust_htlc_count as int; let rn = remote_nondust_htlc_count as int;
            let dl = dl_spec(fr, cc, channel_type); let dr = dr_spec(fr, cc, channel_type);
            assert(a <= outbound_capacity_msat);
            assert(a <= lb);
            if ob {
                assert(affordable(a, outbound_capacity_msat as int, spiked_feerate as int, ln, dl, channel_type));
            } else {
                assert(cp_affordable(a, rb, fr, ln, dl, cc.holder_selected_channel_reserve_satoshis as int, channel_type));
            }
            assert(no_output_guard(a, ob, lb, rb, fr, ln, cc.holder_dust_limit_satoshis as int, dl, channel_type));
        }
    }
//@mutant reserve_not_subtracted_from_outbound_capacity
    .saturating_sub(channel_constraints.counterparty_selected_channel_reserve_satoshis * 1000); let available_capacity_msat
//@with
    .saturating_sub(0); let available_capacity_msat
//@mutant fundee_uses_funder_helper
    let available_capacity_msat = if is_outbound_from_holder {
//@with
    let available_capacity_msat = if true {
//@end

// (P) C01, third sentence: an HTLC inside the reported send window is acceptable on BOTH commitments.
pub proof fn theorem_send_window_sound(a: int, ob: bool, cv: int, vth: int, s: Seq<HTLCAmountDirection>, fr: int, lim: Option<u32>, cc: ChannelConstraints, ct: &ChannelTypeFeatures)
    requires
        0 <= fr <= 0xffff_ffff, 1 <= cc.holder_dust_limit_satoshis, 1 <= cc.counterparty_dust_limit_satoshis, 1 <= a <= 0xffff_ffff_ffff_ffff, 0 <= cv, 0 <= vth,
        ct.zfc ==> fr == 0,
        // the channel is currently in a valid state on both commitments
        stats_spec(true, ob, cv, vth, s, 0, fr, false, lim, cc.holder_dust_limit_satoshis as int, ct) is Some,
        stats_spec(false, ob, cv, vth, s, 0, fr, false, lim, cc.counterparty_dust_limit_satoshis as int, ct) is Some,
        // `a` lies inside the window get_available_balances reported (its verified postcondition)
        window_facts(a, ob, cv, vth, s, fr, cc, ct),
    ensures ({
        let h = HTLCAmountDirection { outbound: true, amount_msat: a as u64 };
        let cres = cc.counterparty_selected_channel_reserve_satoshis as int;
        let rl = stats_spec(true, ob, cv, vth, s.push(h), 0, fr, false, lim, cc.holder_dust_limit_satoshis as int, ct);
        let rr = stats_spec(false, ob, cv, vth, s.push(h), 0, fr, false, lim, cc.counterparty_dust_limit_satoshis as int, ct);
        &&& rl is Some && rl->Some_0.0 >= cres * 1000
        &&& rr is Some && rr->Some_0.0 >= cres * 1000
    }),
{
    lemma_window_sound_one_commitment(true, ob, cv, vth, s, fr, lim, cc.holder_dust_limit_satoshis as int,
        cc.counterparty_selected_channel_reserve_satoshis as int, cc.holder_selected_channel_reserve_satoshis as int, a, ct);
    lemma_window_sound_one_commitment(false, ob, cv, vth, s, fr, lim, cc.counterparty_dust_limit_satoshis as int,
        cc.counterparty_selected_channel_reserve_satoshis as int, cc.holder_selected_channel_reserve_satoshis as int, a, ct);
}


}
fn main() {}
