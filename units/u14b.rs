//! unit: u14b
//! properties: C14 C13
//! note: also run for C13: the code it constrains lies inside mechanisms those properties name (a change made there for their sake must meet these clauses too)
//! note: the per-hop instructions the sender puts in the onion: build_onion_payloads_callback (amount to forward, outgoing expiry and next channel of every hop; the final hop's amount and expiry; the totals the sender must lock in)
//! trusted: R5: the generics are instantiated as at the payment call site: H = reversed iterator over a Vec<RouteHop> (hop = &hops[n-1-idx]), OP = the Payload enum below (a field skeleton of msgs::OutboundOnionPayload keeping amounts, expiries and next-hop ids; its new_* constructors are written here from the `impl OnionPayload for msgs::OutboundOnionPayload` in the same file and are NOT extracted: recipient fields, keysend preimage, encrypted TLVs and packets are dropped), F = "insert into the result vector at the back / at the front" (what build_onion_payloads's closure does); PathHop accessors of &RouteHop are extracted
//! trusted: R6: `for (idx, hop) in hops.rev().enumerate()` and `for (i, blinded_hop) in hops.iter().enumerate()` become index loops with inductive invariants (the function carries #[verifier::loop_isolation(false)]: facts about variables a loop does not modify need not be restated); push_back / push_front are external_body wrappers of Vec::push / Vec::insert(0, _) with the sequence semantics
//! trusted: env: APIError::InvalidRoute carries no message (rewrite of `err: <string>`); RecipientOnionFields skeleton {total_mpp_amount_msat, custom_tlvs}; PublicKey, PaymentPreimage, InvoiceRequest, TrampolineOnionPacket, BlindedHop opaque/skeleton; assume_specification for Option::take (std definition)
//! trusted: process_failure_packet: AttributionData skeleton with external_body shift_right (verified for the real type in u14 / Kani); update_attribution_data external_body (leaves attribution data present and the data untouched: get_or_insert + update); update_fail_htlc_wire_len external_body returning the uninterpreted wire size (a function of the data length and the presence of attribution data); R8: `if let Some(ref mut x) = e { .. }` -> match on &mut e
//! trusted: R15: decode_next_hop: the statements up to the HMAC test verbatim as a function (key derivation external_body over uninterpreted rho_of/mu_of; HmacEngine is a stub that records key and the concatenation of its inputs in ghost fields; Hmac::from_engine is the uninterpreted hmac_sha256 of those; fixed_time_eq is equality); decrypting and parsing the payload after the gate are dropped and not claimed
//! trusted: R15 (deep slices): the TLV type literal under which each of the three sender-side payload writers puts the keysend preimage and from which each of the two receiver-side readers takes it (five literals extracted from the TLV macro invocations of ln/msgs.rs); the TLV macros themselves are not verified
//! trusted: R15 (deep slice): create_payment_onion_internal: the construction of the stripped RecipientOnionFields for a trampoline entry point and the condition of the refusal "Cannot pass payment_metadata to a blinded recipient" (first test under `if let Some(blinded_tail) = &path.blinded_tail`), verbatim as a function of the caller's fields; struct RecipientOnionFields is extracted (PaymentSecret is a 32-byte skeleton); building the trampoline and outer onions after the gate is dropped and not claimed here
//! trusted: R15 (deep slice): create_payment_onion_internal from the build_onion_payloads call to the end, verbatim; build_onion_payloads / construct_onion_keys / construct_onion_packet are external_body over uninterpreted payloads, keys and packet (build_onion_payloads' amounts are proved above for build_onion_payloads_callback; the packet construction itself is not verified); R8: `.map_err(|_| APIError::InvalidRoute { err: <string> })` loses its message; the call of build_trampoline_onion_payloads (arguments verbatim; the deferred `let a; let b; (a, b) = f()?` is written `let (a, b) = f()?`) over an uninterpreted payload builder
//! trusted: R15 (deep slice): build_onion_payloads: the body of the closure that turns the path's blinded tail into the TailDetails handed to build_onion_payloads_callback, verbatim as a function of the tail (skeleton {hops, blinding_point, excess_final_cltv_expiry_delta, final_value_msat}) and the optional trampoline packet; how build_onion_payloads_callback uses a Blinded tail is kept in the verified text but not claimed (see the assume line)
//! assume: every hop's fee_msat <= 21e17 (the total supply in msat): without it `cur_value_msat += hop.fee_msat()` can overflow u64 before the limit test (observation O5 in DESIGN)
//! assume: something is delivered past the last unblinded hop (tail amount + the last hop's fee_msat > 0: with a zero running total the source substitutes the hop's own fee for the amount to forward); a blinded tail has at least one hop, its final amount is at most 21e17 msat and cur_block_height + excess_final_cltv_expiry_delta fits in u32 (`cur_block_height + excess_final_cltv_expiry_delta` is computed unchecked: observation O5)
//! trusted: R15/R6/R8 (final-payload TLV order, module final_tlvs): the statements of OutboundOnionPayload::write (Receive and BlindedReceive arms) that gather the extra TLVs, verbatim; `A.iter().chain(B.iter()).collect()` over environment lists with the std meaning (the elements of A, then of B, as references); `v.sort_unstable_by_key(|(typ, _)| *typ)` -> sort_by_type (an ascending permutation: std); that the encoder then writes them in the order given, after the numbered fields, is the macro _encode_varint_length_prefixed_tlv! (not verified)
//! trusted: assume_specification for core::cmp::max / core::cmp::min (std definitions): present in every unit so that a change that introduces them is verified instead of being rejected by the tool
use vstd::prelude::*;
verus! {
use vstd::std_specs::cmp::*;
use core::cmp;
pub assume_specification<T: core::cmp::Ord>[core::cmp::max::<T>](a: T, b: T) -> (r: T)
    ensures T::obeys_cmp_spec() ==> r == (if b.cmp_spec(&a) == core::cmp::Ordering::Less { a } else { b });
pub assume_specification<T: core::cmp::Ord>[core::cmp::min::<T>](a: T, b: T) -> (r: T)
    ensures T::obeys_cmp_spec() ==> r == (if b.cmp_spec(&a) == core::cmp::Ordering::Less { b } else { a });
#[derive(Clone, Copy)] pub struct PublicKey(pub [u8; 33]);
#[derive(Clone, Copy)] pub struct PaymentPreimage(pub [u8; 32]);
pub struct InvoiceRequest {}
pub struct TrampolineOnionPacket { pub id: u64 }
pub struct BlindedHop { pub encrypted_payload: Vec<u8> }
pub struct RecipientOnionFields { pub total_mpp_amount_msat: u64, pub custom_tlvs: Vec<(u64, Vec<u8>)> }
pub enum APIError { InvalidRoute { err: () } }
pub struct RouteHop { pub short_channel_id: u64, pub fee_msat: u64, pub cltv_expiry_delta: u32 }
pub enum Payload {
    Forward { short_channel_id: u64, amt_to_forward: u64, outgoing_cltv_value: u32 },
    Receive { sender_intended_htlc_amt_msat: u64, cltv_expiry_height: u32 },
    BlindedForward { encrypted_tlvs: Ghost<Seq<u8>>, intro_node_blinding_point: Option<PublicKey> },
    BlindedReceive { sender_intended_htlc_amt_msat: u64, total_msat: u64, cltv_expiry_height: u32, encrypted_tlvs: Ghost<Seq<u8>>,
                     intro_node_blinding_point: Option<PublicKey>, keysend_preimage: Option<PaymentPreimage> },
    TrampolineEntrypoint { amt_to_forward: u64, outgoing_cltv_value: u32, trampoline_packet: TrampolineOnionPacket, current_path_key: Option<PublicKey> },
}
impl Payload {
    pub fn new_forward(short_channel_id: u64, amt_to_forward: u64, outgoing_cltv_value: u32) -> (r: Payload)
        ensures r == (Payload::Forward { short_channel_id, amt_to_forward, outgoing_cltv_value })
    { Payload::Forward { short_channel_id, amt_to_forward, outgoing_cltv_value } }
    pub fn new_receive(recipient_onion: &RecipientOnionFields, keysend_preimage: Option<PaymentPreimage>, sender_intended_htlc_amt_msat: u64, cltv_expiry_height: u32) -> (r: Result<Payload, APIError>)
        ensures r == Ok::<Payload, APIError>(Payload::Receive { sender_intended_htlc_amt_msat, cltv_expiry_height })
    { Ok(Payload::Receive { sender_intended_htlc_amt_msat, cltv_expiry_height }) }
    pub fn new_blinded_forward(encrypted_tlvs: &Vec<u8>, intro_node_blinding_point: Option<PublicKey>) -> (r: Payload)
        ensures r == (Payload::BlindedForward { encrypted_tlvs: Ghost(encrypted_tlvs@), intro_node_blinding_point })
    { Payload::BlindedForward { encrypted_tlvs: Ghost(encrypted_tlvs@), intro_node_blinding_point } }
    pub fn new_blinded_receive(sender_intended_htlc_amt_msat: u64, total_msat: u64, cltv_expiry_height: u32, encrypted_tlvs: &Vec<u8>,
        intro_node_blinding_point: Option<PublicKey>, keysend_preimage: Option<PaymentPreimage>, invoice_request: Option<&InvoiceRequest>,
        custom_tlvs: &Vec<(u64, Vec<u8>)>) -> (r: Payload)
        ensures r == (Payload::BlindedReceive { sender_intended_htlc_amt_msat, total_msat, cltv_expiry_height, encrypted_tlvs: Ghost(encrypted_tlvs@), intro_node_blinding_point, keysend_preimage })
    { Payload::BlindedReceive { sender_intended_htlc_amt_msat, total_msat, cltv_expiry_height, encrypted_tlvs: Ghost(encrypted_tlvs@), intro_node_blinding_point, keysend_preimage } }
    pub fn new_trampoline_entry(amt_to_forward: u64, outgoing_cltv_value: u32, recipient_onion: &RecipientOnionFields, packet: TrampolineOnionPacket,
        current_path_key: Option<PublicKey>) -> (r: Result<Payload, APIError>)
        ensures r == Ok::<Payload, APIError>(Payload::TrampolineEntrypoint { amt_to_forward, outgoing_cltv_value, trampoline_packet: packet, current_path_key })
    { Ok(Payload::TrampolineEntrypoint { amt_to_forward, outgoing_cltv_value, trampoline_packet: packet, current_path_key }) }
}
#[verifier::external_body]
pub fn push_back(out: &mut Vec<Payload>, p: Payload) ensures final(out)@ == old(out)@.push(p) { out.push(p) }
#[verifier::external_body]
pub fn push_front(out: &mut Vec<Payload>, p: Payload) ensures final(out)@ == seq![p] + old(out)@ { out.insert(0, p) }

impl RouteHop {
//@extract lightning/src/ln/onion_utils.rs :: impl PathHop for &'a RouteHop :: fn hop_id
//@rw R5
    Self::HopId
//@with
    u64
//@ret r
//@ensures A
    r == self.short_channel_id
//@end
//@extract lightning/src/ln/onion_utils.rs :: impl PathHop for &'a RouteHop :: fn fee_msat
//@ret r
//@ensures A
    r == self.fee_msat
//@end
//@extract lightning/src/ln/onion_utils.rs :: impl PathHop for &'a RouteHop :: fn cltv_expiry_delta
//@ret r
//@ensures A
    r == self.cltv_expiry_delta
//@end
}

//@extract lightning/src/ln/onion_utils.rs :: enum TailDetails
//@strip msgs
//@end

// ---- build_onion_payloads: what the payload builder is told about the path's blinded tail ----
pub struct BlindedTailOfPath { pub hops: Vec<BlindedHop>, pub blinding_point: PublicKey, pub excess_final_cltv_expiry_delta: u32, pub final_value_msat: u64 }
//@extract lightning/src/ln/onion_utils.rs :: fn build_onion_payloads
//@strip msgs
//@slice R15
    let blinded_tail_with_hop_iter = path.blinded_tail.as_ref().map(|bt| { $body:any });
//@with
    fn tail_details_of_the_paths_blinded_tail<'a>(bt: &'a BlindedTailOfPath, trampoline_packet: Option<TrampolineOnionPacket>) -> TailDetails<'a> { $body }
//@ret r
//@ensures P C14 the-payloads-of-a-blinded-tail-are-built-from-the-tails-own-hops-blinding-point-final-amount-and-excess-expiry
    trampoline_packet matches Some(p) ==> r == (TailDetails::SendToTrampoline { trampoline_packet: p, final_value_msat: bt.final_value_msat }),
    trampoline_packet is None ==> (r matches TailDetails::Blinded { hops, blinding_point, final_value_msat, excess_final_cltv_expiry_delta }
        && hops@ == bt.hops@ && blinding_point == bt.blinding_point && final_value_msat == bt.final_value_msat
        && excess_final_cltv_expiry_delta == bt.excess_final_cltv_expiry_delta),
//@mutant excess_final_expiry_of_the_blinded_tail_dropped
    excess_final_cltv_expiry_delta: bt.excess_final_cltv_expiry_delta,
//@with
    excess_final_cltv_expiry_delta: 0,
//@mutant final_amount_of_the_blinded_tail_dropped
    final_value_msat: bt.final_value_msat, excess_final_cltv_expiry_delta
//@with
    final_value_msat: 0, excess_final_cltv_expiry_delta
//@end

// what the hops after position `from` (inclusive) are paid / add to the expiry, as the sender sums them
pub open spec fn fee_sum(hops: Seq<RouteHop>, from: int) -> int decreases hops.len() - from {
    if from >= hops.len() { 0 } else { hops[from].fee_msat as int + fee_sum(hops, from + 1) }
}
pub open spec fn delta_sum(hops: Seq<RouteHop>, from: int) -> int decreases hops.len() - from {
    if from >= hops.len() { 0 } else { hops[from].cltv_expiry_delta as int + delta_sum(hops, from + 1) }
}
// the instructions hop i must find in its layer (path without a tail)
pub open spec fn expected_payload(hops: Seq<RouteHop>, height: int, i: int) -> Payload {
    if i == hops.len() - 1 {
        Payload::Receive { sender_intended_htlc_amt_msat: hops[i].fee_msat, cltv_expiry_height: (height + hops[i].cltv_expiry_delta) as u32 }
    } else {
        Payload::Forward { short_channel_id: hops[i + 1].short_channel_id, amt_to_forward: fee_sum(hops, i + 1) as u64,
                           outgoing_cltv_value: (height + delta_sum(hops, i + 1)) as u32 }
    }
}
pub proof fn lemma_sums_nonneg(hops: Seq<RouteHop>, from: int)
    requires 0 <= from
    ensures fee_sum(hops, from) >= 0, delta_sum(hops, from) >= 0
    decreases hops.len() - from
{ if from < hops.len() { lemma_sums_nonneg(hops, from + 1); } }

// ---- the same with a tail behind the last unblinded hop: a blinded path, or a trampoline packet (sent or forwarded) ----
// what is delivered past the last unblinded hop in addition to that hop's own fee_msat
pub open spec fn tail_value<'a>(t: Option<TailDetails<'a>>) -> int {
    match t {
        Some(TailDetails::Blinded { final_value_msat, .. }) => final_value_msat as int,
        Some(TailDetails::SendToTrampoline { final_value_msat, .. }) => final_value_msat as int,
        _ => 0,
    }
}
// the height the expiries are counted from: the current height, or the expiry the next trampoline was promised
pub open spec fn cltv_base<'a>(t: Option<TailDetails<'a>>, height: int) -> int {
    match t { Some(TailDetails::ForwardToTrampoline { trampoline_expiry_height, .. }) => trampoline_expiry_height as int, _ => height }
}
// a forwarded trampoline packet fixes the expiry of the last hop's HTLC: that hop's own delta is not added
pub open spec fn last_delta_counts<'a>(t: Option<TailDetails<'a>>) -> bool { !(t matches Some(TailDetails::ForwardToTrampoline { .. })) }
pub open spec fn dsum<'a>(hops: Seq<RouteHop>, from: int, t: Option<TailDetails<'a>>) -> int {
    delta_sum(hops, from) - (if !last_delta_counts(t) && from <= hops.len() - 1 { hops[hops.len() - 1].cltv_expiry_delta as int } else { 0 })
}
pub open spec fn fwd_payload<'a>(hops: Seq<RouteHop>, t: Option<TailDetails<'a>>, height: int, j: int) -> Payload {
    Payload::Forward { short_channel_id: hops[j + 1].short_channel_id, amt_to_forward: (tail_value(t) + fee_sum(hops, j + 1)) as u64,
                       outgoing_cltv_value: (cltv_base(t, height) + dsum(hops, j + 1, t)) as u32 }
}
pub open spec fn blinded_payload(bh: Seq<BlindedHop>, bp: PublicKey, fv: u64, total: u64, cltv: u32, keysend: Option<PaymentPreimage>, i: int) -> Payload {
    if i == bh.len() - 1 {
        Payload::BlindedReceive { sender_intended_htlc_amt_msat: fv, total_msat: total, cltv_expiry_height: cltv, encrypted_tlvs: Ghost(bh[i].encrypted_payload@),
                                  intro_node_blinding_point: if i == 0 { Some(bp) } else { None }, keysend_preimage: keysend }
    } else {
        Payload::BlindedForward { encrypted_tlvs: Ghost(bh[i].encrypted_payload@), intro_node_blinding_point: if i == 0 { Some(bp) } else { None } }
    }
}
pub open spec fn blinded_payloads(bh: Seq<BlindedHop>, bp: PublicKey, fv: u64, total: u64, cltv: u32, keysend: Option<PaymentPreimage>) -> Seq<Payload> {
    Seq::new(bh.len(), |i: int| blinded_payload(bh, bp, fv, total, cltv, keysend, i))
}
// the payloads behind the forwarding payloads: what the last unblinded hop and everything after it must find
pub open spec fn tail_payloads<'a>(t: Option<TailDetails<'a>>, last: RouteHop, fields: RecipientOnionFields, height: u32, keysend: Option<PaymentPreimage>) -> Seq<Payload> {
    match t {
        Some(TailDetails::Blinded { hops, blinding_point, final_value_msat, excess_final_cltv_expiry_delta }) =>
            blinded_payloads(hops@, blinding_point, final_value_msat, fields.total_mpp_amount_msat, (height + excess_final_cltv_expiry_delta) as u32, keysend),
        Some(TailDetails::SendToTrampoline { trampoline_packet, final_value_msat }) =>
            seq![Payload::TrampolineEntrypoint { amt_to_forward: (final_value_msat + last.fee_msat) as u64, outgoing_cltv_value: (height + last.cltv_expiry_delta) as u32,
                                                 trampoline_packet, current_path_key: None }],
        Some(TailDetails::ForwardToTrampoline { trampoline_packet, current_path_key, trampoline_expiry_height }) =>
            seq![Payload::TrampolineEntrypoint { amt_to_forward: last.fee_msat, outgoing_cltv_value: trampoline_expiry_height, trampoline_packet, current_path_key }],
        None => seq![Payload::Receive { sender_intended_htlc_amt_msat: last.fee_msat, cltv_expiry_height: (height + last.cltv_expiry_delta) as u32 }],
    }
}
pub open spec fn fwd_payloads<'a>(hops: Seq<RouteHop>, t: Option<TailDetails<'a>>, height: int, from: int) -> Seq<Payload> {
    Seq::new((hops.len() - 1 - from) as nat, |k: int| fwd_payload(hops, t, height, from + k))
}
pub open spec fn expected_out<'a>(hops: Seq<RouteHop>, t: Option<TailDetails<'a>>, fields: RecipientOnionFields, height: u32, keysend: Option<PaymentPreimage>) -> Seq<Payload> {
    fwd_payloads(hops, t, height as int, 0) + tail_payloads(t, hops[hops.len() - 1], fields, height, keysend)
}
pub open spec fn tail_not_expired<'a>(t: Option<TailDetails<'a>>, height: u32) -> bool {
    match t { Some(TailDetails::ForwardToTrampoline { trampoline_expiry_height, .. }) => trampoline_expiry_height >= height, _ => true }
}
pub open spec fn tail_is_well_formed<'a>(t: Option<TailDetails<'a>>, height: u32) -> bool {
    match t {
        Some(TailDetails::Blinded { hops, final_value_msat, excess_final_cltv_expiry_delta, .. }) =>
            hops@.len() >= 1 && final_value_msat <= 21000000 * 100000000 * 1000 && height + excess_final_cltv_expiry_delta <= u32::MAX,
        Some(TailDetails::SendToTrampoline { final_value_msat, .. }) => final_value_msat <= 21000000 * 100000000 * 1000,
        _ => true,
    }
}

//@extract lightning/src/ln/onion_utils.rs :: fn build_onion_payloads_callback
//@rw R5
    fn build_onion_payloads_callback<'a, 'b, H, F, OP>( hops: H, mut blinded_tail: Option<TailDetails<'a>>, recipient_onion: &'a RecipientOnionFields, cur_block_height: u32, keysend_preimage: &Option<PaymentPreimage>, invoice_request: Option<&'a InvoiceRequest>, mut callback: F, ) -> Result<(u64, u32), APIError> where $w:any {
//@with
    #[verifier::loop_isolation(false)]
    fn build_onion_payloads_callback<'a>( hops: &Vec<RouteHop>, blinded_tail_: Option<TailDetails<'a>>, recipient_onion: &'a RecipientOnionFields, cur_block_height: u32, keysend_preimage: &Option<PaymentPreimage>, invoice_request: Option<&'a InvoiceRequest>, out: &mut Vec<Payload>, ) -> Result<(u64, u32), APIError> {
        let ghost tail0 = blinded_tail_;
        let ghost route = hops@;
        let ghost n = hops@.len() as int;
        let mut blinded_tail = blinded_tail_;
//@rw R6
    for (idx, hop) in hops.rev().enumerate() { $body:any }
//@with
    let mut idx: usize = 0;
    while idx < hops.len()
        invariant
            hops@ == route, n == route.len(), n >= 1,
            idx <= n,
            idx == 0 ==> blinded_tail == tail0 && out@.len() == 0 && cur_value_msat == 0 && cur_cltv == cur_block_height && last_hop_id is None,
            idx > 0 ==> blinded_tail is None && tail_not_expired(tail0, cur_block_height),
            idx > 0 ==> cur_value_msat > 0 && cur_value_msat as int == tail_value(tail0) + fee_sum(route, n - idx),
            cur_value_msat < 21000000 * 100000000 * 1000,
            idx > 0 ==> cur_cltv as int == cltv_base(tail0, cur_block_height as int) + dsum(route, n - idx, tail0),
            cur_cltv < 500000000,
            idx > 0 ==> last_hop_id == Some(route[n - idx].short_channel_id),
            idx > 0 ==> out@ =~= fwd_payloads(route, tail0, cur_block_height as int, n - idx) + tail_payloads(tail0, route[n - 1], *recipient_onion, cur_block_height, *keysend_preimage),
        decreases n - idx
    {
        let hop = &hops[hops.len() - 1 - idx];
        proof { lemma_sums_nonneg(route, n - idx); lemma_sums_nonneg(route, n - idx - 1); }
        let ghost out0 = out@;
        $body
        proof {
            if idx > 0 {
                assert(fwd_payloads(route, tail0, cur_block_height as int, n - idx - 1) =~= seq![fwd_payload(route, tail0, cur_block_height as int, n - idx - 1)] + fwd_payloads(route, tail0, cur_block_height as int, n - idx));
            } else {
                assert(fwd_payloads(route, tail0, cur_block_height as int, n - 1) =~= Seq::<Payload>::empty());
            }
        }
        idx = idx + 1;
    }
//@rw R6
    for (i, blinded_hop) in hops.iter().enumerate() { $body:any }
//@with
    let mut i: usize = 0;
    let ghost bh = hops@;
    let ghost bp0 = blinding_point->Some_0;
    let ghost expected_tail = blinded_payloads(bh, bp0, final_value_msat, recipient_onion.total_mpp_amount_msat, (cur_block_height + excess_final_cltv_expiry_delta) as u32, *keysend_preimage);
    while i < hops.len()
        invariant
            hops@ == bh, hops_len == bh.len(), bh.len() >= 1, i <= bh.len(),
            blinding_point == (if i == 0 { Some(bp0) } else { None::<PublicKey> }),
            out@ =~= expected_tail.subrange(0, i as int),
            cur_value_msat == (if i == bh.len() { final_value_msat } else { 0 }),
        decreases bh.len() - i
    {
        let blinded_hop = &hops[i];
        $body
        i = i + 1;
    }
    proof { assert(expected_tail.subrange(0, bh.len() as int) =~= expected_tail); }
//@rw R5 *
    callback( PayloadCallbackAction::PushBack, $p, );
//@with
    push_back(out, $p);
//@rw R5 ?
    callback(PayloadCallbackAction::PushFront, $p);
//@with
    push_front(out, $p);
//@rw R5 *
    OP::
//@with
    Payload::
//@rw R5 *
    APIError::InvalidRoute { err: $e }
//@with
    APIError::InvalidRoute { err: () }
//@ret r
//@requires
    old(out)@.len() == 0,
    hops@.len() >= 1,
    cur_block_height < 500000000,
    forall|k: int| 0 <= k < hops@.len() ==> (#[trigger] hops@[k]).fee_msat <= 21000000 * 100000000 * 1000,
    tail_is_well_formed(blinded_tail_, cur_block_height),
    // something is delivered past the last unblinded hop
    tail_value(blinded_tail_) + hops@[hops@.len() - 1].fee_msat > 0,
//@ensures P C14 every-hop-finds-exactly-its-amount-to-forward-its-outgoing-expiry-and-the-next-channel-and-the-last-hop-its-final-amount
    r is Ok && blinded_tail_ is None ==> final(out)@.len() == hops@.len()
        && (forall|i: int| 0 <= i < hops@.len() ==> final(out)@[i] == expected_payload(hops@, cur_block_height as int, i))
        && r->Ok_0.0 as int == fee_sum(hops@, 0) && r->Ok_0.1 as int == cur_block_height + delta_sum(hops@, 0),
//@ensures P C14 with-a-blinded-or-trampoline-tail-every-unblinded-hop-forwards-what-the-tail-needs-and-the-tail-finds-its-own-final-amount-and-expiry
    r is Ok ==> final(out)@ =~= expected_out(hops@, blinded_tail_, *recipient_onion, cur_block_height, *keysend_preimage)
        && r->Ok_0.0 as int == tail_value(blinded_tail_) + fee_sum(hops@, 0)
        && r->Ok_0.1 as int == cltv_base(blinded_tail_, cur_block_height as int) + dsum(hops@, 0, blinded_tail_),
    !tail_not_expired(blinded_tail_, cur_block_height) ==> r is Err,
//@ensures P C14 totals-stay-below-the-protocol-limits
    r is Ok ==> r->Ok_0.0 < 21000000 * 100000000 * 1000 && r->Ok_0.1 < 500000000,
//@mutant payloads_in_reverse_order
    callback(PayloadCallbackAction::PushFront, payload);
//@with
    callback(PayloadCallbackAction::PushBack, payload,);
//@mutant final_expiry_lacks_its_delta
    let declared_incoming_cltv = hop.cltv_expiry_delta().saturating_add(cur_cltv);
//@with
    let declared_incoming_cltv = cur_cltv;
//@mutant forwarded_amount_forgets_a_fee
    cur_value_msat += hop.fee_msat();
//@with
    if idx != 1 { cur_value_msat += hop.fee_msat(); }
//@mutant blinded_recipient_told_the_current_height_as_its_expiry
    cur_block_height + excess_final_cltv_expiry_delta,
//@with
    cur_block_height,
//@mutant blinding_point_handed_to_every_blinded_hop
    OP::new_blinded_forward( &blinded_hop.encrypted_payload, blinding_point.take(), ),
//@with
    OP::new_blinded_forward( &blinded_hop.encrypted_payload, blinding_point, ),
//@mutant amount_for_the_blinded_recipient_not_added_to_what_is_forwarded
    if i == hops_len - 1 { cur_value_msat += final_value_msat;
//@with
    if i == hops_len - 1 {
//@mutant forwarded_trampoline_packet_keeps_the_last_hops_delta
    hop_cltv_delta = 0;
//@with
    hop_cltv_delta = hop_cltv_delta;
//@mutant trampoline_entry_point_told_only_the_final_amount
    final_value_msat + hop.fee_msat(), declared_incoming_cltv,
//@with
    final_value_msat, declared_incoming_cltv,
//@end

// ---- re-wrapping a failure at a relaying hop: when the attribution data (hold times) survives ----
pub struct AttributionData { pub hold_times: Vec<u8>, pub hmacs: Vec<u8> }
impl AttributionData {
    #[verifier::external_body] pub fn shift_right(&mut self) { unimplemented!() }
}
pub struct OnionErrorPacket { pub data: Vec<u8>, pub attribution_data: Option<AttributionData> }
// wire size of the update_fail_htlc carrying this packet (type + fixed fields + data + the optional attribution TLV): a function
// of the data length and of whether attribution data is present (attribution data has a fixed size)
pub uninterp spec fn fail_msg_wire_len(data_len: int, with_attribution: bool) -> int;
#[verifier::external_body]
pub fn update_fail_htlc_wire_len(onion_error: &OnionErrorPacket) -> (r: usize)
    ensures r as int == fail_msg_wire_len(onion_error.data@.len() as int, onion_error.attribution_data is Some)
{ unimplemented!() }
#[verifier::external_body]
pub fn update_attribution_data(onion_error_packet: &mut OnionErrorPacket, shared_secret: &[u8], hold_time: u32)
    ensures final(onion_error_packet).attribution_data is Some, final(onion_error_packet).data@ == old(onion_error_packet).data@
{ unimplemented!() }
//@const lightning/src/ln/peer_channel_encryptor.rs LN_MAX_MSG_LEN
//@extract lightning/src/ln/onion_utils.rs :: fn process_failure_packet
//@rw R8
    if let Some(ref mut attribution_data) = onion_error.attribution_data { attribution_data.shift_right(); }
//@with
    match &mut onion_error.attribution_data { Some(attribution_data) => { attribution_data.shift_right(); }, None => {} }
//@ensures P C14 a-relaying-hop-keeps-the-hold-times-whenever-the-re-wrapped-failure-still-fits-a-message-and-drops-them-only-otherwise
    final(onion_error).data@ == old(onion_error).data@,
    final(onion_error).attribution_data is Some <==> fail_msg_wire_len(old(onion_error).data@.len() as int, true) <= 65535,
//@mutant hold_times_dropped_at_exactly_the_maximum
    > LN_MAX_MSG_LEN
//@with
    >= LN_MAX_MSG_LEN
//@end

// ---- peeling: the HMAC gate of decode_next_hop covers the hop data and the payment hash (R15 slice; HMAC-SHA256 uninterpreted) ----
#[derive(Clone, Copy)] pub struct PaymentHash(pub [u8; 32]);
pub uninterp spec fn mu_of(shared_secret: [u8; 32]) -> [u8; 32];
pub uninterp spec fn rho_of(shared_secret: [u8; 32]) -> [u8; 32];
pub uninterp spec fn hmac_sha256(key: [u8; 32], data: Seq<u8>) -> [u8; 32];
#[verifier::external_body] pub fn gen_rho_mu_from_shared_secret(shared_secret: &[u8; 32]) -> (r: ([u8; 32], [u8; 32])) ensures r.0 == rho_of(*shared_secret), r.1 == mu_of(*shared_secret) { unimplemented!() }
pub struct HmacEngine { pub key: Ghost<[u8; 32]>, pub data: Ghost<Seq<u8>> }
impl HmacEngine {
    #[verifier::external_body] pub fn new(key: &[u8; 32]) -> (r: HmacEngine) ensures r.key@ == *key, r.data@ == Seq::<u8>::empty() { unimplemented!() }
    #[verifier::external_body] pub fn input(&mut self, bytes: &[u8]) ensures final(self).key@ == old(self).key@, final(self).data@ == old(self).data@ + bytes@ { unimplemented!() }
}
pub struct Hmac { pub v: [u8; 32] }
impl Hmac {
    #[verifier::external_body] pub fn from_engine(e: HmacEngine) -> (r: Hmac) ensures r.v == hmac_sha256(e.key@, e.data@) { unimplemented!() }
    #[verifier::external_body] pub fn to_byte_array(self) -> (r: [u8; 32]) ensures r == self.v { unimplemented!() }
}
#[verifier::external_body] pub fn fixed_time_eq(a: &[u8; 32], b: &[u8; 32]) -> (r: bool) ensures r == (*a == *b) { unimplemented!() }
pub enum LocalHTLCFailureReason { InvalidOnionHMAC }
pub enum OnionDecodeErr { Malformed { err_msg: &'static str, reason: LocalHTLCFailureReason } }
//@extract lightning/src/ln/onion_utils.rs :: fn decode_next_hop
//@rw R15
    fn decode_next_hop<T, R: ReadableArgs<T>, N: NextPacketBytes>($params:any) -> $ret { $gate:any let mut chacha = $c; $rest:any }
//@with
    fn onion_hmac_gate(shared_secret: [u8; 32], hop_data: &[u8], hmac_bytes: [u8; 32], payment_hash: Option<PaymentHash>) -> Result<(), OnionDecodeErr> {
        $gate
        Ok(())
    }
//@rw R5
    HmacEngine::<Sha256>::new(
//@with
    HmacEngine::new(
//@rw R8 ?
    &tag.0[..]
//@with
    tag.0.as_slice()
//@ret r
//@ensures P C14 a-hop-accepts-a-packet-only-if-its-hmac-under-the-hops-mu-key-covers-the-hop-data-and-the-payment-hash-it-arrived-with
    r is Ok <==> hmac_bytes == hmac_sha256(mu_of(shared_secret), if payment_hash is Some { hop_data@ + payment_hash->Some_0.0@ } else { hop_data@ }),
//@mutant payment_hash_not_authenticated
    if let Some(tag) = payment_hash { hmac.input(&tag.0[..]); }
//@with
    
//@end

// ---- keysend: every sender-side payload writes the preimage under the TLV type every receiver-side payload reads it from (five deep R15 slices of the onion payload codecs; finding F3) ----
// bLIP 3
pub open spec fn keysend_tlv_type() -> u64 { 5482373484 }
//@extract lightning/src/ln/msgs.rs :: impl Writeable for OutboundOnionPayload :: fn write
//@slice R15 nth=1
    let keysend_tlv = keysend_preimage.map(|preimage| ($t:lit, preimage.encode()));
//@with
    fn onion_receive_keysend_type_written() -> u64 { $t }
//@ret r
//@ensures P C14 a-keysend-preimage-is-written-under-the-tlv-type-the-final-hop-reads-it-from
    r == keysend_tlv_type(),
//@end
//@extract lightning/src/ln/msgs.rs :: impl Writeable for OutboundOnionPayload :: fn write
//@slice R15 nth=2
    let keysend_tlv = keysend_preimage.map(|preimage| ($t:lit, preimage.encode()));
//@with
    fn onion_blinded_receive_keysend_type_written() -> u64 { $t }
//@ret r
//@ensures P C14 a-keysend-preimage-is-written-under-the-tlv-type-the-final-hop-reads-it-from
    r == keysend_tlv_type(),
//@end
//@extract lightning/src/ln/msgs.rs :: impl Writeable for OutboundTrampolinePayload :: fn write
//@slice R15
    let keysend_tlv = keysend_preimage.map(|preimage| ($t:lit, preimage.encode()));
//@with
    fn trampoline_blinded_receive_keysend_type_written() -> u64 { $t }
//@ret r
//@ensures P C14 a-keysend-preimage-is-written-under-the-tlv-type-the-final-hop-reads-it-from
    r == keysend_tlv_type(),
//@mutant trampoline_keysend_written_under_an_unknown_even_type
    (5482373484, preimage.encode())
//@with
    (20, preimage.encode())
//@end
//@extract lightning/src/ln/msgs.rs :: impl ReadableArgs for InboundOnionPayload :: fn read
//@slice R15
    ($t:lit, keysend_preimage, option)
//@with
    fn onion_keysend_type_read() -> u64 { $t }
//@ret r
//@ensures P C14 the-final-hop-reads-the-keysend-preimage-from-the-blip-3-tlv-type
    r == keysend_tlv_type(),
//@end
//@extract lightning/src/ln/msgs.rs :: impl ReadableArgs for InboundTrampolinePayload :: fn read
//@slice R15
    ($t:lit, keysend_preimage, option)
//@with
    fn trampoline_keysend_type_read() -> u64 { $t }
//@ret r
//@ensures P C14 the-final-hop-reads-the-keysend-preimage-from-the-blip-3-tlv-type
    r == keysend_tlv_type(),
//@end

// ---- create_payment_onion: what the sender refuses to put into an onion for a blinded recipient -------
// A blinded final payload has no slot for payment_metadata: the sender's fields are delivered or the build is refused,
// never silently dropped. The fields handed to a trampoline entry point carry the caller's payment secret and nothing
// the caller did not give.
pub mod blinded_gate {
use vstd::prelude::*;
#[derive(Clone, Copy)]
pub struct PaymentSecret(pub [u8; 32]);
//@extract lightning/src/ln/outbound_payment.rs :: struct RecipientOnionFields
//@end
//@extract lightning/src/ln/onion_utils.rs :: fn create_payment_onion_internal
//@slice R15
    let mut trampoline_outer_onion = RecipientOnionFields { $fields:any }; let (outer_onion, trampoline_packet_option) = if let Some(blinded_tail) = &path.blinded_tail { if $guard:cond { return Err(APIError::InvalidRoute { err: "Cannot pass payment_metadata to a blinded recipient".to_owned(), }); }
//@with
    fn refuses_blinded_recipient(recipient_onion: &RecipientOnionFields) -> (bool, RecipientOnionFields) {
        let mut trampoline_outer_onion = RecipientOnionFields { $fields };
        let __refuse = $guard;
        (__refuse, trampoline_outer_onion)
    }
//@ret r
//@ensures P C14 payment-metadata-for-a-blinded-recipient-is-refused-by-the-sender-because-the-blinded-final-payload-cannot-carry-it
    r.0 == (recipient_onion.payment_metadata is Some),
//@ensures P C14 the-fields-for-the-trampoline-entry-point-carry-the-callers-payment-secret-and-no-metadata-or-custom-tlvs
    r.1.payment_secret == recipient_onion.payment_secret,
    r.1.payment_metadata is None,
    r.1.custom_tlvs@.len() == 0,
//@mutant metadata_gate_looks_at_the_stripped_copy
    if recipient_onion.payment_metadata.is_some() { return Err
//@with
    if trampoline_outer_onion.payment_metadata.is_some() { return Err
//@mutant metadata_gate_inverted
    if recipient_onion.payment_metadata.is_some() { return Err
//@with
    if recipient_onion.payment_metadata.is_none() { return Err
//@end
}
// ---- what the sender locks in on the first channel is what the onion's payloads were built for ---------------------------------
pub mod onion_tail {
use vstd::prelude::*;
pub enum APIError { InvalidRoute { err: () } }
pub struct Secp256k1 {}
pub struct SecretKey { pub id: u64 }
#[derive(Clone, Copy)] pub struct PaymentHash(pub [u8; 32]);
pub struct PaymentPreimage(pub [u8; 32]);
pub struct InvoiceRequest {}
pub struct TrampolineOnionPacket { pub id: u64 }
pub struct RecipientOnionFields { pub id: u64 }
pub struct Path { pub id: u64, pub delta: u32 }
impl Path { #[verifier::external_body] pub fn total_cltv_expiry_delta(&self) -> (r: u32) ensures r == self.delta { unimplemented!() } }
pub struct Payloads { pub id: int }
pub struct OnionKeys { pub id: int }
pub struct OnionPacket { pub id: int }
pub uninterp spec fn payloads_of(path: Path, fields: RecipientOnionFields, height: u32, keysend: Option<PaymentPreimage>, tramp: Option<TrampolineOnionPacket>) -> int;
pub uninterp spec fn amount_of(path: Path, fields: RecipientOnionFields, tramp: Option<TrampolineOnionPacket>) -> u64;
pub uninterp spec fn keys_of(path: Path, session_priv: SecretKey) -> int;
pub uninterp spec fn packet_of(payloads: int, keys: int, seed: [u8; 32], hash: PaymentHash) -> int;
// build_onion_payloads: contract proved for build_onion_payloads_callback above (amounts, expiries, totals), restated over uninterpreted payloads
#[verifier::external_body] pub fn build_onion_payloads(path: &Path, recipient_onion: &RecipientOnionFields, starting_htlc_offset: u32, keysend_preimage: &Option<PaymentPreimage>, invoice_request: Option<&InvoiceRequest>, trampoline_packet: Option<TrampolineOnionPacket>) -> (r: Result<(Payloads, u64, u32), APIError>)
    ensures r matches Ok(t) ==> t.0.id == payloads_of(*path, *recipient_onion, starting_htlc_offset, *keysend_preimage, trampoline_packet) && t.1 == amount_of(*path, *recipient_onion, trampoline_packet) && t.2 as int == starting_htlc_offset + path.delta
{ unimplemented!() }
#[verifier::external_body] pub fn construct_onion_keys(secp_ctx: &&Secp256k1, path: &&Path, session_priv: &SecretKey) -> (r: OnionKeys) ensures r.id == keys_of(**path, *session_priv) { unimplemented!() }
#[verifier::external_body] pub fn construct_onion_packet(payloads: Payloads, onion_keys: OnionKeys, prng_seed: [u8; 32], associated_data: &PaymentHash) -> (r: Result<OnionPacket, ()>)
    ensures r matches Ok(p) ==> p.id == packet_of(payloads.id, onion_keys.id, prng_seed, *associated_data) { unimplemented!() }
pub struct BlindedTail { pub id: u64 }
pub struct TrampolinePayloads { pub id: int }
pub uninterp spec fn trampoline_payloads_of(tail: BlindedTail, fields: RecipientOnionFields, height: u32, keysend: Option<PaymentPreimage>) -> int;
pub uninterp spec fn outer_total_of(tail: BlindedTail, fields: RecipientOnionFields) -> u64;
#[verifier::external_body] pub fn build_trampoline_onion_payloads(blinded_tail: &&BlindedTail, recipient_onion: &RecipientOnionFields, starting_htlc_offset: u32, keysend_preimage: &Option<PaymentPreimage>) -> (r: Result<(TrampolinePayloads, u64), APIError>)
    ensures r matches Ok(t) ==> t.0.id == trampoline_payloads_of(**blinded_tail, *recipient_onion, starting_htlc_offset, *keysend_preimage) && t.1 == outer_total_of(**blinded_tail, *recipient_onion) { unimplemented!() }
pub struct OuterFields { pub total_mpp_amount_msat: u64 }
//@extract lightning/src/ln/onion_utils.rs :: fn create_payment_onion_internal
//@slice R15
    let trampoline_payloads; let outer_total_msat; (trampoline_payloads, outer_total_msat) = build_trampoline_onion_payloads($args:any)?; trampoline_outer_onion.total_mpp_amount_msat = outer_total_msat;
//@with
    fn payloads_for_the_trampoline_hops(blinded_tail: &BlindedTail, recipient_onion: &RecipientOnionFields, cur_block_height: u32, keysend_preimage: &Option<PaymentPreimage>, trampoline_outer_onion: &mut OuterFields) -> Result<TrampolinePayloads, APIError> {
        let (trampoline_payloads, outer_total_msat) = build_trampoline_onion_payloads($args)?; trampoline_outer_onion.total_mpp_amount_msat = outer_total_msat; Ok(trampoline_payloads) }
//@ret r
//@ensures P C14 the-trampoline-onion-is-built-from-the-callers-recipient-fields-height-and-keysend-preimage-and-the-entry-point-is-told-the-total-it-computed
    r matches Ok(p) ==> p.id == trampoline_payloads_of(*blinded_tail, *recipient_onion, cur_block_height, *keysend_preimage)
        && final(trampoline_outer_onion).total_mpp_amount_msat == outer_total_of(*blinded_tail, *recipient_onion),
//@mutant keysend_preimage_left_out_of_the_trampoline_onion
    recipient_onion, cur_block_height, keysend_preimage, )?; trampoline_outer_onion
//@with
    recipient_onion, cur_block_height, &None, )?; trampoline_outer_onion
//@end
//@extract lightning/src/ln/onion_utils.rs :: fn create_payment_onion_internal
//@slice R15
    let (onion_payloads, htlc_msat, htlc_cltv) = build_onion_payloads($args:any)?; $rest:any Ok(($r:seq)) }
//@with
    fn build_packet_for_the_first_hop(secp_ctx: &Secp256k1, path: &Path, session_priv: &SecretKey, outer_onion: &RecipientOnionFields, cur_block_height: u32, payment_hash: &PaymentHash, keysend_preimage: &Option<PaymentPreimage>, invoice_request: Option<&InvoiceRequest>, prng_seed: [u8; 32], trampoline_packet_option: Option<TrampolineOnionPacket>) -> Result<(OnionPacket, u64, u32), APIError> {
        let (onion_payloads, htlc_msat, htlc_cltv) = build_onion_payloads($args)?; $rest Ok(($r)) }
//@rw R8 *
    .map_err(|_| APIError::InvalidRoute { err: $e:seq, })?
//@with
    .map_err(|e: ()| -> (o: APIError) { APIError::InvalidRoute { err: () } })?
//@ret r
//@requires
    cur_block_height as int + path.delta <= u32::MAX,
//@ensures P C14 the-amount-and-expiry-the-sender-locks-in-on-the-first-channel-are-the-ones-the-payloads-inside-the-packet-were-built-for-and-the-packet-is-keyed-to-this-path-session-and-payment-hash
    r matches Ok(t) ==> t.1 == amount_of(*path, *outer_onion, trampoline_packet_option) && t.2 as int == cur_block_height + path.delta
        && t.0.id == packet_of(payloads_of(*path, *outer_onion, cur_block_height, *keysend_preimage, trampoline_packet_option), keys_of(*path, *session_priv), prng_seed, *payment_hash),
//@mutant payloads_built_for_another_height_than_the_expiry_locked_in
    &path, outer_onion, cur_block_height,
//@with
    &path, outer_onion, cur_block_height + 1,
//@end
}

// ---- the extra TLVs of a final-hop payload (the sender's custom TLVs, the keysend preimage, the invoice request) are written in ascending type order, each once: a TLV stream out of order is refused by the recipient (two deep R15 slices of OutboundOnionPayload::write) ----
pub mod final_tlvs {
use vstd::prelude::*;
pub type Tlv = (u64, Vec<u8>);
// R6: `A.iter().chain(B.iter())...collect()`: the elements of A, then of B, .. as references in that order (iterator semantics of std)
pub struct It<'a> { pub s: Ghost<Seq<&'a Tlv>> }
pub struct TlvList { pub v: Vec<Tlv> }
pub struct OptTlv { pub o: Option<Tlv> }
pub open spec fn refs_of(v: Seq<Tlv>, r: Seq<&Tlv>) -> bool { r.len() == v.len() && forall|k: int| 0 <= k < v.len() ==> *r[k] == v[k] }
impl TlvList { #[verifier::external_body] pub fn iter(&self) -> (r: It<'_>) ensures refs_of(self.v@, r.s@) { unimplemented!() } }
impl OptTlv { #[verifier::external_body] pub fn iter(&self) -> (r: It<'_>) ensures refs_of(if self.o is Some { seq![self.o->Some_0] } else { Seq::<Tlv>::empty() }, r.s@) { unimplemented!() } }
impl<'a> It<'a> {
    #[verifier::external_body] pub fn chain(self, other: It<'a>) -> (r: It<'a>) ensures r.s@ == self.s@ + other.s@ { unimplemented!() }
    #[verifier::external_body] pub fn collect(self) -> (r: Vec<&'a Tlv>) ensures r@ == self.s@ { unimplemented!() }
}
pub open spec fn ascending(s: Seq<&Tlv>) -> bool { forall|i: int, j: int| 0 <= i < j < s.len() ==> s[i].0 <= s[j].0 }
// R8: `v.sort_unstable_by_key(|(typ, _)| *typ)`: v becomes a permutation of itself in ascending order of the first component (std)
#[verifier::external_body] pub fn sort_by_type<'a>(v: &mut Vec<&'a Tlv>) ensures ascending(final(v)@), final(v)@.len() == old(v)@.len(), final(v)@.to_multiset() =~= old(v)@.to_multiset() { unimplemented!() }
//@extract lightning/src/ln/msgs.rs :: impl Writeable for OutboundOnionPayload :: fn write
//@slice R15 nth=1
    let $m:seq: Vec<&(u64, Vec<u8>)> = $chain:seq; $after:straight _encode_varint_length_prefixed_tlv!(
//@with
    fn extra_tlvs_of_a_final_payload<'a>(custom_tlvs: &'a TlvList, keysend_tlv: &'a OptTlv) -> Vec<&'a Tlv> { let $m: Vec<&Tlv> = $chain; $after custom_tlvs }
//@rw R8 ?
    custom_tlvs.sort_unstable_by_key(|(typ, _)| *typ);
//@with
    sort_by_type(&mut custom_tlvs);
//@ret r
//@ensures P C14 the-extra-tlvs-of-a-final-payload-are-the-senders-custom-tlvs-and-the-keysend-preimage-each-once-in-ascending-type-order
    ascending(r@), r@.len() == custom_tlvs.v@.len() + (if keysend_tlv.o is Some { 1int } else { 0int }),
//@mutant final_payload_tlvs_left_in_arrival_order
    custom_tlvs.sort_unstable_by_key(|(typ, _)| *typ); _encode_varint_length_prefixed_tlv!(w, { (2, HighZeroBytesDroppedBigSize(*sender_intended_htlc_amt_msat), required), (4, HighZeroBytesDroppedBigSize(*cltv_expiry_height), required), (8, payment_data, option),
//@with
    _encode_varint_length_prefixed_tlv!(w, { (2, HighZeroBytesDroppedBigSize(*sender_intended_htlc_amt_msat), required), (4, HighZeroBytesDroppedBigSize(*cltv_expiry_height), required), (8, payment_data, option),
//@end
//@extract lightning/src/ln/msgs.rs :: impl Writeable for OutboundOnionPayload :: fn write
//@slice R15 nth=2
    let $m:seq: Vec<&(u64, Vec<u8>)> = $chain:seq; $after:straight _encode_varint_length_prefixed_tlv!(
//@with
    fn extra_tlvs_of_a_final_payload_for_a_blinded_recipient<'a>(custom_tlvs: &'a TlvList, invoice_request_tlv: &'a OptTlv, keysend_tlv: &'a OptTlv) -> Vec<&'a Tlv> { let $m: Vec<&Tlv> = $chain; $after custom_tlvs }
//@rw R8 ?
    custom_tlvs.sort_unstable_by_key(|(typ, _)| *typ);
//@with
    sort_by_type(&mut custom_tlvs);
//@ret r
//@ensures P C14 the-extra-tlvs-of-a-final-payload-for-a-blinded-recipient-are-the-custom-tlvs-the-invoice-request-and-the-keysend-preimage-each-once-in-ascending-type-order
    ascending(r@), r@.len() == custom_tlvs.v@.len() + (if invoice_request_tlv.o is Some { 1int } else { 0int }) + (if keysend_tlv.o is Some { 1int } else { 0int }),
//@end
//@extract lightning/src/ln/msgs.rs :: impl Writeable for OutboundTrampolinePayload :: fn write
//@slice R15
    let $m:seq: Vec<&(u64, Vec<u8>)> = $chain:seq; $after:straight _encode_varint_length_prefixed_tlv!(
//@with
    fn extra_tlvs_of_a_final_trampoline_payload<'a>(custom_tlvs: &'a TlvList, keysend_tlv: &'a OptTlv) -> Vec<&'a Tlv> { let $m: Vec<&Tlv> = $chain; $after custom_tlvs }
//@rw R8 ?
    custom_tlvs.sort_unstable_by_key(|(typ, _)| *typ);
//@with
    sort_by_type(&mut custom_tlvs);
//@ret r
//@ensures P C14 the-extra-tlvs-of-a-final-trampoline-payload-are-the-custom-tlvs-and-the-keysend-preimage-each-once-in-ascending-type-order
    ascending(r@), r@.len() == custom_tlvs.v@.len() + (if keysend_tlv.o is Some { 1int } else { 0int }),
//@end
}
}
fn main() {}
