//! unit: u11h
//! properties: C11
//! note: what a channel tells a `Confirm` client to watch (FundedChannel::get_relevant_txids, the two closures): for the current funding and for every pending (splice / RBF) candidate it reports THAT funding's own transaction id, confirmation height and the hash of the block IT confirmed in - the client calls transaction_unconfirmed exactly for the entries whose block left the chain, so an entry carrying another funding's block hides a reorg of the candidate - and an entry is listed exactly when all three are known, with the three values unchanged
//! trusted: R15 (deep slices): the bodies of the `.map(|funding| ..)` and `.filter_map(|(txid_opt, height_opt, hash_opt)| ..)` closures, verbatim, as functions of the funding / the triple; the iterator chain around them (once(&self.funding).chain(self.pending_funding())) is not sliced; env: FundingScope with the three fields behind its two accessors (get_funding_txid / get_funding_tx_confirmation_height as uninterpreted projections of the scope, funding_tx_confirmed_in a field); `self.funding` exists so that a closure reading the channel's current funding instead of its argument is verified
//! trusted: assume_specification for core::cmp::max / core::cmp::min (std definitions): present in every unit so that a change that introduces them is verified instead of being rejected by the tool
use vstd::prelude::*;
verus! {
use vstd::std_specs::cmp::*;
use core::cmp;
pub assume_specification<T: core::cmp::Ord>[core::cmp::max::<T>](a: T, b: T) -> (r: T)
    ensures T::obeys_cmp_spec() ==> r == (if b.cmp_spec(&a) == core::cmp::Ordering::Less { a } else { b });
pub assume_specification<T: core::cmp::Ord>[core::cmp::min::<T>](a: T, b: T) -> (r: T)
    ensures T::obeys_cmp_spec() ==> r == (if b.cmp_spec(&a) == core::cmp::Ordering::Less { b } else { a });
#[derive(Clone, Copy, PartialEq, Eq)] pub struct Txid(pub u64);
#[derive(Clone, Copy, PartialEq, Eq)] pub struct BlockHash(pub u64);
pub struct FundingScope { pub id: u64, pub funding_tx_confirmed_in: Option<BlockHash> }
pub uninterp spec fn txid_of(f: FundingScope) -> Option<Txid>;
pub uninterp spec fn conf_height_of(f: FundingScope) -> Option<u32>;
impl FundingScope {
    #[verifier::external_body] pub fn get_funding_txid(&self) -> (r: Option<Txid>) ensures r == txid_of(*self) { unimplemented!() }
    #[verifier::external_body] pub fn get_funding_tx_confirmation_height(&self) -> (r: Option<u32>) ensures r == conf_height_of(*self) { unimplemented!() }
}
pub struct FundedChannel { pub funding: FundingScope }
impl FundedChannel {
//@extract lightning/src/ln/channel.rs :: impl FundedChannel :: fn get_relevant_txids
//@slice R15
    .map(|funding| { $m:any })
//@with
    fn what_is_reported_of_a_funding(&self, funding: &FundingScope) -> (Option<Txid>, Option<u32>, Option<BlockHash>) { $m }
//@ret r
//@ensures P C11 each-funding-the-current-one-and-every-pending-candidate-is-reported-with-its-own-txid-its-own-confirmation-height-and-the-block-it-confirmed-in
    r == (txid_of(*funding), conf_height_of(*funding), funding.funding_tx_confirmed_in),
//@mutant candidate_reported_with_the_current_fundings_block
    funding.funding_tx_confirmed_in,
//@with
    self.funding.funding_tx_confirmed_in,
//@end
//@extract lightning/src/ln/channel.rs :: impl FundedChannel :: fn get_relevant_txids
//@slice R15
    .filter_map(|(txid_opt, height_opt, hash_opt)| { $f:any })
//@with
    fn entry_listed_for_a_funding(txid_opt: Option<Txid>, height_opt: Option<u32>, hash_opt: Option<BlockHash>) -> Option<(Txid, u32, Option<BlockHash>)> { $f }
//@ret r
//@ensures P C11 a-funding-is-listed-exactly-when-its-txid-height-and-block-are-all-known-and-the-entry-carries-the-three-unchanged
    r is Some <==> (txid_opt is Some && height_opt is Some && hash_opt is Some),
    r is Some ==> r->Some_0 == (txid_opt->Some_0, height_opt->Some_0, hash_opt),
//@end
}
}
fn main() {}
