//! unit: u09f
//! properties: C09
//! note: FundedChannel::check_get_channel_ready, the tail that decides what happens to a channel_ready that has become due (slice from `if !need_commitment_update` to the end): while a monitor update is in progress the message is not produced and is RECORDED as held (monitor_pending_channel_ready) - whether or not the peer is connected, so that the completion of the update releases it (OUR_CHANNEL_READY is already set by then: a message that is neither sent nor recorded is never sent at all); with no update in progress and the peer disconnected nothing is produced and nothing recorded (channel_reestablish retransmits it); otherwise it is produced by get_channel_ready. The held flag is only ever set here, never cleared
//! trusted: R15 (deep slice): the statements from `if !need_commitment_update {` to the final `self.get_channel_ready(logger)`, verbatim; env: the channel state is its two flags behind the macro-generated accessors (is_monitor_update_in_progress / is_peer_disconnected); get_channel_ready is any function that leaves the held flag and the channel state alone (its body reads the commitment point only); log_debug! dropped (R3)
//! trusted: assume_specification for core::cmp::max / core::cmp::min (std definitions): present in every unit so that a change that introduces them is verified instead of being rejected by the tool
use vstd::prelude::*;
verus! {
use vstd::std_specs::cmp::*;
use core::cmp;
pub assume_specification<T: core::cmp::Ord>[core::cmp::max::<T>](a: T, b: T) -> (r: T)
    ensures T::obeys_cmp_spec() ==> r == (if b.cmp_spec(&a) == core::cmp::Ordering::Less { a } else { b });
pub assume_specification<T: core::cmp::Ord>[core::cmp::min::<T>](a: T, b: T) -> (r: T)
    ensures T::obeys_cmp_spec() ==> r == (if b.cmp_spec(&a) == core::cmp::Ordering::Less { b } else { a });
pub struct ChannelReady { pub id: u64 }
#[derive(Clone, Copy)] pub struct ChannelState { pub monitor_update_in_progress: bool, pub peer_disconnected: bool }
impl ChannelState {
    pub fn is_monitor_update_in_progress(&self) -> (r: bool) ensures r == self.monitor_update_in_progress { self.monitor_update_in_progress }
    pub fn is_peer_disconnected(&self) -> (r: bool) ensures r == self.peer_disconnected { self.peer_disconnected }
}
pub struct Context { pub channel_state: ChannelState, pub monitor_pending_channel_ready: bool }
pub struct LoggerStub {}
pub struct FundedChannel { pub context: Context, pub asked: Ghost<bool> }
pub uninterp spec fn produced(c: FundedChannel) -> Option<ChannelReady>;
impl FundedChannel {
    #[verifier::external_body] fn get_channel_ready(&mut self, logger: &LoggerStub) -> (r: Option<ChannelReady>)
        ensures final(self).context == old(self).context, final(self).asked@, r == produced(*old(self)) { unimplemented!() }
//@extract lightning/src/ln/channel.rs :: impl FundedChannel :: fn check_get_channel_ready
//@slice R15
    if !need_commitment_update { $nu:any } $tail:any self.get_channel_ready(logger)
//@with
    fn hold_or_produce_the_channel_ready_that_became_due(&mut self, need_commitment_update: bool, logger: &LoggerStub) -> Option<ChannelReady> { if !need_commitment_update { $nu } $tail self.get_channel_ready(logger) }
//@ret r
//@requires
    !old(self).asked@,
//@ensures P C09 a-channel-ready-that-becomes-due-while-a-monitor-update-is-in-progress-is-not-produced-and-is-recorded-as-held-whether-or-not-the-peer-is-connected
    final(self).context.channel_state == old(self).context.channel_state,
    !need_commitment_update ==> r is None && final(self).context == old(self).context && !final(self).asked@,
    need_commitment_update && old(self).context.channel_state.monitor_update_in_progress ==> r is None && final(self).context.monitor_pending_channel_ready && !final(self).asked@,
    need_commitment_update && !old(self).context.channel_state.monitor_update_in_progress && old(self).context.channel_state.peer_disconnected ==> r is None && final(self).context == old(self).context && !final(self).asked@,
    need_commitment_update && !old(self).context.channel_state.monitor_update_in_progress && !old(self).context.channel_state.peer_disconnected ==> r == produced(*old(self)) && final(self).context == old(self).context,
    old(self).context.monitor_pending_channel_ready ==> final(self).context.monitor_pending_channel_ready,
//@mutant held_channel_ready_not_recorded
    self.context.monitor_pending_channel_ready = true;
//@with

//@mutant held_only_while_the_peer_is_connected
    if self.context.channel_state.is_monitor_update_in_progress() {
//@with
    if self.context.channel_state.is_monitor_update_in_progress() && !self.context.channel_state.is_peer_disconnected() {
//@end
}
}
fn main() {}
