//! unit: u01j
//! properties: C01
//! note: which pending HTLCs count towards the next commitment and which are already folded into the balance (ChannelContext::get_next_commitment_htlcs vs get_next_commitment_value_to_self_msat): every pending HTLC is represented exactly once
//! trusted: R15 (statement slicing): both functions are iterator chains over the channel's HTLC vectors; the unit extracts, on every run, the four `match (state, local)` predicates (the bodies of the `.filter(..)` closures) verbatim into four predicate functions over the real state enums and proves the exactly-once relation between them; the surrounding map/sum/chain plumbing is dropped and not claimed
//! trusted: payload types of the state enums (InboundHTLCResolution, InboundUpdateAdd, OnionErrorPacket, OnionPacket, PaymentPreimage, AttributionData, HTLCFailReason) are opaque
//! plemma: C01 lemma_each_pending_htlc_exactly_once: an HTLC is never both an output of the next commitment and already credited to the claimer's balance, and a successfully claimed HTLC that is no longer an output is always credited (for both commitments)
use vstd::prelude::*;
verus! {
pub struct InboundHTLCResolution {} pub struct InboundUpdateAdd {} pub struct OnionErrorPacket {} pub struct OnionPacket {}
pub struct PaymentPreimage {} pub struct AttributionData {} pub struct HTLCFailReason {}
//@extract lightning/src/ln/channel.rs :: enum InboundHTLCRemovalReason
//@strip msgs
//@end
//@extract lightning/src/ln/channel.rs :: enum InboundHTLCState
//@end
//@extract lightning/src/ln/channel.rs :: enum OutboundHTLCOutcome
//@end
//@extract lightning/src/ln/channel.rs :: enum OutboundHTLCState
//@strip msgs
//@end

//@extract lightning/src/ln/channel.rs :: impl ChannelContext :: fn get_next_commitment_htlcs
//@rw R15
    fn get_next_commitment_htlcs($params:any) -> $ret { $pre:any let pending_inbound_htlcs = self.pending_inbound_htlcs.iter().filter(|InboundHTLCOutput { state, .. }| $m).map($x); $post:any }
//@with
    fn inbound_is_output_of_next_commitment(state: &InboundHTLCState, local: bool) -> bool { $m }
//@ret r
//@ensures A
    r == in_out(*state, local)
//@mutant locally_removed_still_on_remote_commitment
    (InboundHTLCState::LocalRemoved(..), false) => false,
//@with
    (InboundHTLCState::LocalRemoved(..), false) => true,
//@end
//@extract lightning/src/ln/channel.rs :: impl ChannelContext :: fn get_next_commitment_htlcs
//@rw R15
    fn get_next_commitment_htlcs($params:any) -> $ret { $pre:any let pending_outbound_htlcs = self.pending_outbound_htlcs.iter().filter(|OutboundHTLCOutput { state, .. }| $m).map($x); $post:any }
//@with
    fn outbound_is_output_of_next_commitment(state: &OutboundHTLCState, local: bool, include_counterparty_unknown_htlcs: bool) -> bool { $m }
//@ret r
//@ensures A
    r == out_out(*state, local, include_counterparty_unknown_htlcs)
//@end
//@extract lightning/src/ln/channel.rs :: impl ChannelContext :: fn get_next_commitment_value_to_self_msat
//@rw R15
    fn get_next_commitment_value_to_self_msat($params:any) -> u64 { $pre:any let inbound_claimed_htlc_msat: u64 = self.pending_inbound_htlcs.iter().filter(|InboundHTLCOutput { state, .. }| $m).map($x).sum(); $post:any }
//@with
    fn inbound_is_credited_to_holder(state: &InboundHTLCState, local: bool) -> bool { use InboundHTLCRemovalReason::Fulfill; $m }
//@ret r
//@ensures A
    r == in_credit(*state, local)
//@mutant claimed_inbound_credited_on_local_commitment_too
    (InboundHTLCState::LocalRemoved(Fulfill { .. }), true) => false,
//@with
    (InboundHTLCState::LocalRemoved(Fulfill { .. }), true) => true,
//@end
//@extract lightning/src/ln/channel.rs :: impl ChannelContext :: fn get_next_commitment_value_to_self_msat
//@rw R15
    fn get_next_commitment_value_to_self_msat($params:any) -> u64 { $pre:any let outbound_claimed_htlc_msat: u64 = self.pending_outbound_htlcs.iter().filter(|OutboundHTLCOutput { state, .. }| $m).map($x).sum(); $post:any }
//@with
    fn outbound_is_debited_from_holder(state: &OutboundHTLCState, local: bool) -> bool { use OutboundHTLCOutcome::Success; $m }
//@ret r
//@ensures A
    r == out_debit(*state, local)
//@mutant remote_removed_success_not_debited_on_local_commitment
    (OutboundHTLCState::RemoteRemoved(Success { .. }), true) => true,
//@with
    (OutboundHTLCState::RemoteRemoved(Success { .. }), true) => false,
//@end

// ---- the specification of the four predicates is taken from BOLT-2's update protocol, not from the code ----
// inbound HTLC (offered by the peer): it stays an output until the removal is irrevocable for that commitment's owner:
// our own removal (LocalRemoved) takes effect on the peer's (remote) commitment first
pub open spec fn in_out(s: InboundHTLCState, local: bool) -> bool { !(s is LocalRemoved && !local) }
pub open spec fn in_success(s: InboundHTLCState) -> bool { s is LocalRemoved && s->LocalRemoved_0 is Fulfill }
pub open spec fn in_credit(s: InboundHTLCState, local: bool) -> bool { in_success(s) && !local }
pub open spec fn out_removed_outcome(s: OutboundHTLCState) -> Option<OutboundHTLCOutcome> {
    match s {
        OutboundHTLCState::RemoteRemoved(o) => Some(o),
        OutboundHTLCState::AwaitingRemoteRevokeToRemove(o) => Some(o),
        OutboundHTLCState::AwaitingRemovedRemoteRevoke(o) => Some(o),
        _ => None,
    }
}
pub open spec fn out_out(s: OutboundHTLCState, local: bool, include_unknown: bool) -> bool {
    match s {
        OutboundHTLCState::LocalAnnounced(_) => include_unknown,
        OutboundHTLCState::Committed => true,
        // the peer's removal takes effect on our (local) commitment first
        OutboundHTLCState::RemoteRemoved(_) => !local,
        _ => false,
    }
}
pub open spec fn out_success(s: OutboundHTLCState) -> bool { out_removed_outcome(s) is Some && out_removed_outcome(s)->Some_0 is Success }
pub open spec fn out_debit(s: OutboundHTLCState, local: bool) -> bool { out_success(s) && !out_out(s, local, true) }

// (P C01) exactly once: never both an output and already settled into the balance; a successful claim that is no longer an output is settled
pub proof fn lemma_each_pending_htlc_exactly_once(i: InboundHTLCState, o: OutboundHTLCState, local: bool, inc: bool)
    ensures
        !(in_out(i, local) && in_credit(i, local)),
        in_success(i) && !in_out(i, local) ==> in_credit(i, local),
        !(out_out(o, local, inc) && out_debit(o, local)),
        out_success(o) && !out_out(o, local, inc) ==> out_debit(o, local),
        // a failed or still-unresolved HTLC never moves the balance
        !in_success(i) ==> !in_credit(i, local),
        !out_success(o) ==> !out_debit(o, local),
{}
}
fn main() {}
