//! unit: u01j
//! properties: C01 C03 C12 C10 C02 C05 C09
//! note: also run for C05, C09: the code it constrains lies inside mechanisms those properties name (a change made there for their sake must meet these clauses too)
//! note: which pending HTLCs count towards the next commitment and which are already folded into the balance (ChannelContext::get_next_commitment_htlcs vs get_next_commitment_value_to_self_msat): every pending HTLC is represented exactly once
//! trusted: R15 (statement slicing): both functions are iterator chains over the channel's HTLC vectors; the unit extracts, on every run, the four `match (state, local)` predicates (the bodies of the `.filter(..)` closures) verbatim into four predicate functions over the real state enums and proves the exactly-once relation between them; the surrounding map/sum/chain plumbing is dropped and not claimed
//! trusted: payload types of the state enums (InboundHTLCResolution, InboundUpdateAdd, OnionErrorPacket, OnionPacket, PaymentPreimage, AttributionData, HTLCFailReason) are opaque
//! trusted: R15 (deep slices): revoke_and_ack: the bodies of the two `retain` closures that drop irrevocably removed HTLCs and accumulate value_to_self_msat_diff, and the statement applying the diff to every funding scope, verbatim; InboundHTLCOutput / OutboundHTLCOutput field skeletons; OutboundHTLCOutcome::clone external_body (returns an equal value); hold_time_since / set_hold_time external_body (timing only: `.map(|hold_time| ..)` with a captured &mut is written as a match, R8, and the timestamp argument is dropped); R16 for `&`-patterns; the promotion of the remaining HTLC states in the same function is dropped and not claimed
//! trusted: R15 (deep slice): mark_outbound_htlc_removed: the per-HTLC block of the search loop verbatim as a function of that HTLC; Sha256 is the external_body wrapper sha256 (R8); PaymentHash equality is structural; error strings dropped
//! trusted: R15: update_add_htlc: the message-level tests (zero amount literal in the pattern, the others captured) and the two state-update statements verbatim; the channel-state pre-checks (early Err returns) and the call of validate_update_add_htlc (receiver tests proved in u01k) are dropped and not claimed; the stored onion (InboundHTLCResolution::Pending) is opaque; error strings dropped
//! trusted: R15 (deep slice): commitment_signed_update_monitor: the body of the loop that promotes inbound HTLCs verbatim as a function of one HTLC (InboundHTLCResolution::clone external_body returning an equal value; R16)
//! trusted: R15 (deep slices): remove_uncommitted_htlcs_and_mark_paused: the body of the inbound `retain` closure, the statement adjusting next_counterparty_htlc_id (operator captured) and the body of the outbound loop, verbatim; the resets of announcement / closing state around them are dropped and not claimed
//! assume: HTLC amounts and balances <= 21e18 msat; |value_to_self_msat_diff| <= 4e18 while it is accumulated; the resulting balance lies between 0 and the channel value (representation invariant of the channel)
//! plemma: C01 lemma_each_pending_htlc_exactly_once: an HTLC is never both an output of the next commitment and already credited to the claimer's balance, and a successfully claimed HTLC that is no longer an output is always credited (for both commitments)
//! trusted: assume_specification for core::cmp::max / core::cmp::min (std definitions): present in every unit so that a change that introduces them is verified instead of being rejected by the tool
use vstd::prelude::*;
verus! {
use vstd::std_specs::cmp::*;
use core::cmp;
pub assume_specification<T: core::cmp::Ord>[core::cmp::max::<T>](a: T, b: T) -> (r: T)
    ensures T::obeys_cmp_spec() ==> r == (if b.cmp_spec(&a) == core::cmp::Ordering::Less { a } else { b });
pub assume_specification<T: core::cmp::Ord>[core::cmp::min::<T>](a: T, b: T) -> (r: T)
    ensures T::obeys_cmp_spec() ==> r == (if b.cmp_spec(&a) == core::cmp::Ordering::Less { b } else { a });
use core::mem;
pub struct InboundHTLCResolution {} pub struct InboundUpdateAdd {} pub struct OnionErrorPacket {} pub struct OnionPacket {}
#[derive(Clone, Copy)] pub struct PaymentPreimage(pub [u8; 32]); pub struct AttributionData {} pub struct HTLCFailReason {}
//@extract lightning/src/ln/channel.rs :: enum InboundHTLCRemovalReason
//@strip msgs
//@end
//@extract lightning/src/ln/channel.rs :: enum InboundHTLCState
//@end
//@extract lightning/src/ln/channel.rs :: enum OutboundHTLCOutcome
//@end
//@extract lightning/src/ln/channel.rs :: enum OutboundHTLCState
//@strip msgs
//@end

//@extract lightning/src/ln/channel.rs :: impl ChannelContext :: fn get_next_commitment_htlcs
//@rw R15
    fn get_next_commitment_htlcs($params:any) -> $ret { $pre:any let pending_inbound_htlcs = self.pending_inbound_htlcs.iter().filter(|InboundHTLCOutput { state, .. }| $m).map($x); $post:any }
//@with
    fn inbound_is_output_of_next_commitment(state: &InboundHTLCState, local: bool) -> bool { $m }
//@ret r
//@ensures A
    r == in_out(*state, local)
//@mutant locally_removed_still_on_remote_commitment
    (InboundHTLCState::LocalRemoved(..), false) => false,
//@with
    (InboundHTLCState::LocalRemoved(..), false) => true,
//@end
//@extract lightning/src/ln/channel.rs :: impl ChannelContext :: fn get_next_commitment_htlcs
//@rw R15
    fn get_next_commitment_htlcs($params:any) -> $ret { $pre:any let pending_outbound_htlcs = self.pending_outbound_htlcs.iter().filter(|OutboundHTLCOutput { state, .. }| $m).map($x); $post:any }
//@with
    fn outbound_is_output_of_next_commitment(state: &OutboundHTLCState, local: bool, include_counterparty_unknown_htlcs: bool) -> bool { $m }
//@ret r
//@ensures A
    r == out_out(*state, local, include_counterparty_unknown_htlcs)
//@end
//@extract lightning/src/ln/channel.rs :: impl ChannelContext :: fn get_next_commitment_value_to_self_msat
//@rw R15
    fn get_next_commitment_value_to_self_msat($params:any) -> u64 { $pre:any let inbound_claimed_htlc_msat: u64 = self.pending_inbound_htlcs.iter().filter(|InboundHTLCOutput { state, .. }| $m).map($x).sum(); $post:any }
//@with
    fn inbound_is_credited_to_holder(state: &InboundHTLCState, local: bool) -> bool { use InboundHTLCRemovalReason::Fulfill; $m }
//@ret r
//@ensures A
    r == in_credit(*state, local)
//@mutant claimed_inbound_credited_on_local_commitment_too
    (InboundHTLCState::LocalRemoved(Fulfill { .. }), true) => false,
//@with
    (InboundHTLCState::LocalRemoved(Fulfill { .. }), true) => true,
//@end
//@extract lightning/src/ln/channel.rs :: impl ChannelContext :: fn get_next_commitment_value_to_self_msat
//@rw R15
    fn get_next_commitment_value_to_self_msat($params:any) -> u64 { $pre:any let outbound_claimed_htlc_msat: u64 = self.pending_outbound_htlcs.iter().filter(|OutboundHTLCOutput { state, .. }| $m).map($x).sum(); $post:any }
//@with
    fn outbound_is_debited_from_holder(state: &OutboundHTLCState, local: bool) -> bool { use OutboundHTLCOutcome::Success; $m }
//@ret r
//@ensures A
    r == out_debit(*state, local)
//@mutant remote_removed_success_not_debited_on_local_commitment
    (OutboundHTLCState::RemoteRemoved(Success { .. }), true) => true,
//@with
    (OutboundHTLCState::RemoteRemoved(Success { .. }), true) => false,
//@end

// ---- the specification of the four predicates is taken from BOLT-2's update protocol, not from the code ----
// inbound HTLC (offered by the peer): it stays an output until the removal is irrevocable for that commitment's owner:
// our own removal (LocalRemoved) takes effect on the peer's (remote) commitment first
pub open spec fn in_out(s: InboundHTLCState, local: bool) -> bool { !(s is LocalRemoved && !local) }
pub open spec fn in_success(s: InboundHTLCState) -> bool { s is LocalRemoved && s->LocalRemoved_0 is Fulfill }
pub open spec fn in_credit(s: InboundHTLCState, local: bool) -> bool { in_success(s) && !local }
pub open spec fn out_removed_outcome(s: OutboundHTLCState) -> Option<OutboundHTLCOutcome> {
    match s {
        OutboundHTLCState::RemoteRemoved(o) => Some(o),
        OutboundHTLCState::AwaitingRemoteRevokeToRemove(o) => Some(o),
        OutboundHTLCState::AwaitingRemovedRemoteRevoke(o) => Some(o),
        _ => None,
    }
}
pub open spec fn out_out(s: OutboundHTLCState, local: bool, include_unknown: bool) -> bool {
    match s {
        OutboundHTLCState::LocalAnnounced(_) => include_unknown,
        OutboundHTLCState::Committed => true,
        // the peer's removal takes effect on our (local) commitment first
        OutboundHTLCState::RemoteRemoved(_) => !local,
        _ => false,
    }
}
pub open spec fn out_success(s: OutboundHTLCState) -> bool { out_removed_outcome(s) is Some && out_removed_outcome(s)->Some_0 is Success }
pub open spec fn out_debit(s: OutboundHTLCState, local: bool) -> bool { out_success(s) && !out_out(s, local, true) }

// (P C01) exactly once: never both an output and already settled into the balance; a successful claim that is no longer an output is settled
pub proof fn lemma_each_pending_htlc_exactly_once(i: InboundHTLCState, o: OutboundHTLCState, local: bool, inc: bool)
    ensures
        !(in_out(i, local) && in_credit(i, local)),
        in_success(i) && !in_out(i, local) ==> in_credit(i, local),
        !(out_out(o, local, inc) && out_debit(o, local)),
        out_success(o) && !out_out(o, local, inc) ==> out_debit(o, local),
        // a failed or still-unresolved HTLC never moves the balance
        !in_success(i) ==> !in_credit(i, local),
        !out_success(o) ==> !out_debit(o, local),
{}

// ---- irrevocable settlement: how revoke_and_ack moves value_to_self_msat (three deep R15 slices of FundedChannel::revoke_and_ack) ----
#[derive(Clone, Copy)] pub struct PaymentHash(pub [u8; 32]);
impl vstd::std_specs::cmp::PartialEqSpecImpl for PaymentHash { open spec fn obeys_eq_spec() -> bool { true } open spec fn eq_spec(&self, other: &PaymentHash) -> bool { *self == *other } }
impl PartialEq for PaymentHash { #[verifier::external_body] fn eq(&self, o: &PaymentHash) -> (r: bool) { self.0 == o.0 } }
pub uninterp spec fn sha256_spec(b: [u8; 32]) -> [u8; 32];
#[verifier::external_body] pub fn sha256(b: &[u8; 32]) -> (r: [u8; 32]) ensures r == sha256_spec(*b) { unimplemented!() }
pub enum ChannelError { Close(u8) }
impl ChannelError { #[verifier::external_body] pub fn close(_m: u8) -> (r: ChannelError) { unimplemented!() } }
pub struct HTLCSource {}
impl Clone for HTLCSource { #[verifier::external_body] fn clone(&self) -> (r: Self) { unimplemented!() } }
pub struct Duration {}
impl Clone for OutboundHTLCOutcome { #[verifier::external_body] fn clone(&self) -> (r: Self) ensures r == *self { unimplemented!() } }
impl HTLCFailReason { #[verifier::external_body] pub fn set_hold_time(&mut self, hold_time: u32) { unimplemented!() } }
#[verifier::external_body] pub fn hold_time_since(send_timestamp: Option<Duration>) -> Option<u32> { unimplemented!() }
pub struct InboundHTLCOutput { pub htlc_id: u64, pub amount_msat: u64, pub cltv_expiry: u32, pub payment_hash: PaymentHash, pub state: InboundHTLCState }
pub struct OutboundHTLCOutput { pub htlc_id: u64, pub amount_msat: u64, pub payment_hash: PaymentHash, pub state: OutboundHTLCState, pub source: HTLCSource, pub send_timestamp: Option<Duration> }

//@extract lightning/src/ln/channel.rs :: impl FundedChannel :: fn revoke_and_ack
//@slice R15
    pending_inbound_htlcs.retain(|htlc| { $body:any });
//@with
    fn inbound_htlc_kept_on_revoke_and_ack(htlc: &InboundHTLCOutput, value_to_self_msat_diff_: i64, expecting_peer_commitment_signed: &mut bool) -> (bool, i64) {
        let mut value_to_self_msat_diff = value_to_self_msat_diff_;
        let __kept = { $body };
        (__kept, value_to_self_msat_diff)
    }
//@r16
//@rw R16 ?
    if let &InboundHTLCRemovalReason::Fulfill { .. } = reason
//@with
    if let InboundHTLCRemovalReason::Fulfill { .. } = reason
//@ret r
//@requires
    htlc.amount_msat <= 21_000_000_0000_0000_000, -4_000_000_000_000_000_000 <= value_to_self_msat_diff_ <= 4_000_000_000_000_000_000,
//@ensures P C01 an-inbound-htlc-leaves-the-channel-state-when-its-removal-is-revoked-and-credits-its-amount-to-us-exactly-if-it-was-fulfilled
    r.0 == !(htlc.state is LocalRemoved),
    r.1 == value_to_self_msat_diff_ + (if in_success(htlc.state) { htlc.amount_msat as int } else { 0 }),
//@mutant failed_inbound_htlc_credited
    if let &InboundHTLCRemovalReason::Fulfill { .. } = reason { value_to_self_msat_diff += htlc.amount_msat as i64; }
//@with
    value_to_self_msat_diff += htlc.amount_msat as i64;
//@end

//@extract lightning/src/ln/channel.rs :: impl FundedChannel :: fn revoke_and_ack
//@slice R15
    pending_outbound_htlcs.retain(|htlc| { $body:any });
//@with
    fn outbound_htlc_kept_on_revoke_and_ack(htlc: &OutboundHTLCOutput, value_to_self_msat_diff_: i64, revoked_htlcs: &mut Vec<(HTLCSource, PaymentHash, HTLCFailReason)>,
        finalized_claimed_htlcs: &mut Vec<(HTLCSource, Option<AttributionData>)>) -> (bool, i64) {
        let mut value_to_self_msat_diff = value_to_self_msat_diff_;
        let __kept = { $body };
        (__kept, value_to_self_msat_diff)
    }
//@r16
//@rw R8
    hold_time_since(htlc.send_timestamp).map(|hold_time| { reason.set_hold_time(hold_time); });
//@with
    match hold_time_since(None) { Some(hold_time) => { reason.set_hold_time(hold_time); }, None => {} }
//@ret r
//@requires
    htlc.amount_msat <= 21_000_000_0000_0000_000, -4_000_000_000_000_000_000 <= value_to_self_msat_diff_ <= 4_000_000_000_000_000_000,
//@ensures P C01 an-outbound-htlc-leaves-the-channel-state-when-its-removal-is-revoked-and-debits-its-amount-from-us-exactly-if-the-peer-fulfilled-it
    r.0 == !(htlc.state is AwaitingRemovedRemoteRevoke),
    r.1 == value_to_self_msat_diff_ - (if htlc.state is AwaitingRemovedRemoteRevoke && htlc.state->AwaitingRemovedRemoteRevoke_0 is Success { htlc.amount_msat as int } else { 0 }),
//@ensures P C02,C03 a-forwarded-htlc-is-reported-for-failing-back-upstream-exactly-when-the-peer-irrevocably-removed-it-as-failed-and-for-finalizing-exactly-when-it-was-fulfilled
    final(revoked_htlcs)@.len() == old(revoked_htlcs)@.len() + (if htlc.state is AwaitingRemovedRemoteRevoke && htlc.state->AwaitingRemovedRemoteRevoke_0 is Failure { 1int } else { 0int }),
    final(finalized_claimed_htlcs)@.len() == old(finalized_claimed_htlcs)@.len() + (if htlc.state is AwaitingRemovedRemoteRevoke && htlc.state->AwaitingRemovedRemoteRevoke_0 is Success { 1int } else { 0int }),
    forall|k: int| 0 <= k < old(revoked_htlcs)@.len() ==> final(revoked_htlcs)@[k] == old(revoked_htlcs)@[k],
//@mutant fulfilled_outbound_htlc_not_debited
    value_to_self_msat_diff -= htlc.amount_msat as i64;
//@with
    value_to_self_msat_diff -= 0;
//@end

//@extract lightning/src/ln/channel.rs :: impl FundedChannel :: fn revoke_and_ack
//@slice R15
    for funding in self.funding_and_pending_funding_iter_mut() { funding.value_to_self_msat = $e; }
//@with
    fn settled_value_to_self(funding_value_to_self_msat: u64, value_to_self_msat_diff: i64) -> u64 { $e }
//@rw R5 *
    funding.value_to_self_msat
//@with
    funding_value_to_self_msat
//@ret r
//@requires
    funding_value_to_self_msat <= 21_000_000_0000_0000_000, 0 <= funding_value_to_self_msat as int + value_to_self_msat_diff <= 21_000_000_0000_0000_000,
//@ensures P C01 the-new-balance-is-the-old-one-plus-what-was-settled-to-us-minus-what-was-settled-away
    r as int == funding_value_to_self_msat as int + value_to_self_msat_diff as int,
//@mutant settlement_diff_subtracted
    funding.value_to_self_msat as i64 + value_to_self_msat_diff
//@with
    funding.value_to_self_msat as i64 - value_to_self_msat_diff
//@end

// ---- the peer removes one of our HTLCs (update_fulfill_htlc / update_fail_htlc): deep R15 slice of FundedChannel::mark_outbound_htlc_removed ----
//@extract lightning/src/ln/channel.rs :: impl FundedChannel :: fn mark_outbound_htlc_removed
//@slice R15
    if htlc.htlc_id == htlc_id { $body:any return Ok(htlc); }
//@with
    fn mark_removed_on_htlc(htlc: &mut OutboundHTLCOutput, htlc_id: u64, outcome: OutboundHTLCOutcome) -> Result<(), ChannelError> {
        $body
        return Ok(());
    }
//@rw R8
    PaymentHash(Sha256::hash(&preimage.0[..]).to_byte_array())
//@with
    PaymentHash(sha256(&preimage.0))
//@rw R8 *
    ChannelError::close(format!($f:any))
//@with
    ChannelError::close(0)
//@r7
//@ret r
//@ensures P C01,C03 a-peers-fulfil-is-accepted-only-with-the-preimage-of-the-htlcs-payment-hash-and-only-for-a-committed-htlc-which-then-records-exactly-that-outcome
    r is Ok ==> (outcome matches OutboundHTLCOutcome::Success { preimage, .. } ==> sha256_spec(preimage.0) == old(htlc).payment_hash.0)
        && old(htlc).state is Committed && final(htlc).state == OutboundHTLCState::RemoteRemoved(outcome)
        && final(htlc).amount_msat == old(htlc).amount_msat && final(htlc).payment_hash == old(htlc).payment_hash,
    r is Err ==> final(htlc).state == old(htlc).state,
//@mutant wrong_preimage_accepted
    if payment_hash != htlc.payment_hash {
//@with
    if false {
//@mutant htlc_removed_twice
    OutboundHTLCState::AwaitingRemoteRevokeToRemove(_) | OutboundHTLCState::AwaitingRemovedRemoteRevoke(_) | OutboundHTLCState::RemoteRemoved(_) =>
//@with
    OutboundHTLCState::RemoteRemoved(_) => { htlc.state = OutboundHTLCState::RemoteRemoved(outcome); }, OutboundHTLCState::AwaitingRemoteRevokeToRemove(_) | OutboundHTLCState::AwaitingRemovedRemoteRevoke(_) =>
//@end

// ---- the peer offers an HTLC: message-level tests and the state update of FundedChannel::update_add_htlc (R15 slice) ----
pub struct UpdateAddHTLC { pub htlc_id: u64, pub amount_msat: u64, pub cltv_expiry: u32, pub payment_hash: PaymentHash }
pub struct AddCtx { pub holder_htlc_minimum_msat: u64, pub next_counterparty_htlc_id: u64, pub pending_inbound_htlcs: Vec<InboundHTLCOutput> }
pub struct AddChannel { pub context: AddCtx }
impl AddChannel {
//@extract lightning/src/ln/channel.rs :: impl FundedChannel :: fn update_add_htlc
//@rw R15
    fn update_add_htlc<F: FeeEstimator>($params:any) -> $ret { $pre:any if msg.amount_msat == 0 { return Err($e0); } $tests:any core::iter::once(&self.funding) $chain:straight ; self.context.next_counterparty_htlc_id $inc:seq; self.context.pending_inbound_htlcs.push(InboundHTLCOutput { $fields:any }); Ok(()) }
//@with
    fn accept_update_add(&mut self, msg: &UpdateAddHTLC) -> Result<(), ChannelError> {
        if msg.amount_msat == 0 { return Err(ChannelError::close(0)); }
        $tests
        self.context.next_counterparty_htlc_id $inc;
        self.context.pending_inbound_htlcs.push(InboundHTLCOutput { $fields });
        Ok(())
    }
//@rw R8 *
    ChannelError::close(format!($f:any))
//@with
    ChannelError::close(0)
//@rw R8 *
    ChannelError::close($s:lit.to_owned())
//@with
    ChannelError::close(0)
//@rw R5
    InboundHTLCResolution::Pending { update_add_htlc: msg.clone(), }
//@with
    InboundHTLCResolution {}
//@ret r
//@requires
    old(self).context.next_counterparty_htlc_id < u64::MAX,
//@ensures P C01,C12 an-offered-htlc-is-taken-only-with-the-next-id-in-sequence-a-non-zero-amount-at-or-above-our-minimum-and-a-block-height-expiry-and-is-recorded-once-as-announced
    r is Ok ==> msg.htlc_id == old(self).context.next_counterparty_htlc_id && msg.amount_msat >= 1 && msg.amount_msat >= old(self).context.holder_htlc_minimum_msat && msg.cltv_expiry < 500000000
        && final(self).context.next_counterparty_htlc_id == old(self).context.next_counterparty_htlc_id + 1
        && final(self).context.pending_inbound_htlcs@.len() == old(self).context.pending_inbound_htlcs@.len() + 1
        && final(self).context.pending_inbound_htlcs@.drop_last() == old(self).context.pending_inbound_htlcs@
        && ({ let h = final(self).context.pending_inbound_htlcs@.last();
              h.htlc_id == msg.htlc_id && h.amount_msat == msg.amount_msat && h.cltv_expiry == msg.cltv_expiry && h.payment_hash == msg.payment_hash && h.state is RemoteAnnounced }),
    r is Err ==> final(self).context.next_counterparty_htlc_id == old(self).context.next_counterparty_htlc_id && final(self).context.pending_inbound_htlcs@ == old(self).context.pending_inbound_htlcs@,
//@mutant skipped_htlc_id_accepted
    self.context.next_counterparty_htlc_id != msg.htlc_id
//@with
    self.context.next_counterparty_htlc_id > msg.htlc_id
//@mutant id_counter_not_advanced
    self.context.next_counterparty_htlc_id += 1;
//@with
    self.context.next_counterparty_htlc_id += 0;
//@end
}

// ---- two-phase commit: what a received commitment_signed promotes (deep R15 slices of FundedChannel::commitment_signed_update_monitor) ----
impl Clone for InboundHTLCResolution { #[verifier::external_body] fn clone(&self) -> (r: Self) ensures r == *self { unimplemented!() } }
//@extract lightning/src/ln/channel.rs :: impl FundedChannel :: fn commitment_signed_update_monitor
//@slice R15
    for htlc in self.context.pending_inbound_htlcs.iter_mut() { $body:any } let mut claimed_htlcs
//@with
    fn inbound_htlc_on_commitment_signed(htlc: &mut InboundHTLCOutput, need_commitment_: bool) -> bool {
        let mut need_commitment = need_commitment_;
        $body
        need_commitment
    }
//@r16
//@ret r
//@ensures P C01 a-commitment_signed-moves-exactly-the-htlcs-the-peer-had-announced-one-step-on-and-asks-for-our-own-commitment-in-return
    old(htlc).state is RemoteAnnounced ==> final(htlc).state == InboundHTLCState::AwaitingRemoteRevokeToAnnounce(old(htlc).state->RemoteAnnounced_0) && r,
    !(old(htlc).state is RemoteAnnounced) ==> final(htlc).state == old(htlc).state && r == need_commitment_,
    final(htlc).htlc_id == old(htlc).htlc_id && final(htlc).amount_msat == old(htlc).amount_msat && final(htlc).payment_hash == old(htlc).payment_hash && final(htlc).cltv_expiry == old(htlc).cltv_expiry,
//@mutant announced_htlc_committed_without_waiting_for_the_revocation
    htlc.state = InboundHTLCState::AwaitingRemoteRevokeToAnnounce(htlc_resolution.clone());
//@with
    htlc.state = InboundHTLCState::AwaitingAnnouncedRemoteRevoke(htlc_resolution.clone());
//@end

pub struct SentHTLCId(pub u64);
pub uninterp spec fn sent_id_of(s: HTLCSource) -> u64;
impl SentHTLCId { #[verifier::external_body] pub fn from_source(s: &HTLCSource) -> (r: SentHTLCId) ensures r.0 == sent_id_of(*s) { unimplemented!() } }
//@extract lightning/src/ln/channel.rs :: impl FundedChannel :: fn commitment_signed_update_monitor
//@slice R15
    for htlc in self.context.pending_outbound_htlcs.iter_mut() { $body:any } match &mut update {
//@with
    fn outbound_htlc_on_commitment_signed(htlc: &mut OutboundHTLCOutput, need_commitment_: bool, claimed_htlcs: &mut Vec<(SentHTLCId, PaymentPreimage)>) -> bool {
        let mut need_commitment = need_commitment_;
        $body
        need_commitment
    }
//@rw R16
    if let &mut OutboundHTLCState::RemoteRemoved(ref mut outcome) = &mut htlc.state
//@with
    if let OutboundHTLCState::RemoteRemoved(outcome) = &mut htlc.state
//@ret r
//@ensures P C01 a-commitment_signed-moves-exactly-the-htlcs-the-peer-had-removed-one-step-on-keeping-their-outcome-and-records-every-claimed-preimage-for-the-monitor
    old(htlc).state is RemoteRemoved ==> final(htlc).state == OutboundHTLCState::AwaitingRemoteRevokeToRemove(old(htlc).state->RemoteRemoved_0) && r,
    !(old(htlc).state is RemoteRemoved) ==> final(htlc).state == old(htlc).state && r == need_commitment_ && final(claimed_htlcs)@ == old(claimed_htlcs)@,
    old(htlc).state is RemoteRemoved && old(htlc).state->RemoteRemoved_0 is Success ==> final(claimed_htlcs)@.len() == old(claimed_htlcs)@.len() + 1
        && final(claimed_htlcs)@.last().0.0 == sent_id_of(old(htlc).source) && final(claimed_htlcs)@.last().1 == old(htlc).state->RemoteRemoved_0->Success_preimage,
    old(htlc).state is RemoteRemoved && !(old(htlc).state->RemoteRemoved_0 is Success) ==> final(claimed_htlcs)@ == old(claimed_htlcs)@,
    final(htlc).amount_msat == old(htlc).amount_msat && final(htlc).htlc_id == old(htlc).htlc_id,
//@mutant claimed_preimage_not_recorded_for_the_monitor
    claimed_htlcs.push((SentHTLCId::from_source(&htlc.source), preimage));
//@with
    let _ = preimage;
//@end

//@extract lightning/src/ln/channel.rs :: impl FundedChannel :: fn revoke_and_ack
//@slice R15
    if let OutboundHTLCState::LocalAnnounced(_) = htlc.state { $a:any } if let &mut OutboundHTLCState::AwaitingRemoteRevokeToRemove(ref mut outcome) = &mut htlc.state { $b:any }
//@with
    fn outbound_htlc_promoted_on_revoke_and_ack(htlc: &mut OutboundHTLCOutput, expecting_peer_commitment_signed: &mut bool, require_commitment_: bool) -> bool {
        let mut require_commitment = require_commitment_;
        if let OutboundHTLCState::LocalAnnounced(_) = htlc.state { $a }
        if let OutboundHTLCState::AwaitingRemoteRevokeToRemove(outcome) = &mut htlc.state { $b }
        require_commitment
    }
//@ret r
//@ensures P C01 a-revocation-commits-the-htlcs-we-had-announced-and-moves-the-removals-the-peer-had-signed-one-step-on-keeping-their-outcome
    old(htlc).state is LocalAnnounced ==> final(htlc).state is Committed && *final(expecting_peer_commitment_signed) && r == require_commitment_,
    old(htlc).state is AwaitingRemoteRevokeToRemove ==> final(htlc).state == OutboundHTLCState::AwaitingRemovedRemoteRevoke(old(htlc).state->AwaitingRemoteRevokeToRemove_0) && r
        && *final(expecting_peer_commitment_signed) == *old(expecting_peer_commitment_signed),
    !(old(htlc).state is LocalAnnounced) && !(old(htlc).state is AwaitingRemoteRevokeToRemove) ==> final(htlc).state == old(htlc).state && r == require_commitment_
        && *final(expecting_peer_commitment_signed) == *old(expecting_peer_commitment_signed),
    final(htlc).amount_msat == old(htlc).amount_msat && final(htlc).htlc_id == old(htlc).htlc_id,
//@mutant removal_finalised_one_revocation_early
    htlc.state = OutboundHTLCState::AwaitingRemovedRemoteRevoke(reason);
//@with
    htlc.state = OutboundHTLCState::Committed; let _ = reason;
//@end

// ---- disconnection: uncommitted updates of the peer are forgotten so that it can send them again with the same ids (three deep R15 slices of remove_uncommitted_htlcs_and_mark_paused) ----
//@extract lightning/src/ln/channel.rs :: impl FundedChannel :: fn remove_uncommitted_htlcs_and_mark_paused
//@slice R15
    self.context.pending_inbound_htlcs.retain(|htlc| { $body:any });
//@with
    fn inbound_htlc_kept_on_disconnect(htlc: &InboundHTLCOutput, inbound_drop_count_: u64) -> (bool, u64) {
        let mut inbound_drop_count = inbound_drop_count_;
        let __kept = { $body };
        (__kept, inbound_drop_count)
    }
//@ret r
//@requires
    inbound_drop_count_ < u64::MAX,
//@ensures P C01,C12,C10 on-disconnection-exactly-the-inbound-htlcs-the-peer-announced-but-never-committed-are-dropped-and-counted
    r.0 == !(htlc.state is RemoteAnnounced),
    r.1 == inbound_drop_count_ + (if htlc.state is RemoteAnnounced { 1int } else { 0int }),
//@mutant half_committed_inbound_htlc_dropped_on_disconnect
    InboundHTLCState::AwaitingRemoteRevokeToAnnounce(_)|InboundHTLCState::AwaitingAnnouncedRemoteRevoke(_) => { true },
//@with
    InboundHTLCState::AwaitingRemoteRevokeToAnnounce(_)|InboundHTLCState::AwaitingAnnouncedRemoteRevoke(_) => { false },
//@end
pub struct DiscCtx { pub next_counterparty_htlc_id: u64 }
pub struct DiscChannel { pub context: DiscCtx }
impl DiscChannel {
//@extract lightning/src/ln/channel.rs :: impl FundedChannel :: fn remove_uncommitted_htlcs_and_mark_paused
//@slice R15
    }); self.context.next_counterparty_htlc_id $dec:seq; if let Some((_, update_state)) = self.context.pending_update_fee {
//@with
    fn give_back_ids_of_dropped_htlcs(&mut self, inbound_drop_count: u64) { self.context.next_counterparty_htlc_id $dec; }
//@requires
    old(self).context.next_counterparty_htlc_id >= inbound_drop_count,
//@ensures P C01,C12,C10 the-ids-of-the-dropped-htlcs-are-given-back-so-the-peer-can-reuse-them
    final(self).context.next_counterparty_htlc_id == old(self).context.next_counterparty_htlc_id - inbound_drop_count,
//@end
}
//@extract lightning/src/ln/channel.rs :: impl FundedChannel :: fn remove_uncommitted_htlcs_and_mark_paused
//@slice R15
    for htlc in self.context.pending_outbound_htlcs.iter_mut() { $body:any } self.context.channel_state.set_peer_disconnected();
//@with
    fn outbound_htlc_on_disconnect(htlc: &mut OutboundHTLCOutput) { $body }
//@ensures P C01,C10 on-disconnection-a-removal-the-peer-sent-but-never-committed-is-rolled-back-to-committed
    old(htlc).state is RemoteRemoved ==> final(htlc).state is Committed,
    !(old(htlc).state is RemoteRemoved) ==> final(htlc).state == old(htlc).state,
    final(htlc).amount_msat == old(htlc).amount_msat && final(htlc).htlc_id == old(htlc).htlc_id,
//@mutant uncommitted_removal_survives_the_disconnection
    htlc.state = OutboundHTLCState::Committed;
//@with
    
//@end
}
fn main() {}
