//! unit: u09e
//! properties: C09 C01
//! note: the fee negotiation of a cooperative close does not start (no closing_signed is released, none is answered) while a monitor update is in progress or the peer is disconnected (ChannelContext::closing_negotiation_ready, the match on the channel state): the flags allow it only when both sides have sent shutdown and neither MONITOR_UPDATE_IN_PROGRESS nor PEER_DISCONNECTED is set - in a channel still awaiting channel_ready just as in a ready one
//! trusted: R15 (deep slice): the `match self.channel_state { .. }` that computes is_ready_to_close, arms verbatim; R8: the two bit-flag comparisons are read with their bit-level meaning through two predicates of a flag skeleton: `flags & FundedStateFlags::ALL == LOCAL_SHUTDOWN_SENT | REMOTE_SHUTDOWN_SENT` -> "of the four funded-state flags exactly the two shutdown flags are set", `flags == LOCAL_SHUTDOWN_SENT | REMOTE_SHUTDOWN_SENT` -> "exactly the two shutdown flags are set and no other flag" (the macro-generated accessors is_*_sent / is_monitor_update_in_progress / is_peer_disconnected are available on the skeleton with their meaning, so that a change that uses them is verified)
//! trusted: assume_specification for core::cmp::max / core::cmp::min (std definitions): present in every unit so that a change that introduces them is verified instead of being rejected by the tool
use vstd::prelude::*;
verus! {
use vstd::std_specs::cmp::*;
use core::cmp;
pub assume_specification<T: core::cmp::Ord>[core::cmp::max::<T>](a: T, b: T) -> (r: T)
    ensures T::obeys_cmp_spec() ==> r == (if b.cmp_spec(&a) == core::cmp::Ordering::Less { a } else { b });
pub assume_specification<T: core::cmp::Ord>[core::cmp::min::<T>](a: T, b: T) -> (r: T)
    ensures T::obeys_cmp_spec() ==> r == (if b.cmp_spec(&a) == core::cmp::Ordering::Less { b } else { a });
#[derive(Clone, Copy)] pub struct Flags { pub peer_disconnected: bool, pub monitor_update_in_progress: bool, pub remote_shutdown_sent: bool, pub local_shutdown_sent: bool, pub other: bool }
impl Flags {
    pub fn is_peer_disconnected(&self) -> (r: bool) ensures r == self.peer_disconnected { self.peer_disconnected }
    pub fn is_monitor_update_in_progress(&self) -> (r: bool) ensures r == self.monitor_update_in_progress { self.monitor_update_in_progress }
    pub fn is_remote_shutdown_sent(&self) -> (r: bool) ensures r == self.remote_shutdown_sent { self.remote_shutdown_sent }
    pub fn is_local_shutdown_sent(&self) -> (r: bool) ensures r == self.local_shutdown_sent { self.local_shutdown_sent }
    pub fn funded_flags_are_exactly_both_shutdowns(&self) -> (r: bool) ensures r == (!self.peer_disconnected && !self.monitor_update_in_progress && self.remote_shutdown_sent && self.local_shutdown_sent)
    { !self.peer_disconnected && !self.monitor_update_in_progress && self.remote_shutdown_sent && self.local_shutdown_sent }
    pub fn all_flags_are_exactly_both_shutdowns(&self) -> (r: bool) ensures r == (!self.peer_disconnected && !self.monitor_update_in_progress && self.remote_shutdown_sent && self.local_shutdown_sent && !self.other)
    { !self.peer_disconnected && !self.monitor_update_in_progress && self.remote_shutdown_sent && self.local_shutdown_sent && !self.other }
}
#[derive(Clone, Copy)] pub enum ChannelState { NegotiatingFunding(Flags), FundingNegotiated(Flags), AwaitingChannelReady(Flags), ChannelReady(Flags), ShutdownComplete }
pub struct ChannelContext { pub channel_state: ChannelState }
impl ChannelContext {
//@extract lightning/src/ln/channel.rs :: impl ChannelContext :: fn closing_negotiation_ready
//@slice R15
    let is_ready_to_close = match self.channel_state { $arms:any };
//@with
    fn the_state_allows_the_closing_negotiation(&self) -> bool { let is_ready_to_close = match self.channel_state { $arms }; is_ready_to_close }
//@rw R8 ?
    flags & FundedStateFlags::ALL == FundedStateFlags::LOCAL_SHUTDOWN_SENT | FundedStateFlags::REMOTE_SHUTDOWN_SENT
//@with
    flags.funded_flags_are_exactly_both_shutdowns()
//@rw R8 ?
    flags == FundedStateFlags::LOCAL_SHUTDOWN_SENT | FundedStateFlags::REMOTE_SHUTDOWN_SENT
//@with
    flags.all_flags_are_exactly_both_shutdowns()
//@ret r
//@ensures P C09,C01 the-closing-fee-negotiation-starts-only-after-both-shutdowns-with-no-monitor-update-in-progress-and-the-peer-connected-whether-or-not-channel-ready-was-exchanged
    r ==> (match self.channel_state { ChannelState::AwaitingChannelReady(f) => !f.monitor_update_in_progress && !f.peer_disconnected && f.local_shutdown_sent && f.remote_shutdown_sent,
                                      ChannelState::ChannelReady(f) => !f.monitor_update_in_progress && !f.peer_disconnected && f.local_shutdown_sent && f.remote_shutdown_sent, _ => false }),
    (match self.channel_state { ChannelState::AwaitingChannelReady(f) => !f.monitor_update_in_progress && !f.peer_disconnected && f.local_shutdown_sent && f.remote_shutdown_sent,
                                ChannelState::ChannelReady(f) => !f.monitor_update_in_progress && !f.peer_disconnected && f.local_shutdown_sent && f.remote_shutdown_sent && !f.other, _ => false }) ==> r,
//@mutant negotiation_starts_while_a_monitor_update_is_in_progress
    flags & FundedStateFlags::ALL == FundedStateFlags::LOCAL_SHUTDOWN_SENT | FundedStateFlags::REMOTE_SHUTDOWN_SENT
//@with
    flags.is_local_shutdown_sent() && flags.is_remote_shutdown_sent()
//@end
}
}
fn main() {}
