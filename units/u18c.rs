//! unit: u18c
//! properties: C18
//! note: BOLT-12: a parsed invoice request, invoice or static invoice exists only if its signature verifies, under the signature tag, over the merkle root of exactly the bytes that were parsed, against the key named in those bytes (cryptography and the merkle construction uninterpreted)
//! novaclemmas: lemma hypotheses are empty
//! plemma: C18 lemma_branch_hash_is_symmetric: the branch hash of two children does not depend on the order in which they are given
//! trusted: R15 (deep slices): the three `TryFrom<ParsedMessage<..>>::try_from` functions unpack large TLV tuples and run semantic validation; the unit extracts, on every run and verbatim, the signature tail of each (missing-signature test, TaggedHash::from_valid_tlv_stream_bytes(SIGNATURE_TAG, &bytes), choice of the key, merkle::verify_signature(..)?), and merkle::verify_signature whole; Secp256k1::verify_schnorr is external_body over the uninterpreted schnorr_valid; TaggedHash is an opaque value determined by (tag, bytes); contents skeletons keep only the signing keys; TLV parsing, semantic validation of the contents and construction of the result are dropped and not claimed
//! trusted: assume_specification for core::cmp::max / core::cmp::min (std definitions): present in every unit so that a change that introduces them is verified instead of being rejected by the tool
//! trusted: merkle_hashes: tagged_hash_engine, tagged_hash_from_engine and tagged_branch_hash_from_engine are extracted whole against a SHA256 engine stub that records the concatenation of its inputs (sha256_spec uninterpreted); `mut engine` / `msg: T: AsRef<[u8]>` parameters are taken as a by-value engine bound to a mutable local and a byte slice (R5); `leaf1 < leaf2` on hashes is the uninterpreted total order hash_lt (axiom: antisymmetric and total); merkle_tlv_data: the predicate that selects the records covered by the root is sliced (SIGNATURE_TYPES, a RangeInclusive<u64> constant, is re-declared as a two-field range with the same bounds and RangeInclusive's contains / start / end, R1; statements placed between the tag engines and the filter are part of the slice); root_hash's pairing loop (step_by / zip) and the per-record hashing closure are not under contract
use vstd::prelude::*;
verus! {
use vstd::std_specs::cmp::*;
use core::cmp;
pub assume_specification<T: core::cmp::Ord>[core::cmp::max::<T>](a: T, b: T) -> (r: T)
    ensures T::obeys_cmp_spec() ==> r == (if b.cmp_spec(&a) == core::cmp::Ordering::Less { a } else { b });
pub assume_specification<T: core::cmp::Ord>[core::cmp::min::<T>](a: T, b: T) -> (r: T)
    ensures T::obeys_cmp_spec() ==> r == (if b.cmp_spec(&a) == core::cmp::Ordering::Less { b } else { a });
#[derive(Clone, Copy)] pub struct Signature(pub u64);
#[derive(Clone, Copy)] pub struct PublicKey(pub u64);
#[derive(Clone, Copy)] pub struct XOnlyPublicKey(pub u64);
#[derive(Clone, Copy)] pub struct Digest(pub u64);
#[derive(Clone, Copy)] pub struct TaggedHash(pub u64);
pub uninterp spec fn schnorr_valid(s: Signature, d: Digest, k: XOnlyPublicKey) -> bool;
pub uninterp spec fn xonly(k: PublicKey) -> XOnlyPublicKey;
pub uninterp spec fn digest_of(h: TaggedHash) -> Digest;
pub uninterp spec fn tagged_hash_of(tag: Seq<char>, bytes: Seq<u8>) -> TaggedHash;
impl PublicKey { #[verifier::external_body] pub fn into(self) -> (r: XOnlyPublicKey) ensures r == xonly(self) { unimplemented!() } }
impl TaggedHash {
    #[verifier::external_body] pub fn as_digest(&self) -> (r: &Digest) ensures *r == digest_of(*self) { unimplemented!() }
    #[verifier::external_body] pub fn from_valid_tlv_stream_bytes(tag: &str, bytes: &Vec<u8>) -> (r: TaggedHash) ensures r == tagged_hash_of(tag@, bytes@) { unimplemented!() }
}
pub enum SecpError { Invalid }
pub struct Secp256k1 {}
impl Secp256k1 {
    #[verifier::external_body] pub fn verification_only() -> Secp256k1 { unimplemented!() }
    #[verifier::external_body] pub fn verify_schnorr(&self, s: &Signature, d: &Digest, k: &XOnlyPublicKey) -> (r: Result<(), SecpError>) ensures r is Ok <==> schnorr_valid(*s, *d, *k) { unimplemented!() }
}
pub open spec fn bolt12_sig_ok(s: Signature, h: TaggedHash, k: PublicKey) -> bool { schnorr_valid(s, digest_of(h), xonly(k)) }
//@extract lightning/src/offers/merkle.rs :: fn verify_signature
//@strip secp256k1
//@rw R5
    Result<(), Error>
//@with
    Result<(), SecpError>
//@ret r
//@ensures P C18 a-bolt12-signature-verifies-only-as-a-schnorr-signature-over-the-tagged-hash-digest-under-the-given-key
    r is Ok <==> bolt12_sig_ok(*signature, *message, pubkey),
//@end
// signing: whatever the signer callback answers, only a signature that verifies under the signing key over the message's tagged hash is handed back
pub enum SignError { Signing, Verification(SecpError) }
pub struct Signer { pub id: u64 }
pub uninterp spec fn signer_answers(f: Signer, m: TaggedHash) -> Result<Signature, ()>;
impl Signer { #[verifier::external_body] pub fn sign(&self, message: &TaggedHash) -> (r: Result<Signature, ()>) ensures r == signer_answers(*self, *message) { unimplemented!() } }
impl TaggedHash { pub fn as_ref(&self) -> (r: &TaggedHash) ensures r == self { self } }
//@extract lightning/src/offers/merkle.rs :: fn sign_message
//@strip secp256k1
//@rw R5
    pub fn sign_message<F, T>(f: F, message: &T, pubkey: PublicKey) -> Result<Signature, SignError> where F: SignFn<T>, T: AsRef<TaggedHash>,
//@with
    pub fn sign_message(f: Signer, message: &TaggedHash, pubkey: PublicKey) -> Result<Signature, SignError>
//@rw R9
    .map_err(|()| SignError::Signing)?
//@with
    .map_err(|__u: ()| -> (e: SignError) ensures e is Signing { SignError::Signing })?
//@rw R9 ?
    .map_err(|e| SignError::Verification(e))?
//@with
    .map_err(|e: SecpError| -> (x: SignError) ensures x is Verification { SignError::Verification(e) })?
//@ret r
//@ensures P C18 a-bolt12-signature-is-handed-back-by-sign-message-only-if-it-verifies-under-the-signing-key-over-the-messages-tagged-hash
    r is Ok ==> signer_answers(f, *message) == Ok::<Signature, ()>(r->Ok_0) && bolt12_sig_ok(r->Ok_0, *message, pubkey),
    signer_answers(f, *message) is Err ==> r is Err && r->Err_0 is Signing,
    signer_answers(f, *message) is Ok && !bolt12_sig_ok(signer_answers(f, *message)->Ok_0, *message, pubkey) ==> r is Err && r->Err_0 is Verification,
//@mutant signature_returned_without_being_checked
    secp_ctx.verify_schnorr(&signature, digest, &pubkey).map_err(|e| SignError::Verification(e))?;
//@with

//@end
pub mod merkle { pub use super::verify_signature; }
pub enum Bolt12SemanticError { MissingSignature }
pub enum Bolt12ParseError { InvalidSemantics(Bolt12SemanticError), InvalidSignature(SecpError) }
impl vstd::std_specs::convert::FromSpecImpl<SecpError> for Bolt12ParseError {
    open spec fn obeys_from_spec() -> bool { true }
    open spec fn from_spec(e: SecpError) -> Bolt12ParseError { Bolt12ParseError::InvalidSignature(e) }
}
impl core::convert::From<SecpError> for Bolt12ParseError { fn from(e: SecpError) -> Bolt12ParseError { Bolt12ParseError::InvalidSignature(e) } }

pub mod invoice {
use super::*;
//@extract lightning/src/offers/invoice.rs :: const SIGNATURE_TAG
//@end
pub struct InvoiceFields { pub signing_pubkey: PublicKey }
pub struct InvoiceContents { pub f: InvoiceFields }
impl InvoiceContents { #[verifier::external_body] pub fn fields(&self) -> (r: &InvoiceFields) ensures *r == self.f { unimplemented!() } }
//@extract lightning/src/offers/invoice.rs :: impl TryFrom<ParsedMessage<FullInvoiceTlvStream>> for Bolt12Invoice :: fn try_from
//@slice R15
    let signature = signature $sig:seq; let tagged_hash = $th; let pubkey = $pk; $vs:seq; let offer_id
//@with
    fn invoice_signature_tail(signature: Option<Signature>, bytes: &Vec<u8>, contents: &InvoiceContents) -> Result<(), Bolt12ParseError> {
        let signature = signature $sig;
        let tagged_hash = $th;
        let pubkey = $pk;
        $vs;
        Ok(())
    }
//@ret r
//@ensures P C18 a-parsed-bolt12-invoice-carries-a-signature-that-verifies-over-its-own-bytes-against-the-signing-key-it-names
    r is Ok ==> signature is Some && bolt12_sig_ok(signature->Some_0, tagged_hash_of(SIGNATURE_TAG@, bytes@), contents.f.signing_pubkey),
//@mutant invoice_signature_checked_but_result_dropped
    merkle::verify_signature(&signature, &tagged_hash, pubkey)?;
//@with
    let _ = merkle::verify_signature(&signature, &tagged_hash, pubkey);
//@end
}

pub mod invoice_request {
use super::*;
//@extract lightning/src/offers/invoice_request.rs :: const SIGNATURE_TAG
//@end
pub struct InvoiceRequestContents { pub payer_signing_pubkey: PublicKey }
//@extract lightning/src/offers/invoice_request.rs :: impl TryFrom<Vec<u8>> for InvoiceRequest :: fn try_from
//@slice R15
    let signature = match signature { $arms:any }; let message = $th; $vs:seq; Ok(InvoiceRequest
//@with
    fn invoice_request_signature_tail(signature: Option<Signature>, bytes: &Vec<u8>, contents: &InvoiceRequestContents) -> Result<(), Bolt12ParseError> {
        let signature = match signature { $arms };
        let message = $th;
        $vs;
        Ok(())
    }
//@ret r
//@ensures P C18 a-parsed-invoice-request-carries-a-signature-that-verifies-over-its-own-bytes-against-the-payer-key-it-names
    r is Ok ==> signature is Some && bolt12_sig_ok(signature->Some_0, tagged_hash_of(SIGNATURE_TAG@, bytes@), contents.payer_signing_pubkey),
//@mutant request_verified_against_a_hash_of_other_bytes
    TaggedHash::from_valid_tlv_stream_bytes(SIGNATURE_TAG, &bytes)
//@with
    TaggedHash::from_valid_tlv_stream_bytes(SIGNATURE_TAG, &Vec::new())
//@end
}

pub mod static_invoice {
use super::*;
//@extract lightning/src/offers/static_invoice.rs :: const SIGNATURE_TAG
//@end
pub struct StaticInvoiceContents { pub signing_pubkey: PublicKey }
//@extract lightning/src/offers/static_invoice.rs :: impl TryFrom<ParsedMessage<FullInvoiceTlvStream>> for StaticInvoice :: fn try_from
//@slice R15
    let signature = match signature { $arms:any }; let tagged_hash = $th; let pubkey = $pk; $vs:seq; let offer_id
//@with
    fn static_invoice_signature_tail(signature: Option<Signature>, bytes: &Vec<u8>, contents: &StaticInvoiceContents) -> Result<(), Bolt12ParseError> {
        let signature = match signature { $arms };
        let tagged_hash = $th;
        let pubkey = $pk;
        $vs;
        Ok(())
    }
//@ret r
//@ensures P C18 a-parsed-static-invoice-carries-a-signature-that-verifies-over-its-own-bytes-against-the-signing-key-it-names
    r is Ok ==> signature is Some && bolt12_sig_ok(signature->Some_0, tagged_hash_of(SIGNATURE_TAG@, bytes@), contents.signing_pubkey),
//@mutant static_invoice_without_signature_accepted
    None => { return Err(Bolt12ParseError::InvalidSemantics( Bolt12SemanticError::MissingSignature, )) },
//@with
    None => Signature(0),
//@end
}

// ---- merkle.rs: the tagged hashes the signed root is built from -----------------------------------------------
pub mod merkle_hashes {
use vstd::prelude::*;
pub uninterp spec fn sha256_spec(b: Seq<u8>) -> [u8; 32];
pub struct HashEngine { pub data: Ghost<Seq<u8>> }
impl HashEngine { #[verifier::external_body] pub fn input(&mut self, bytes: &[u8]) ensures final(self).data@ == old(self).data@ + bytes@ { unimplemented!() } }
#[derive(Clone, Copy)] pub struct Hash { pub v: [u8; 32] }
// byte-wise lexicographic order of two hashes (bitcoin_hashes' Ord), uninterpreted but total and antisymmetric
pub uninterp spec fn hash_lt(a: [u8; 32], b: [u8; 32]) -> bool;
#[verifier::external_body] pub proof fn axiom_hash_order(a: [u8; 32], b: [u8; 32]) ensures !(hash_lt(a, b) && hash_lt(b, a)), a != b ==> (hash_lt(a, b) || hash_lt(b, a)), !hash_lt(a, a) {}
impl Hash {
    #[verifier::external_body] pub fn engine() -> (r: HashEngine) ensures r.data@ == Seq::<u8>::empty() { unimplemented!() }
    #[verifier::external_body] pub fn from_engine(e: HashEngine) -> (r: Hash) ensures r.v == sha256_spec(e.data@) { unimplemented!() }
    pub fn as_ref(&self) -> (r: &[u8; 32]) ensures *r == self.v { &self.v }
    #[verifier::external_body] pub fn lt(&self, o: &Hash) -> (r: bool) ensures r == hash_lt(self.v, o.v) { unimplemented!() }
}
// BIP-340 style tagged hash: SHA256(tag || tag || msg) with tag = SHA256(name)
pub open spec fn tagged(tag: [u8; 32], msg: Seq<u8>) -> [u8; 32] { sha256_spec(((Seq::<u8>::empty() + tag@) + tag@) + msg) }
pub open spec fn lo(a: [u8; 32], b: [u8; 32]) -> [u8; 32] { if hash_lt(a, b) { a } else { b } }
pub open spec fn hi(a: [u8; 32], b: [u8; 32]) -> [u8; 32] { if hash_lt(a, b) { b } else { a } }
//@extract lightning/src/offers/merkle.rs :: fn tagged_hash_engine
//@strip sha256
//@ret r
//@ensures P C18 a-tagged-hash-engine-starts-from-the-tag-twice
    r.data@ == (Seq::<u8>::empty() + tag.v@) + tag.v@,
//@end
//@extract lightning/src/offers/merkle.rs :: fn tagged_hash_from_engine
//@strip sha256
//@rw R5
    fn tagged_hash_from_engine<T: AsRef<[u8]>>( mut engine: HashEngine, msg: T, )
//@with
    fn tagged_hash_from_engine( engine_: HashEngine, msg: &[u8], )
//@rw R5
    msg.as_ref()
//@with
    msg
//@at body_start
    let mut engine = engine_;
//@ret r
//@ensures P C18 a-tagged-hash-commits-to-everything-fed-to-the-engine-and-the-message
    r.v == sha256_spec(engine_.data@ + msg@),
//@end
//@extract lightning/src/offers/merkle.rs :: fn tagged_branch_hash_from_engine
//@strip sha256
//@rw R5
    mut engine: HashEngine,
//@with
    engine_: HashEngine,
//@rw R8
    leaf1 < leaf2
//@with
    leaf1.lt(&leaf2)
//@at body_start
    let mut engine = engine_;
//@ret r
//@ensures P C18 a-merkle-branch-commits-to-both-children-smaller-hash-first-whatever-the-order-they-are-given-in
    r.v == sha256_spec((engine_.data@ + lo(leaf1.v, leaf2.v)@) + hi(leaf1.v, leaf2.v)@),
//@mutant branch_hashes_only_one_child
    engine.input(leaf2.as_ref()); engine.input(leaf1.as_ref());
//@with
    engine.input(leaf2.as_ref()); engine.input(leaf2.as_ref());
//@end
pub struct TypeRange { pub lo: u64, pub hi: u64 }
impl TypeRange {
    pub fn contains(&self, t: &u64) -> (r: bool) ensures r == (self.lo <= *t <= self.hi) { self.lo <= *t && *t <= self.hi }
    pub fn start(&self) -> (r: &u64) ensures *r == self.lo { &self.lo }
    pub fn end(&self) -> (r: &u64) ensures *r == self.hi { &self.hi }
}
//@extract lightning/src/offers/merkle.rs :: const SIGNATURE_TYPES
//@rw R1
    : core::ops::RangeInclusive<u64> = $a:lit..=$b:lit;
//@with
    : TypeRange = TypeRange { lo: $a, hi: $b };
//@end
pub struct TlvRecord { pub r#type: u64 }
//@extract lightning/src/offers/merkle.rs :: fn merkle_tlv_data
//@slice R15
    let iter_branch_tag = branch_tag.clone(); $pre:straight let tlv_data = tlv_stream.filter($mv:any |record| $p:cond).map(move |record| {
//@with
    fn record_is_covered_by_the_root(record: &TlvRecord) -> bool { $pre $p }
//@ret r
//@ensures P C18 every-tlv-record-outside-the-signature-range-240-to-1000-is-covered-by-the-signed-merkle-root
    r == !(240 <= record.r#type <= 1000),
//@mutant records_above_the_signature_range_left_unsigned
    !SIGNATURE_TYPES.contains(&record.r#type)
//@with
    record.r#type < 240
//@end
pub proof fn lemma_branch_hash_is_symmetric(e: Seq<u8>, a: [u8; 32], b: [u8; 32])
    ensures sha256_spec((e + lo(a, b)@) + hi(a, b)@) == sha256_spec((e + lo(b, a)@) + hi(b, a)@)
{ axiom_hash_order(a, b); }
}
}
fn main() {}
