//! unit: u18c
//! properties: C18
//! note: BOLT-12: a parsed invoice request, invoice or static invoice exists only if its signature verifies, under the signature tag, over the merkle root of exactly the bytes that were parsed, against the key named in those bytes (cryptography and the merkle construction uninterpreted)
//! novaclemmas: no lemmas
//! trusted: R15 (deep slices): the three `TryFrom<ParsedMessage<..>>::try_from` functions unpack large TLV tuples and run semantic validation; the unit extracts, on every run and verbatim, the signature tail of each (missing-signature test, TaggedHash::from_valid_tlv_stream_bytes(SIGNATURE_TAG, &bytes), choice of the key, merkle::verify_signature(..)?), and merkle::verify_signature whole; Secp256k1::verify_schnorr is external_body over the uninterpreted schnorr_valid; TaggedHash is an opaque value determined by (tag, bytes); contents skeletons keep only the signing keys; TLV parsing, semantic validation of the contents and construction of the result are dropped and not claimed
//! trusted: assume_specification for core::cmp::max / core::cmp::min (std definitions): present in every unit so that a change that introduces them is verified instead of being rejected by the tool
use vstd::prelude::*;
verus! {
use vstd::std_specs::cmp::*;
use core::cmp;
pub assume_specification<T: core::cmp::Ord>[core::cmp::max::<T>](a: T, b: T) -> (r: T)
    ensures T::obeys_cmp_spec() ==> r == (if b.cmp_spec(&a) == core::cmp::Ordering::Less { a } else { b });
pub assume_specification<T: core::cmp::Ord>[core::cmp::min::<T>](a: T, b: T) -> (r: T)
    ensures T::obeys_cmp_spec() ==> r == (if b.cmp_spec(&a) == core::cmp::Ordering::Less { b } else { a });
#[derive(Clone, Copy)] pub struct Signature(pub u64);
#[derive(Clone, Copy)] pub struct PublicKey(pub u64);
#[derive(Clone, Copy)] pub struct XOnlyPublicKey(pub u64);
#[derive(Clone, Copy)] pub struct Digest(pub u64);
#[derive(Clone, Copy)] pub struct TaggedHash(pub u64);
pub uninterp spec fn schnorr_valid(s: Signature, d: Digest, k: XOnlyPublicKey) -> bool;
pub uninterp spec fn xonly(k: PublicKey) -> XOnlyPublicKey;
pub uninterp spec fn digest_of(h: TaggedHash) -> Digest;
pub uninterp spec fn tagged_hash_of(tag: Seq<char>, bytes: Seq<u8>) -> TaggedHash;
impl PublicKey { #[verifier::external_body] pub fn into(self) -> (r: XOnlyPublicKey) ensures r == xonly(self) { unimplemented!() } }
impl TaggedHash {
    #[verifier::external_body] pub fn as_digest(&self) -> (r: &Digest) ensures *r == digest_of(*self) { unimplemented!() }
    #[verifier::external_body] pub fn from_valid_tlv_stream_bytes(tag: &str, bytes: &Vec<u8>) -> (r: TaggedHash) ensures r == tagged_hash_of(tag@, bytes@) { unimplemented!() }
}
pub enum SecpError { Invalid }
pub struct Secp256k1 {}
impl Secp256k1 {
    #[verifier::external_body] pub fn verification_only() -> Secp256k1 { unimplemented!() }
    #[verifier::external_body] pub fn verify_schnorr(&self, s: &Signature, d: &Digest, k: &XOnlyPublicKey) -> (r: Result<(), SecpError>) ensures r is Ok <==> schnorr_valid(*s, *d, *k) { unimplemented!() }
}
pub open spec fn bolt12_sig_ok(s: Signature, h: TaggedHash, k: PublicKey) -> bool { schnorr_valid(s, digest_of(h), xonly(k)) }
//@extract lightning/src/offers/merkle.rs :: fn verify_signature
//@strip secp256k1
//@rw R5
    Result<(), Error>
//@with
    Result<(), SecpError>
//@ret r
//@ensures P C18 a-bolt12-signature-verifies-only-as-a-schnorr-signature-over-the-tagged-hash-digest-under-the-given-key
    r is Ok <==> bolt12_sig_ok(*signature, *message, pubkey),
//@end
pub mod merkle { pub use super::verify_signature; }
pub enum Bolt12SemanticError { MissingSignature }
pub enum Bolt12ParseError { InvalidSemantics(Bolt12SemanticError), InvalidSignature(SecpError) }
impl vstd::std_specs::convert::FromSpecImpl<SecpError> for Bolt12ParseError {
    open spec fn obeys_from_spec() -> bool { true }
    open spec fn from_spec(e: SecpError) -> Bolt12ParseError { Bolt12ParseError::InvalidSignature(e) }
}
impl core::convert::From<SecpError> for Bolt12ParseError { fn from(e: SecpError) -> Bolt12ParseError { Bolt12ParseError::InvalidSignature(e) } }

pub mod invoice {
use super::*;
//@extract lightning/src/offers/invoice.rs :: const SIGNATURE_TAG
//@end
pub struct InvoiceFields { pub signing_pubkey: PublicKey }
pub struct InvoiceContents { pub f: InvoiceFields }
impl InvoiceContents { #[verifier::external_body] pub fn fields(&self) -> (r: &InvoiceFields) ensures *r == self.f { unimplemented!() } }
//@extract lightning/src/offers/invoice.rs :: impl TryFrom<ParsedMessage<FullInvoiceTlvStream>> for Bolt12Invoice :: fn try_from
//@slice R15
    let signature = signature $sig:seq; let tagged_hash = $th; let pubkey = $pk; $vs:seq; let offer_id
//@with
    fn invoice_signature_tail(signature: Option<Signature>, bytes: &Vec<u8>, contents: &InvoiceContents) -> Result<(), Bolt12ParseError> {
        let signature = signature $sig;
        let tagged_hash = $th;
        let pubkey = $pk;
        $vs;
        Ok(())
    }
//@ret r
//@ensures P C18 a-parsed-bolt12-invoice-carries-a-signature-that-verifies-over-its-own-bytes-against-the-signing-key-it-names
    r is Ok ==> signature is Some && bolt12_sig_ok(signature->Some_0, tagged_hash_of(SIGNATURE_TAG@, bytes@), contents.f.signing_pubkey),
//@mutant invoice_signature_checked_but_result_dropped
    merkle::verify_signature(&signature, &tagged_hash, pubkey)?;
//@with
    let _ = merkle::verify_signature(&signature, &tagged_hash, pubkey);
//@end
}

pub mod invoice_request {
use super::*;
//@extract lightning/src/offers/invoice_request.rs :: const SIGNATURE_TAG
//@end
pub struct InvoiceRequestContents { pub payer_signing_pubkey: PublicKey }
//@extract lightning/src/offers/invoice_request.rs :: impl TryFrom<Vec<u8>> for InvoiceRequest :: fn try_from
//@slice R15
    let signature = match signature { $arms:any }; let message = $th; $vs:seq; Ok(InvoiceRequest
//@with
    fn invoice_request_signature_tail(signature: Option<Signature>, bytes: &Vec<u8>, contents: &InvoiceRequestContents) -> Result<(), Bolt12ParseError> {
        let signature = match signature { $arms };
        let message = $th;
        $vs;
        Ok(())
    }
//@ret r
//@ensures P C18 a-parsed-invoice-request-carries-a-signature-that-verifies-over-its-own-bytes-against-the-payer-key-it-names
    r is Ok ==> signature is Some && bolt12_sig_ok(signature->Some_0, tagged_hash_of(SIGNATURE_TAG@, bytes@), contents.payer_signing_pubkey),
//@mutant request_verified_against_a_hash_of_other_bytes
    TaggedHash::from_valid_tlv_stream_bytes(SIGNATURE_TAG, &bytes)
//@with
    TaggedHash::from_valid_tlv_stream_bytes(SIGNATURE_TAG, &Vec::new())
//@end
}

pub mod static_invoice {
use super::*;
//@extract lightning/src/offers/static_invoice.rs :: const SIGNATURE_TAG
//@end
pub struct StaticInvoiceContents { pub signing_pubkey: PublicKey }
//@extract lightning/src/offers/static_invoice.rs :: impl TryFrom<ParsedMessage<FullInvoiceTlvStream>> for StaticInvoice :: fn try_from
//@slice R15
    let signature = match signature { $arms:any }; let tagged_hash = $th; let pubkey = $pk; $vs:seq; let offer_id
//@with
    fn static_invoice_signature_tail(signature: Option<Signature>, bytes: &Vec<u8>, contents: &StaticInvoiceContents) -> Result<(), Bolt12ParseError> {
        let signature = match signature { $arms };
        let tagged_hash = $th;
        let pubkey = $pk;
        $vs;
        Ok(())
    }
//@ret r
//@ensures P C18 a-parsed-static-invoice-carries-a-signature-that-verifies-over-its-own-bytes-against-the-signing-key-it-names
    r is Ok ==> signature is Some && bolt12_sig_ok(signature->Some_0, tagged_hash_of(SIGNATURE_TAG@, bytes@), contents.signing_pubkey),
//@mutant static_invoice_without_signature_accepted
    None => { return Err(Bolt12ParseError::InvalidSemantics( Bolt12SemanticError::MissingSignature, )) },
//@with
    None => Signature(0),
//@end
}
}
fn main() {}
