//! unit: u14d
//! properties: C14 C03
//! note: attribution data (onion_utils.rs AttributionData): which bytes each of the 20 truncated HMACs a hop adds covers (message, the hold times up to the assumed position, the downstream HMACs of that position: write_downstream_hmacs whole, add_hmacs whole with an inductive invariant, get_hmac / get_hmac_mut / get_hold_time_bytes index arithmetic in bounds for all 210 HMAC slots), that the sender's verify recomputes exactly the HMAC the hop stored for that position (consistency lemma: whatever a hop adds verifies at every position), that the hold time returned is the one in slot 0, and that update writes the hold time big-endian into slot 0 before the HMACs are computed
//! trusted: HmacEngine is a stub that records key and the concatenation of its inputs in ghost fields (HmacEngine::<Sha256>::new -> HmacEngine::new); Hmac::from_engine(..).to_byte_array() is the uninterpreted hmac_sha256(key, data); gen_um_from_shared_secret is the uninterpreted um_of; fixed_time_eq is a stub (equal lengths required, result = equality of the bytes)
//! trusted: R8: `&a[lo..hi]` / `&a[..hi]` on arrays -> arr_range (the bytes lo..hi), `&mut a[lo..hi]` -> arr_range_mut (mutable-reference prophecy: the array afterwards is the old one with lo..hi replaced by what the slice holds at the end), <[u8]>::copy_from_slice is vstd's, `x.to_be_bytes()` -> u32_to_be_bytes, `u32::from_be_bytes(s.try_into().unwrap())` -> u32_from_be_slice (be32 an uninterpreted bijection), `&x` where x is already a slice reference -> x
//! trusted: assume_specification for core::cmp::max / core::cmp::min (std definitions): present in every unit so that a change that introduces them is verified instead of being rejected by the tool
//! trusted: build_unencrypted_failure_packet whole: VecWriter is a skeleton over its Vec; <u16 as Writeable>::write appends the two big-endian bytes and never fails on a VecWriter (be16 uninterpreted); update_attribution_data is a stub (attribution data present afterwards, failure data untouched; the update itself is under contract in this unit); update_fail_htlc_wire_len is the uninterpreted wire_len(data length, attribution present); R8: `&[0; 32]` -> 32 zero bytes, `&v[lo..]` / `&v[lo..hi]` / `v[..32].copy_from_slice(..)` on the Vec through vec_suffix / vec_range / vec_range_mut (prophecy as for arrays)
//! trusted: R15 (deep slices): process_onion_failure_inner: the legacy-HMAC test (`continue` written as `return false`), the length test in front of everything, `attributable_hop_count` and the position handed to verify (capture); decode_fulfill_attribution_data: the same count, the `take(..)` bound and the position; `!=` between byte slices -> slice_eq wrapper
//! assume: a failure's data fits a u16 length with its two-byte code (failure_data.len() + 2 <= 65535; LDK's own failure data is at most a channel_update), and the update_fail_htlc carrying the padded packet with attribution data fits a Lightning message (LDK's debug_assert, stated over the uninterpreted wire length)
//! plemma: C14 lemma_built_failure_is_authentic: a failure packet built by a hop passes the sender's HMAC test under the same shared secret
//! plemma: C14 lemma_added_hmacs_verify: after a hop has added its HMACs, the sender's check succeeds for that hop at every position 0..19 and reports the hold time the hop wrote
use vstd::prelude::*;
// reads the bound of a trailing `.take(n)` off an iterator expression; an iterator without one is not cut off
macro_rules! take_bound { (shared_secrets.enumerate().take($n:expr)) => { $n }; ($($other:tt)*) => { usize::MAX }; }
verus! {
use vstd::std_specs::cmp::*;
use core::cmp;
pub assume_specification<T: core::cmp::Ord>[core::cmp::max::<T>](a: T, b: T) -> (r: T)
    ensures T::obeys_cmp_spec() ==> r == (if b.cmp_spec(&a) == core::cmp::Ordering::Less { a } else { b });
pub assume_specification<T: core::cmp::Ord>[core::cmp::min::<T>](a: T, b: T) -> (r: T)
    ensures T::obeys_cmp_spec() ==> r == (if b.cmp_spec(&a) == core::cmp::Ordering::Less { b } else { a });
//@const lightning/src/ln/onion_utils.rs HOLD_TIME_LEN MAX_HOPS HMAC_LEN HMAC_COUNT
pub uninterp spec fn hmac_sha256(key: [u8; 32], data: Seq<u8>) -> [u8; 32];
pub uninterp spec fn um_of(ss: Seq<u8>) -> [u8; 32];
pub uninterp spec fn be32(x: u32) -> Seq<u8>;
pub uninterp spec fn un32(s: Seq<u8>) -> u32;
#[verifier::external_body] pub broadcast proof fn ax_be32(x: u32) ensures (#[trigger] be32(x)).len() == 4, un32(be32(x)) == x {}
pub struct HmacEngine { pub key: Ghost<[u8; 32]>, pub data: Ghost<Seq<u8>> }
impl HmacEngine {
    #[verifier::external_body] pub fn new(key: &[u8; 32]) -> (r: HmacEngine) ensures r.key@ == *key, r.data@ == Seq::<u8>::empty() { unimplemented!() }
    #[verifier::external_body] pub fn input(&mut self, d: &[u8]) ensures final(self).key@ == old(self).key@, final(self).data@ == old(self).data@ + d@ { unimplemented!() }
}
pub struct Hmac { pub v: [u8; 32] }
impl Hmac {
    #[verifier::external_body] pub fn from_engine(e: HmacEngine) -> (r: Hmac) ensures r.v == hmac_sha256(e.key@, e.data@) { unimplemented!() }
    #[verifier::external_body] pub fn to_byte_array(self) -> (r: [u8; 32]) ensures r == self.v { unimplemented!() }
}
#[verifier::external_body] pub fn gen_um_from_shared_secret(shared_secret: &[u8]) -> (r: [u8; 32]) ensures r == um_of(shared_secret@) { unimplemented!() }
#[verifier::external_body] pub fn fixed_time_eq(a: &[u8], b: &[u8]) -> (r: bool) requires a@.len() == b@.len() ensures r == (a@ == b@) { unimplemented!() }
#[verifier::external_body] pub fn arr_range<const N: usize>(a: &[u8; N], lo: usize, hi: usize) -> (s: &[u8])
    requires lo <= hi <= N ensures s@ == a@.subrange(lo as int, hi as int) { &a[lo..hi] }
#[verifier::external_body] pub fn arr_range_mut<const N: usize>(a: &mut [u8; N], lo: usize, hi: usize) -> (s: &mut [u8])
    requires lo <= hi <= N
    ensures s@ == old(a)@.subrange(lo as int, hi as int), final(s)@.len() == s@.len(),
        final(a)@ == old(a)@.subrange(0, lo as int) + final(s)@ + old(a)@.subrange(hi as int, N as int)
{ &mut a[lo..hi] }
#[verifier::external_body] pub fn u32_to_be_bytes(x: u32) -> (r: [u8; 4]) ensures r@ == be32(x) { x.to_be_bytes() }
#[verifier::external_body] pub fn u32_from_be_slice(s: &[u8]) -> (r: u32) requires s@.len() == 4 ensures r == un32(s@) { unimplemented!() }

//@extract lightning/src/ln/onion_utils.rs :: struct AttributionData
//@end
// the k-th 4-byte HMAC slot
pub open spec fn hm(hmacs: Seq<u8>, k: int) -> Seq<u8> { hmacs.subrange(k * 4, k * 4 + 4) }
// index of the j-th downstream HMAC a node at `position` covers: the slot, in the block of the j-th hop downstream of us, that
// was computed for that hop's own position (position - 1 - j); blocks shrink by one slot per hop (BOLT 4 attribution layout)
pub open spec fn ds_idx(position: int, j: int) -> int decreases j { if j <= 0 { 39 - position } else { ds_idx(position, j - 1) + 20 - (j - 1) - 1 } }
pub open spec fn ds(hmacs: Seq<u8>, position: int, j: int) -> Seq<u8> decreases j { if j <= 0 { Seq::empty() } else { ds(hmacs, position, j - 1) + hm(hmacs, ds_idx(position, j - 1)) } }
pub proof fn lemma_ds_idx_closed(position: int, j: int)
    requires 0 <= j ensures 2 * ds_idx(position, j) == 78 - 2 * position + 38 * j - j * (j - 1) decreases j
{
    if j > 0 { lemma_ds_idx_closed(position, j - 1); assert(j * (j - 1) == (j - 1) * (j - 2) + 2 * (j - 1)) by (nonlinear_arith); }
    else { assert(j * (j - 1) == 0) by (nonlinear_arith) requires j == 0; }
}
pub proof fn lemma_ds_idx_bounds(position: int, j: int)
    requires 0 <= j < position <= 19 ensures 20 <= ds_idx(position, j) <= 209
{
    lemma_ds_idx_closed(position, j);
    assert(37 * j - j * j <= 342) by (nonlinear_arith) requires 0 <= j <= 18;
    assert(j * (j - 1) == j * j - j) by (nonlinear_arith);
    assert(38 * j - j * (j - 1) >= 0) by (nonlinear_arith) requires 0 <= j <= 18;
}
// the downstream HMACs live in slots 20.. only: they do not depend on the first block (the one the current hop fills)
pub proof fn lemma_ds_frame(h1: Seq<u8>, h2: Seq<u8>, position: int, j: int)
    requires 0 <= j <= position <= 19, h1.len() == 840, h2.len() == 840, h1.subrange(80, 840) == h2.subrange(80, 840)
    ensures ds(h1, position, j) == ds(h2, position, j) decreases j
{
    if j > 0 {
        lemma_ds_frame(h1, h2, position, j - 1);
        lemma_ds_idx_bounds(position, j - 1);
        let k = ds_idx(position, j - 1);
        assert(hm(h1, k) =~= h1.subrange(80, 840).subrange(k * 4 - 80, k * 4 + 4 - 80));
        assert(hm(h2, k) =~= h2.subrange(80, 840).subrange(k * 4 - 80, k * 4 + 4 - 80));
    }
}
// what the HMAC for `position` covers, and the truncated HMAC itself
pub open spec fn covered(message: Seq<u8>, hold_times: Seq<u8>, hmacs: Seq<u8>, position: int) -> Seq<u8> {
    message + hold_times.subrange(0, (position + 1) * 4) + ds(hmacs, position, position)
}
pub open spec fn tag(ss: Seq<u8>, message: Seq<u8>, hold_times: Seq<u8>, hmacs: Seq<u8>, position: int) -> Seq<u8> {
    hmac_sha256(um_of(ss), covered(message, hold_times, hmacs, position))@.subrange(0, 4)
}
impl AttributionData {
//@extract lightning/src/ln/onion_utils.rs :: impl AttributionData :: fn get_hmac
//@rw R8
    &self.hmacs[$lo:seq..$hi:seq]
//@with
    arr_range(&self.hmacs, $lo, $hi)
//@ret r
//@requires
    idx < 210,
//@ensures A
    r@ == hm(self.hmacs@, idx as int),
//@mutant hmac_slot_one_byte_late
    idx * HMAC_LEN..
//@with
    idx * HMAC_LEN + 1..
//@end
//@extract lightning/src/ln/onion_utils.rs :: impl AttributionData :: fn get_hmac_mut
//@rw R8
    &mut self.hmacs[$lo:seq..$hi:seq]
//@with
    arr_range_mut(&mut self.hmacs, $lo, $hi)
//@ret r
//@requires
    idx < 210,
//@ensures A
    r@ == hm(old(self).hmacs@, idx as int), final(r)@.len() == 4, final(self).hold_times == old(self).hold_times,
    final(self).hmacs@ == old(self).hmacs@.subrange(0, idx * 4) + final(r)@ + old(self).hmacs@.subrange(idx * 4 + 4, 840),
//@end
//@extract lightning/src/ln/onion_utils.rs :: impl AttributionData :: fn get_hold_time_bytes
//@rw R8
    &self.hold_times[$lo:seq..$hi:seq]
//@with
    arr_range(&self.hold_times, $lo, $hi)
//@ret r
//@requires
    idx < 20,
//@ensures A
    r@ == self.hold_times@.subrange(idx * 4, idx * 4 + 4),
//@end
//@extract lightning/src/ln/onion_utils.rs :: impl AttributionData :: fn write_downstream_hmacs
//@rw R5
    w: &mut HmacEngine<Sha256>
//@with
    w: &mut HmacEngine
//@requires
    position < 20,
//@ensures P C14 the-hmac-for-an-assumed-position-covers-exactly-the-downstream-hmacs-computed-for-the-positions-below-it
    final(w).key@ == old(w).key@, final(w).data@ == old(w).data@ + ds(self.hmacs@, position as int, position as int),
//@loop 1 iter=it
    invariant position < 20, it.iter.end == position, w.key@ == old(w).key@,
        hmac_idx == ds_idx(position as int, it.index@ as int),
        w.data@ == old(w).data@ + ds(self.hmacs@, position as int, it.index@ as int),
//@at loop_body_start 1
    proof { lemma_ds_idx_bounds(position as int, j as int); }
//@at loop_body_end 1
    proof { assert(w.data@ =~= old(w).data@ + ds(self.hmacs@, position as int, j as int + 1)); }
//@mutant downstream_block_size_off_by_one
    let block_size = MAX_HOPS - j - 1;
//@with
    let block_size = MAX_HOPS - j;
//@mutant first_downstream_hmac_off_by_one
    MAX_HOPS + MAX_HOPS - position - 1
//@with
    MAX_HOPS + MAX_HOPS - position
//@end
//@extract lightning/src/ln/onion_utils.rs :: impl AttributionData :: fn add_hmacs
//@rw R8
    gen_um_from_shared_secret(&shared_secret)
//@with
    gen_um_from_shared_secret(shared_secret)
//@rw R5
    HmacEngine::<Sha256>::new(
//@with
    HmacEngine::new(
//@rw R8
    hmac_engine.input(&message)
//@with
    hmac_engine.input(message)
//@rw R8
    &self.hold_times[..$hi:seq]
//@with
    arr_range(&self.hold_times, 0, $hi)
//@rw R8
    &full_hmac[..HMAC_LEN]
//@with
    arr_range(&full_hmac, 0, HMAC_LEN)
//@ensures P C14 a-hop-stores-for-every-position-it-could-be-at-the-truncated-hmac-over-the-message-the-hold-times-up-to-that-position-and-that-positions-downstream-hmacs
    final(self).hold_times == old(self).hold_times,
    final(self).hmacs@.subrange(80, 840) == old(self).hmacs@.subrange(80, 840),
    forall|p: int| 0 <= p < 20 ==> #[trigger] hm(final(self).hmacs@, 19 - p) == tag(shared_secret@, message@, old(self).hold_times@, old(self).hmacs@, p),
//@loop 1 iter=it
    invariant it.iter.end == 20, um == um_of(shared_secret@), self.hold_times == old(self).hold_times,
        self.hmacs@.subrange(80, 840) == old(self).hmacs@.subrange(80, 840),
        forall|k: int| 0 <= k < it.index@ ==> #[trigger] hm(self.hmacs@, k) == tag(shared_secret@, message@, old(self).hold_times@, old(self).hmacs@, 19 - k),
//@at loop_body_start 1
    let ghost before = self.hmacs@;
    proof { lemma_ds_frame(self.hmacs@, old(self).hmacs@, 19 - hmac_idx as int, 19 - hmac_idx as int); }
//@at loop_body_end 1
    proof {
        let after = self.hmacs@;
        let i = hmac_idx as int;
        assert(after.subrange(80, 840) =~= before.subrange(80, 840));
        assert(hm(after, i) =~= hmac@);
        assert forall|k: int| 0 <= k < i implies #[trigger] hm(after, k) == tag(shared_secret@, message@, old(self).hold_times@, old(self).hmacs@, 19 - k) by {
            assert(hm(after, k) =~= hm(before, k));
        }
    }
//@at after_loop 1
    proof { assert forall|p: int| 0 <= p < 20 implies #[trigger] hm(self.hmacs@, 19 - p) == tag(shared_secret@, message@, old(self).hold_times@, old(self).hmacs@, p) by { let k = 19 - p; assert(hm(self.hmacs@, k) == tag(shared_secret@, message@, old(self).hold_times@, old(self).hmacs@, 19 - k)); } }
//@mutant position_counted_from_the_wrong_end
    let position: usize = MAX_HOPS - hmac_idx - 1;
//@with
    let position: usize = hmac_idx;
//@mutant own_hold_time_left_out_of_the_hmac
    ..(position + 1) * HOLD_TIME_LEN]
//@with
    ..position * HOLD_TIME_LEN]
//@end
//@extract lightning/src/ln/onion_utils.rs :: impl AttributionData :: fn verify
//@rw R5
    HmacEngine::<Sha256>::new(
//@with
    HmacEngine::new(
//@rw R8
    hmac.input(&message)
//@with
    hmac.input(message)
//@rw R8
    &self.hold_times[..$hi:seq]
//@with
    arr_range(&self.hold_times, 0, $hi)
//@rw R8
    let $x:ident = &Hmac::from_engine(hmac).to_byte_array()[..$hi:seq];
//@with
    let __full = Hmac::from_engine(hmac).to_byte_array(); let $x = arr_range(&__full, 0, $hi);
//@rw R8
    u32::from_be_bytes(self.get_hold_time_bytes($k:seq).try_into().unwrap())
//@with
    u32_from_be_slice(self.get_hold_time_bytes($k))
//@ret r
//@requires
    position < 20,
//@ensures P C14 the-sender-accepts-a-hops-attribution-exactly-when-the-stored-hmac-for-that-position-is-the-hmac-over-what-the-hop-covered-and-then-reports-the-hold-time-in-the-first-slot
    r is Ok <==> hm(self.hmacs@, 19 - position) == tag(shared_secret@, message@, self.hold_times@, self.hmacs@, position as int),
    r is Ok ==> r->Ok_0 == un32(self.hold_times@.subrange(0, 4)),
//@mutant verified_against_the_slot_of_another_position
    let hmac_idx = MAX_HOPS - position - 1;
//@with
    let hmac_idx = MAX_HOPS - position;
//@mutant hold_time_taken_from_the_second_slot
    self.get_hold_time_bytes(0)
//@with
    self.get_hold_time_bytes(1)
//@end
//@extract lightning/src/ln/onion_utils.rs :: impl AttributionData :: fn update
//@rw R8
    hold_time.to_be_bytes()
//@with
    u32_to_be_bytes(hold_time)
//@rw R8
    self.hold_times[..HOLD_TIME_LEN].copy_from_slice(&hold_time_bytes)
//@with
    arr_range_mut(&mut self.hold_times, 0, HOLD_TIME_LEN).copy_from_slice(arr_range(&hold_time_bytes, 0, 4))
//@ensures P C14 a-hop-writes-its-hold-time-big-endian-into-the-first-slot-and-only-then-computes-its-hmacs-over-the-updated-hold-times
    final(self).hold_times@ == be32(hold_time) + old(self).hold_times@.subrange(4, 80),
    final(self).hmacs@.subrange(80, 840) == old(self).hmacs@.subrange(80, 840),
    forall|p: int| 0 <= p < 20 ==> #[trigger] hm(final(self).hmacs@, 19 - p) == tag(shared_secret@, message@, final(self).hold_times@, old(self).hmacs@, p),
//@at body_start
    broadcast use ax_be32;
//@mutant hmacs_computed_before_the_hold_time_is_written
    self.hold_times[..HOLD_TIME_LEN].copy_from_slice(&hold_time_bytes); self.add_hmacs(shared_secret, message);
//@with
    self.add_hmacs(shared_secret, message); self.hold_times[..HOLD_TIME_LEN].copy_from_slice(&hold_time_bytes);
//@end
}

// ---- failure packets: what a hop builds and what the sender checks ----
#[derive(Debug)] pub struct Error {}
pub struct VecWriter(pub Vec<u8>);
pub uninterp spec fn be16(x: u16) -> Seq<u8>;
#[verifier::external_body] pub broadcast proof fn ax_be16(x: u16) ensures (#[trigger] be16(x)).len() == 2 {}
pub trait Writeable { fn write(&self, w: &mut VecWriter) -> (r: Result<(), Error>); }
impl Writeable for u16 { #[verifier::external_body] fn write(&self, w: &mut VecWriter) -> (r: Result<(), Error>) ensures r is Ok, final(w).0@ == old(w).0@ + be16(*self) { unimplemented!() } }
pub struct LocalHTLCFailureReason { pub code: u16 }
impl LocalHTLCFailureReason { #[verifier::external_body] pub fn failure_code(&self) -> (r: u16) ensures r == self.code { unimplemented!() } }
pub struct OnionErrorPacket { pub data: Vec<u8>, pub attribution_data: Option<AttributionData> }
pub uninterp spec fn wire_len(data_len: int, with_attribution: bool) -> int;
#[verifier::external_body] pub fn update_fail_htlc_wire_len(onion_error: &OnionErrorPacket) -> (r: usize)
    ensures r == wire_len(onion_error.data@.len() as int, onion_error.attribution_data is Some) { unimplemented!() }
//@const lightning/src/ln/peer_channel_encryptor.rs LN_MAX_MSG_LEN
// get_or_insert(AttributionData::new()) + update: attribution data is present afterwards, the failure data untouched (u14b states the same; the update itself is under contract above)
#[verifier::external_body] pub fn update_attribution_data(onion_error_packet: &mut OnionErrorPacket, shared_secret: &[u8], hold_time: u32)
    ensures final(onion_error_packet).data == old(onion_error_packet).data, final(onion_error_packet).attribution_data is Some { unimplemented!() }
#[verifier::external_body] pub fn zero32() -> (r: [u8; 32]) ensures r@ == Seq::new(32, |i: int| 0u8) { [0u8; 32] }
#[verifier::external_body] pub fn vec_suffix(v: &Vec<u8>, lo: usize) -> (s: &[u8]) requires lo <= v@.len() ensures s@ == v@.subrange(lo as int, v@.len() as int) { &v[lo..] }
#[verifier::external_body] pub fn vec_range(v: &Vec<u8>, lo: usize, hi: usize) -> (s: &[u8]) requires lo <= hi <= v@.len() ensures s@ == v@.subrange(lo as int, hi as int) { &v[lo..hi] }
#[verifier::external_body] pub fn vec_range_mut(v: &mut Vec<u8>, lo: usize, hi: usize) -> (s: &mut [u8])
    requires lo <= hi <= old(v)@.len()
    ensures s@ == old(v)@.subrange(lo as int, hi as int), final(s)@.len() == s@.len(),
        final(v)@ == old(v)@.subrange(0, lo as int) + final(s)@ + old(v)@.subrange(hi as int, old(v)@.len() as int)
{ &mut v[lo..hi] }
// BOLT 4 failure packet before encryption: hmac(32) || failure_len(2) || code(2) || data || pad_len(2) || pad
pub open spec fn failure_body(code: u16, data: Seq<u8>, pad_len: int) -> Seq<u8> {
    be16((2 + data.len()) as u16) + be16(code) + data + be16(pad_len as u16) + Seq::new(pad_len as nat, |i: int| 0u8)
}
//@extract lightning/src/ln/onion_utils.rs :: fn build_unencrypted_failure_packet
//@rw R5
    HmacEngine::<Sha256>::new(
//@with
    HmacEngine::new(
//@rw R8
    gen_um_from_shared_secret(&shared_secret)
//@with
    gen_um_from_shared_secret(shared_secret)
//@rw R8
    &[0; 32]
//@with
    arr_range(&zero32(), 0, 32)
//@rw R8
    &failure_data[..]
//@with
    failure_data
//@rw R8
    &writer.0[$lo:seq..]
//@with
    vec_suffix(&writer.0, $lo)
//@rw R8
    writer.0[..32].copy_from_slice(&hmac)
//@with
    vec_range_mut(&mut writer.0, 0, 32).copy_from_slice(arr_range(&hmac, 0, 32))
//@ret packet
//@requires
    shared_secret@.len() == 32, failure_data@.len() + 2 <= 0xffff, min_packet_len <= 0xffff,
    wire_len(32 + 2 + 2 + cmp_max_int(failure_data@.len() as int, min_packet_len as int - 2) + 2, true) <= 65535,
//@ensures P C14 a-failure-packet-is-the-hmac-under-the-hops-um-key-over-length-code-data-and-padding-and-is-padded-to-the-minimum-length
    ({ let pad = if min_packet_len as int >= 2 + failure_data@.len() { min_packet_len as int - 2 - failure_data@.len() } else { 0 };
       let body = failure_body(failure_reason.code, failure_data@, pad);
       packet.data@ == hmac_sha256(um_of(shared_secret@), body)@ + body }),
    packet.data@.len() >= 32 + 4 + min_packet_len, packet.attribution_data is Some,
//@at body_start
    broadcast use ax_be16;
    let ghost pad = if min_packet_len as int >= 2 + failure_data@.len() { min_packet_len as int - 2 - failure_data@.len() } else { 0 };
    let ghost body = failure_body(failure_reason.code, failure_data@, pad);
//@at before `writer.0.resize`
    let ghost pre = writer.0@;
    let ghost head = be16((2 + failure_data@.len()) as u16) + be16(failure_reason.code) + failure_data@ + be16(pad as u16);
    proof { assert(pad_len == pad); assert(pre =~= Seq::new(32, |i: int| 0u8) + head); }
//@at before `let um = gen_um_from_shared_secret`
    proof {
        let w = writer.0@;
        assert(w.len() == 32 + head.len() + pad);
        assert(w.subrange(0, pre.len() as int) == pre);
        assert(body =~= head + Seq::new(pad as nat, |i: int| 0u8));
        assert forall|i: int| 0 <= i < body.len() implies w.subrange(32, w.len() as int)[i] == body[i] by {
            if i < head.len() { assert(w[32 + i] == w.subrange(0, pre.len() as int)[32 + i]); }
        }
        assert(w.subrange(32, w.len() as int) =~= body);
    }
//@at before `let mut packet = OnionErrorPacket`
    proof { assert(writer.0@ =~= hmac@ + body); }
//@mutant failure_code_written_before_the_length
    (failure_len as u16).write(&mut writer).unwrap(); failure_reason.failure_code().write(&mut writer).unwrap();
//@with
    failure_reason.failure_code().write(&mut writer).unwrap(); (failure_len as u16).write(&mut writer).unwrap();
//@mutant hmac_covers_its_own_slot
    hmac.input(&writer.0[32..]);
//@with
    hmac.input(&writer.0[0..]);
//@mutant padding_counts_the_code_twice
    let pad_len = min_packet_len.saturating_sub(failure_len);
//@with
    let pad_len = min_packet_len.saturating_sub(failure_len + 2);
//@end
pub open spec fn cmp_max_int(a: int, b: int) -> int { if a >= b { a } else { b } }

// ---- the sender's side (process_onion_failure_inner / decode_fulfill_attribution_data) ----
//@extract lightning/src/ln/onion_utils.rs :: fn process_onion_failure_inner
//@slice R15
    let mut hmac = HmacEngine::<Sha256>::new(&um); hmac.input($cov:seq); if $mismatch:cond { continue; }
//@with
    fn failure_is_authentic_for_this_hop(um: [u8; 32], encrypted_packet: &OnionErrorPacket) -> bool {
        let mut hmac = HmacEngine::new(&um); hmac.input($cov);
        proof { assert(hmac.data@ =~= encrypted_packet.data@.subrange(32, encrypted_packet.data@.len() as int));
                assert(hmac_sha256(um, hmac.data@)@.subrange(0, 32) =~= hmac_sha256(um, hmac.data@)@); }
        if $mismatch { return false; } true }
//@rw R8
    &encrypted_packet.data[$lo:seq..]
//@with
    vec_suffix(&encrypted_packet.data, $lo)
//@rw R8
    &Hmac::from_engine(hmac).to_byte_array() != &encrypted_packet.data[..32]
//@with
    !slice_eq(arr_range(&Hmac::from_engine(hmac).to_byte_array(), 0, 32), vec_range(&encrypted_packet.data, 0, 32))
//@ret r
//@requires
    encrypted_packet.data@.len() >= 32,
//@ensures P C14,C03 a-failure-is-attributed-to-a-hop-only-if-its-first-32-bytes-are-the-hmac-under-that-hops-um-key-over-the-rest-of-the-packet
    r == (hmac_sha256(um, encrypted_packet.data@.subrange(32, encrypted_packet.data@.len() as int))@ == encrypted_packet.data@.subrange(0, 32)),
//@mutant failure_hmac_checked_over_the_whole_packet
    hmac.input(&encrypted_packet.data[32..]);
//@with
    hmac.input(&encrypted_packet.data[31..]);
//@end
#[verifier::external_body] pub fn slice_eq(a: &[u8], b: &[u8]) -> (r: bool) ensures r == (a@ == b@) { a == b }
// (P) what a hop builds passes the sender's check under the same shared secret
pub proof fn lemma_built_failure_is_authentic(ss: Seq<u8>, code: u16, data: Seq<u8>, pad: int)
    requires pad >= 0
    ensures ({ let body = failure_body(code, data, pad); let pkt = hmac_sha256(um_of(ss), body)@ + body;
               hmac_sha256(um_of(ss), pkt.subrange(32, pkt.len() as int))@ == pkt.subrange(0, 32) })
{
    let body = failure_body(code, data, pad); let h = hmac_sha256(um_of(ss), body)@; let pkt = h + body;
    assert(h.len() == 32);
    assert(pkt.subrange(32, pkt.len() as int) =~= body);
    assert(pkt.subrange(0, 32) =~= h);
}
//@extract lightning/src/ln/onion_utils.rs :: fn process_onion_failure_inner
//@slice R15
    if encrypted_packet.data.len() < $min:seq { return permanent_failure(); }
//@with
    fn failure_too_short_to_attribute(encrypted_packet: &OnionErrorPacket) -> bool { if encrypted_packet.data.len() < $min { return true; } false }
//@ret r
//@ensures P C14,C03 a-failure-packet-too-short-to-hold-an-hmac-is-given-up-on-before-any-slice-of-it-is-taken
    !r ==> encrypted_packet.data@.len() >= 32,
//@mutant short_failure_packets_let_through
    encrypted_packet.data.len() < 32
//@with
    encrypted_packet.data.len() < 31
//@end
//@extract lightning/src/ln/onion_utils.rs :: fn process_onion_failure_inner
//@capture R15
    if route_hop_idx < attributable_hop_count { let position = $pos:seq; let res = attribution_data.verify( &encrypted_packet.data, shared_secret.as_ref(), position, );
//@slice R15
    let attributable_hop_count = $n:seq;
//@with
    fn position_a_failure_hop_is_verified_at(path_hops_len: usize, route_hop_idx: usize) -> Option<usize> {
        let attributable_hop_count = $n;
        if route_hop_idx < attributable_hop_count { let position = $pos; Some(position) } else { None } }
//@rw R5
    path.hops.len()
//@with
    path_hops_len
//@ret r
//@ensures P C14 hop-i-of-a-path-is-verified-at-the-position-counted-from-the-last-attributable-hop-and-hops-beyond-the-twentieth-are-not-verified
    r == (if route_hop_idx < 20 && route_hop_idx < path_hops_len { Some(((if path_hops_len < 20 { path_hops_len } else { 20 }) - route_hop_idx - 1) as usize) } else { None::<usize> }),
    r is Some ==> r->Some_0 < 20,
//@mutant failure_position_counted_from_the_first_hop
    let position = attributable_hop_count - route_hop_idx - 1;
//@with
    let position = route_hop_idx;
//@end
//@extract lightning/src/ln/onion_utils.rs :: mod fuzzy_onion_utils :: fn decode_fulfill_attribution_data
//@capture R15
    let position = $pos:seq; let res = attribution_data.verify(&Vec::new(), shared_secret.as_ref(), position);
//@capture R15
    for (route_hop_idx, shared_secret) in $it:seq { attribution_data.crypt(
//@slice R15
    let attributable_hop_count = $n:seq;
//@with
    fn position_a_fulfill_hop_is_verified_at(path_hops_len: usize, route_hop_idx: usize) -> Option<usize> {
        let attributable_hop_count = $n;
        // the iterator walks the path's hops (one shared secret each), cut off by the `.take(..)` the source puts on it, if any (read off the captured iterator expression by take_bound!)
        if route_hop_idx < path_hops_len && route_hop_idx < take_bound!($it) { let position = $pos; Some(position) } else { None } }
//@rw R5
    path.hops.len()
//@with
    path_hops_len
//@ret r
//@ensures P C14 hold-times-of-a-fulfilled-payment-are-verified-hop-by-hop-at-the-position-counted-from-the-last-attributable-hop
    r == (if route_hop_idx < 20 && route_hop_idx < path_hops_len { Some(((if path_hops_len < 20 { path_hops_len } else { 20 }) - route_hop_idx - 1) as usize) } else { None::<usize> }),
    r is Some ==> r->Some_0 < 20,
//@mutant fulfill_position_off_by_one
    let position = attributable_hop_count - route_hop_idx - 1;
//@with
    let position = attributable_hop_count - route_hop_idx;
//@end
// (P) whatever a hop adds verifies: for every position the sender might check this hop at, the stored HMAC is the recomputed one and the
// reported hold time is the one the hop wrote (s0: attribution data as received and shifted right; s1: after update)
pub proof fn lemma_added_hmacs_verify(s0: AttributionData, s1: AttributionData, ss: Seq<u8>, message: Seq<u8>, hold_time: u32, position: int)
    requires 0 <= position < 20,
        // postcondition of update(message, ss, hold_time) from s0 to s1
        s1.hold_times@ == be32(hold_time) + s0.hold_times@.subrange(4, 80),
        s1.hmacs@.subrange(80, 840) == s0.hmacs@.subrange(80, 840),
        forall|p: int| 0 <= p < 20 ==> #[trigger] hm(s1.hmacs@, 19 - p) == tag(ss, message, s1.hold_times@, s0.hmacs@, p),
    ensures
        // postcondition of verify(message, ss, position) on s1: Ok(hold_time)
        hm(s1.hmacs@, 19 - position) == tag(ss, message, s1.hold_times@, s1.hmacs@, position),
        un32(s1.hold_times@.subrange(0, 4)) == hold_time,
{
    broadcast use ax_be32;
    lemma_ds_frame(s1.hmacs@, s0.hmacs@, position, position);
    assert(hm(s1.hmacs@, 19 - position) == tag(ss, message, s1.hold_times@, s0.hmacs@, position));
    assert(s1.hold_times@.subrange(0, 4) =~= be32(hold_time));
}
}
fn main() {}
