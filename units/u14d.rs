//! unit: u14d
//! properties: C14
//! note: attribution data (onion_utils.rs AttributionData): which bytes each of the 20 truncated HMACs a hop adds covers (message, the hold times up to the assumed position, the downstream HMACs of that position: write_downstream_hmacs whole, add_hmacs whole with an inductive invariant, get_hmac / get_hmac_mut / get_hold_time_bytes index arithmetic in bounds for all 210 HMAC slots), that the sender's verify recomputes exactly the HMAC the hop stored for that position (consistency lemma: whatever a hop adds verifies at every position), that the hold time returned is the one in slot 0, and that update writes the hold time big-endian into slot 0 before the HMACs are computed
//! trusted: HmacEngine is a stub that records key and the concatenation of its inputs in ghost fields (HmacEngine::<Sha256>::new -> HmacEngine::new); Hmac::from_engine(..).to_byte_array() is the uninterpreted hmac_sha256(key, data); gen_um_from_shared_secret is the uninterpreted um_of; fixed_time_eq is a stub (equal lengths required, result = equality of the bytes)
//! trusted: R8: `&a[lo..hi]` / `&a[..hi]` on arrays -> arr_range (the bytes lo..hi), `&mut a[lo..hi]` -> arr_range_mut (mutable-reference prophecy: the array afterwards is the old one with lo..hi replaced by what the slice holds at the end), <[u8]>::copy_from_slice is vstd's, `x.to_be_bytes()` -> u32_to_be_bytes, `u32::from_be_bytes(s.try_into().unwrap())` -> u32_from_be_slice (be32 an uninterpreted bijection), `&x` where x is already a slice reference -> x
//! trusted: assume_specification for core::cmp::max / core::cmp::min (std definitions): present in every unit so that a change that introduces them is verified instead of being rejected by the tool
//! plemma: C14 lemma_added_hmacs_verify: after a hop has added its HMACs, the sender's check succeeds for that hop at every position 0..19 and reports the hold time the hop wrote
use vstd::prelude::*;
verus! {
use vstd::std_specs::cmp::*;
use core::cmp;
pub assume_specification<T: core::cmp::Ord>[core::cmp::max::<T>](a: T, b: T) -> (r: T)
    ensures T::obeys_cmp_spec() ==> r == (if b.cmp_spec(&a) == core::cmp::Ordering::Less { a } else { b });
pub assume_specification<T: core::cmp::Ord>[core::cmp::min::<T>](a: T, b: T) -> (r: T)
    ensures T::obeys_cmp_spec() ==> r == (if b.cmp_spec(&a) == core::cmp::Ordering::Less { b } else { a });
//@const lightning/src/ln/onion_utils.rs HOLD_TIME_LEN MAX_HOPS HMAC_LEN HMAC_COUNT
pub uninterp spec fn hmac_sha256(key: [u8; 32], data: Seq<u8>) -> [u8; 32];
pub uninterp spec fn um_of(ss: Seq<u8>) -> [u8; 32];
pub uninterp spec fn be32(x: u32) -> Seq<u8>;
pub uninterp spec fn un32(s: Seq<u8>) -> u32;
#[verifier::external_body] pub broadcast proof fn ax_be32(x: u32) ensures (#[trigger] be32(x)).len() == 4, un32(be32(x)) == x {}
pub struct HmacEngine { pub key: Ghost<[u8; 32]>, pub data: Ghost<Seq<u8>> }
impl HmacEngine {
    #[verifier::external_body] pub fn new(key: &[u8; 32]) -> (r: HmacEngine) ensures r.key@ == *key, r.data@ == Seq::<u8>::empty() { unimplemented!() }
    #[verifier::external_body] pub fn input(&mut self, d: &[u8]) ensures final(self).key@ == old(self).key@, final(self).data@ == old(self).data@ + d@ { unimplemented!() }
}
pub struct Hmac { pub v: [u8; 32] }
impl Hmac {
    #[verifier::external_body] pub fn from_engine(e: HmacEngine) -> (r: Hmac) ensures r.v == hmac_sha256(e.key@, e.data@) { unimplemented!() }
    #[verifier::external_body] pub fn to_byte_array(self) -> (r: [u8; 32]) ensures r == self.v { unimplemented!() }
}
#[verifier::external_body] pub fn gen_um_from_shared_secret(shared_secret: &[u8]) -> (r: [u8; 32]) ensures r == um_of(shared_secret@) { unimplemented!() }
#[verifier::external_body] pub fn fixed_time_eq(a: &[u8], b: &[u8]) -> (r: bool) requires a@.len() == b@.len() ensures r == (a@ == b@) { unimplemented!() }
#[verifier::external_body] pub fn arr_range<const N: usize>(a: &[u8; N], lo: usize, hi: usize) -> (s: &[u8])
    requires lo <= hi <= N ensures s@ == a@.subrange(lo as int, hi as int) { &a[lo..hi] }
#[verifier::external_body] pub fn arr_range_mut<const N: usize>(a: &mut [u8; N], lo: usize, hi: usize) -> (s: &mut [u8])
    requires lo <= hi <= N
    ensures s@ == old(a)@.subrange(lo as int, hi as int), final(s)@.len() == s@.len(),
        final(a)@ == old(a)@.subrange(0, lo as int) + final(s)@ + old(a)@.subrange(hi as int, N as int)
{ &mut a[lo..hi] }
#[verifier::external_body] pub fn u32_to_be_bytes(x: u32) -> (r: [u8; 4]) ensures r@ == be32(x) { x.to_be_bytes() }
#[verifier::external_body] pub fn u32_from_be_slice(s: &[u8]) -> (r: u32) requires s@.len() == 4 ensures r == un32(s@) { unimplemented!() }

//@extract lightning/src/ln/onion_utils.rs :: struct AttributionData
//@end
// the k-th 4-byte HMAC slot
pub open spec fn hm(hmacs: Seq<u8>, k: int) -> Seq<u8> { hmacs.subrange(k * 4, k * 4 + 4) }
// index of the j-th downstream HMAC a node at `position` covers: the slot, in the block of the j-th hop downstream of us, that
// was computed for that hop's own position (position - 1 - j); blocks shrink by one slot per hop (BOLT 4 attribution layout)
pub open spec fn ds_idx(position: int, j: int) -> int decreases j { if j <= 0 { 39 - position } else { ds_idx(position, j - 1) + 20 - (j - 1) - 1 } }
pub open spec fn ds(hmacs: Seq<u8>, position: int, j: int) -> Seq<u8> decreases j { if j <= 0 { Seq::empty() } else { ds(hmacs, position, j - 1) + hm(hmacs, ds_idx(position, j - 1)) } }
pub proof fn lemma_ds_idx_closed(position: int, j: int)
    requires 0 <= j ensures 2 * ds_idx(position, j) == 78 - 2 * position + 38 * j - j * (j - 1) decreases j
{
    if j > 0 { lemma_ds_idx_closed(position, j - 1); assert(j * (j - 1) == (j - 1) * (j - 2) + 2 * (j - 1)) by (nonlinear_arith); }
    else { assert(j * (j - 1) == 0) by (nonlinear_arith) requires j == 0; }
}
pub proof fn lemma_ds_idx_bounds(position: int, j: int)
    requires 0 <= j < position <= 19 ensures 20 <= ds_idx(position, j) <= 209
{
    lemma_ds_idx_closed(position, j);
    assert(37 * j - j * j <= 342) by (nonlinear_arith) requires 0 <= j <= 18;
    assert(j * (j - 1) == j * j - j) by (nonlinear_arith);
    assert(38 * j - j * (j - 1) >= 0) by (nonlinear_arith) requires 0 <= j <= 18;
}
// the downstream HMACs live in slots 20.. only: they do not depend on the first block (the one the current hop fills)
pub proof fn lemma_ds_frame(h1: Seq<u8>, h2: Seq<u8>, position: int, j: int)
    requires 0 <= j <= position <= 19, h1.len() == 840, h2.len() == 840, h1.subrange(80, 840) == h2.subrange(80, 840)
    ensures ds(h1, position, j) == ds(h2, position, j) decreases j
{
    if j > 0 {
        lemma_ds_frame(h1, h2, position, j - 1);
        lemma_ds_idx_bounds(position, j - 1);
        let k = ds_idx(position, j - 1);
        assert(hm(h1, k) =~= h1.subrange(80, 840).subrange(k * 4 - 80, k * 4 + 4 - 80));
        assert(hm(h2, k) =~= h2.subrange(80, 840).subrange(k * 4 - 80, k * 4 + 4 - 80));
    }
}
// what the HMAC for `position` covers, and the truncated HMAC itself
pub open spec fn covered(message: Seq<u8>, hold_times: Seq<u8>, hmacs: Seq<u8>, position: int) -> Seq<u8> {
    message + hold_times.subrange(0, (position + 1) * 4) + ds(hmacs, position, position)
}
pub open spec fn tag(ss: Seq<u8>, message: Seq<u8>, hold_times: Seq<u8>, hmacs: Seq<u8>, position: int) -> Seq<u8> {
    hmac_sha256(um_of(ss), covered(message, hold_times, hmacs, position))@.subrange(0, 4)
}
impl AttributionData {
//@extract lightning/src/ln/onion_utils.rs :: impl AttributionData :: fn get_hmac
//@rw R8
    &self.hmacs[$lo:seq..$hi:seq]
//@with
    arr_range(&self.hmacs, $lo, $hi)
//@ret r
//@requires
    idx < 210,
//@ensures A
    r@ == hm(self.hmacs@, idx as int),
//@mutant hmac_slot_one_byte_late
    idx * HMAC_LEN..
//@with
    idx * HMAC_LEN + 1..
//@end
//@extract lightning/src/ln/onion_utils.rs :: impl AttributionData :: fn get_hmac_mut
//@rw R8
    &mut self.hmacs[$lo:seq..$hi:seq]
//@with
    arr_range_mut(&mut self.hmacs, $lo, $hi)
//@ret r
//@requires
    idx < 210,
//@ensures A
    r@ == hm(old(self).hmacs@, idx as int), final(r)@.len() == 4, final(self).hold_times == old(self).hold_times,
    final(self).hmacs@ == old(self).hmacs@.subrange(0, idx * 4) + final(r)@ + old(self).hmacs@.subrange(idx * 4 + 4, 840),
//@end
//@extract lightning/src/ln/onion_utils.rs :: impl AttributionData :: fn get_hold_time_bytes
//@rw R8
    &self.hold_times[$lo:seq..$hi:seq]
//@with
    arr_range(&self.hold_times, $lo, $hi)
//@ret r
//@requires
    idx < 20,
//@ensures A
    r@ == self.hold_times@.subrange(idx * 4, idx * 4 + 4),
//@end
//@extract lightning/src/ln/onion_utils.rs :: impl AttributionData :: fn write_downstream_hmacs
//@rw R5
    w: &mut HmacEngine<Sha256>
//@with
    w: &mut HmacEngine
//@requires
    position < 20,
//@ensures P C14 the-hmac-for-an-assumed-position-covers-exactly-the-downstream-hmacs-computed-for-the-positions-below-it
    final(w).key@ == old(w).key@, final(w).data@ == old(w).data@ + ds(self.hmacs@, position as int, position as int),
//@loop 1 iter=it
    invariant position < 20, it.iter.end == position, w.key@ == old(w).key@,
        hmac_idx == ds_idx(position as int, it.index@ as int),
        w.data@ == old(w).data@ + ds(self.hmacs@, position as int, it.index@ as int),
//@at loop_body_start 1
    proof { lemma_ds_idx_bounds(position as int, j as int); }
//@at loop_body_end 1
    proof { assert(w.data@ =~= old(w).data@ + ds(self.hmacs@, position as int, j as int + 1)); }
//@mutant downstream_block_size_off_by_one
    let block_size = MAX_HOPS - j - 1;
//@with
    let block_size = MAX_HOPS - j;
//@mutant first_downstream_hmac_off_by_one
    MAX_HOPS + MAX_HOPS - position - 1
//@with
    MAX_HOPS + MAX_HOPS - position
//@end
//@extract lightning/src/ln/onion_utils.rs :: impl AttributionData :: fn add_hmacs
//@rw R8
    gen_um_from_shared_secret(&shared_secret)
//@with
    gen_um_from_shared_secret(shared_secret)
//@rw R5
    HmacEngine::<Sha256>::new(
//@with
    HmacEngine::new(
//@rw R8
    hmac_engine.input(&message)
//@with
    hmac_engine.input(message)
//@rw R8
    &self.hold_times[..$hi:seq]
//@with
    arr_range(&self.hold_times, 0, $hi)
//@rw R8
    &full_hmac[..HMAC_LEN]
//@with
    arr_range(&full_hmac, 0, HMAC_LEN)
//@ensures P C14 a-hop-stores-for-every-position-it-could-be-at-the-truncated-hmac-over-the-message-the-hold-times-up-to-that-position-and-that-positions-downstream-hmacs
    final(self).hold_times == old(self).hold_times,
    final(self).hmacs@.subrange(80, 840) == old(self).hmacs@.subrange(80, 840),
    forall|p: int| 0 <= p < 20 ==> #[trigger] hm(final(self).hmacs@, 19 - p) == tag(shared_secret@, message@, old(self).hold_times@, old(self).hmacs@, p),
//@loop 1 iter=it
    invariant it.iter.end == 20, um == um_of(shared_secret@), self.hold_times == old(self).hold_times,
        self.hmacs@.subrange(80, 840) == old(self).hmacs@.subrange(80, 840),
        forall|k: int| 0 <= k < it.index@ ==> #[trigger] hm(self.hmacs@, k) == tag(shared_secret@, message@, old(self).hold_times@, old(self).hmacs@, 19 - k),
//@at loop_body_start 1
    let ghost before = self.hmacs@;
    proof { lemma_ds_frame(self.hmacs@, old(self).hmacs@, 19 - hmac_idx as int, 19 - hmac_idx as int); }
//@at loop_body_end 1
    proof {
        let after = self.hmacs@;
        let i = hmac_idx as int;
        assert(after.subrange(80, 840) =~= before.subrange(80, 840));
        assert(hm(after, i) =~= hmac@);
        assert forall|k: int| 0 <= k < i implies #[trigger] hm(after, k) == tag(shared_secret@, message@, old(self).hold_times@, old(self).hmacs@, 19 - k) by {
            assert(hm(after, k) =~= hm(before, k));
        }
    }
//@at after_loop 1
    proof { assert forall|p: int| 0 <= p < 20 implies #[trigger] hm(self.hmacs@, 19 - p) == tag(shared_secret@, message@, old(self).hold_times@, old(self).hmacs@, p) by { let k = 19 - p; assert(hm(self.hmacs@, k) == tag(shared_secret@, message@, old(self).hold_times@, old(self).hmacs@, 19 - k)); } }
//@mutant position_counted_from_the_wrong_end
    let position: usize = MAX_HOPS - hmac_idx - 1;
//@with
    let position: usize = hmac_idx;
//@mutant own_hold_time_left_out_of_the_hmac
    ..(position + 1) * HOLD_TIME_LEN]
//@with
    ..position * HOLD_TIME_LEN]
//@end
//@extract lightning/src/ln/onion_utils.rs :: impl AttributionData :: fn verify
//@rw R5
    HmacEngine::<Sha256>::new(
//@with
    HmacEngine::new(
//@rw R8
    hmac.input(&message)
//@with
    hmac.input(message)
//@rw R8
    &self.hold_times[..$hi:seq]
//@with
    arr_range(&self.hold_times, 0, $hi)
//@rw R8
    let $x:ident = &Hmac::from_engine(hmac).to_byte_array()[..$hi:seq];
//@with
    let __full = Hmac::from_engine(hmac).to_byte_array(); let $x = arr_range(&__full, 0, $hi);
//@rw R8
    u32::from_be_bytes(self.get_hold_time_bytes($k:seq).try_into().unwrap())
//@with
    u32_from_be_slice(self.get_hold_time_bytes($k))
//@ret r
//@requires
    position < 20,
//@ensures P C14 the-sender-accepts-a-hops-attribution-exactly-when-the-stored-hmac-for-that-position-is-the-hmac-over-what-the-hop-covered-and-then-reports-the-hold-time-in-the-first-slot
    r is Ok <==> hm(self.hmacs@, 19 - position) == tag(shared_secret@, message@, self.hold_times@, self.hmacs@, position as int),
    r is Ok ==> r->Ok_0 == un32(self.hold_times@.subrange(0, 4)),
//@mutant verified_against_the_slot_of_another_position
    let hmac_idx = MAX_HOPS - position - 1;
//@with
    let hmac_idx = MAX_HOPS - position;
//@mutant hold_time_taken_from_the_second_slot
    self.get_hold_time_bytes(0)
//@with
    self.get_hold_time_bytes(1)
//@end
//@extract lightning/src/ln/onion_utils.rs :: impl AttributionData :: fn update
//@rw R8
    hold_time.to_be_bytes()
//@with
    u32_to_be_bytes(hold_time)
//@rw R8
    self.hold_times[..HOLD_TIME_LEN].copy_from_slice(&hold_time_bytes)
//@with
    arr_range_mut(&mut self.hold_times, 0, HOLD_TIME_LEN).copy_from_slice(arr_range(&hold_time_bytes, 0, 4))
//@ensures P C14 a-hop-writes-its-hold-time-big-endian-into-the-first-slot-and-only-then-computes-its-hmacs-over-the-updated-hold-times
    final(self).hold_times@ == be32(hold_time) + old(self).hold_times@.subrange(4, 80),
    final(self).hmacs@.subrange(80, 840) == old(self).hmacs@.subrange(80, 840),
    forall|p: int| 0 <= p < 20 ==> #[trigger] hm(final(self).hmacs@, 19 - p) == tag(shared_secret@, message@, final(self).hold_times@, old(self).hmacs@, p),
//@at body_start
    broadcast use ax_be32;
//@mutant hmacs_computed_before_the_hold_time_is_written
    self.hold_times[..HOLD_TIME_LEN].copy_from_slice(&hold_time_bytes); self.add_hmacs(shared_secret, message);
//@with
    self.add_hmacs(shared_secret, message); self.hold_times[..HOLD_TIME_LEN].copy_from_slice(&hold_time_bytes);
//@end
}
// (P) whatever a hop adds verifies: for every position the sender might check this hop at, the stored HMAC is the recomputed one and the
// reported hold time is the one the hop wrote (s0: attribution data as received and shifted right; s1: after update)
pub proof fn lemma_added_hmacs_verify(s0: AttributionData, s1: AttributionData, ss: Seq<u8>, message: Seq<u8>, hold_time: u32, position: int)
    requires 0 <= position < 20,
        // postcondition of update(message, ss, hold_time) from s0 to s1
        s1.hold_times@ == be32(hold_time) + s0.hold_times@.subrange(4, 80),
        s1.hmacs@.subrange(80, 840) == s0.hmacs@.subrange(80, 840),
        forall|p: int| 0 <= p < 20 ==> #[trigger] hm(s1.hmacs@, 19 - p) == tag(ss, message, s1.hold_times@, s0.hmacs@, p),
    ensures
        // postcondition of verify(message, ss, position) on s1: Ok(hold_time)
        hm(s1.hmacs@, 19 - position) == tag(ss, message, s1.hold_times@, s1.hmacs@, position),
        un32(s1.hold_times@.subrange(0, 4)) == hold_time,
{
    broadcast use ax_be32;
    lemma_ds_frame(s1.hmacs@, s0.hmacs@, position, position);
    assert(hm(s1.hmacs@, 19 - position) == tag(ss, message, s1.hold_times@, s0.hmacs@, position));
    assert(s1.hold_times@.subrange(0, 4) =~= be32(hold_time));
}
}
fn main() {}
