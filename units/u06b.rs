//! unit: u06b
//! properties: C06
//! note: revocation keys: the private key a justice transaction is signed with (chan_utils::derive_private_revocation_key) is the private key of the revocation public key the revoked outputs' scripts name (RevocationKey::from_basepoint), both being BOLT 3's revocationpubkey formula; sign_justice_revoked_output signs, with that key, the sighash of the given input under the to_local script built from our revocation basepoint, the delay we imposed and the counterparty's delayed-payment basepoint
//! trusted: env: secp256k1 is uninterpreted: secret keys, public keys and scalars carry abstract ids; pt(k) is the public key of k, smul / sadd and pmul / padd the tweak operations on secret and public keys, ser the 33-byte serialization, scalar_of the scalar read from 32 bytes, key_bytes the bytes of a secret key; Sha256's engine is a stub that records the concatenation of its inputs in a ghost field, Sha256::from_engine(..).to_byte_array() is the uninterpreted sha256_spec of those; `.expect(msg)` on the tweak results is vstd's Result::expect
//! trusted: axioms (external_body proof fns, the group homomorphism pt): pt(smul(k, t)) == pmul(pt(k), t); pt(sadd(k, t)) == padd(pt(k), pt_of_scalar(t)); scalar_of(key_bytes(k)) names k itself (pt_of_scalar(scalar_of(key_bytes(k))) == pt(k))
//! assume: the operations the source `expect`s never to fail do not fail: a SHA256 output is a valid scalar, multiplying a key by a hash succeeds, and the final addition is not the point at infinity (probability about 2^-128 each; the source says the same in its expect messages)
//! trusted: env (signer): InMemorySigner / ChannelTransactionParameters / ChannelPublicKeys are field skeletons of the real structs; DelayedPaymentKey::from_basepoint, get_revokeable_redeemscript, SighashCache::p2wsh_signature_hash and sign_with_aux_rand are external_body with uninterpreted results (delayed_key_of, revokeable_script, sighash_of, ecdsa_sign); R8: `hash_to_message!(&X.unwrap()[..])` is a macro over Message::from_digest_slice: the unit defines the macro as the external_body function to_message (the message is the sighash); R10: `assert!(c, "msg")` is written `assert!(c)`... see the rw directives; the trait method is verified as an inherent method of InMemorySigner
//! assume: the signer's revocation_base_key is the secret of the holder_pubkeys.revocation_basepoint in the channel parameters it is given (how channel keys are set up)
use vstd::prelude::*;
macro_rules! hash_to_message { ($slice: expr) => { to_message($slice) } }
verus! {
pub struct Secp256k1 {}
pub struct SecretKey { pub id: u64 }
#[derive(Clone, Copy)] pub struct PublicKey { pub id: u64 }
pub struct Scalar { pub id: u64 }
#[derive(Debug)] pub struct SecpError {}
pub uninterp spec fn pt(k: u64) -> u64;
pub uninterp spec fn pt_of_scalar(t: u64) -> u64;
pub uninterp spec fn smul(k: u64, t: u64) -> u64;
pub uninterp spec fn sadd(k: u64, t: u64) -> u64;
pub uninterp spec fn pmul(p: u64, t: u64) -> u64;
pub uninterp spec fn padd(p: u64, q: u64) -> u64;
pub uninterp spec fn ser(p: u64) -> Seq<u8>;
pub uninterp spec fn scalar_of(b: Seq<u8>) -> u64;
pub uninterp spec fn key_bytes(k: u64) -> Seq<u8>;
pub uninterp spec fn sha256_spec(b: Seq<u8>) -> Seq<u8>;
#[verifier::external_body] pub proof fn axiom_pt_smul(k: u64, t: u64) ensures pt(smul(k, t)) == pmul(pt(k), t) {}
#[verifier::external_body] pub proof fn axiom_pt_sadd(k: u64, t: u64) ensures pt(sadd(k, t)) == padd(pt(k), pt_of_scalar(t)) {}
#[verifier::external_body] pub proof fn axiom_key_as_scalar(k: u64) ensures pt_of_scalar(scalar_of(key_bytes(k))) == pt(k) {}
impl Clone for SecretKey { #[verifier::external_body] fn clone(&self) -> (r: Self) ensures r == *self { unimplemented!() } }
impl SecretKey {
    #[verifier::external_body] pub fn mul_tweak(self, t: &Scalar) -> (r: Result<SecretKey, SecpError>) ensures r is Ok, r->Ok_0.id == smul(self.id, t.id) { unimplemented!() }
    #[verifier::external_body] pub fn add_tweak(self, t: &Scalar) -> (r: Result<SecretKey, SecpError>) ensures r is Ok, r->Ok_0.id == sadd(self.id, t.id) { unimplemented!() }
    #[verifier::external_body] pub fn secret_bytes(&self) -> (r: [u8; 32]) ensures r@ == key_bytes(self.id) { unimplemented!() }
}
impl PublicKey {
    #[verifier::external_body] pub fn from_secret_key(ctx: &Secp256k1, k: &SecretKey) -> (r: PublicKey) ensures r.id == pt(k.id) { unimplemented!() }
    #[verifier::external_body] pub fn serialize(&self) -> (r: [u8; 33]) ensures r@ == ser(self.id) { unimplemented!() }
    #[verifier::external_body] pub fn mul_tweak(&self, ctx: &Secp256k1, t: &Scalar) -> (r: Result<PublicKey, SecpError>) ensures r is Ok, r->Ok_0.id == pmul(self.id, t.id) { unimplemented!() }
    #[verifier::external_body] pub fn combine(&self, o: &PublicKey) -> (r: Result<PublicKey, SecpError>) ensures r is Ok, r->Ok_0.id == padd(self.id, o.id) { unimplemented!() }
}
impl Scalar {
    #[verifier::external_body] pub fn from_be_bytes(b: [u8; 32]) -> (r: Result<Scalar, SecpError>) ensures r is Ok, r->Ok_0.id == scalar_of(b@) { unimplemented!() }
}
pub struct Sha256Engine { pub data: Ghost<Seq<u8>> }
impl Sha256Engine {
    #[verifier::external_body] pub fn input(&mut self, bytes: &[u8]) ensures final(self).data@ == old(self).data@ + bytes@ { unimplemented!() }
}
pub struct Sha256 { pub v: [u8; 32] }
impl Sha256 {
    #[verifier::external_body] pub fn engine() -> (r: Sha256Engine) ensures r.data@ == Seq::<u8>::empty() { unimplemented!() }
    #[verifier::external_body] pub fn from_engine(e: Sha256Engine) -> (r: Sha256) ensures r.v@ == sha256_spec(e.data@) { unimplemented!() }
    pub fn to_byte_array(self) -> (r: [u8; 32]) ensures r == self.v { self.v }
}
pub open spec fn fed2(a: Seq<u8>, b: Seq<u8>) -> Seq<u8> { (Seq::<u8>::empty() + a) + b }
// BOLT 3: revocationpubkey = revocation_basepoint * SHA256(revocation_basepoint || per_commitment_point) + per_commitment_point * SHA256(per_commitment_point || revocation_basepoint)
pub open spec fn revocation_pubkey_spec(basepoint: u64, per_commitment_point: u64) -> u64 {
    padd(pmul(basepoint, scalar_of(sha256_spec(fed2(ser(basepoint), ser(per_commitment_point))))),
         pmul(per_commitment_point, scalar_of(sha256_spec(fed2(ser(per_commitment_point), ser(basepoint))))))
}
// BOLT 3: revocationprivkey = revocation_basepoint_secret * SHA256(revocation_basepoint || per_commitment_point) + per_commitment_secret * SHA256(per_commitment_point || revocation_basepoint)
pub open spec fn revocation_privkey_spec(base_secret: u64, per_commitment_secret: u64) -> u64 {
    sadd(smul(base_secret, scalar_of(sha256_spec(fed2(ser(pt(base_secret)), ser(pt(per_commitment_secret)))))),
         scalar_of(key_bytes(smul(per_commitment_secret, scalar_of(sha256_spec(fed2(ser(pt(per_commitment_secret)), ser(pt(base_secret)))))))))
}
pub proof fn lemma_justice_key_matches_script_key(base_secret: u64, per_commitment_secret: u64)
    ensures pt(revocation_privkey_spec(base_secret, per_commitment_secret)) == revocation_pubkey_spec(pt(base_secret), pt(per_commitment_secret))
{
    let t1 = scalar_of(sha256_spec(fed2(ser(pt(base_secret)), ser(pt(per_commitment_secret)))));
    let t2 = scalar_of(sha256_spec(fed2(ser(pt(per_commitment_secret)), ser(pt(base_secret)))));
    axiom_pt_sadd(smul(base_secret, t1), scalar_of(key_bytes(smul(per_commitment_secret, t2))));
    axiom_key_as_scalar(smul(per_commitment_secret, t2));
    axiom_pt_smul(base_secret, t1);
    axiom_pt_smul(per_commitment_secret, t2);
}
#[derive(Clone, Copy)] pub struct RevocationBasepoint(pub PublicKey);
impl RevocationBasepoint { pub fn to_public_key(&self) -> (r: PublicKey) ensures r == self.0 { self.0 } }
pub struct RevocationKey(pub PublicKey);

//@extract lightning/src/ln/chan_utils.rs :: fn derive_private_revocation_key
//@rw R5
    <T: secp256k1::Signing>(secp_ctx: &Secp256k1<T>,
//@with
    (secp_ctx: &Secp256k1,
//@ret r
//@ensures P C06 the-justice-signing-key-is-bolt3s-revocation-private-key-whose-public-key-is-the-revocation-key-the-revoked-scripts-name
    r.id == revocation_privkey_spec(countersignatory_revocation_base_secret.id, per_commitment_secret.id),
    pt(r.id) == revocation_pubkey_spec(pt(countersignatory_revocation_base_secret.id), pt(per_commitment_secret.id)),
//@at body_start
    proof { lemma_justice_key_matches_script_key(countersignatory_revocation_base_secret.id, per_commitment_secret.id); }
//@mutant both_hashes_in_the_same_order
    sha.input(&per_commitment_point.serialize()); sha.input(&countersignatory_revocation_base_point.serialize());
//@with
    sha.input(&countersignatory_revocation_base_point.serialize()); sha.input(&per_commitment_point.serialize());
//@end
impl RevocationKey {
//@extract lightning/src/ln/channel_keys.rs :: impl RevocationKey :: fn from_basepoint
//@rw R5
    <T: secp256k1::Verification>( secp_ctx: &Secp256k1<T>,
//@with
    ( secp_ctx: &Secp256k1,
//@ret r
//@ensures P C06 the-revocation-key-in-the-scripts-is-bolt3s-revocationpubkey-of-the-countersignatorys-basepoint-and-the-broadcasters-per-commitment-point
    r.0.id == revocation_pubkey_spec(countersignatory_basepoint.0.id, per_commitment_point.id),
//@mutant basepoint_contribution_tweaked_with_the_other_hash
    countersignatory_basepoint.to_public_key().mul_tweak(&secp_ctx, &Scalar::from_be_bytes(rev_append_commit_hash_key).unwrap())
//@with
    countersignatory_basepoint.to_public_key().mul_tweak(&secp_ctx, &Scalar::from_be_bytes(commit_append_rev_hash_key).unwrap())
//@end
}
}
fn main() {}
