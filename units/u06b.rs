//! unit: u06b
//! properties: C06 C07 C01
//! note: revocation keys: the private key a justice transaction is signed with (chan_utils::derive_private_revocation_key) is the private key of the revocation public key the revoked outputs' scripts name (RevocationKey::from_basepoint), both being BOLT 3's revocationpubkey formula; sign_justice_revoked_output signs, with that key, the sighash of the given input under the to_local script built from our revocation basepoint, the delay we imposed and the counterparty's delayed-payment basepoint
//! trusted: htlc_output_value: HTLCOutputInCommitment::to_bitcoin_amount and the two weight functions are extracted whole; RevokedHTLCOutput::build: the weight and amount expressions of the struct literal (R15 slice with captures); PackageSolvingData::finalize_input: the amount arguments of the two sign_counterparty_htlc_transaction calls (captures); Amount/ChannelTypeFeatures/HTLCOutputInCommitment skeletons
//! trusted: env: secp256k1 is uninterpreted: secret keys, public keys and scalars carry abstract ids; pt(k) is the public key of k, smul / sadd and pmul / padd the tweak operations on secret and public keys, ser the 33-byte serialization, scalar_of the scalar read from 32 bytes, key_bytes the bytes of a secret key; Sha256's engine is a stub that records the concatenation of its inputs in a ghost field, Sha256::from_engine(..).to_byte_array() is the uninterpreted sha256_spec of those; `.expect(msg)` on the tweak results is vstd's Result::expect
//! trusted: axioms (external_body proof fns, the group homomorphism pt): pt(smul(k, t)) == pmul(pt(k), t); pt(sadd(k, t)) == padd(pt(k), pt_of_scalar(t)); scalar_of(key_bytes(k)) names k itself (pt_of_scalar(scalar_of(key_bytes(k))) == pt(k))
//! assume: the operations the source `expect`s never to fail do not fail: a SHA256 output is a valid scalar, multiplying a key by a hash succeeds, and the final addition is not the point at infinity (probability about 2^-128 each; the source says the same in its expect messages)
//! trusted: env (signer): InMemorySigner / ChannelTransactionParameters / ChannelPublicKeys are field skeletons of the real structs; DelayedPaymentKey::from_basepoint, get_revokeable_redeemscript, SighashCache::p2wsh_signature_hash and sign_with_aux_rand are external_body with uninterpreted results (delayed_key_of, revokeable_script, sighash_of, ecdsa_sign); R8: `hash_to_message!(&X.unwrap()[..])` (a macro over Message::from_digest_slice) is written `hash_to_message!(X.unwrap().as_digest())` and the unit defines the macro as the function to_message (the message is the sighash); the message of `assert!(c, "msg")` is dropped by the extractor (the assertion stays as an obligation); R4: module prefixes chan_utils:: / sighash:: stripped; R17: the parameters the contract names are bound by position (a parameter renamed in the source is alpha-renamed back); the trait methods are verified as inherent methods of InMemorySigner; sign_justice_revoked_htlc: HtlcKey::from_basepoint and get_htlc_redeemscript_with_explicit_keys external_body (uninterpreted derived_key / htlc_script)
//! assume: the signer's revocation_base_key is the secret of the holder_pubkeys.revocation_basepoint in the channel parameters it is given (how channel keys are set up)
//! trusted: assume_specification for core::cmp::max / core::cmp::min (std definitions): present in every unit so that a change that introduces them is verified instead of being rejected by the tool
//! trusted: R15 (deep slice): ChannelMonitorImpl::check_spend_counterparty_htlc: the test applied to each input of a confirmed revoked HTLC transaction and the justice package built for it, verbatim as a function of (index, input); RevokedOutput::build / PackageTemplate::build_package record their arguments; bitcoin types are skeletons (a witness is its element count); the watch list is dropped and not claimed; R3: log statement removed
use vstd::prelude::*;
macro_rules! hash_to_message { ($slice: expr) => { to_message($slice) } }
verus! {
use vstd::std_specs::cmp::*;
use core::cmp;
pub assume_specification<T: core::cmp::Ord>[core::cmp::max::<T>](a: T, b: T) -> (r: T)
    ensures T::obeys_cmp_spec() ==> r == (if b.cmp_spec(&a) == core::cmp::Ordering::Less { a } else { b });
pub assume_specification<T: core::cmp::Ord>[core::cmp::min::<T>](a: T, b: T) -> (r: T)
    ensures T::obeys_cmp_spec() ==> r == (if b.cmp_spec(&a) == core::cmp::Ordering::Less { b } else { a });
pub struct Secp256k1 {}
pub struct SecretKey { pub id: u64 }
#[derive(Clone, Copy)] pub struct PublicKey { pub id: u64 }
pub struct Scalar { pub id: u64 }
#[derive(Debug)] pub struct SecpError {}
pub uninterp spec fn pt(k: u64) -> u64;
pub uninterp spec fn pt_of_scalar(t: u64) -> u64;
pub uninterp spec fn smul(k: u64, t: u64) -> u64;
pub uninterp spec fn sadd(k: u64, t: u64) -> u64;
pub uninterp spec fn pmul(p: u64, t: u64) -> u64;
pub uninterp spec fn padd(p: u64, q: u64) -> u64;
pub uninterp spec fn ser(p: u64) -> Seq<u8>;
pub uninterp spec fn scalar_of(b: Seq<u8>) -> u64;
pub uninterp spec fn key_bytes(k: u64) -> Seq<u8>;
pub uninterp spec fn sha256_spec(b: Seq<u8>) -> Seq<u8>;
#[verifier::external_body] pub proof fn axiom_pt_smul(k: u64, t: u64) ensures pt(smul(k, t)) == pmul(pt(k), t) {}
#[verifier::external_body] pub proof fn axiom_pt_sadd(k: u64, t: u64) ensures pt(sadd(k, t)) == padd(pt(k), pt_of_scalar(t)) {}
#[verifier::external_body] pub proof fn axiom_key_as_scalar(k: u64) ensures pt_of_scalar(scalar_of(key_bytes(k))) == pt(k) {}
impl Clone for SecretKey { #[verifier::external_body] fn clone(&self) -> (r: Self) ensures r == *self { unimplemented!() } }
impl SecretKey {
    #[verifier::external_body] pub fn mul_tweak(self, t: &Scalar) -> (r: Result<SecretKey, SecpError>) ensures r is Ok, r->Ok_0.id == smul(self.id, t.id) { unimplemented!() }
    #[verifier::external_body] pub fn add_tweak(self, t: &Scalar) -> (r: Result<SecretKey, SecpError>) ensures r is Ok, r->Ok_0.id == sadd(self.id, t.id) { unimplemented!() }
    #[verifier::external_body] pub fn secret_bytes(&self) -> (r: [u8; 32]) ensures r@ == key_bytes(self.id) { unimplemented!() }
}
impl PublicKey {
    #[verifier::external_body] pub fn from_secret_key(ctx: &Secp256k1, k: &SecretKey) -> (r: PublicKey) ensures r.id == pt(k.id) { unimplemented!() }
    #[verifier::external_body] pub fn serialize(&self) -> (r: [u8; 33]) ensures r@ == ser(self.id) { unimplemented!() }
    #[verifier::external_body] pub fn mul_tweak(&self, ctx: &Secp256k1, t: &Scalar) -> (r: Result<PublicKey, SecpError>) ensures r is Ok, r->Ok_0.id == pmul(self.id, t.id) { unimplemented!() }
    #[verifier::external_body] pub fn combine(&self, o: &PublicKey) -> (r: Result<PublicKey, SecpError>) ensures r is Ok, r->Ok_0.id == padd(self.id, o.id) { unimplemented!() }
}
impl Scalar {
    #[verifier::external_body] pub fn from_be_bytes(b: [u8; 32]) -> (r: Result<Scalar, SecpError>) ensures r is Ok, r->Ok_0.id == scalar_of(b@) { unimplemented!() }
}
pub struct Sha256Engine { pub data: Ghost<Seq<u8>> }
impl Sha256Engine {
    #[verifier::external_body] pub fn input(&mut self, bytes: &[u8]) ensures final(self).data@ == old(self).data@ + bytes@ { unimplemented!() }
}
pub struct Sha256 { pub v: [u8; 32] }
impl Sha256 {
    #[verifier::external_body] pub fn engine() -> (r: Sha256Engine) ensures r.data@ == Seq::<u8>::empty() { unimplemented!() }
    #[verifier::external_body] pub fn from_engine(e: Sha256Engine) -> (r: Sha256) ensures r.v@ == sha256_spec(e.data@) { unimplemented!() }
    pub fn to_byte_array(self) -> (r: [u8; 32]) ensures r == self.v { self.v }
}
pub open spec fn fed2(a: Seq<u8>, b: Seq<u8>) -> Seq<u8> { (Seq::<u8>::empty() + a) + b }
// BOLT 3: revocationpubkey = revocation_basepoint * SHA256(revocation_basepoint || per_commitment_point) + per_commitment_point * SHA256(per_commitment_point || revocation_basepoint)
pub open spec fn revocation_pubkey_spec(basepoint: u64, per_commitment_point: u64) -> u64 {
    padd(pmul(basepoint, scalar_of(sha256_spec(fed2(ser(basepoint), ser(per_commitment_point))))),
         pmul(per_commitment_point, scalar_of(sha256_spec(fed2(ser(per_commitment_point), ser(basepoint))))))
}
// BOLT 3: revocationprivkey = revocation_basepoint_secret * SHA256(revocation_basepoint || per_commitment_point) + per_commitment_secret * SHA256(per_commitment_point || revocation_basepoint)
pub open spec fn revocation_privkey_spec(base_secret: u64, per_commitment_secret: u64) -> u64 {
    sadd(smul(base_secret, scalar_of(sha256_spec(fed2(ser(pt(base_secret)), ser(pt(per_commitment_secret)))))),
         scalar_of(key_bytes(smul(per_commitment_secret, scalar_of(sha256_spec(fed2(ser(pt(per_commitment_secret)), ser(pt(base_secret)))))))))
}
pub proof fn lemma_justice_key_matches_script_key(base_secret: u64, per_commitment_secret: u64)
    ensures pt(revocation_privkey_spec(base_secret, per_commitment_secret)) == revocation_pubkey_spec(pt(base_secret), pt(per_commitment_secret))
{
    let t1 = scalar_of(sha256_spec(fed2(ser(pt(base_secret)), ser(pt(per_commitment_secret)))));
    let t2 = scalar_of(sha256_spec(fed2(ser(pt(per_commitment_secret)), ser(pt(base_secret)))));
    axiom_pt_sadd(smul(base_secret, t1), scalar_of(key_bytes(smul(per_commitment_secret, t2))));
    axiom_key_as_scalar(smul(per_commitment_secret, t2));
    axiom_pt_smul(base_secret, t1);
    axiom_pt_smul(per_commitment_secret, t2);
}
#[derive(Clone, Copy)] pub struct RevocationBasepoint(pub PublicKey);
impl RevocationBasepoint { pub fn to_public_key(&self) -> (r: PublicKey) ensures r == self.0 { self.0 } }
pub struct RevocationKey(pub PublicKey);

//@extract lightning/src/ln/chan_utils.rs :: fn derive_private_revocation_key
//@rw R5
    <T: secp256k1::Signing>(secp_ctx: &Secp256k1<T>,
//@with
    (secp_ctx: &Secp256k1,
//@ret r
//@ensures P C06 the-justice-signing-key-is-bolt3s-revocation-private-key-whose-public-key-is-the-revocation-key-the-revoked-scripts-name
    r.id == revocation_privkey_spec(countersignatory_revocation_base_secret.id, per_commitment_secret.id),
    pt(r.id) == revocation_pubkey_spec(pt(countersignatory_revocation_base_secret.id), pt(per_commitment_secret.id)),
//@at body_start
    proof { lemma_justice_key_matches_script_key(countersignatory_revocation_base_secret.id, per_commitment_secret.id); }
//@mutant both_hashes_in_the_same_order
    sha.input(&per_commitment_point.serialize()); sha.input(&countersignatory_revocation_base_point.serialize());
//@with
    sha.input(&countersignatory_revocation_base_point.serialize()); sha.input(&per_commitment_point.serialize());
//@end
impl RevocationKey {
//@extract lightning/src/ln/channel_keys.rs :: impl RevocationKey :: fn from_basepoint
//@rw R5
    <T: secp256k1::Verification>( secp_ctx: &Secp256k1<T>,
//@with
    ( secp_ctx: &Secp256k1,
//@ret r
//@ensures P C06 the-revocation-key-in-the-scripts-is-bolt3s-revocationpubkey-of-the-countersignatorys-basepoint-and-the-broadcasters-per-commitment-point
    r.0.id == revocation_pubkey_spec(countersignatory_basepoint.0.id, per_commitment_point.id),
//@mutant basepoint_contribution_tweaked_with_the_other_hash
    countersignatory_basepoint.to_public_key().mul_tweak(&secp_ctx, &Scalar::from_be_bytes(rev_append_commit_hash_key).unwrap())
//@with
    countersignatory_basepoint.to_public_key().mul_tweak(&secp_ctx, &Scalar::from_be_bytes(commit_append_rev_hash_key).unwrap())
//@end
}
// ---- justice signing (InMemorySigner) ------------------------------------------------------------------
pub struct DelayedPaymentBasepoint(pub PublicKey);
pub struct HtlcBasepoint(pub PublicKey);
pub struct DelayedPaymentKey(pub PublicKey);
pub struct HtlcKey(pub PublicKey);
// BOLT 3 pubkey = basepoint + SHA256(per_commitment_point || basepoint) * G (derive_public_key; uninterpreted here)
pub uninterp spec fn derived_key(basepoint: u64, per_commitment_point: u64) -> u64;
impl DelayedPaymentKey { #[verifier::external_body] pub fn from_basepoint(ctx: &Secp256k1, bp: &DelayedPaymentBasepoint, pcp: &PublicKey) -> (r: Self) ensures r.0.id == derived_key(bp.0.id, pcp.id) { unimplemented!() } }
impl HtlcKey { #[verifier::external_body] pub fn from_basepoint(ctx: &Secp256k1, bp: &HtlcBasepoint, pcp: &PublicKey) -> (r: Self) ensures r.0.id == derived_key(bp.0.id, pcp.id) { unimplemented!() } }
pub struct ChannelPublicKeys { pub funding_pubkey: PublicKey, pub revocation_basepoint: RevocationBasepoint, pub payment_point: PublicKey, pub delayed_payment_basepoint: DelayedPaymentBasepoint, pub htlc_basepoint: HtlcBasepoint }
pub struct CounterpartyChannelTransactionParameters { pub pubkeys: ChannelPublicKeys, pub selected_contest_delay: u16 }
pub struct ChannelTypeFeatures { pub id: u64 }
pub struct ChannelTransactionParameters { pub holder_pubkeys: ChannelPublicKeys, pub holder_selected_contest_delay: u16, pub counterparty_parameters: Option<CounterpartyChannelTransactionParameters>, pub channel_type_features: ChannelTypeFeatures }
impl ChannelTransactionParameters {
    #[verifier::external_body] pub fn is_populated(&self) -> (r: bool) ensures r == (self.counterparty_parameters is Some) { unimplemented!() }
    #[verifier::external_body] pub fn counterparty_pubkeys(&self) -> (r: Option<&ChannelPublicKeys>)
        ensures r is Some == (self.counterparty_parameters is Some), r is Some ==> *r->Some_0 == self.counterparty_parameters->Some_0.pubkeys { unimplemented!() }
}
pub struct ScriptBuf { pub id: u64 }
pub uninterp spec fn revokeable_script(revocation_key: u64, contest_delay: u16, delayed_key: u64) -> u64;
pub uninterp spec fn htlc_script(htlc: HTLCOutputInCommitment, ct: u64, broadcaster_htlc_key: u64, countersignatory_htlc_key: u64, revocation_key: u64) -> u64;
#[verifier::external_body] pub fn get_revokeable_redeemscript(revocation_key: &RevocationKey, contest_delay: u16, broadcaster_delayed_payment_key: &DelayedPaymentKey) -> (r: ScriptBuf)
    ensures r.id == revokeable_script(revocation_key.0.id, contest_delay, broadcaster_delayed_payment_key.0.id) { unimplemented!() }
pub struct HTLCOutputInCommitment { pub offered: bool, pub amount_msat: u64, pub cltv_expiry: u32, pub payment_hash: u64, pub transaction_output_index: Option<u32> }
#[verifier::external_body] pub fn get_htlc_redeemscript_with_explicit_keys(htlc: &HTLCOutputInCommitment, channel_type_features: &ChannelTypeFeatures, broadcaster_htlc_key: &HtlcKey, countersignatory_htlc_key: &HtlcKey, revocation_key: &RevocationKey) -> (r: ScriptBuf)
    ensures r.id == htlc_script(*htlc, channel_type_features.id, broadcaster_htlc_key.0.id, countersignatory_htlc_key.0.id, revocation_key.0.id) { unimplemented!() }
pub struct Transaction { pub id: u64 }
pub struct Amount(pub u64);
impl Amount { pub fn from_sat(s: u64) -> (r: Amount) ensures r.0 == s { Amount(s) } }
pub enum EcdsaSighashType { All, SinglePlusAnyoneCanPay }
pub struct SighashCache { pub tx: u64 }
pub struct Digest { pub id: u64 }
pub struct SegwitV0Sighash { pub id: u64 }
impl SegwitV0Sighash { pub fn as_digest(self) -> (r: Digest) ensures r.id == self.id { Digest { id: self.id } } }
pub uninterp spec fn sighash_of(tx: u64, input: usize, script: u64, amount: u64, all: bool) -> u64;
impl SighashCache {
    pub fn new(tx: &Transaction) -> (r: SighashCache) ensures r.tx == tx.id { SighashCache { tx: tx.id } }
    #[verifier::external_body] pub fn p2wsh_signature_hash(&mut self, input: usize, script: &ScriptBuf, amount: Amount, ty: EcdsaSighashType) -> (r: Result<SegwitV0Sighash, SecpError>)
        ensures final(self).tx == old(self).tx, r is Ok, r->Ok_0.id == sighash_of(old(self).tx, input, script.id, amount.0, ty is All) { unimplemented!() }
}
pub struct Message { pub id: u64 }
pub fn to_message(d: Digest) -> (r: Message) ensures r.id == d.id { Message { id: d.id } }
pub struct Signature { pub id: u64 }
pub uninterp spec fn ecdsa_sign(msg: u64, key: u64) -> u64;
#[verifier::external_body] pub fn sign_with_aux_rand<ES>(ctx: &Secp256k1, msg: &Message, sk: &SecretKey, entropy_source: &ES) -> (r: Signature)
    ensures r.id == ecdsa_sign(msg.id, sk.id) { unimplemented!() }
//@const lightning/src/sign/mod.rs MISSING_PARAMS_ERR
pub struct InMemorySigner { pub revocation_base_key: SecretKey }
// the to_local script of the counterparty's (revoked) commitment as BOLT 3 builds it on our side: revocation key from OUR basepoint and THEIR per-commitment point, the delay WE imposed, THEIR delayed-payment key
pub open spec fn revoked_to_local_script(p: ChannelTransactionParameters, per_commitment_point: u64) -> u64 {
    revokeable_script(revocation_pubkey_spec(p.holder_pubkeys.revocation_basepoint.0.id, per_commitment_point), p.holder_selected_contest_delay,
        derived_key(p.counterparty_parameters->Some_0.pubkeys.delayed_payment_basepoint.0.id, per_commitment_point))
}
pub open spec fn revoked_htlc_script(p: ChannelTransactionParameters, htlc: HTLCOutputInCommitment, per_commitment_point: u64) -> u64 {
    htlc_script(htlc, p.channel_type_features.id, derived_key(p.counterparty_parameters->Some_0.pubkeys.htlc_basepoint.0.id, per_commitment_point),
        derived_key(p.holder_pubkeys.htlc_basepoint.0.id, per_commitment_point), revocation_pubkey_spec(p.holder_pubkeys.revocation_basepoint.0.id, per_commitment_point))
}
impl InMemorySigner {
//@extract lightning/src/sign/mod.rs :: impl EcdsaChannelSigner for InMemorySigner :: fn sign_justice_revoked_output
//@strip chan_utils sighash
//@param 1 channel_parameters
//@param 2 justice_tx
//@param 3 input
//@param 4 amount
//@param 5 per_commitment_key
//@rw R5
    secp_ctx: &Secp256k1<secp256k1::All>,
//@with
    secp_ctx: &Secp256k1,
//@rw R8
    hash_to_message!( &sighash_parts .p2wsh_signature_hash($args:any) .unwrap()[..] )
//@with
    hash_to_message!( sighash_parts .p2wsh_signature_hash($args) .unwrap().as_digest() )
//@ret r
//@requires
    channel_parameters.counterparty_parameters is Some,
//@ensures P C06 the-justice-signature-for-the-revoked-balance-output-is-made-with-the-revocation-private-key-over-that-outputs-own-script-and-amount
    r is Ok,
    r->Ok_0.id == ecdsa_sign(sighash_of(justice_tx.id, input, revoked_to_local_script(*channel_parameters, pt(per_commitment_key.id)), amount, true),
        revocation_privkey_spec(self.revocation_base_key.id, per_commitment_key.id)),
    channel_parameters.holder_pubkeys.revocation_basepoint.0.id == pt(self.revocation_base_key.id) ==>
        pt(revocation_privkey_spec(self.revocation_base_key.id, per_commitment_key.id)) == revocation_pubkey_spec(channel_parameters.holder_pubkeys.revocation_basepoint.0.id, pt(per_commitment_key.id)),
//@mutant script_built_with_the_delay_the_counterparty_chose
    let holder_selected_contest_delay = channel_parameters.holder_selected_contest_delay;
//@with
    let holder_selected_contest_delay = channel_parameters.counterparty_parameters.as_ref().unwrap().selected_contest_delay;
//@mutant script_built_with_our_own_delayed_key
    &counterparty_keys.delayed_payment_basepoint,
//@with
    &channel_parameters.holder_pubkeys.delayed_payment_basepoint,
//@end
//@extract lightning/src/sign/mod.rs :: impl EcdsaChannelSigner for InMemorySigner :: fn sign_justice_revoked_htlc
//@strip chan_utils sighash
//@param 1 channel_parameters
//@param 2 justice_tx
//@param 3 input
//@param 4 amount
//@param 5 per_commitment_key
//@param 6 htlc
//@rw R5
    secp_ctx: &Secp256k1<secp256k1::All>,
//@with
    secp_ctx: &Secp256k1,
//@rw R8
    hash_to_message!( &sighash_parts .p2wsh_signature_hash($args:any) .unwrap()[..] )
//@with
    hash_to_message!( sighash_parts .p2wsh_signature_hash($args) .unwrap().as_digest() )
//@ret r
//@requires
    channel_parameters.counterparty_parameters is Some,
//@ensures P C06 the-justice-signature-for-a-revoked-htlc-output-is-made-with-the-revocation-private-key-over-that-htlcs-own-script-and-amount
    r is Ok,
    r->Ok_0.id == ecdsa_sign(sighash_of(justice_tx.id, input, revoked_htlc_script(*channel_parameters, *htlc, pt(per_commitment_key.id)), amount, true),
        revocation_privkey_spec(self.revocation_base_key.id, per_commitment_key.id)),
//@mutant htlc_keys_swapped
    &counterparty_htlcpubkey, &holder_htlcpubkey,
//@with
    &holder_htlcpubkey, &counterparty_htlcpubkey,
//@end
}

// ---- check_spend_counterparty_htlc: justice on the outputs of a revoked counterparty HTLC transaction -----------------
pub mod revoked_htlc_tx {
use vstd::prelude::*;
#[derive(Clone, Copy)] pub struct Txid(pub u64);
impl vstd::std_specs::cmp::PartialEqSpecImpl for Txid { open spec fn obeys_eq_spec() -> bool { true } open spec fn eq_spec(&self, other: &Txid) -> bool { self.0 == other.0 } }
impl PartialEq for Txid { fn eq(&self, o: &Txid) -> (r: bool) { self.0 == o.0 } }
#[derive(Clone, Copy)] pub struct PublicKey(pub u64);
#[derive(Clone, Copy)] pub struct SecretKey(pub u64);
#[derive(Clone, Copy)] pub struct Amount(pub u64);
#[derive(Clone, Copy)] pub struct ChannelTransactionParameters { pub id: u64 }
pub struct OutPoint { pub txid: Txid, pub vout: u32 }
pub struct Witness { pub n: usize }
impl Witness { #[verifier::external_body] pub fn len(&self) -> (r: usize) ensures r == self.n { unimplemented!() } }
pub struct TxIn { pub previous_output: OutPoint, pub witness: Witness }
#[derive(Clone, Copy)] pub struct TxOut { pub value: Amount, pub script: u64 }
pub struct Transaction { pub input: Vec<TxIn>, pub output: Vec<TxOut> }
pub struct RevokedOutput { pub point: PublicKey, pub key: SecretKey, pub amount: Amount, pub params: ChannelTransactionParameters, pub height: u32 }
impl RevokedOutput { pub fn build(point: PublicKey, key: SecretKey, amount: Amount, params: ChannelTransactionParameters, height: u32) -> (r: Self)
    ensures r == (RevokedOutput { point, key, amount, params, height }) { RevokedOutput { point, key, amount, params, height } } }
pub enum PackageSolvingData { RevokedOutput(RevokedOutput), Other(u8) }
pub struct PackageTemplate { pub txid: Txid, pub vout: u32, pub data: PackageSolvingData, pub counterparty_spendable_height: u32 }
impl PackageTemplate { pub fn build_package(txid: Txid, vout: u32, data: PackageSolvingData, counterparty_spendable_height: u32) -> (r: Self)
    ensures r == (PackageTemplate { txid, vout, data, counterparty_spendable_height }) { PackageTemplate { txid, vout, data, counterparty_spendable_height } } }
pub struct CounterpartyParams { pub on_counterparty_tx_csv: u16 }
pub struct Funding { pub channel_parameters: ChannelTransactionParameters }
pub struct BestBlock { pub height: u32 }
pub struct ChannelMonitorImpl { pub counterparty_commitment_params: CounterpartyParams, pub funding: Funding, pub best_block: BestBlock }
impl ChannelMonitorImpl {
//@extract lightning/src/chain/channelmonitor.rs :: impl ChannelMonitorImpl :: fn check_spend_counterparty_htlc
//@slice R15
    for (idx, input) in tx.input.iter().enumerate() { if $c:cond { $body:straight claimable_outpoints.push(justice_package);
//@with
    fn justice_for_revoked_htlc_tx_input(&self, tx: &Transaction, idx: usize, input: &TxIn, commitment_txid: &Txid, htlc_txid: Txid, per_commitment_point: PublicKey, per_commitment_key: SecretKey, height: u32, claimable_outpoints: &mut Vec<PackageTemplate>) {
        if $c { $body claimable_outpoints.push(justice_package); }
    }
//@requires
    old(claimable_outpoints)@.len() == 0, idx < 0x1_0000_0000, height < 0xffff_0000,
//@ensures P C06 every-input-of-a-revoked-counterparty-htlc-transaction-that-spends-the-revoked-commitment-gets-a-justice-claim-on-the-output-of-the-same-index-with-that-outputs-value
    (input.previous_output.txid.0 == commitment_txid.0 && input.witness.n == 5 && idx < tx.output@.len()) ==>
        final(claimable_outpoints)@ =~= seq![PackageTemplate { txid: htlc_txid, vout: idx as u32, counterparty_spendable_height: (height + self.counterparty_commitment_params.on_counterparty_tx_csv as u32) as u32,
            data: PackageSolvingData::RevokedOutput(RevokedOutput { point: per_commitment_point, key: per_commitment_key, amount: tx.output@[idx as int].value, params: self.funding.channel_parameters, height }) }],
    !(input.previous_output.txid.0 == commitment_txid.0 && input.witness.n == 5 && idx < tx.output@.len()) ==> final(claimable_outpoints)@.len() == 0,
//@mutant second_stage_justice_claim_recorded_as_created_at_the_tip
    self.funding.channel_parameters.clone(), height,
//@with
    self.funding.channel_parameters.clone(), self.best_block.height,
//@mutant justice_claims_the_first_output_for_every_input
    per_commitment_point, per_commitment_key, tx.output[idx].value,
//@with
    per_commitment_point, per_commitment_key, tx.output[0].value,
//@end
}
}
// ---- the amount a claim on an HTLC output is signed over is the value the commitment transaction gave that output -----------
pub mod htlc_output_value {
use vstd::prelude::*;
pub struct Amount(pub u64);
impl Amount { pub const fn from_sat(s: u64) -> (r: Amount) ensures r.0 == s { Amount(s) } }
pub struct ChannelTypeFeatures { pub anchors_zero_fee_htlc_tx: bool }
impl ChannelTypeFeatures { #[verifier::external_body] pub fn supports_anchors_zero_fee_htlc_tx(&self) -> (r: bool) ensures r == self.anchors_zero_fee_htlc_tx { unimplemented!() } }
pub struct ChannelTransactionParameters { pub channel_type_features: ChannelTypeFeatures }
pub struct HTLCOutputInCommitment { pub offered: bool, pub amount_msat: u64, pub cltv_expiry: u32 }
// the value of the HTLC's output on the commitment transaction (BOLT 3: the amount rounded DOWN to whole satoshis)
pub open spec fn output_value_sat(h: HTLCOutputInCommitment) -> u64 { h.amount_msat / 1000 }
impl HTLCOutputInCommitment {
//@extract lightning/src/ln/chan_utils.rs :: impl HTLCOutputInCommitment :: fn to_bitcoin_amount
//@ret r
//@ensures P C06,C07,C01 the-commitment-transaction-gives-an-htlc-output-its-amount-rounded-down-to-whole-satoshis
    r.0 == output_value_sat(*self),
//@end
}
//@extract lightning/src/chain/package.rs :: fn weight_revoked_offered_htlc
//@ret r
//@ensures A
    r == 243 + (if channel_type_features.anchors_zero_fee_htlc_tx { 3int } else { 0 }),
//@end
//@extract lightning/src/chain/package.rs :: fn weight_revoked_received_htlc
//@ret r
//@ensures A
    r == 249 + (if channel_type_features.anchors_zero_fee_htlc_tx { 3int } else { 0 }),
//@end
//@extract lightning/src/chain/package.rs :: impl RevokedHTLCOutput :: fn build
//@slice R15
    let weight = $w:seq; let directed_params = $dp:seq; $mid:any RevokedHTLCOutput { $f1:any weight, amount: $a:seq, htlc, $f2:any }
//@with
    fn revoked_htlc_claim_weight_and_amount(htlc: &HTLCOutputInCommitment, channel_parameters: &ChannelTransactionParameters) -> (u64, u64) { let weight = $w; (weight, $a) }
//@ret r
//@ensures P C06 the-justice-claim-on-a-revoked-htlc-output-records-that-outputs-on-chain-value-and-the-witness-weight-of-its-direction
    r.1 == output_value_sat(*htlc),
    r.0 == (if htlc.offered { 243int } else { 249int }) + (if channel_parameters.channel_type_features.anchors_zero_fee_htlc_tx { 3int } else { 0 }),
//@mutant revoked_htlc_amount_rounded_up
    amount: htlc.amount_msat / 1000,
//@with
    amount: (htlc.amount_msat + 999) / 1000,
//@end
//@extract lightning/src/chain/package.rs :: impl PackageSolvingData :: fn finalize_input
//@capture R15 nth=1
    sign_counterparty_htlc_transaction(channel_parameters, &bumped_tx, i, &$a1:seq, &outp.per_commitment_point
//@capture R15 nth=2
    sign_counterparty_htlc_transaction(channel_parameters, &bumped_tx, i, &$a2:seq, &outp.per_commitment_point
//@slice R15
    PackageSolvingData::CounterpartyOfferedHTLCOutput(ref outp) => { let channel_parameters = $cp:seq;
//@with
    fn amounts_counterparty_htlc_claims_are_signed_over(outp: &CounterpartyHTLC) -> (u64, u64) { ($a1, $a2) }
//@ret r
//@ensures P C07 a-claim-on-a-counterparty-htlc-output-is-signed-over-that-outputs-on-chain-value
    r.0 == output_value_sat(outp.htlc), r.1 == output_value_sat(outp.htlc),
//@end
pub struct CounterpartyHTLC { pub htlc: HTLCOutputInCommitment }
}
}
fn main() {}
