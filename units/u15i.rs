//! unit: u15i
//! properties: C15
//! note: (disconnect_event_internal, slice: the same rule when the socket went away; do_disconnect, whole: a dropped peer's disconnection reaches exactly the handlers that saw it connect - all five when its Init had been accepted, none otherwise) PeerManager::do_handle_message_holding_peer_lock, how the five message handlers are told about a peer whose Init was accepted (slice: from `let inbound = ..` to the statement that records the peer's features): they are asked in a fixed order (routing, channel, onion message, custom, send-only); when one refuses, every handler that had already accepted is told `peer_disconnected` - each exactly once, none that was not told `peer_connected` - and the connection is dropped; only when all five accept is the Init recorded. So no handler is ever left believing in a peer the manager dropped (a later connection of the same peer would then be a second `peer_connected` without a `peer_disconnected` in between - ChannelManager debug-asserts against that), and none hears of a disconnection it never saw connect
//! trusted: R15 (deep slice): the statements between `let inbound = peer_lock.inbound_connection;` and `peer_lock.awaiting_pong_timer_tick_intervals = 0;`, verbatim; R5: every `.peer_connected(their_node_id, &msg, inbound)` / `.peer_disconnected(their_node_id)` call gets a log argument (the handlers are shared references with interior state in the source; here each is a stub with an identity that appends what it was told, and what it answered, to the log; the two facts used about a log - who believes the peer connected, whether every notification was in order - are proved for one appended entry by lemma_step and carried by thin verified wrappers); any handler may refuse (its answer is arbitrary); log statements dropped (R3)
//! trusted: assume_specification for core::cmp::max / core::cmp::min (std definitions): present in every unit so that a change that introduces them is verified instead of being rejected by the tool
use vstd::prelude::*;
verus! {
use vstd::std_specs::cmp::*;
use core::cmp;
pub assume_specification<T: core::cmp::Ord>[core::cmp::max::<T>](a: T, b: T) -> (r: T)
    ensures T::obeys_cmp_spec() ==> r == (if b.cmp_spec(&a) == core::cmp::Ordering::Less { a } else { b });
pub assume_specification<T: core::cmp::Ord>[core::cmp::min::<T>](a: T, b: T) -> (r: T)
    ensures T::obeys_cmp_spec() ==> r == (if b.cmp_spec(&a) == core::cmp::Ordering::Less { b } else { a });
#[derive(Clone, Copy)] pub struct PublicKey(pub u64);
pub struct InitMsg {}
pub enum Told { Connected { who: int, accepted: bool }, Disconnected { who: int } }
pub struct Log { pub l: Ghost<Seq<Told>> }
pub struct Handler { pub who: Ghost<int> }
// who believes the peer connected after a sequence of notifications, and whether every notification was in order (a disconnection only for a handler that accepted the connection)
pub open spec fn believers(l: Seq<Told>) -> Set<int> decreases l.len() { if l.len() == 0 { Set::empty() } else { match l.last() {
    Told::Connected { who, accepted } => if accepted { believers(l.drop_last()).insert(who) } else { believers(l.drop_last()) },
    Told::Disconnected { who } => believers(l.drop_last()).remove(who) } } }
pub open spec fn in_order(l: Seq<Told>) -> bool decreases l.len() { if l.len() == 0 { true } else { in_order(l.drop_last()) && match l.last() {
    Told::Connected { who, accepted } => !believers(l.drop_last()).contains(who),
    Told::Disconnected { who } => believers(l.drop_last()).contains(who) } } }
pub open spec fn step_b(b: Set<int>, t: Told) -> Set<int> { match t { Told::Connected { who, accepted } => if accepted { b.insert(who) } else { b }, Told::Disconnected { who } => b.remove(who) } }
pub open spec fn step_ok(b: Set<int>, t: Told) -> bool { match t { Told::Connected { who, accepted } => !b.contains(who), Told::Disconnected { who } => b.contains(who) } }
pub proof fn lemma_step(l: Seq<Told>, t: Told) ensures believers(l.push(t)) == step_b(believers(l), t), in_order(l.push(t)) == (in_order(l) && step_ok(believers(l), t))
{ assert(l.push(t).drop_last() =~= l); assert(l.push(t).last() == t); }
impl Handler {
    #[verifier::external_body] fn told_connected(&self, their_node_id: PublicKey, msg: &InitMsg, inbound: bool, log: &mut Log) -> (r: Result<(), ()>)
        ensures final(log).l@ == old(log).l@.push(Told::Connected { who: self.who@, accepted: r is Ok }) { unimplemented!() }
    #[verifier::external_body] fn told_disconnected(&self, their_node_id: PublicKey, log: &mut Log)
        ensures final(log).l@ == old(log).l@.push(Told::Disconnected { who: self.who@ }) { unimplemented!() }
    pub fn peer_connected(&self, their_node_id: PublicKey, msg: &InitMsg, inbound: bool, log: &mut Log) -> (r: Result<(), ()>)
        ensures believers(final(log).l@) == step_b(believers(old(log).l@), Told::Connected { who: self.who@, accepted: r is Ok }),
            in_order(final(log).l@) == (in_order(old(log).l@) && !believers(old(log).l@).contains(self.who@))
    { let ghost l0 = log.l@; let r = self.told_connected(their_node_id, msg, inbound, log); proof { lemma_step(l0, Told::Connected { who: self.who@, accepted: r is Ok }); } r }
    pub fn peer_disconnected(&self, their_node_id: PublicKey, log: &mut Log)
        ensures believers(final(log).l@) == believers(old(log).l@).remove(self.who@), in_order(final(log).l@) == (in_order(old(log).l@) && believers(old(log).l@).contains(self.who@))
    { let ghost l0 = log.l@; self.told_disconnected(their_node_id, log); proof { lemma_step(l0, Told::Disconnected { who: self.who@ }); } }
}
pub struct Handlers { pub route_handler: Handler, pub chan_handler: Handler, pub onion_message_handler: Handler, pub custom_message_handler: Handler, pub send_only_message_handler: Handler }
pub struct PeerHandleError {}
pub struct MessageHandlingError {}
impl PeerHandleError { #[verifier::external_body] pub fn into(self) -> MessageHandlingError { unimplemented!() } }
pub struct Peer { pub inbound_connection: bool }
pub struct DropPeer { pub init_accepted: bool, pub their_node_id: Option<(PublicKey, u64)> }
impl DropPeer { pub fn handshake_complete(&self) -> (r: bool) ensures r == self.init_accepted { self.init_accepted } }   // Peer::handshake_complete is `their_features.is_some()` (u15e)
pub struct Descriptor { pub closed: Ghost<bool> }
impl Descriptor { #[verifier::external_body] pub fn disconnect_socket(&mut self) ensures final(self).closed@ { unimplemented!() } }
pub struct PeerManager { pub message_handler: Handlers }
impl PeerManager {
//@extract lightning/src/ln/peer_handler.rs :: impl PeerManager :: fn do_handle_message_holding_peer_lock
//@slice R15
    let inbound = peer_lock.inbound_connection; $body:any peer_lock.awaiting_pong_timer_tick_intervals = 0;
//@with
    fn tell_the_handlers_about_a_peer_whose_init_was_accepted(&self, peer_lock: &Peer, their_node_id: PublicKey, msg: InitMsg, __log: &mut Log) -> Result<(), MessageHandlingError> { let inbound = peer_lock.inbound_connection; $body Ok(()) }
//@rw * R5
    .peer_connected(their_node_id, &msg, inbound)
//@with
    .peer_connected(their_node_id, &msg, inbound, __log)
//@rw * R5
    .peer_disconnected(their_node_id)
//@with
    .peer_disconnected(their_node_id, __log)
//@ret r
//@requires
    old(__log).l@.len() == 0,
    self.message_handler.route_handler.who@ == 0, self.message_handler.chan_handler.who@ == 1, self.message_handler.onion_message_handler.who@ == 2, self.message_handler.custom_message_handler.who@ == 3, self.message_handler.send_only_message_handler.who@ == 4,
//@ensures P C15 either-all-five-handlers-accept-the-peer-or-every-handler-that-accepted-is-told-of-the-disconnection-exactly-once-and-the-connection-is-dropped
    in_order(final(__log).l@),
    r is Ok ==> believers(final(__log).l@) =~= set![0int, 1, 2, 3, 4],
    r is Err ==> believers(final(__log).l@) =~= Set::<int>::empty(),
//@mutant channel_handler_not_told_when_the_custom_handler_refuses
    self.message_handler.chan_handler.peer_disconnected(their_node_id); self.message_handler.onion_message_handler.peer_disconnected(their_node_id); return
//@with
    self.message_handler.onion_message_handler.peer_disconnected(their_node_id); return
//@end
// do_disconnect (whole): a peer the manager drops - handlers hear of it exactly when they had heard of the connection (the peer's Init had been accepted), and the socket is closed either way
//@extract lightning/src/ln/peer_handler.rs :: impl PeerManager :: fn do_disconnect
//@rw R5
    fn do_disconnect(&self, mut descriptor: Descriptor, peer: &Peer, reason: &'static str) {
//@with
    fn do_disconnect(&self, descriptor: &mut Descriptor, peer: &DropPeer, reason: &'static str, __log: &mut Log) {   // (the descriptor is taken by value in the source; by reference here so that its closing can be stated)
//@rw * R5
    .peer_disconnected(node_id)
//@with
    .peer_disconnected(node_id, __log)
//@requires
    believers(old(__log).l@) =~= (if peer.init_accepted { set![0int, 1, 2, 3, 4] } else { Set::<int>::empty() }), in_order(old(__log).l@), peer.init_accepted ==> peer.their_node_id is Some,
    self.message_handler.route_handler.who@ == 0, self.message_handler.chan_handler.who@ == 1, self.message_handler.onion_message_handler.who@ == 2, self.message_handler.custom_message_handler.who@ == 3, self.message_handler.send_only_message_handler.who@ == 4,
//@ensures P C15 a-dropped-peers-disconnection-reaches-exactly-the-handlers-that-saw-it-connect-and-its-socket-is-closed-in-any-case
    in_order(final(__log).l@) && believers(final(__log).l@) =~= Set::<int>::empty(),
    !peer.init_accepted ==> final(__log).l@ == old(__log).l@,
    final(descriptor).closed@,
//@mutant send_only_handler_not_told_of_the_disconnection
    self.message_handler.send_only_message_handler.peer_disconnected(node_id); } descriptor.disconnect_socket();
//@with
    } descriptor.disconnect_socket();
//@end
// disconnect_event_internal (the socket went away): the same rule - the five handlers are told exactly when the peer's Init had been accepted
//@extract lightning/src/ln/peer_handler.rs :: impl PeerManager :: fn disconnect_event_internal
//@slice R15
    debug_assert!($r:cond); if $c:cond { return; } $t1:seq; $t2:seq; $t3:seq; $t4:seq; $t5:seq; } }, };
//@with
    fn tell_the_handlers_the_socket_went_away(&self, peer: &DropPeer, node_id: PublicKey, __log: &mut Log) { if $c { return; } $t1; $t2; $t3; $t4; $t5; }
//@rw * R5
    .peer_disconnected(node_id)
//@with
    .peer_disconnected(node_id, __log)
//@requires
    believers(old(__log).l@) =~= (if peer.init_accepted { set![0int, 1, 2, 3, 4] } else { Set::<int>::empty() }), in_order(old(__log).l@),
    self.message_handler.route_handler.who@ == 0, self.message_handler.chan_handler.who@ == 1, self.message_handler.onion_message_handler.who@ == 2, self.message_handler.custom_message_handler.who@ == 3, self.message_handler.send_only_message_handler.who@ == 4,
//@ensures P C15 a-lost-connection-is-reported-to-exactly-the-handlers-that-saw-the-peer-connect
    in_order(final(__log).l@) && believers(final(__log).l@) =~= Set::<int>::empty(),
    !peer.init_accepted ==> final(__log).l@ == old(__log).l@,
//@mutant handlers_told_of_a_peer_they_never_saw_connect
    if !peer.handshake_complete() { return; }
//@with
    if false { return; }
//@end
}
}
fn main() {}
