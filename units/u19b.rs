//! unit: u19b
//! properties: C19
//! note: FilesystemStore (lightning-persister fs_store/common.rs): writes and removals of one key take effect in the order they were issued -- under the key's lock an operation whose version is not newer than the last one applied is skipped without touching the file, otherwise it runs and, only if it succeeded, becomes the last one applied; the recorded version never goes back
//! trusted: R15 (deep slice): execute_locked_write: the block executed under the per-key write lock, verbatim as a function of the guarded counter (the RwLock write guard is taken as `&mut u64`), the version and the callback; clean_locks and the file operations in the callbacks (rename of the temporary file, fsync, remove_file) are dropped and not claimed; R7: `callback().map(|_| { S })` is written as a match on the callback's result (std semantics of Result::map; Verus has no `_` closure parameters)
//! trusted: R15 (deep slice): write_version: the body of the closure that fills the temporary file, verbatim as a function of the file (a stub recording the operations applied to it; `&self` methods of std::fs::File written `&mut self`), the buffer and the optional mtime; creating the file, the rename under the key lock and the directory fsync are std::fs calls without an object to carry state and are not sliced
//! trusted: R15 (deep slice): write_version (taken for a non-Windows target): the body of the closure run under the key's lock, verbatim as a function of a disk stub recording renames and directory flushes (R5: `fs::rename`, `fs::OpenOptions::new().read(true).open(dir)` and `sync_all` on the directory handle are its three methods) and the caller's clean-up flag
//! trusted: R15 (deep slice): remove_version (taken for a non-Windows target): the body of the closure run under the key's lock, verbatim as a function of a disk stub recording removals and directory flushes (R5: `path.is_file()`, `fs::remove_file`, `path.parent().ok_or_else(..)`, `fs::OpenOptions::new().read(true).open(dir)` and `sync_all` on the directory handle are the stub's methods); the Windows branch is not claimed
//! trusted: the callback is any `FnOnce() -> Result<(), Error>`: the function may call it only under its precondition, which the contract grants only for a version newer than the recorded one (so "the callback ran" implies "the operation was not stale")
//! assume: versions are issued in increasing order per key by get_new_version_and_lock_ref (an atomic counter, not verified); concurrency is the lock's (the contract is for the critical section)
//! trusted: assume_specification for core::cmp::max / core::cmp::min (std definitions): present in every unit so that a change that introduces them is verified instead of being rejected by the tool
use vstd::prelude::*;
verus! {
use vstd::std_specs::cmp::*;
use core::cmp;
pub assume_specification<T: core::cmp::Ord>[core::cmp::max::<T>](a: T, b: T) -> (r: T)
    ensures T::obeys_cmp_spec() ==> r == (if b.cmp_spec(&a) == core::cmp::Ordering::Less { a } else { b });
pub assume_specification<T: core::cmp::Ord>[core::cmp::min::<T>](a: T, b: T) -> (r: T)
    ensures T::obeys_cmp_spec() ==> r == (if b.cmp_spec(&a) == core::cmp::Ordering::Less { b } else { a });
pub struct Error {}
//@extract lightning-persister/src/fs_store/common.rs :: impl FilesystemStoreInner :: fn execute_locked_write
//@slice R15
    let res = { let mut last_written_version = inner_lock_ref.write().unwrap(); $body:any }; self.clean_locks(&inner_lock_ref, dest_file_path); res
//@with
    fn under_the_key_lock<F: FnOnce() -> Result<(), Error>>(last_written_version: &mut u64, version: u64, callback: F) -> Result<(), Error> { $body }
//@rw R7 ?
    callback().map(|_| { $s:any })
//@with
    match callback() { Ok(_) => { $s Ok(()) }, Err(e) => Err(e) }
//@ret r
//@requires
    version > *old(last_written_version) ==> callback.requires(()),
//@ensures P C19 an-operation-on-a-key-is-applied-only-if-it-is-newer-than-the-last-one-applied-and-is-recorded-only-if-it-succeeded
    version <= *old(last_written_version) ==> r is Ok && *final(last_written_version) == *old(last_written_version),
    version > *old(last_written_version) ==> (r is Ok ==> *final(last_written_version) == version),
    version > *old(last_written_version) ==> (r is Err ==> *final(last_written_version) == *old(last_written_version)),
    *final(last_written_version) >= *old(last_written_version),
//@mutant same_version_applied_twice
    version <= *last_written_version
//@with
    version < *last_written_version
//@mutant stale_operation_runs_anyway
    if is_stale_version { Ok(()) }
//@with
    if is_stale_version { callback() }
//@end
// ---- write_version: the new contents are in the temporary file and flushed before anything else happens to it ----------------
pub struct SystemTime {}
pub struct FileTimes { pub modified: Option<SystemTime> }
impl FileTimes {
    #[verifier::external_body] pub fn new() -> (r: FileTimes) ensures r.modified is None { unimplemented!() }
    #[verifier::external_body] pub fn set_modified(self, t: SystemTime) -> (r: FileTimes) ensures r.modified == Some(t) { unimplemented!() }
}
pub enum FileOp { Wrote(Seq<u8>), SetTimes(FileTimes), Synced }
pub struct TmpFile { pub ops: Ghost<Seq<FileOp>> }
impl TmpFile {
    #[verifier::external_body] pub fn write_all(&mut self, buf: &Vec<u8>) -> (r: Result<(), Error>) ensures r is Ok ==> final(self).ops@ == old(self).ops@.push(FileOp::Wrote(buf@)), r is Err ==> final(self).ops@ == old(self).ops@ { unimplemented!() }
    #[verifier::external_body] pub fn set_times(&mut self, t: FileTimes) -> (r: Result<(), Error>) ensures r is Ok ==> final(self).ops@ == old(self).ops@.push(FileOp::SetTimes(t)), r is Err ==> final(self).ops@ == old(self).ops@ { unimplemented!() }
    #[verifier::external_body] pub fn sync_all(&mut self) -> (r: Result<(), Error>) ensures r is Ok ==> final(self).ops@ == old(self).ops@.push(FileOp::Synced), r is Err ==> final(self).ops@ == old(self).ops@ { unimplemented!() }
}
//@extract lightning-persister/src/fs_store/common.rs :: impl FilesystemStoreInner :: fn write_version
//@cfg target_os="windows"=false
//@slice R15
    Ok(mut tmp_file) => (|| -> lightning::io::Result<()> { $body:any })(),
//@with
    fn fill_and_flush_temporary_file(tmp_file: &mut TmpFile, buf: &Vec<u8>, mtime: Option<SystemTime>) -> Result<(), Error> { $body }
//@rw R5
    fs::FileTimes::new()
//@with
    FileTimes::new()
//@ret r
//@requires
    old(tmp_file).ops@.len() == 0,
//@ensures P C19 before-the-temporary-file-may-replace-the-key-it-holds-exactly-the-new-contents-and-has-been-flushed-to-disk-as-the-last-operation-on-it
    r is Ok ==> final(tmp_file).ops@.len() >= 2 && final(tmp_file).ops@[0] == FileOp::Wrote(buf@) && final(tmp_file).ops@.last() == FileOp::Synced
        && (forall|k: int| 1 <= k < final(tmp_file).ops@.len() ==> !(#[trigger] final(tmp_file).ops@[k] is Wrote)),
//@mutant temporary_file_not_flushed_before_the_rename
    tmp_file.sync_all()?; Ok(())
//@with
    Ok(())
//@end
// ---- write_version, under the key's lock (unix): the temporary file replaces the key by a rename, and the directory is flushed afterwards ----
pub struct PathBuf { pub id: u64 }
pub enum DiskOp { Renamed { from: u64, to: u64 }, DirSynced(u64) }
pub struct Disk { pub ops: Ghost<Seq<DiskOp>> }
pub struct DirFile { pub dir: u64 }
impl Disk {
    // std::fs::rename / OpenOptions::new().read(true).open(dir) / File::sync_all on the directory handle, recorded
    #[verifier::external_body] pub fn rename(&mut self, from: &PathBuf, to: &PathBuf) -> (r: Result<(), Error>)
        ensures r is Ok ==> final(self).ops@ == old(self).ops@.push(DiskOp::Renamed { from: from.id, to: to.id }), r is Err ==> final(self).ops@ == old(self).ops@ { unimplemented!() }
    #[verifier::external_body] pub fn open_dir(&mut self, dir: &PathBuf) -> (r: Result<DirFile, Error>) ensures final(self).ops@ == old(self).ops@, r matches Ok(f) ==> f.dir == dir.id { unimplemented!() }
    #[verifier::external_body] pub fn sync_dir(&mut self, f: &DirFile) -> (r: Result<(), Error>)
        ensures r is Ok ==> final(self).ops@ == old(self).ops@.push(DiskOp::DirSynced(f.dir)), r is Err ==> final(self).ops@ == old(self).ops@ { unimplemented!() }
}
//@extract lightning-persister/src/fs_store/common.rs :: impl FilesystemStoreInner :: fn write_version
//@cfg target_os="windows"=false
//@slice R15
    let write_res = self.execute_locked_write(inner_lock_ref, dest_file_path.clone(), version, || { $body:any }); if tmp_file_needs_cleanup {
//@with
    fn replace_the_key_by_the_temporary_file(disk: &mut Disk, tmp_file_path: &PathBuf, dest_file_path: &PathBuf, parent_directory: &PathBuf, tmp_file_needs_cleanup_: &mut bool) -> Result<(), Error> { $body }
//@rw R5
    fs::rename(&tmp_file_path, &dest_file_path)?;
//@with
    disk.rename(tmp_file_path, dest_file_path)?;
//@rw R5
    tmp_file_needs_cleanup = $v:seq;
//@with
    *tmp_file_needs_cleanup_ = $v;
//@rw R5
    let dir_file = fs::OpenOptions::new().read(true).open(&parent_directory)?;
//@with
    let dir_file = disk.open_dir(parent_directory)?;
//@rw R5 ?
    dir_file.sync_all()?;
//@with
    disk.sync_dir(&dir_file)?;
//@ret r
//@ensures P C19 the-key-is-replaced-by-one-rename-of-the-flushed-temporary-file-and-reported-written-only-after-the-directory-was-flushed-too
    r is Ok ==> final(disk).ops@ == old(disk).ops@.push(DiskOp::Renamed { from: tmp_file_path.id, to: dest_file_path.id }).push(DiskOp::DirSynced(parent_directory.id)) && !*final(tmp_file_needs_cleanup_),
    // the temporary file is left for the caller to delete exactly when it was not renamed
    *final(tmp_file_needs_cleanup_) ==> final(disk).ops@ == old(disk).ops@,
    *old(tmp_file_needs_cleanup_) && !*final(tmp_file_needs_cleanup_) ==> final(disk).ops@.len() > old(disk).ops@.len() && final(disk).ops@[old(disk).ops@.len() as int] == (DiskOp::Renamed { from: tmp_file_path.id, to: dest_file_path.id }),
//@mutant write_reported_done_before_the_directory_is_flushed
    dir_file.sync_all()?; Ok(())
//@with
    Ok(())
//@mutant temporary_file_deleted_after_it_became_the_key
    fs::rename(&tmp_file_path, &dest_file_path)?; tmp_file_needs_cleanup = false;
//@with
    fs::rename(&tmp_file_path, &dest_file_path)?; tmp_file_needs_cleanup = true;
//@end

// ---- remove_version, under the key's lock (unix): a removal that must be durable is reported done only after the directory was flushed ----
pub mod removal {
use vstd::prelude::*;
pub struct Error {}
pub struct PathBuf { pub id: u64, pub parent: Option<u64>, pub exists: bool }
pub enum DiskOp { Removed(u64), DirSynced(u64) }
pub struct Disk { pub ops: Ghost<Seq<DiskOp>> }
pub struct DirFile { pub dir: u64 }
pub struct Dir { pub id: u64 }
impl Disk {
    #[verifier::external_body] pub fn is_file(&self, p: &PathBuf) -> (r: bool) ensures r == p.exists { unimplemented!() }
    #[verifier::external_body] pub fn remove_file(&mut self, p: &PathBuf) -> (r: Result<(), Error>)
        ensures r is Ok ==> final(self).ops@ == old(self).ops@.push(DiskOp::Removed(p.id)), r is Err ==> final(self).ops@ == old(self).ops@ { unimplemented!() }
    #[verifier::external_body] pub fn parent_of(&self, p: &PathBuf) -> (r: Result<Dir, Error>) ensures r is Ok <==> p.parent is Some, r matches Ok(d) ==> Some(d.id) == p.parent { unimplemented!() }
    #[verifier::external_body] pub fn open_dir(&mut self, dir: &Dir) -> (r: Result<DirFile, Error>) ensures final(self).ops@ == old(self).ops@, r matches Ok(f) ==> f.dir == dir.id { unimplemented!() }
    #[verifier::external_body] pub fn sync_dir(&mut self, f: &DirFile) -> (r: Result<(), Error>)
        ensures r is Ok ==> final(self).ops@ == old(self).ops@.push(DiskOp::DirSynced(f.dir)), r is Err ==> final(self).ops@ == old(self).ops@ { unimplemented!() }
}
//@extract lightning-persister/src/fs_store/common.rs :: impl FilesystemStoreInner :: fn remove_version
//@cfg target_os="windows"=false
//@slice R15
    self.execute_locked_write(inner_lock_ref, dest_file_path.clone(), version, || { $body:any })
//@with
    fn remove_the_key(disk: &mut Disk, dest_file_path: &PathBuf, lazy: bool) -> Result<(), Error> { $body }
//@rw R5 ?
    dest_file_path.is_file()
//@with
    disk.is_file(dest_file_path)
//@rw * R5
    fs::remove_file(&dest_file_path)?;
//@with
    disk.remove_file(dest_file_path)?;
//@rw R5
    let parent_directory = dest_file_path.parent().ok_or_else(|| { $e:any })?;
//@with
    let parent_directory = disk.parent_of(dest_file_path)?;
//@rw R5
    let dir_file = fs::OpenOptions::new().read(true).open(parent_directory)?;
//@with
    let dir_file = disk.open_dir(&parent_directory)?;
//@rw R5 ?
    dir_file.sync_all()?;
//@with
    disk.sync_dir(&dir_file)?;
//@ret r
//@ensures P C19 removing-a-key-that-is-not-there-succeeds-without-touching-the-disk-and-a-removal-that-must-be-durable-is-reported-done-only-after-the-directory-entry-was-flushed
    !dest_file_path.exists ==> r is Ok && final(disk).ops@ == old(disk).ops@,
    dest_file_path.exists && r is Ok && lazy ==> final(disk).ops@ == old(disk).ops@.push(DiskOp::Removed(dest_file_path.id)),
    dest_file_path.exists && r is Ok && !lazy ==> dest_file_path.parent is Some && final(disk).ops@ == old(disk).ops@.push(DiskOp::Removed(dest_file_path.id)).push(DiskOp::DirSynced(dest_file_path.parent->Some_0)),
//@mutant removal_reported_done_before_the_directory_is_flushed
    dir_file.sync_all()?;
//@with

//@end
// every removal goes through the key's locked section, whatever the state of the key: that is where its version is recorded, so that a write issued BEFORE it and completing after it is dropped as stale instead of resurrecting the key (execute_locked_write: proved above)
//@extract lightning-persister/src/fs_store/common.rs :: impl FilesystemStoreInner :: fn remove_version
//@cfg target_os="windows"=false
//@slice R15
    { $pre:any self.execute_locked_write(inner_lock_ref, dest_file_path.clone(), version, || {
//@with
    fn statements_in_front_of_the_locked_section(disk: &mut Disk, dest_file_path: &PathBuf, lazy: bool, version: u64, reached_the_locked_section: &mut bool) -> Result<(), Error> { $pre *reached_the_locked_section = true; Ok(()) }
//@rw R5 ?
    dest_file_path.is_file()
//@with
    disk.is_file(dest_file_path)
//@ret r
//@ensures P C19 a-removal-always-records-its-version-under-the-keys-lock-there-is-no-exit-in-front-of-the-locked-section
    *final(reached_the_locked_section), final(disk).ops@ == old(disk).ops@,
//@end
}
}
fn main() {}
