//! unit: u19b
//! properties: C19
//! note: FilesystemStore (lightning-persister fs_store/common.rs): writes and removals of one key take effect in the order they were issued -- under the key's lock an operation whose version is not newer than the last one applied is skipped without touching the file, otherwise it runs and, only if it succeeded, becomes the last one applied; the recorded version never goes back
//! trusted: R15 (deep slice): execute_locked_write: the block executed under the per-key write lock, verbatim as a function of the guarded counter (the RwLock write guard is taken as `&mut u64`), the version and the callback; clean_locks and the file operations in the callbacks (rename of the temporary file, fsync, remove_file) are dropped and not claimed; R7: `callback().map(|_| { S })` is written as a match on the callback's result (std semantics of Result::map; Verus has no `_` closure parameters)
//! trusted: the callback is any `FnOnce() -> Result<(), Error>`: the function may call it only under its precondition, which the contract grants only for a version newer than the recorded one (so "the callback ran" implies "the operation was not stale")
//! assume: versions are issued in increasing order per key by get_new_version_and_lock_ref (an atomic counter, not verified); concurrency is the lock's (the contract is for the critical section)
//! trusted: assume_specification for core::cmp::max / core::cmp::min (std definitions): present in every unit so that a change that introduces them is verified instead of being rejected by the tool
use vstd::prelude::*;
verus! {
use vstd::std_specs::cmp::*;
use core::cmp;
pub assume_specification<T: core::cmp::Ord>[core::cmp::max::<T>](a: T, b: T) -> (r: T)
    ensures T::obeys_cmp_spec() ==> r == (if b.cmp_spec(&a) == core::cmp::Ordering::Less { a } else { b });
pub assume_specification<T: core::cmp::Ord>[core::cmp::min::<T>](a: T, b: T) -> (r: T)
    ensures T::obeys_cmp_spec() ==> r == (if b.cmp_spec(&a) == core::cmp::Ordering::Less { b } else { a });
pub struct Error {}
//@extract lightning-persister/src/fs_store/common.rs :: impl FilesystemStoreInner :: fn execute_locked_write
//@slice R15
    let res = { let mut last_written_version = inner_lock_ref.write().unwrap(); $body:any }; self.clean_locks(&inner_lock_ref, dest_file_path); res
//@with
    fn under_the_key_lock<F: FnOnce() -> Result<(), Error>>(last_written_version: &mut u64, version: u64, callback: F) -> Result<(), Error> { $body }
//@rw R7
    callback().map(|_| { $s:any })
//@with
    match callback() { Ok(_) => { $s Ok(()) }, Err(e) => Err(e) }
//@ret r
//@requires
    version > *old(last_written_version) ==> callback.requires(()),
//@ensures P C19 an-operation-on-a-key-is-applied-only-if-it-is-newer-than-the-last-one-applied-and-is-recorded-only-if-it-succeeded
    version <= *old(last_written_version) ==> r is Ok && *final(last_written_version) == *old(last_written_version),
    version > *old(last_written_version) ==> (r is Ok ==> *final(last_written_version) == version),
    version > *old(last_written_version) ==> (r is Err ==> *final(last_written_version) == *old(last_written_version)),
    *final(last_written_version) >= *old(last_written_version),
//@mutant same_version_applied_twice
    version <= *last_written_version
//@with
    version < *last_written_version
//@mutant stale_operation_runs_anyway
    if is_stale_version { Ok(()) }
//@with
    if is_stale_version { callback() }
//@end
}
fn main() {}
