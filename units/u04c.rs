//! unit: u04c
//! properties: C04
//! note: authenticity of an inbound payment: inbound_payment::verify accepts only if the payment secret's IV is the HMAC, under the node's own key for that method, of the (still encrypted) payment info, the payment hash and the metadata - or, for LDK-generated hashes, if the HMAC-derived preimage hashes to the payment hash (HMAC-SHA256 and SHA256 uninterpreted)
//! trusted: HmacEngine is a stub that records key and the concatenation of its inputs in ghost fields; Hmac::from_engine(..).to_byte_array() is the uninterpreted hmac_sha256(key, data); Sha256::hash(..).to_byte_array() is the external_body wrapper sha256 (R8); fixed_time_eq is extracted-by-contract (equal lengths required, result = equality); `(x.len() as u64).to_le_bytes()` is the external_body wrapper le64 (R8); `&h.split_at_mut(IV_LEN).0` is the external_body wrapper first_iv_len (first 16 bytes, R8); ExpandedKey is extracted; PaymentHash / PaymentPreimage newtypes
//! trusted: R15 (deep slices): create / create_from_hash / create_for_spontaneous_payment: the statements from the construction of the HMAC engine to the end of each function, verbatim (construct_payment_secret external_body over the uninterpreted secret_of; `iv.copy_from_slice(&h[..IV_LEN])` is the external_body wrapper copy_prefix, R8); building the info bytes (Kani h_info_bytes) and encrypting the metadata before these statements are dropped and not claimed
//! trusted: R15: verify: the unit extracts the `match payment_type_res { .. }` statement that authenticates the secret (all five arms) verbatim as a function of the decrypted (iv_bytes, info_bytes); inside its arms the two blocks that decrypt the payment metadata after a successful check are dropped (R15, stated) `payment_metadata` is a shared reference to the bytes (`.as_deref()` / `.map(Vec::as_slice)` dropped, R5) and the full-range slice `&info_bytes[..]` of an array is written `&info_bytes` (R8); decrypting the secret, the amount / expiry tests (unit u04b) and the method-bits decoding (Kani harness h_info_bytes) are outside this unit
//! trusted: assume_specification for core::cmp::max / core::cmp::min (std definitions): present in every unit so that a change that introduces them is verified instead of being rejected by the tool
use vstd::prelude::*;
verus! {
use vstd::std_specs::cmp::*;
use core::cmp;
pub assume_specification<T: core::cmp::Ord>[core::cmp::max::<T>](a: T, b: T) -> (r: T)
    ensures T::obeys_cmp_spec() ==> r == (if b.cmp_spec(&a) == core::cmp::Ordering::Less { a } else { b });
pub assume_specification<T: core::cmp::Ord>[core::cmp::min::<T>](a: T, b: T) -> (r: T)
    ensures T::obeys_cmp_spec() ==> r == (if b.cmp_spec(&a) == core::cmp::Ordering::Less { b } else { a });
#[derive(Clone, Copy)] pub struct PaymentHash(pub [u8; 32]);
#[derive(Clone, Copy)] pub struct PaymentPreimage(pub [u8; 32]);
pub uninterp spec fn hmac_sha256(key: [u8; 32], data: Seq<u8>) -> [u8; 32];
pub uninterp spec fn sha256_spec(d: [u8; 32]) -> [u8; 32];
pub uninterp spec fn le64_spec(x: u64) -> Seq<u8>;
pub struct HmacEngine { pub key: Ghost<[u8; 32]>, pub data: Ghost<Seq<u8>> }
impl HmacEngine {
    #[verifier::external_body] pub fn new(key: &[u8; 32]) -> (r: HmacEngine) ensures r.key@ == *key, r.data@ == Seq::<u8>::empty() { unimplemented!() }
    #[verifier::external_body] pub fn input(&mut self, bytes: &[u8]) ensures final(self).key@ == old(self).key@, final(self).data@ == old(self).data@ + bytes@ { unimplemented!() }
}
pub struct Hmac { pub v: [u8; 32] }
impl Hmac {
    #[verifier::external_body] pub fn from_engine(e: HmacEngine) -> (r: Hmac) ensures r.v == hmac_sha256(e.key@, e.data@) { unimplemented!() }
    #[verifier::external_body] pub fn to_byte_array(self) -> (r: [u8; 32]) ensures r == self.v { unimplemented!() }
}
#[verifier::external_body] pub fn sha256(d: &[u8; 32]) -> (r: [u8; 32]) ensures r == sha256_spec(*d) { unimplemented!() }
#[verifier::external_body] pub fn le64(x: u64) -> (r: [u8; 8]) ensures r@ == le64_spec(x) { unimplemented!() }
#[verifier::external_body] pub fn first_iv_len(h: &[u8; 32]) -> (r: &[u8]) ensures r@ == h@.take(16) { unimplemented!() }
#[verifier::external_body] pub fn fixed_time_eq(a: &[u8], b: &[u8]) -> (r: bool) requires a@.len() == b@.len() ensures r == (a@ == b@) { unimplemented!() }
//@const lightning/src/ln/inbound_payment.rs IV_LEN INFO_LEN
//@extract lightning/src/ln/inbound_payment.rs :: struct ExpandedKey
//@end
//@extract lightning/src/ln/inbound_payment.rs :: enum Method
//@rw R5 *
    = $n:lit,
//@with
    ,
//@end
// what the engine has been fed: inputs concatenated in feeding order (left-associated, as HmacEngine::input records them)
pub open spec fn with_meta(d: Seq<u8>, m: Option<Seq<u8>>) -> Seq<u8> { if m is Some { (d + le64_spec(m->Some_0.len() as u64)) + m->Some_0 } else { d } }
pub open spec fn fed2(a: Seq<u8>, b: Seq<u8>) -> Seq<u8> { (Seq::<u8>::empty() + a) + b }
pub open spec fn fed1(a: Seq<u8>) -> Seq<u8> { Seq::<u8>::empty() + a }

//@extract lightning/src/ln/inbound_payment.rs :: fn derive_ldk_payment_preimage
//@rw R8 ?
    &(metadata.len() as u64).to_le_bytes()
//@with
    le64(metadata.len() as u64).as_slice()
//@rw R8
    Sha256::hash(&decoded_payment_preimage).to_byte_array()
//@with
    sha256(&decoded_payment_preimage)
//@rw R5
    HmacEngine::<Sha256>::new(
//@with
    HmacEngine::new(
//@ret r
//@ensures P C04 an-ldk-generated-payment-hash-is-accepted-only-if-the-preimage-derived-under-our-key-from-the-secret-and-the-metadata-hashes-to-it
    r is Ok <==> sha256_spec(hmac_sha256(keys.ldk_pmt_hash_key, with_meta(fed2(iv_bytes@, info_bytes@), if payment_metadata is Some { Some(payment_metadata->Some_0@) } else { None })))@ == payment_hash.0@,
    r is Ok ==> r->Ok_0.0 == hmac_sha256(keys.ldk_pmt_hash_key, with_meta(fed2(iv_bytes@, info_bytes@), if payment_metadata is Some { Some(payment_metadata->Some_0@) } else { None })),
//@mutant metadata_not_authenticated_for_ldk_hashes
    if let Some(metadata) = payment_metadata { hmac.input(&(metadata.len() as u64).to_le_bytes()); hmac.input(metadata); }
//@with
    
//@end

//@extract lightning/src/ln/inbound_payment.rs :: fn verify
//@slice R15
    let mut payment_preimage = None; match payment_type_res { $arms:any } match payment_type_res {
//@with
    fn authenticate_payment_secret(payment_hash: PaymentHash, payment_type_res: &Result<Method, u8>, iv_bytes: [u8; IV_LEN], info_bytes: [u8; INFO_LEN], payment_metadata: Option<&[u8]>, keys: &ExpandedKey) -> Result<Option<PaymentPreimage>, ()> {
        let mut payment_preimage = None;
        match payment_type_res { $arms }
        Ok(payment_preimage)
    }
//@rw R15
    if let Some(metadata) = payment_metadata.as_mut() { $dec:any } },
//@with
    },
//@rw R15
    if let Some(metadata) = payment_metadata { apply_chacha20($a); }
//@with
    
//@rw R5
    payment_metadata.as_deref().map(Vec::as_slice)
//@with
    payment_metadata
//@rw R5
    if let Some(metadata) = payment_metadata.as_deref() {
//@with
    if let Some(metadata) = payment_metadata {
//@rw R8
    &(metadata.len() as u64).to_le_bytes()
//@with
    le64(metadata.len() as u64).as_slice()
//@rw R8 *
    &info_bytes[..]
//@with
    &info_bytes
//@rw R8 *
    &Hmac::from_engine(hmac).to_byte_array().split_at_mut(IV_LEN).0
//@with
    first_iv_len(&Hmac::from_engine(hmac).to_byte_array())
//@rw R5 *
    HmacEngine::<Sha256>::new(
//@with
    HmacEngine::new(
//@ret r
//@ensures P C04 a-payment-secret-is-authentic-only-if-its-iv-is-the-hmac-of-the-payment-info-the-payment-hash-and-the-metadata-under-the-nodes-key-for-its-method
    r is Ok ==> match *payment_type_res {
        Ok(Method::UserPaymentHash) | Ok(Method::UserPaymentHashCustomFinalCltv) =>
            iv_bytes@ == hmac_sha256(keys.user_pmt_hash_key, with_meta(fed2(info_bytes@, payment_hash.0@), if payment_metadata is Some { Some(payment_metadata->Some_0@) } else { None }))@.take(16),
        Ok(Method::LdkPaymentHash) | Ok(Method::LdkPaymentHashCustomFinalCltv) =>
            r->Ok_0 is Some && sha256_spec(r->Ok_0->Some_0.0)@ == payment_hash.0@
            && r->Ok_0->Some_0.0 == hmac_sha256(keys.ldk_pmt_hash_key, with_meta(fed2(iv_bytes@, info_bytes@), if payment_metadata is Some { Some(payment_metadata->Some_0@) } else { None })),
        Ok(Method::SpontaneousPayment) => payment_metadata is None && iv_bytes@ == hmac_sha256(keys.spontaneous_pmt_key, fed1(info_bytes@))@.take(16),
        Err(_) => false,
    },
//@mutant payment_hash_left_out_of_the_user_hash_hmac
    hmac.input(&info_bytes[..]); hmac.input(&payment_hash.0);
//@with
    hmac.input(&info_bytes[..]);
//@mutant spontaneous_secret_not_checked
    log_trace!(logger, "Failing async payment HTLC with sender-generated payment_hash {}: unexpected payment_secret", &payment_hash); return Err(());
//@with
    
//@end

// ---- the other direction: the secrets the node hands out are built with exactly the HMACs verify() later checks (three R15 slices: the HMAC tails of create_from_hash, create_for_spontaneous_payment and create) ----
pub struct PaymentSecret(pub [u8; 32]);
pub uninterp spec fn secret_of(iv: [u8; 16], info: [u8; 16], info_key: [u8; 32]) -> PaymentSecret;
#[verifier::external_body] pub fn construct_payment_secret(iv_bytes: &[u8; IV_LEN], info_bytes: &[u8; INFO_LEN], info_key: &[u8; 32]) -> (r: PaymentSecret) ensures r == secret_of(*iv_bytes, *info_bytes, *info_key) { unimplemented!() }
#[verifier::external_body] pub fn copy_prefix(dst: &mut [u8; 16], src: &[u8; 32]) ensures final(dst)@ == src@.take(16) { unimplemented!() }

//@extract lightning/src/ln/inbound_payment.rs :: fn create_from_hash
//@slice R15
    let mut hmac = HmacEngine::<Sha256>::new(&keys.user_pmt_hash_key); $tail:any }
//@with
    fn create_from_hash_hmac_tail(keys: &ExpandedKey, info_bytes: [u8; INFO_LEN], payment_hash: PaymentHash, payment_metadata: Option<Vec<u8>>) -> Result<(PaymentSecret, Option<Vec<u8>>), ()> {
        let mut hmac = HmacEngine::new(&keys.user_pmt_hash_key);
        $tail
    }
//@rw R8 ?
    &(metadata.len() as u64).to_le_bytes()
//@with
    le64(metadata.len() as u64).as_slice()
//@rw R8
    iv_bytes.copy_from_slice(&hmac_bytes[..IV_LEN]);
//@with
    copy_prefix(&mut iv_bytes, &hmac_bytes);
//@rw R5
    hmac.input(metadata);
//@with
    hmac.input(metadata.as_slice());
//@ret r
//@ensures P C04 the-secret-handed-out-for-a-user-supplied-hash-carries-as-its-iv-the-very-hmac-that-verify-recomputes
    r is Ok && r->Ok_0.1 == payment_metadata,
    exists|iv: [u8; 16]| r->Ok_0.0 == secret_of(iv, info_bytes, keys.info_key)
        && iv@ == hmac_sha256(keys.user_pmt_hash_key, with_meta(fed2(info_bytes@, payment_hash.0@), if payment_metadata is Some { Some(payment_metadata->Some_0@) } else { None }))@.take(16),
//@mutant payment_hash_left_out_when_creating
    hmac.input(&info_bytes); hmac.input(&payment_hash.0);
//@with
    hmac.input(&info_bytes);
//@end

//@extract lightning/src/ln/inbound_payment.rs :: fn create_for_spontaneous_payment
//@slice R15
    let mut hmac = HmacEngine::<Sha256>::new(&keys.spontaneous_pmt_key); $tail:any }
//@with
    fn create_spontaneous_hmac_tail(keys: &ExpandedKey, info_bytes: [u8; INFO_LEN]) -> Result<PaymentSecret, ()> {
        let mut hmac = HmacEngine::new(&keys.spontaneous_pmt_key);
        $tail
    }
//@rw R8
    iv_bytes.copy_from_slice(&hmac_bytes[..IV_LEN]);
//@with
    copy_prefix(&mut iv_bytes, &hmac_bytes);
//@ret r
//@ensures P C04 the-secret-handed-out-for-a-spontaneous-payment-carries-the-hmac-that-verify-recomputes
    r is Ok,
    exists|iv: [u8; 16]| r->Ok_0 == secret_of(iv, info_bytes, keys.info_key) && iv@ == hmac_sha256(keys.spontaneous_pmt_key, fed1(info_bytes@))@.take(16),
//@end

//@extract lightning/src/ln/inbound_payment.rs :: fn create
//@slice R15
    let mut hmac = HmacEngine::<Sha256>::new(&keys.ldk_pmt_hash_key); $tail:any }
//@with
    fn create_hmac_tail(keys: &ExpandedKey, iv_bytes: [u8; IV_LEN], info_bytes: [u8; INFO_LEN], payment_metadata: Option<Vec<u8>>) -> Result<(PaymentHash, PaymentSecret, Option<Vec<u8>>), ()> {
        let mut hmac = HmacEngine::new(&keys.ldk_pmt_hash_key);
        $tail
    }
//@rw R8 ?
    &(metadata.len() as u64).to_le_bytes()
//@with
    le64(metadata.len() as u64).as_slice()
//@rw R5
    hmac.input(metadata);
//@with
    hmac.input(metadata.as_slice());
//@rw R8
    Sha256::hash(&payment_preimage_bytes).to_byte_array()
//@with
    sha256(&payment_preimage_bytes)
//@ret r
//@ensures P C04 the-payment-hash-handed-out-by-create-is-the-hash-of-the-preimage-verify-derives-from-the-secret
    r is Ok && r->Ok_0.1 == secret_of(iv_bytes, info_bytes, keys.info_key),
    r->Ok_0.0.0 == sha256_spec(hmac_sha256(keys.ldk_pmt_hash_key, with_meta(fed2(iv_bytes@, info_bytes@), if payment_metadata is Some { Some(payment_metadata->Some_0@) } else { None }))),
//@end
}
fn main() {}
