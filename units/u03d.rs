//! unit: u03d
//! properties: C03 C18
//! note: the map of outbound payments, by payment id (outbound_payment.rs): a BOLT-12 payment is registered under an id only if the id is free (a second registration is refused and changes nothing); an invoice moves an entry from AwaitingInvoice to InvoiceReceived exactly once, carrying the retry strategy and routing limits chosen when the payment was registered and the invoice's payment hash (a second copy of the invoice is recognised and starts nothing, an entry in any other state refuses it, an id nobody registered refuses it); after a send failed the entry is forgotten only when NO path went out (all-failed-resend-safe and the two parameter errors) - a duplicate-id refusal and a partial failure leave the entry of the payment that IS in flight where it is
//! trusted: add_new_awaiting_invoice, mark_invoice_received_and_get_details and remove_outbound_if_all_failed are extracted whole; R5: `&self` with the mutex-guarded map written `&mut self` over an environment map with the std entry API (occupied / vacant entry over a slot: get, into_mut, insert; nested prophecy ties the slot's final value to the map's), `self.pending_outbound_payments.lock().unwrap()` -> the map itself; the atomic flag awaiting_invoice is a bool field; PendingOutboundPayment is restricted to AwaitingInvoice / InvoiceReceived with the fields these functions read plus a catch-all variant; Retry / RouteParametersConfig / StaleExpiration opaque Copy values; Bolt12Invoice answers an uninterpreted payment hash
//! trusted: assume_specification for core::cmp::max / core::cmp::min (std definitions): present in every unit so that a change that introduces them is verified instead of being rejected by the tool
use vstd::prelude::*;
verus! {
use vstd::std_specs::cmp::*;
use core::cmp;
pub assume_specification<T: core::cmp::Ord>[core::cmp::max::<T>](a: T, b: T) -> (r: T)
    ensures T::obeys_cmp_spec() ==> r == (if b.cmp_spec(&a) == core::cmp::Ordering::Less { a } else { b });
pub assume_specification<T: core::cmp::Ord>[core::cmp::min::<T>](a: T, b: T) -> (r: T)
    ensures T::obeys_cmp_spec() ==> r == (if b.cmp_spec(&a) == core::cmp::Ordering::Less { b } else { a });
#[derive(Clone, Copy)] pub struct PaymentId(pub u64);
#[derive(Clone, Copy)] pub struct PaymentHash(pub u64);
#[derive(Clone, Copy)] pub struct Retry(pub u64);
#[derive(Clone, Copy)] pub struct RouteParametersConfig(pub u64);
#[derive(Clone, Copy)] pub struct StaleExpiration(pub u64);
pub struct RetryableInvoiceRequest { pub id: u64 }
pub struct Bolt12Invoice { pub hash: PaymentHash }
impl Bolt12Invoice { #[verifier::external_body] pub fn payment_hash(&self) -> (r: PaymentHash) ensures r == self.hash { unimplemented!() } }
pub enum Bolt12PaymentError { UnexpectedInvoice, DuplicateInvoice }
pub enum PendingOutboundPayment {
    AwaitingInvoice { expiration: StaleExpiration, retry_strategy: Retry, route_params_config: RouteParametersConfig, retryable_invoice_request: Option<RetryableInvoiceRequest> },
    InvoiceReceived { payment_hash: PaymentHash, retry_strategy: Retry, route_params_config: RouteParametersConfig },
    InFlightOrTerminal { id: u64 },
}
pub struct PayMap { pub m: Ghost<Map<PaymentId, PendingOutboundPayment>> }
pub enum Entry<'a> { Occupied(OccupiedEntry<'a>), Vacant(VacantEntry<'a>) }
pub struct OccupiedEntry<'a> { pub slot: &'a mut PendingOutboundPayment }
pub struct VacantEntry<'a> { pub slot: &'a mut Option<PendingOutboundPayment> }
impl<'a> OccupiedEntry<'a> {
    #[verifier::external_body] pub fn get(&self) -> (r: &PendingOutboundPayment) ensures *r == *old(self.slot) { unimplemented!() }
    #[verifier::external_body] pub fn into_mut(self) -> (r: &'a mut PendingOutboundPayment) ensures *r == *old(self.slot), *final(self.slot) == *final(r) { unimplemented!() }
}
impl<'a> VacantEntry<'a> { #[verifier::external_body] pub fn insert(self, v: PendingOutboundPayment) ensures *final(self.slot) == Some(v) { unimplemented!() } }
impl PayMap {
    #[verifier::external_body] pub fn entry<'a>(&'a mut self, k: PaymentId) -> (e: Entry<'a>)
        ensures old(self).m@.contains_key(k) ==> (e matches Entry::Occupied(o) && *o.slot == old(self).m@[k] && final(self).m@ == old(self).m@.insert(k, *final(o.slot))),
            !old(self).m@.contains_key(k) ==> (e matches Entry::Vacant(v) && *v.slot is None && final(self).m@ == (match *final(v.slot) { Some(x) => old(self).m@.insert(k, x), None => old(self).m@ })),
    { unimplemented!() }
    #[verifier::external_body] pub fn remove(&mut self, k: &PaymentId) -> (r: Option<PendingOutboundPayment>)
        ensures r is Some == old(self).m@.contains_key(*k), final(self).m@ == old(self).m@.remove(*k) { unimplemented!() }
}
pub struct OutboundPayments { pub pending_outbound_payments: PayMap, pub awaiting_invoice: bool }
pub enum PaymentSendFailure { ParameterError(u8), PathParameterError(u8), AllFailedResendSafe(u8), DuplicatePayment, PartialFailure { results: u8 } }
impl OutboundPayments {
//@extract lightning/src/ln/outbound_payment.rs :: impl OutboundPayments :: fn add_new_awaiting_invoice
//@rw R5
    &self, payment_id
//@with
    &mut self, payment_id
//@rw R5
    let mut pending_outbounds = self.pending_outbound_payments.lock().unwrap();
//@with
    let pending_outbounds = &mut self.pending_outbound_payments;
//@rw R5
    self.awaiting_invoice.store(true, Ordering::Release);
//@with
    self.awaiting_invoice = true;
//@rw * R5
    hash_map::Entry::
//@with
    Entry::
//@ret r
//@ensures P C03,C18 a-bolt12-payment-is-registered-under-an-id-only-if-the-id-is-free-and-a-refused-registration-changes-nothing
    old(self).pending_outbound_payments.m@.contains_key(payment_id) ==> r is Err && final(self).pending_outbound_payments.m@ == old(self).pending_outbound_payments.m@,
    !old(self).pending_outbound_payments.m@.contains_key(payment_id) ==> r is Ok
        && final(self).pending_outbound_payments.m@ == old(self).pending_outbound_payments.m@.insert(payment_id, PendingOutboundPayment::AwaitingInvoice { expiration, retry_strategy, route_params_config, retryable_invoice_request }),
//@mutant second_registration_under_a_used_id_replaces_the_payment
    hash_map::Entry::Occupied(_) => Err(()),
//@with
    hash_map::Entry::Occupied(o) => { *o.into_mut() = PendingOutboundPayment::AwaitingInvoice { expiration, retry_strategy, route_params_config, retryable_invoice_request }; Ok(()) },
//@end
//@extract lightning/src/ln/outbound_payment.rs :: impl OutboundPayments :: fn mark_invoice_received_and_get_details
//@rw R5
    &self, invoice
//@with
    &mut self, invoice
//@rw R5
    match self.pending_outbound_payments.lock().unwrap().entry(payment_id) {
//@with
    match self.pending_outbound_payments.entry(payment_id) {
//@rw * R5
    hash_map::Entry::
//@with
    Entry::
//@ret r
//@ensures P C03,C18 an-invoice-moves-a-payment-from-awaiting-invoice-to-invoice-received-exactly-once-with-the-retry-strategy-and-routing-limits-it-was-registered-with-a-second-copy-starts-nothing-and-any-other-state-refuses-it
    match (if old(self).pending_outbound_payments.m@.contains_key(payment_id) { Some(old(self).pending_outbound_payments.m@[payment_id]) } else { None::<PendingOutboundPayment> }) {
        None => r == Err::<(PaymentHash, Retry, RouteParametersConfig, bool), Bolt12PaymentError>(Bolt12PaymentError::UnexpectedInvoice) && final(self).pending_outbound_payments.m@ == old(self).pending_outbound_payments.m@,
        Some(PendingOutboundPayment::AwaitingInvoice { retry_strategy, route_params_config, .. }) => r == Ok::<(PaymentHash, Retry, RouteParametersConfig, bool), Bolt12PaymentError>((invoice.hash, retry_strategy, route_params_config, true))
            && final(self).pending_outbound_payments.m@ == old(self).pending_outbound_payments.m@.insert(payment_id, PendingOutboundPayment::InvoiceReceived { payment_hash: invoice.hash, retry_strategy, route_params_config }),
        Some(PendingOutboundPayment::InvoiceReceived { retry_strategy, route_params_config, .. }) => r == Ok::<(PaymentHash, Retry, RouteParametersConfig, bool), Bolt12PaymentError>((invoice.hash, retry_strategy, route_params_config, false))
            && final(self).pending_outbound_payments.m@ =~= old(self).pending_outbound_payments.m@,
        Some(_) => r == Err::<(PaymentHash, Retry, RouteParametersConfig, bool), Bolt12PaymentError>(Bolt12PaymentError::DuplicateInvoice) && final(self).pending_outbound_payments.m@ =~= old(self).pending_outbound_payments.m@,
    },
//@mutant a_second_copy_of_the_invoice_counts_as_new
    Ok((invoice.payment_hash(), *retry_strategy, *route_params_config, false))
//@with
    Ok((invoice.payment_hash(), *retry_strategy, *route_params_config, true))
//@mutant invoice_accepted_for_a_payment_already_in_flight
    _ => Err(Bolt12PaymentError::DuplicateInvoice),
//@with
    _ => Ok((invoice.payment_hash(), Retry(0), RouteParametersConfig(0), true)),
//@end
//@extract lightning/src/ln/outbound_payment.rs :: impl OutboundPayments :: fn remove_outbound_if_all_failed
//@rw R5
    &self, payment_id
//@with
    &mut self, payment_id
//@rw * R5
    self.pending_outbound_payments.lock().unwrap().remove(&payment_id)
//@with
    self.pending_outbound_payments.remove(&payment_id)
//@r7
//@requires
    old(self).pending_outbound_payments.m@.contains_key(payment_id),
//@ensures P C03 after-a-failed-send-the-payment-is-forgotten-only-when-no-path-went-out-a-duplicate-id-refusal-and-a-partial-failure-leave-the-payment-in-flight-where-it-is
    (*err is DuplicatePayment || *err is PartialFailure) ==> final(self).pending_outbound_payments.m@ == old(self).pending_outbound_payments.m@,
    !(*err is DuplicatePayment || *err is PartialFailure) ==> final(self).pending_outbound_payments.m@ == old(self).pending_outbound_payments.m@.remove(payment_id),
//@mutant refused_duplicate_removes_the_payment_in_flight
    PaymentSendFailure::DuplicatePayment | PaymentSendFailure::PartialFailure { .. } => {}
//@with
    PaymentSendFailure::DuplicatePayment => { self.pending_outbound_payments.lock().unwrap().remove(&payment_id); } PaymentSendFailure::PartialFailure { .. } => {}
//@end
}
}
fn main() {}
