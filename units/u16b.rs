//! unit: u16b
//! properties: C16
//! note: the bottleneck formula of PaymentPath::max_final_value_msat: the contribution a path is raised to, plus the aggregated fee of the following hops, never exceeds the bottleneck hop's maximum
//! trusted: R15 (statement slicing): the function is built from iterator chains and a HashMap and cannot be verified whole; the unit extracts the single statement `let hop_max_final_value_contribution = <expr>;` from the real function on every run and verifies <expr> as a function of the three variables it reads (hop_max_msat, next_hops_aggregated_base, next_hops_aggregated_prop); everything else in the function is dropped and not claimed
//! trusted: R15 (deep slice): the index expression of the `map_err` on the aggregation, verbatim as a function of the hop index (an empty tail cannot overflow: compute_aggregated_base_prop_fee of no hops is (0, 0), proved in u16c, hence the precondition that a following hop exists)
//! trusted: assume_specification for core::cmp::min / core::cmp::max
//! note: that the aggregated (base, proportional) fee of the following hops covers the fee those hops charge when composed hop by hop is proved in unit u16c (lemma_aggregate_covers_composition)
use vstd::prelude::*;
verus! {
use vstd::std_specs::cmp::*;
use core::cmp;
pub assume_specification<T: core::cmp::Ord>[core::cmp::max::<T>](a: T, b: T) -> (r: T)
    ensures T::obeys_cmp_spec() ==> r == (if b.cmp_spec(&a) == core::cmp::Ordering::Less { a } else { b });
pub assume_specification<T: core::cmp::Ord>[core::cmp::min::<T>](a: T, b: T) -> (r: T)
    ensures T::obeys_cmp_spec() ==> r == (if b.cmp_spec(&a) == core::cmp::Ordering::Less { b } else { a });

//@extract lightning/src/routing/router.rs :: impl PaymentPath :: fn max_final_value_msat
//@rw R15
    fn max_final_value_msat($params:any) -> $ret:tt<$ra:any> { $p1:any for $x:tt in $it { $p2:any let hop_max_final_value_contribution = $e; $q2:any } $q1:any }
//@with
    fn max_final_value_contribution_expr(hop_max_msat: u64, next_hops_aggregated_base: u64, next_hops_aggregated_prop: u64) -> Option<u128> { $e }
//@rw nth=1 R9
    .and_then(|$f:ident| $b)
//@with
    .and_then(|$f: u128| -> (o: Option<u128>) requires $f <= u64::MAX ensures o == Some(($f * 1_000_000) as u128) { $b })
//@rw nth=1 R9
    .and_then(|$f:ident| $b)
//@with
    .and_then(|$f: u128| -> (o: Option<u128>) requires $f <= u64::MAX as int * 1_000_000 ensures o is Some, o->Some_0 >= $f, o->Some_0 as int - $f as int <= 999_999, o->Some_0 as int - $f as int <= next_hops_aggregated_prop { $b })
//@rw R9
    .map(|$f:ident| $b)
//@with
    .map(|$f: u128| -> (o: u128) requires $f <= u64::MAX as int * 1_000_000 + 1_000_000 ensures o as int == $f as int / (next_hops_aggregated_prop as int + 1_000_000) { $b })
//@ret r
//@ensures P C16 raised-path-value-plus-following-hops-fees-never-exceeds-the-bottleneck-maximum
    r is Some <==> hop_max_msat >= next_hops_aggregated_base,
    r is Some ==> ({
        let v = r->Some_0 as int;
        // what the bottleneck hop must carry for the payee to receive v (aggregated fee model, rounded down as compute_fees does)
        v + next_hops_aggregated_base as int + (v * next_hops_aggregated_prop as int) / 1_000_000 <= hop_max_msat as int
    }),
//@at body_start
    proof {
        let x = hop_max_msat as int - next_hops_aggregated_base as int;
        let p = next_hops_aggregated_prop as int;
        if x >= 0 {
            assert forall|num: int| #![trigger num / (p + 1_000_000)] x * 1_000_000 <= num <= x * 1_000_000 + 999_999 implies ({
                let v = num / (p + 1_000_000);
                v + (v * p) / 1_000_000 <= x && v >= 0 }) by {
                let v = num / (p + 1_000_000);
                assert(v * (p + 1_000_000) <= num) by (nonlinear_arith) requires v == num / (p + 1_000_000), p + 1_000_000 > 0, num >= 0;
                assert(v >= 0) by (nonlinear_arith) requires v == num / (p + 1_000_000), p + 1_000_000 > 0, num >= 0;
                assert(v * p + v * 1_000_000 == v * (p + 1_000_000)) by (nonlinear_arith);
                assert(v * p >= 0) by (nonlinear_arith) requires v >= 0, p >= 0;
                assert((v * p) / 1_000_000 <= x - v) by (nonlinear_arith) requires v * p + v * 1_000_000 <= x * 1_000_000 + 999_999, v * p >= 0;
            }
        }
    }
//@mutant slack_not_capped
    cmp::min(next_hops_aggregated_prop, 999_999)
//@with
    next_hops_aggregated_prop
//@end
// when the fees of the hops after hop idx overflow on aggregation, the hop whose liquidity get_route marks exhausted (so that the next search avoids it) is one of THOSE hops - never the hop being examined or an earlier one (in particular never the payer's own first-hop channel, which valid alternative paths share)
//@extract lightning/src/routing/router.rs :: impl PaymentPath :: fn max_final_value_msat
//@slice R15
    compute_aggregated_base_prop_fee(next_hops_feerates_iter) .map_err(|_| $e:seq)?;
//@with
    fn hop_blamed_when_the_fees_after_hop_idx_overflow(idx: usize, n_hops: usize) -> usize { $e }
//@ret r
//@requires
    idx + 1 < n_hops,
//@ensures P C16 an-overflow-of-the-aggregated-fees-after-a-hop-is-blamed-on-one-of-the-hops-aggregated-never-on-the-hop-examined-or-an-earlier-one
    idx < r < n_hops,
//@mutant overflow_blamed_on_the_hop_being_examined
    .map_err(|_| idx + 1)?;
//@with
    .map_err(|_| idx)?;
//@end
}
fn main() {}
