//! unit: u03
//! properties: C03 C12 C10
//! note: PendingOutboundPayment state machine on the real 8-variant enum: terminal states are never contradicted, nothing is lost in a transition, completion tracking is exact
//! trusted: axiom_u8_32_key_model: [u8;32] hashes and compares lawfully (vstd obeys_key_model); new_hash_set() is an external_body wrapper for LDK's hash_tables::new_hash_set (returns an empty set); foreign payload types (StaleExpiration, Retry, RouteParametersConfig, RetryableInvoiceRequest, RouteParameters, InvoiceRequest, StaticInvoice, PaymentAttempts, PaymentParameters, PaidBolt12Invoice, Duration) are opaque external_body structs; Path is a stub {v, f} whose final_value_msat()/fee_msat() are external_body pure accessors
//! trusted: rule R7 splits or-pattern match arms into one arm per alternative
//! trusted: R15 (deep slice): remove_stale_payments runs a retain closure under two mutexes; the unit extracts the tick / keep statement of the Fulfilled arm verbatim as a function of (no_remaining_entries, the tick counter); the scan of pending events that computes no_remaining_entries is dropped and not claimed
//! trusted: R15 (deep slice): OutboundPayments::fail_htlc decodes the onion failure and works on a HashMap entry under a mutex; the unit extracts the whole per-payment block of the Occupied arm verbatim as a function of the payment (checked against the proved contracts of remove / is_fulfilled / mark_abandoned above); `payment.get()/get_mut()` become the reference itself, `payment.remove()` sets a flag, `return;` returns None (R5); is_auto_retryable_now / insert_previously_failed_* are external_body (retry strategy opaque; frame assumed); Event reduced to PaymentFailed; the path events built afterwards are dropped and not claimed
//! trusted: R15 (deep slice): OutboundPayments::fail_htlc: the last statement (which of the queued events carries the completion action), verbatim as a function of the two events and the action (the event queue is a stub recording push_back)
//! trusted: R15 (deep slice): OutboundPayments::claim_htlc: the whole per-payment block of the Occupied arm verbatim as a function of the payment and the event queue (a Vec here; push_back -> push); Sha256::hash(..).to_byte_array() is the external_body wrapper sha256 (R8); Event reduced to the three variants used
//! trusted: R15 (deep slice): OutboundPayments::abandon_payment: the per-payment block verbatim (same conventions as fail_htlc / claim_htlc)
//! trusted: R15 (deep slice): OutboundPayments::insert_from_monitor_on_startup: the Occupied arm's `match entry.get() { .. }` with the function-local macro new_retryable! (part of the slice), verbatim as a function of the map entry (a stub holding the payment; get / get_mut external_body), hash_set_from_iter([x]) is the one-element set, PaymentAttempts::new() opaque; the Vacant arm (a fresh Retryable from the same macro) is not sliced
//! trusted: R15 (deep slice): OutboundPayments::add_new_pending_payment: the match on the map entry of the payment id, verbatim; the map is an environment type whose entry API carries the std contract, written with Verus' mutable-reference prophecy (the entry lends the slot of the key); create_pending_payment returns an uninterpreted fresh payment
//! trusted: R15 (slices): pay_route_internal: the loop that classifies the per-path send results (R6: `for (res, path) in results.iter().zip(route.paths.iter())` becomes an index loop over the shorter length; body verbatim) and the expression giving the retry amount; sending the paths and building the error value are dropped and not claimed; APIError reduced to three variants
//! assume: fail_htlc: a failure attributed to a blinded path carries no short_channel_id and the failed path has a blinded tail (debug_asserts on decode_onion_failure's result)
//! assume: callers keep the representation invariant pending_amt_msat >= value of every in-flight path (and pending_fee_msat >= its fee); remove()/insert() are not called on pre-HTLC states (LDK's debug_assert!(false) arms)
//! trusted: assume_specification for core::cmp::max / core::cmp::min (std definitions): present in every unit so that a change that introduces them is verified instead of being rejected by the tool
//! trusted: R15 (deep slices): ChannelManager::write: the body of the loop that sums num_pending_outbounds_compat and the match of the loop that writes the session keys, verbatim as functions of one pending outbound payment (the real enum and its proved accessors); R6: `for k in SET.iter() { k.write(w)?; }` is the wrapper write_each_session_priv (one record per element); the writer counts records in a ghost field
use vstd::prelude::*;
use std::collections::HashSet;
verus! {
use vstd::std_specs::cmp::*;
use core::cmp;
pub assume_specification<T: core::cmp::Ord>[core::cmp::max::<T>](a: T, b: T) -> (r: T)
    ensures T::obeys_cmp_spec() ==> r == (if b.cmp_spec(&a) == core::cmp::Ordering::Less { a } else { b });
pub assume_specification<T: core::cmp::Ord>[core::cmp::min::<T>](a: T, b: T) -> (r: T)
    ensures T::obeys_cmp_spec() ==> r == (if b.cmp_spec(&a) == core::cmp::Ordering::Less { b } else { a });

// ---- env (trusted): [u8;32] hashes/compares lawfully ----
#[verifier::external_body]
pub proof fn axiom_u8_32_key_model() ensures vstd::std_specs::hash::obeys_key_model::<[u8;32]>() {}
broadcast use vstd::std_specs::hash::group_hash_axioms;
// ---- env: opaque foreign types ----
#[verifier::external_body] pub struct StaleExpiration {}
#[verifier::external_body] pub struct Retry {}
#[verifier::external_body] pub struct RouteParametersConfig {}
#[verifier::external_body] pub struct RetryableInvoiceRequest {}
#[verifier::external_body] pub struct RouteParameters {}
#[verifier::external_body] pub struct InvoiceRequest {}
#[verifier::external_body] pub struct StaticInvoice {}
#[verifier::external_body] pub struct PaymentAttempts {}
#[verifier::external_body] pub struct PaymentParameters {}
#[verifier::external_body] pub struct PaidBolt12Invoice {}
#[verifier::external_body] pub struct Duration {}
#[derive(Clone, Copy)] pub struct PaymentHash(pub [u8; 32]);
#[derive(Clone, Copy)] pub struct PaymentPreimage(pub [u8; 32]);
#[derive(Clone, Copy)] pub struct PaymentSecret(pub [u8; 32]);
#[derive(Clone, Copy)] pub enum PaymentFailureReason { RecipientRejected, UserAbandoned, RetriesExhausted, PaymentExpired, RouteNotFound, UnexpectedError }
pub struct Path { pub v: u64, pub f: u64 }
impl Path {
    #[verifier::external_body] pub fn final_value_msat(&self) -> (r: u64) ensures r == self.v { self.v }
    #[verifier::external_body] pub fn fee_msat(&self) -> (r: u64) ensures r == self.f { self.f }
}
#[verifier::external_body]
fn new_hash_set() -> (r: HashSet<[u8; 32]>) ensures r@ == Set::<[u8;32]>::empty() { HashSet::new() }


//@extract lightning/src/ln/outbound_payment.rs :: enum PendingOutboundPayment
//@end

impl PendingOutboundPayment {
    // ---- abstract view ----
    pub open spec fn has_htlcs_state(&self) -> bool { self is Legacy || self is Retryable || self is Fulfilled || self is Abandoned }
    pub open spec fn privs(&self) -> Set<[u8;32]> {
        match self {
            PendingOutboundPayment::Legacy { session_privs } => session_privs@,
            PendingOutboundPayment::Retryable { session_privs, .. } => session_privs@,
            PendingOutboundPayment::Fulfilled { session_privs, .. } => session_privs@,
            PendingOutboundPayment::Abandoned { session_privs, .. } => session_privs@,
            _ => Set::empty(),
        }
    }
    pub open spec fn spec_total(&self) -> Option<u64> {
        match self {
			PendingOutboundPayment::Retryable { total_msat, .. } => Some(*total_msat),
			PendingOutboundPayment::Fulfilled { total_msat, .. } => *total_msat,
			PendingOutboundPayment::Abandoned { total_msat, .. } => *total_msat,
			_ => None,
        }
    }
    pub open spec fn spec_fee(&self) -> Option<u64> {
        match self {
			PendingOutboundPayment::Retryable { pending_fee_msat, .. } => *pending_fee_msat,
			PendingOutboundPayment::Abandoned { pending_fee_msat, .. } => *pending_fee_msat,
			PendingOutboundPayment::Fulfilled { fee_paid_msat, .. } => *fee_paid_msat,
			_ => None,
        }
    }
    pub open spec fn spec_hash(&self) -> Option<PaymentHash> {
		match self {
			PendingOutboundPayment::Legacy { .. } => None,
			PendingOutboundPayment::AwaitingOffer { .. } => None,
			PendingOutboundPayment::AwaitingInvoice { .. } => None,
			PendingOutboundPayment::InvoiceReceived { payment_hash, .. } => Some(*payment_hash),
			PendingOutboundPayment::StaticInvoiceReceived { payment_hash, .. } => Some(*payment_hash),
			PendingOutboundPayment::Retryable { payment_hash, .. } => Some(*payment_hash),
			PendingOutboundPayment::Fulfilled { payment_hash, .. } => *payment_hash,
			PendingOutboundPayment::Abandoned { payment_hash, .. } => Some(*payment_hash),
		}
    }

//@extract lightning/src/ln/outbound_payment.rs :: impl PendingOutboundPayment :: fn is_fulfilled
//@ret r
//@ensures A
    r == (self is Fulfilled)
//@end
//@extract lightning/src/ln/outbound_payment.rs :: impl PendingOutboundPayment :: fn abandoned
//@ret r
//@ensures A
    r == (self is Abandoned)
//@end
//@extract lightning/src/ln/outbound_payment.rs :: impl PendingOutboundPayment :: fn get_pending_fee_msat
//@ret r
//@ensures A
    r == self.spec_fee()
//@end
//@extract lightning/src/ln/outbound_payment.rs :: impl PendingOutboundPayment :: fn total_msat
//@ret r
//@ensures A
    r == self.spec_total()
//@end
//@extract lightning/src/ln/outbound_payment.rs :: impl PendingOutboundPayment :: fn payment_hash
//@ret r
//@ensures A
    r == self.spec_hash()
//@end
//@extract lightning/src/ln/outbound_payment.rs :: impl PendingOutboundPayment :: fn mark_fulfilled
//@r7
//@requires
    old(self).has_htlcs_state()
//@ensures P C03 fulfilment-loses-no-in-flight-part-and-carries-hash-total-fee
    (*final(self)) is Fulfilled,
    final(self).privs() == old(self).privs(),                 // no in-flight part forgotten
    final(self).spec_hash() == old(self).spec_hash(),
    final(self).spec_total() == old(self).spec_total(),
    final(self).spec_fee() == old(self).spec_fee(),
//@mutant fee_dropped_on_fulfil
    let fee_paid_msat = self.get_pending_fee_msat();
//@with
    let fee_paid_msat = None;
//@end
//@extract lightning/src/ln/outbound_payment.rs :: impl PendingOutboundPayment :: fn mark_abandoned
//@r7
//@ensures P C03 terminal-outcome-never-contradicted
    (*old(self)) is Fulfilled ==> *final(self) == *old(self),
    (*old(self)) is Abandoned ==> *final(self) == *old(self),
    (*old(self)) is Retryable ==> (*final(self)) is Abandoned
        && final(self).privs() == old(self).privs()
        && final(self).spec_hash() == old(self).spec_hash()
        && final(self).spec_total() == old(self).spec_total()
        && final(self).spec_fee() == old(self).spec_fee()
        && final(self)->Abandoned_reason == Some(reason),
    (*final(self)) is Fulfilled <==> (*old(self)) is Fulfilled,
    (*old(self)) is AwaitingInvoice || (*old(self)) is AwaitingOffer || (*old(self)) is Legacy ==> *final(self) == *old(self),
    (*old(self)) is InvoiceReceived || (*old(self)) is StaticInvoiceReceived ==> (*final(self)) is Abandoned && final(self).privs() =~= Set::<[u8; 32]>::empty(),
//@mutant abandon_a_fulfilled_payment
    Self::Retryable { payment_hash, .. } |
//@with
    Self::Fulfilled { payment_hash: Some(payment_hash), .. } | Self::Retryable { payment_hash, .. } |
//@end
}
impl PendingOutboundPayment {
    pub open spec fn spec_pending_amt(&self) -> int { match self { PendingOutboundPayment::Retryable { pending_amt_msat, .. } => *pending_amt_msat as int, _ => 0 } }

//@extract lightning/src/ln/outbound_payment.rs :: impl PendingOutboundPayment :: fn remove
//@r7
//@ret r
//@requires
    old(self).has_htlcs_state(),
    (*old(self)) is Retryable && old(self).privs().contains(*session_priv) ==> path is Some
        && old(self)->Retryable_pending_amt_msat >= path->Some_0.v
        && (old(self)->Retryable_pending_fee_msat is Some ==> old(self)->Retryable_pending_fee_msat->Some_0 >= path->Some_0.f),
//@ensures P C03 completion-tracking-removes-exactly-that-part-and-its-value
    r == old(self).privs().contains(*session_priv),
    final(self).privs() == old(self).privs().remove(*session_priv),
    // the variant never changes here
    (*final(self)) is Fulfilled <==> (*old(self)) is Fulfilled,
    (*final(self)) is Abandoned <==> (*old(self)) is Abandoned,
    (*final(self)) is Retryable <==> (*old(self)) is Retryable,
    (*final(self)) is Legacy <==> (*old(self)) is Legacy,
    final(self).spec_hash() == old(self).spec_hash(),
    final(self).spec_total() == old(self).spec_total(),
    (*old(self)) is Retryable ==> final(self).spec_pending_amt() == old(self).spec_pending_amt() - (if r { path->Some_0.v as int } else { 0 }),
    !((*old(self)) is Retryable) ==> final(self).spec_fee() == old(self).spec_fee(),
//@at body_start
    proof { axiom_u8_32_key_model(); }
//@mutant pending_amount_not_reduced
    *pending_amt_msat -= path.final_value_msat();
//@with
    *pending_amt_msat -= 0;
//@end
//@extract lightning/src/ln/outbound_payment.rs :: impl PendingOutboundPayment :: fn insert
//@r7
//@ret r
//@requires
    !((*old(self)) is AwaitingOffer || (*old(self)) is AwaitingInvoice || (*old(self)) is InvoiceReceived || (*old(self)) is StaticInvoiceReceived),
    (*old(self)) is Retryable ==> old(self)->Retryable_pending_amt_msat + path.v <= u64::MAX
        && (old(self)->Retryable_pending_fee_msat is Some ==> old(self)->Retryable_pending_fee_msat->Some_0 + path.f <= u64::MAX),
//@ensures P C03 a-resolved-payment-cannot-acquire-new-in-flight-parts
    (*old(self)) is Fulfilled || (*old(self)) is Abandoned ==> !r && *final(self) == *old(self),
    (*old(self)) is Legacy || (*old(self)) is Retryable ==> r == !old(self).privs().contains(session_priv)
        && final(self).privs() == old(self).privs().insert(session_priv),
    (*final(self)) is Retryable <==> (*old(self)) is Retryable,
    (*old(self)) is Retryable ==> final(self).spec_pending_amt() == old(self).spec_pending_amt() + (if r { path.v as int } else { 0 }),
//@at body_start
    proof { axiom_u8_32_key_model(); }
//@mutant insert_into_abandoned
    PendingOutboundPayment::Legacy { session_privs } |
//@with
    PendingOutboundPayment::Abandoned { session_privs, .. } | PendingOutboundPayment::Legacy { session_privs } |
//@end
}


// ---- restart: a payment part the monitors hold is put back into the payment it belongs to (deep R15 slice of insert_from_monitor_on_startup) ----
#[verifier::external_body]
fn hash_set_from_iter(a: [[u8; 32]; 1]) -> (r: HashSet<[u8; 32]>) ensures r@ == Set::<[u8;32]>::empty().insert(a[0]) { unimplemented!() }
impl PaymentAttempts { #[verifier::external_body] pub fn new() -> (r: PaymentAttempts) { unimplemented!() } }
pub struct OccupiedEntry { pub v: PendingOutboundPayment }
impl OccupiedEntry {
    #[verifier::external_body] pub fn get(&self) -> (r: &PendingOutboundPayment) ensures *r == self.v { unimplemented!() }
    #[verifier::external_body] pub fn get_mut(&mut self) -> (r: &mut PendingOutboundPayment) ensures *r == old(self).v, final(self).v == *final(r) { unimplemented!() }
}
//@extract lightning/src/ln/outbound_payment.rs :: impl OutboundPayments :: fn insert_from_monitor_on_startup
//@slice R15
    let path_amt = path.final_value_msat(); let path_fee = path.fee_msat(); macro_rules! new_retryable { $m:any } match self.pending_outbound_payments.lock().unwrap().entry(payment_id) { hash_map::Entry::Occupied(mut entry) => { let newly_added = match entry.get() { $arms:any };
//@with
    fn put_back_part_known_to_a_monitor(entry: &mut OccupiedEntry, payment_hash: PaymentHash, session_priv_bytes: [u8; 32], path: &Path, best_block_height: u32) -> bool {
        let path_amt = path.final_value_msat(); let path_fee = path.fee_msat();
        macro_rules! new_retryable { $m }
        let newly_added = match entry.get() { $arms };
        newly_added
    }
//@ret r
//@requires
    old(entry).v is Retryable ==> old(entry).v->Retryable_pending_amt_msat + path.v <= u64::MAX
        && (old(entry).v->Retryable_pending_fee_msat is Some ==> old(entry).v->Retryable_pending_fee_msat->Some_0 + path.f <= u64::MAX),
//@ensures P C03,C10 on-restart-an-htlc-the-monitors-hold-is-tracked-again-by-its-payment-a-payment-still-waiting-for-its-invoice-becomes-in-flight-and-a-resolved-payment-stays-resolved
    // a payment that had not yet recorded any part (the manager was written before it left the BOLT 12 waiting states) becomes in flight with exactly this part
    (old(entry).v is AwaitingOffer || old(entry).v is AwaitingInvoice || old(entry).v is InvoiceReceived || old(entry).v is StaticInvoiceReceived) ==> (
        r && final(entry).v is Retryable && final(entry).v.privs() == Set::<[u8;32]>::empty().insert(session_priv_bytes)
        && final(entry).v.spec_hash() == Some(payment_hash) && final(entry).v.spec_pending_amt() == path.v && final(entry).v.spec_total() == Some(path.v) && final(entry).v.spec_fee() == Some(path.f)),
    // a payment in flight tracks the part (once)
    (old(entry).v is Legacy || old(entry).v is Retryable) ==> (final(entry).v.privs() == old(entry).v.privs().insert(session_priv_bytes) && r == !old(entry).v.privs().contains(session_priv_bytes)
        && (final(entry).v is Retryable <==> old(entry).v is Retryable)),
    // a resolved payment is not reopened
    (old(entry).v is Fulfilled || old(entry).v is Abandoned) ==> (!r && final(entry).v == old(entry).v),
    // (finding F11) the total of a payment a part was just added to is at least what is now in flight: a multi-part payment rebuilt from monitors alone was created with its first part as its total, and PaymentSent reports the total
    r && old(entry).v is Retryable ==> final(entry).v.spec_total() is Some && final(entry).v.spec_total()->Some_0 >= final(entry).v.spec_pending_amt(),
//@at body_start
    proof { axiom_u8_32_key_model(); }
//@mutant total_of_a_payment_rebuilt_from_monitors_stays_at_its_first_part
    if *total_msat < *pending_amt_msat {
//@with
    if false {
//@mutant waiting_payment_left_waiting_on_restart
    *entry.get_mut() = new_retryable!(); true
//@with
    true
//@end
// ---- a payment id can be used once: registering a payment under an id that is already known is refused and changes nothing ----
pub mod new_payment {
use vstd::prelude::*;
use super::{PendingOutboundPayment, PaymentHash, PaymentPreimage, Retry, PaidBolt12Invoice, PaymentId};
pub enum SendFailure { DuplicatePayment, Other }
pub struct RecipientOnionFields { pub id: u64 }
pub struct Route { pub id: u64 }
pub struct Entropy {}
pub struct OccupiedEntry<'a> { pub slot: &'a mut Option<PendingOutboundPayment> }
pub struct VacantEntry<'a> { pub slot: &'a mut Option<PendingOutboundPayment> }
impl<'a> VacantEntry<'a> { #[verifier::external_body] pub fn insert(self, v: PendingOutboundPayment) ensures *final(self.slot) == Some(v) { unimplemented!() } }
pub mod hash_map { pub enum Entry<'a> { Occupied(super::OccupiedEntry<'a>), Vacant(super::VacantEntry<'a>) } }
pub open spec fn slot_of<'a>(e: hash_map::Entry<'a>) -> &'a mut Option<PendingOutboundPayment> { match e { hash_map::Entry::Occupied(o) => o.slot, hash_map::Entry::Vacant(v) => v.slot } }
pub struct PaymentsMap { pub m: Ghost<Map<PaymentId, PendingOutboundPayment>> }
impl PaymentsMap {
    // std HashMap::entry, with Verus' mutable-reference prophecy: the entry lends the slot of the key; what is left in the slot is what the map holds afterwards
    #[verifier::external_body] pub fn entry<'a>(&'a mut self, k: PaymentId) -> (e: hash_map::Entry<'a>)
        ensures e is Occupied <==> old(self).m@.contains_key(k), e is Occupied ==> *slot_of(e) == Some(old(self).m@[k]), e is Vacant ==> *slot_of(e) is None,
            final(self).m@ == (match *final(slot_of(e)) { Some(v) => old(self).m@.insert(k, v), None => old(self).m@.remove(k) }),
    { unimplemented!() }
}
pub uninterp spec fn fresh_payment(payment_hash: PaymentHash, route: Route, best_block_height: u32) -> PendingOutboundPayment;
pub struct OutboundPayments {}
impl OutboundPayments {
    #[verifier::external_body] pub fn create_pending_payment(payment_hash: PaymentHash, recipient_onion: RecipientOnionFields, keysend_preimage: Option<PaymentPreimage>, invoice_request: Option<u8>, bolt12_invoice: Option<PaidBolt12Invoice>,
        route: &Route, retry_strategy: Option<Retry>, entropy_source: &Entropy, best_block_height: u32) -> (r: (PendingOutboundPayment, Vec<[u8; 32]>))
        ensures r.0 == fresh_payment(payment_hash, *route, best_block_height) { unimplemented!() }
//@extract lightning/src/ln/outbound_payment.rs :: impl OutboundPayments :: fn add_new_pending_payment
//@slice R15
    let mut pending_outbounds = self.pending_outbound_payments.lock().unwrap(); match pending_outbounds.entry(payment_id) { $arms:any } }
//@with
    fn register_payment_under_its_id(pending_outbounds: &mut PaymentsMap, payment_hash: PaymentHash, recipient_onion: RecipientOnionFields, payment_id: PaymentId, keysend_preimage: Option<PaymentPreimage>, route: &Route, retry_strategy: Option<Retry>,
        entropy_source: &Entropy, best_block_height: u32, bolt12_invoice: Option<PaidBolt12Invoice>) -> Result<Vec<[u8; 32]>, SendFailure> { match pending_outbounds.entry(payment_id) { $arms } }
//@rw R4 *
    PaymentSendFailure::
//@with
    SendFailure::
//@ret r
//@ensures P C03 a-payment-id-that-is-already-known-pending-fulfilled-or-abandoned-is-refused-as-a-duplicate-and-nothing-changes-a-fresh-id-registers-exactly-one-new-payment
    old(pending_outbounds).m@.contains_key(payment_id) ==> r == Err::<Vec<[u8; 32]>, SendFailure>(SendFailure::DuplicatePayment) && final(pending_outbounds).m@ == old(pending_outbounds).m@,
    !old(pending_outbounds).m@.contains_key(payment_id) ==> r is Ok && final(pending_outbounds).m@ == old(pending_outbounds).m@.insert(payment_id, fresh_payment(payment_hash, *route, best_block_height)),
//@mutant known_payment_id_overwritten
    hash_map::Entry::Occupied(_) => Err(PaymentSendFailure::DuplicatePayment),
//@with
    hash_map::Entry::Occupied(e) => { *e.slot = None; Err(PaymentSendFailure::DuplicatePayment) },
//@end
}
}
// ---- how long a completed payment's id stays reserved (deep R15 slice of OutboundPayments::remove_stale_payments) ----
//@const lightning/src/ln/outbound_payment.rs IDEMPOTENCY_TIMEOUT_TICKS
//@extract lightning/src/ln/outbound_payment.rs :: impl OutboundPayments :: fn remove_stale_payments
//@slice R15
    let mut no_remaining_entries = session_privs.is_empty(); if no_remaining_entries { $scan:any } $tick:any },
//@with
    fn fulfilled_payment_is_kept(no_remaining_entries: bool, timer_ticks_without_htlcs: &mut u8) -> bool {
        $tick
    }
//@ret kept
//@requires
    *old(timer_ticks_without_htlcs) <= IDEMPOTENCY_TIMEOUT_TICKS,
//@ensures P C03 a-completed-payments-id-is-forgotten-only-after-more-than-IDEMPOTENCY_TIMEOUT_TICKS-consecutive-ticks-with-no-htlc-and-no-event-left
    kept <==> (!no_remaining_entries || *old(timer_ticks_without_htlcs) < IDEMPOTENCY_TIMEOUT_TICKS),
    !no_remaining_entries ==> *final(timer_ticks_without_htlcs) == 0,
    no_remaining_entries ==> *final(timer_ticks_without_htlcs) == *old(timer_ticks_without_htlcs) + 1,
    kept ==> *final(timer_ticks_without_htlcs) <= IDEMPOTENCY_TIMEOUT_TICKS,
//@mutant id_forgotten_one_tick_early
    *timer_ticks_without_htlcs <= IDEMPOTENCY_TIMEOUT_TICKS
//@with
    *timer_ticks_without_htlcs < IDEMPOTENCY_TIMEOUT_TICKS
//@mutant counter_not_reset_while_entries_remain
    *timer_ticks_without_htlcs = 0;
//@with
    
//@end

// ---- a failed HTLC: when the whole payment is reported PaymentFailed (deep R15 slice of OutboundPayments::fail_htlc) ----
pub struct BlindedTail {}
pub struct FailPath { pub p: Path, pub blinded_tail: Option<BlindedTail> }
#[derive(Clone, Copy)] pub struct PaymentId(pub [u8; 32]);
pub enum Event {
    PaymentFailed { payment_id: PaymentId, payment_hash: Option<PaymentHash>, reason: Option<PaymentFailureReason> },
    PaymentSent { payment_id: Option<PaymentId>, payment_preimage: PaymentPreimage, payment_hash: PaymentHash, amount_msat: Option<u64>, fee_paid_msat: Option<u64>, bolt12_invoice: Option<PaidBolt12Invoice> },
    PaymentPathSuccessful { payment_id: PaymentId, payment_hash: Option<PaymentHash>, path: FailPath, hold_times: Vec<u32> },
}
pub struct EventCompletionAction {}
pub uninterp spec fn sha256_spec(b: [u8; 32]) -> [u8; 32];
#[verifier::external_body] pub fn sha256(b: &[u8; 32]) -> (r: [u8; 32]) ensures r == sha256_spec(*b) { unimplemented!() }
impl PendingOutboundPayment {
//@extract lightning/src/ln/outbound_payment.rs :: impl PendingOutboundPayment :: fn remaining_parts
//@r7
//@ret r
//@ensures A
    r == self.privs().len(), (self.privs().len() == 0) == (self.privs() =~= Set::<[u8; 32]>::empty()),
//@at body_start
    proof { axiom_u8_32_key_model(); }
//@end
    // retry bookkeeping: an uninterpreted yes/no (Retry strategies and attempt counters are opaque here); only a Retryable payment can be retryable
    #[verifier::external_body] pub fn is_auto_retryable_now(&self) -> (r: bool) ensures r ==> (*self) is Retryable { unimplemented!() }
    // both only push onto payment_params of a Retryable payment (frame assumed: variant, parts, hash, amounts untouched)
    #[verifier::external_body] pub fn insert_previously_failed_scid(&mut self, scid: u64) ensures *final(self) == *old(self) { unimplemented!() }
    #[verifier::external_body] pub fn insert_previously_failed_blinded_path(&mut self, blinded_tail: &BlindedTail) ensures *final(self) == *old(self) { unimplemented!() }
}
//@extract lightning/src/ln/outbound_payment.rs :: impl OutboundPayments :: fn fail_htlc
//@strip events
//@slice R15
    if let hash_map::Entry::Occupied(mut payment) = outbounds.entry(*payment_id) { $body:any is_retryable_now } else {
//@with
    // returns None where the source returns early (duplicate or post-completion failure: no event, nothing removed)
    fn fail_htlc_on_payment(payment: &mut PendingOutboundPayment, session_priv_bytes: [u8; 32], path: &FailPath, short_channel_id: Option<u64>, failed_within_blinded_path: bool,
        payment_is_probe: bool, payment_failed_permanently: bool, payment_id: &PaymentId, full_failure_ev_: Option<Event>, removed: &mut bool) -> (Option<bool>, Option<Event>) {
        let mut full_failure_ev = full_failure_ev_;
        $body
        (Some(is_retryable_now), full_failure_ev)
    }
//@rw R5 *
    payment.get_mut()
//@with
    payment
//@rw R5 *
    payment.get()
//@with
    (&*payment)
//@rw R5
    payment.remove();
//@with
    *removed = true;
//@rw R5 *
    return;
//@with
    return (None, full_failure_ev);
//@rw R5
    Some(&path)
//@with
    Some(&path.p)
//@ret r
//@requires
    !*old(removed), full_failure_ev_ is None,
    // what decode_onion_failure reports (the code's two debug_asserts): a failure inside a blinded path names no channel and the path has a blinded tail
    failed_within_blinded_path ==> short_channel_id is None && path.blinded_tail is Some,
    old(payment).has_htlcs_state(),
    (*old(payment)) is Retryable && old(payment).privs().contains(session_priv_bytes) ==>
        old(payment)->Retryable_pending_amt_msat >= path.p.v && (old(payment)->Retryable_pending_fee_msat is Some ==> old(payment)->Retryable_pending_fee_msat->Some_0 >= path.p.f),
//@ensures P C03 PaymentFailed-is-reported-only-for-a-payment-that-was-never-fulfilled-is-abandoned-and-has-no-part-left-and-then-the-payment-is-forgotten
    r.1 is Some ==> !((*old(payment)) is Fulfilled) && (*final(payment)) is Abandoned && final(payment).privs() =~= Set::<[u8; 32]>::empty()
        && old(payment).privs().contains(session_priv_bytes) && *final(removed) && !payment_is_probe,
    *final(removed) ==> (*final(payment)) is Abandoned && final(payment).privs() =~= Set::<[u8; 32]>::empty(),
    // a fulfilled payment is never turned into anything else by a late failure, and a duplicate failure changes nothing
    (*old(payment)) is Fulfilled ==> (*final(payment)) is Fulfilled && r.0 is None && r.1 is None && !*final(removed),
    !old(payment).privs().contains(session_priv_bytes) ==> r.0 is None && r.1 is None && !*final(removed),
    // the last part of an abandoned (or now abandoned) payment always produces the terminal event
    r.0 is Some && (*final(payment)) is Abandoned && final(payment).privs() =~= Set::<[u8; 32]>::empty() && !payment_is_probe ==> r.1 is Some,
//@mutant payment_failed_reported_while_parts_remain
    if payment.get().remaining_parts() == 0 {
//@with
    if payment.get().remaining_parts() <= 1 {
//@mutant failure_after_fulfilment_abandons_the_payment
    if payment.get().is_fulfilled() {
//@with
    if false {
//@end

// ---- a claimed HTLC: PaymentSent is reported exactly once and truthfully (deep R15 slice of OutboundPayments::claim_htlc) ----
// the events a failed HTLC queues: the monitor is released (completion action) only by the LAST event queued for this resolution
pub struct EventQueue { pub q: Ghost<Seq<(Event, Option<EventCompletionAction>)>> }
impl EventQueue { #[verifier::external_body] pub fn push_back(&mut self, e: (Event, Option<EventCompletionAction>)) ensures final(self).q@ == old(self).q@.push(e) { unimplemented!() } }
//@extract lightning/src/ln/outbound_payment.rs :: impl OutboundPayments :: fn fail_htlc
//@strip events
//@slice R15
    .map(|act| EventCompletionAction::ReleasePaymentCompleteChannelMonitorUpdate(act)); $tail:any }
//@with
    fn queue_events_of_a_failed_htlc(pending_events: &mut EventQueue, path_failure: Event, full_failure_ev: Option<Event>, completion_action: Option<EventCompletionAction>) { $tail }
//@ensures P C03,C10 the-completion-action-that-lets-the-monitor-forget-a-failed-htlc-rides-on-the-last-event-queued-for-it-the-terminal-payment-failed-if-there-is-one
    final(pending_events).q@ == (match full_failure_ev {
        Some(ev) => old(pending_events).q@.push((path_failure, None)).push((ev, completion_action)),
        None => old(pending_events).q@.push((path_failure, completion_action)) }),
//@mutant monitor_released_by_the_path_failure_before_the_terminal_event
    pending_events.push_back((path_failure, None)); pending_events.push_back((ev, completion_action));
//@with
    pending_events.push_back((path_failure, completion_action)); pending_events.push_back((ev, None));
//@end
//@extract lightning/src/ln/outbound_payment.rs :: impl OutboundPayments :: fn claim_htlc
//@strip events
//@slice R15
    if let hash_map::Entry::Occupied(mut payment) = outbounds.entry(payment_id) { $body:any } else { $dup:any }
//@with
    fn claim_htlc_on_payment(payment: &mut PendingOutboundPayment, payment_id: PaymentId, payment_preimage: PaymentPreimage, bolt12_invoice: Option<PaidBolt12Invoice>,
        session_priv_bytes: [u8; 32], path: FailPath, from_onchain: bool, ev_completion_action: &mut Option<EventCompletionAction>,
        pending_events: &mut Vec<(Event, Option<EventCompletionAction>)>) {
        $body
    }
//@rw R5 *
    payment.get_mut()
//@with
    payment
//@rw R5 *
    payment.get()
//@with
    (&*payment)
//@rw R5 *
    pending_events.push_back(
//@with
    pending_events.push(
//@rw R8 *
    Sha256::hash(&payment_preimage.0).to_byte_array()
//@with
    sha256(&payment_preimage.0)
//@rw R5
    Some(&path)
//@with
    Some(&path.p)
//@requires
    old(payment).has_htlcs_state(),
    (*old(payment)) is Retryable && old(payment).privs().contains(session_priv_bytes) ==>
        old(payment)->Retryable_pending_amt_msat >= path.p.v && (old(payment)->Retryable_pending_fee_msat is Some ==> old(payment)->Retryable_pending_fee_msat->Some_0 >= path.p.f),
//@ensures P C03 PaymentSent-is-reported-exactly-when-the-payment-first-becomes-fulfilled-with-the-preimages-hash-the-total-and-the-fee-and-never-again
    (*final(payment)) is Fulfilled,
    !((*old(payment)) is Fulfilled) ==> final(pending_events)@.len() > old(pending_events)@.len(),
    !((*old(payment)) is Fulfilled) ==> (final(pending_events)@[old(pending_events)@.len() as int].0 matches Event::PaymentSent { payment_hash, amount_msat, fee_paid_msat, payment_preimage: pp, .. }
            && payment_hash.0 == sha256_spec(payment_preimage.0) && pp == payment_preimage && amount_msat == old(payment).spec_total() && fee_paid_msat == old(payment).spec_fee()),
    (*old(payment)) is Fulfilled ==> forall|k: int| old(pending_events)@.len() <= k < final(pending_events)@.len() ==> !(#[trigger] final(pending_events)@[k].0 is PaymentSent),
    forall|k: int| 0 <= k < old(pending_events)@.len() ==> final(pending_events)@[k] == old(pending_events)@[k],
    final(payment).privs() == (if from_onchain { old(payment).privs().remove(session_priv_bytes) } else { old(payment).privs() }),
//@mutant payment_sent_repeated_for_a_fulfilled_payment
    if !payment.get().is_fulfilled() {
//@with
    if true {
//@mutant reported_total_taken_after_the_transition
    let amount_msat = payment.get().total_msat();
//@with
    let amount_msat = None;
//@end

// ---- the user gives up on a payment (deep R15 slice of OutboundPayments::abandon_payment) ----
//@extract lightning/src/ln/outbound_payment.rs :: impl OutboundPayments :: fn abandon_payment
//@strip events
//@slice R15
    if let hash_map::Entry::Occupied(mut payment) = outbounds.entry(payment_id) { $body:any }
//@with
    fn abandon_on_payment(payment: &mut PendingOutboundPayment, payment_id: PaymentId, reason: PaymentFailureReason,
        pending_events: &mut Vec<(Event, Option<EventCompletionAction>)>, removed: &mut bool) {
        $body
    }
//@rw R5 *
    payment.get_mut()
//@with
    payment
//@rw R5 *
    payment.get()
//@with
    (&*payment)
//@rw R5 *
    pending_events.lock().unwrap().push_back(
//@with
    pending_events.push(
//@rw R5 *
    payment.remove();
//@with
    *removed = true;
//@r7
//@requires
    !*old(removed),
//@ensures P C03 abandoning-reports-PaymentFailed-only-when-no-part-is-in-flight-and-never-for-a-fulfilled-payment-and-forgets-the-payment-exactly-then
    (*old(payment)) is Fulfilled ==> *final(payment) == *old(payment) && !*final(removed) && final(pending_events)@ == old(pending_events)@,
    *final(removed) <==> final(pending_events)@.len() == old(pending_events)@.len() + 1,
    !*final(removed) ==> final(pending_events)@ == old(pending_events)@,
    *final(removed) ==> final(pending_events)@[old(pending_events)@.len() as int].0 is PaymentFailed
        && (((*final(payment)) is Abandoned && final(payment).privs() =~= Set::<[u8; 32]>::empty()) || (*old(payment)) is AwaitingInvoice || (*old(payment)) is AwaitingOffer),
    (*old(payment)) is Retryable && !(old(payment).privs() =~= Set::<[u8; 32]>::empty()) ==> !*final(removed) && (*final(payment)) is Abandoned && final(payment).privs() == old(payment).privs(),
//@mutant failure_reported_while_parts_are_in_flight
    if payment.get().remaining_parts() == 0 {
//@with
    if true {
//@end

// ---- the send path gives up on a payment (retries exhausted, or a retry would overshoot the total): the function-local macro abandon_with_entry! of find_route_and_send_payment, same rule as abandon_payment ----
//@extract lightning/src/ln/outbound_payment.rs :: impl OutboundPayments :: fn find_route_and_send_payment
//@strip events
//@metavars
//@slice R15
    macro_rules! abandon_with_entry { (m_payment: expr, m_reason: expr) => { $body:any } }
//@with
    fn abandon_from_the_send_path(m_payment: &mut PendingOutboundPayment, m_reason: PaymentFailureReason, payment_id: PaymentId, payment_hash: PaymentHash,
        pending_events: &mut Vec<(Event, Option<EventCompletionAction>)>, removed: &mut bool) {
        $body
    }
//@rw R5 *
    m_payment.get_mut()
//@with
    m_payment
//@rw R5 *
    m_payment.get()
//@with
    (&*m_payment)
//@rw R5 ?
    pending_events.lock().unwrap().push_back(
//@with
    pending_events.push(
//@rw R5 ?
    m_payment.remove();
//@with
    *removed = true;
//@r7
//@requires
    !*old(removed), (*old(m_payment)) is Retryable,
//@ensures P C03 the-send-path-reports-PaymentFailed-and-forgets-a-payment-it-gives-up-on-only-when-no-part-is-in-flight-otherwise-the-payment-stays-abandoned-with-its-parts
    (*final(m_payment)) is Abandoned && final(m_payment).privs() == old(m_payment).privs(),
    *final(removed) <==> old(m_payment).privs() =~= Set::<[u8; 32]>::empty(),
    !*final(removed) ==> final(pending_events)@ == old(pending_events)@,
    *final(removed) ==> final(pending_events)@.len() == old(pending_events)@.len() + 1 && final(pending_events)@.drop_last() == old(pending_events)@
        && (final(pending_events)@.last().0 matches Event::PaymentFailed { payment_id: id, payment_hash: h, reason } && id == payment_id && h == Some(payment_hash) && reason == Some(m_reason)),
//@mutant send_path_forgets_a_payment_with_parts_in_flight
    if m_payment.get().remaining_parts() == 0 {
//@with
    if true {
//@end

// ---- a partially failed multi-path send: what is already in flight is never sent again (R15 slice of OutboundPayments::pay_route_internal) ----
pub enum APIError { MonitorUpdateInProgress, ChannelUnavailable, Other }
pub struct RetryParams { pub final_value_msat: u64 }
pub open spec fn in_flight(r: Result<(), APIError>) -> bool { r is Ok || (r is Err && r->Err_0 is MonitorUpdateInProgress) }
pub open spec fn sent_value(rs: Seq<Result<(), APIError>>, ps: Seq<Path>) -> int decreases rs.len() {
    if rs.len() == 0 || ps.len() == 0 { 0 } else { sent_value(rs.drop_last(), ps.drop_last()) + (if in_flight(rs.last()) { ps.last().v as int } else { 0 }) }
}
pub open spec fn sent_fees(rs: Seq<Result<(), APIError>>, ps: Seq<Path>) -> int decreases rs.len() {
    if rs.len() == 0 || ps.len() == 0 { 0 } else { sent_fees(rs.drop_last(), ps.drop_last()) + (if in_flight(rs.last()) { ps.last().f as int } else { 0 }) }
}
//@extract lightning/src/ln/outbound_payment.rs :: impl OutboundPayments :: fn pay_route_internal
//@slice R15
    let mut has_ok = false; let mut has_err = false; let mut has_unsent = false; let mut total_ok_fees_msat = 0; let mut total_ok_amt_sent_msat = 0; for (res, path) in results.iter().zip(route.paths.iter()) { $body:any } if has_err && has_ok {
//@with
    fn classify_send_results(results: &Vec<Result<(), APIError>>, paths: &Vec<Path>) -> (bool, bool, bool, u64, u64) {
        let mut has_ok = false; let mut has_err = false; let mut has_unsent = false;
        let mut total_ok_fees_msat: u64 = 0; let mut total_ok_amt_sent_msat: u64 = 0;
        let mut __i: usize = 0;   // R6: for (res, path) in results.iter().zip(route.paths.iter())
        while __i < results.len() && __i < paths.len()
            invariant __i <= results@.len(), __i <= paths@.len(), results@.len() == paths@.len(),
                sent_value(results@, paths@) <= u64::MAX, sent_fees(results@, paths@) <= u64::MAX,
                total_ok_amt_sent_msat as int == sent_value(results@.take(__i as int), paths@.take(__i as int)),
                total_ok_fees_msat as int == sent_fees(results@.take(__i as int), paths@.take(__i as int)),
                has_unsent <==> exists|k: int| 0 <= k < __i && !in_flight(#[trigger] results@[k]),
                has_ok <==> exists|k: int| 0 <= k < __i && in_flight(#[trigger] results@[k]),
                has_err <==> exists|k: int| 0 <= k < __i && (#[trigger] results@[k]) is Err,
            decreases results@.len() - __i
        {
            proof { lemma_sent_step(results@, paths@, __i as int); lemma_sent_mono(results@, paths@, __i as int + 1); }
            let res = &results[__i]; let path = &paths[__i];
            __i = __i + 1;
            $body
        }
        proof { assert(results@.take(results@.len() as int) =~= results@); assert(paths@.take(paths@.len() as int) =~= paths@); }
        (has_ok, has_err, has_unsent, total_ok_fees_msat, total_ok_amt_sent_msat)
    }
//@rw R16
    if let &Err(APIError::MonitorUpdateInProgress) = res
//@with
    if let Err(APIError::MonitorUpdateInProgress) = res
//@ret r
//@requires
    results@.len() == paths@.len(), sent_value(results@, paths@) <= u64::MAX, sent_fees(results@, paths@) <= u64::MAX,
//@ensures P C03 the-amount-and-fee-counted-as-sent-are-exactly-those-of-the-parts-in-flight-including-parts-behind-a-pending-monitor-update-so-a-retry-never-resends-them
    r.4 as int == sent_value(results@, paths@), r.3 as int == sent_fees(results@, paths@),
    r.2 <==> exists|k: int| 0 <= k < results@.len() && !in_flight(#[trigger] results@[k]),
    r.0 <==> exists|k: int| 0 <= k < results@.len() && in_flight(#[trigger] results@[k]),
    r.1 <==> exists|k: int| 0 <= k < results@.len() && (#[trigger] results@[k]) is Err,
//@mutant part_behind_a_pending_monitor_update_not_counted_as_sent
    has_ok = true; total_ok_fees_msat += path.fee_msat(); total_ok_amt_sent_msat += path.final_value_msat(); } else if res.is_err() {
//@with
    has_ok = true; total_ok_fees_msat += path.fee_msat(); } else if res.is_err() {
//@end
pub proof fn lemma_sent_step(rs: Seq<Result<(), APIError>>, ps: Seq<Path>, i: int)
    requires 0 <= i < rs.len(), rs.len() == ps.len()
    ensures sent_value(rs.take(i + 1), ps.take(i + 1)) == sent_value(rs.take(i), ps.take(i)) + (if in_flight(rs[i]) { ps[i].v as int } else { 0 }),
            sent_fees(rs.take(i + 1), ps.take(i + 1)) == sent_fees(rs.take(i), ps.take(i)) + (if in_flight(rs[i]) { ps[i].f as int } else { 0 }),
{ assert(rs.take(i + 1).drop_last() =~= rs.take(i)); assert(ps.take(i + 1).drop_last() =~= ps.take(i)); }
pub proof fn lemma_sent_mono(rs: Seq<Result<(), APIError>>, ps: Seq<Path>, i: int)
    requires 0 <= i <= rs.len(), rs.len() == ps.len()
    ensures 0 <= sent_value(rs.take(i), ps.take(i)) <= sent_value(rs, ps), 0 <= sent_fees(rs.take(i), ps.take(i)) <= sent_fees(rs, ps)
    decreases rs.len() - i
{
    if i < rs.len() { lemma_sent_mono(rs, ps, i + 1); lemma_sent_step(rs, ps, i); lemma_sent_nonneg(rs.take(i), ps.take(i)); }
    else { assert(rs.take(i) =~= rs); assert(ps.take(i) =~= ps); lemma_sent_nonneg(rs, ps); }
}
pub proof fn lemma_sent_nonneg(rs: Seq<Result<(), APIError>>, ps: Seq<Path>)
    ensures sent_value(rs, ps) >= 0, sent_fees(rs, ps) >= 0 decreases rs.len()
{ if rs.len() > 0 && ps.len() > 0 { lemma_sent_nonneg(rs.drop_last(), ps.drop_last()); } }

// the amount a retry is asked to deliver
//@extract lightning/src/ln/outbound_payment.rs :: impl OutboundPayments :: fn pay_route_internal
//@slice R15
    route_params.final_value_msat = $e; Some(route_params)
//@with
    fn retry_amount(route_params: &RetryParams, total_ok_amt_sent_msat: u64) -> u64 { $e }
//@ret r
//@ensures P C03 a-retry-asks-only-for-the-part-of-the-amount-that-is-not-already-in-flight
    r as int == (if route_params.final_value_msat >= total_ok_amt_sent_msat { route_params.final_value_msat - total_ok_amt_sent_msat } else { 0 }),
//@end

// ---- ChannelManager::write, the backwards-compatible list of session keys: the count written in front is the number of keys written ----
pub struct CountWriter { pub n: Ghost<int> }
pub struct IoError {}
// R6: `for session_priv in S.iter() { session_priv.write(writer)?; }` over a set: one record per element
#[verifier::external_body] pub fn write_each_session_priv(session_privs: &HashSet<[u8; 32]>, writer: &mut CountWriter) -> (r: Result<(), IoError>)
    ensures r is Ok ==> final(writer).n@ == old(writer).n@ + session_privs@.len() { unimplemented!() }
pub open spec fn session_privs_listed(o: PendingOutboundPayment) -> int { if o is Legacy || o is Retryable { o.privs().len() as int } else { 0 } }
//@extract lightning/src/ln/channelmanager.rs :: impl Writeable for ChannelManager :: fn write
//@slice R15
    let mut num_pending_outbounds_compat: u64 = 0; for (_, outbound) in pending_outbound_payments.iter() { $count:any } num_pending_outbounds_compat.write(writer)?;
//@with
    fn session_privs_announced_for(outbound: &PendingOutboundPayment, so_far: u64) -> u64 { let mut num_pending_outbounds_compat: u64 = so_far; $count num_pending_outbounds_compat }
//@ret r
//@requires
    so_far + outbound.privs().len() <= u64::MAX,
//@ensures P C12,C03 the-number-of-session-keys-announced-for-a-payment-is-the-number-written-for-it
    r as int == so_far + session_privs_listed(*outbound),
//@mutant keys_of_abandoned_payments_announced_but_never_written
    if !outbound.is_fulfilled() && !outbound.abandoned() {
//@with
    if !outbound.is_fulfilled() {
//@end
//@extract lightning/src/ln/channelmanager.rs :: impl Writeable for ChannelManager :: fn write
//@slice R15
    num_pending_outbounds_compat.write(writer)?; for (_, outbound) in pending_outbound_payments.iter() { match outbound { $arms:any } }
//@with
    fn session_privs_written_for(outbound: &PendingOutboundPayment, writer: &mut CountWriter) -> Result<(), IoError> { match outbound { $arms } Ok(()) }
//@r7
//@rw R6 *
    for session_priv in session_privs.iter() { session_priv.write(writer)?; }
//@with
    write_each_session_priv(session_privs, writer)?;
//@ret r
//@ensures P C12,C03 the-session-keys-written-for-a-payment-are-the-ones-of-a-payment-still-in-flight
    r is Ok ==> final(writer).n@ == old(writer).n@ + session_privs_listed(*outbound),
//@mutant keys_of_fulfilled_payments_written_but_not_announced
    PendingOutboundPayment::Fulfilled { .. } => {},
//@with
    PendingOutboundPayment::Fulfilled { session_privs, .. } => { for session_priv in session_privs.iter() { session_priv.write(writer)?; } },
//@end
}
fn main() {}
