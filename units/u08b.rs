//! unit: u08b
//! properties: C08 C02 C07 C11
//! note: also run for C07, C11: the code it constrains lies inside mechanisms those properties name (a change made there for their sake must meet these clauses too)
//! note: ChannelMonitorImpl::block_confirmed, closed channel: forwarded HTLCs still unresolved downstream are failed back upstream once the upstream HTLC is within LATENCY_GRACE_PERIOD_BLOCKS of its expiry, for the HTLCs of the holder commitment and of *both* unrevoked counterparty commitments (current and previous), with an event that names the HTLC and carries no preimage
//! trusted: R15 (deep slices): block_confirmed: (a) the two `if let Some(txid) = <field>` scrutinees that select the counterparty commitments whose HTLCs are scanned, (b) the expiry test of the per-HTLC loop, (c) the HTLCUpdate pushed as MonitorEvent::HTLCEvent, verbatim as functions; `self.funding.` is written `funding.` (R10); FundingScope is a two-field skeleton, HTLCSource / PaymentHash opaque, HTLCOutputInCommitment field skeleton, struct HTLCUpdate extracted; the holder-commitment iterator, the duplicate / already-failed-back filters and the maturation of on-chain events before this block are dropped and not claimed here
//! trusted: assume_specification for core::cmp::max / core::cmp::min (std definitions): present in every unit so that a change that introduces them is verified instead of being rejected by the tool
use vstd::prelude::*;
verus! {
use vstd::std_specs::cmp::*;
use core::cmp;
pub assume_specification<T: core::cmp::Ord>[core::cmp::max::<T>](a: T, b: T) -> (r: T)
    ensures T::obeys_cmp_spec() ==> r == (if b.cmp_spec(&a) == core::cmp::Ordering::Less { a } else { b });
pub assume_specification<T: core::cmp::Ord>[core::cmp::min::<T>](a: T, b: T) -> (r: T)
    ensures T::obeys_cmp_spec() ==> r == (if b.cmp_spec(&a) == core::cmp::Ordering::Less { b } else { a });
#[derive(Clone, Copy)] pub struct Txid(pub u64);
#[derive(Clone, Copy)] pub struct PaymentHash(pub [u8; 32]);
#[derive(Clone, Copy)] pub struct PaymentPreimage(pub [u8; 32]);
pub struct HTLCSource { pub id: u64 }
impl Clone for HTLCSource { #[verifier::external_body] fn clone(&self) -> (r: Self) ensures r == *self { unimplemented!() } }
pub struct FundingScope { pub current_counterparty_commitment_txid: Option<Txid>, pub prev_counterparty_commitment_txid: Option<Txid> }
pub struct HTLCOutputInCommitment { pub offered: bool, pub amount_msat: u64, pub cltv_expiry: u32, pub payment_hash: PaymentHash, pub transaction_output_index: Option<u32> }
//@const lightning/src/chain/channelmonitor.rs CLTV_CLAIM_BUFFER MAX_BLOCKS_FOR_CONF LATENCY_GRACE_PERIOD_BLOCKS HTLC_FAIL_BACK_BUFFER ANTI_REORG_DELAY
//@extract lightning/src/chain/channelmonitor.rs :: struct HTLCUpdate
//@end
//@extract lightning/src/chain/channelmonitor.rs :: impl ChannelMonitorImpl :: fn block_confirmed
//@capture R15
    let current_counterparty_htlcs = if let Some(txid) = $cur:seq { if let Some(htlc_outputs) =
//@slice R15
    let prev_counterparty_htlcs = if let Some(txid) = $prev:seq { if let Some(htlc_outputs) =
//@with
    fn counterparty_commitments_scanned_for_fail_back(funding: &FundingScope) -> (Option<Txid>, Option<Txid>) { ($cur, $prev) }
//@rw * R10
    self.funding.
//@with
    funding.
//@ret r
//@ensures P C08,C02 the-htlcs-of-both-unrevoked-counterparty-commitments-are-considered-for-failing-back-upstream
    r.0 == funding.current_counterparty_commitment_txid, r.1 == funding.prev_counterparty_commitment_txid,
//@mutant previous_commitment_scanned_as_the_current_one_twice
    let prev_counterparty_htlcs = if let Some(txid) = self.funding.prev_counterparty_commitment_txid {
//@with
    let prev_counterparty_htlcs = if let Some(txid) = self.funding.current_counterparty_commitment_txid {
//@end
//@extract lightning/src/chain/channelmonitor.rs :: impl ChannelMonitorImpl :: fn block_confirmed
//@slice R15
    let max_expiry_height = $m:seq; if $c:cond { continue; } let duplicate_event
//@with
    fn upstream_htlc_not_yet_due_for_fail_back(inbound_htlc_expiry: u32, height: u32) -> bool { let max_expiry_height = $m; $c }
//@ret r
//@ensures P C08,C02 an-unresolved-forward-is-failed-back-upstream-as-soon-as-the-upstream-htlc-is-within-the-grace-period-of-its-expiry
    r == (inbound_htlc_expiry as int > height as int + LATENCY_GRACE_PERIOD_BLOCKS as int) || (height as int + LATENCY_GRACE_PERIOD_BLOCKS as int > u32::MAX && !r),
//@mutant fail_back_only_once_expired
    height.saturating_add(LATENCY_GRACE_PERIOD_BLOCKS)
//@with
    height.saturating_sub(LATENCY_GRACE_PERIOD_BLOCKS)
//@mutant forwarded_htlc_given_up_a_fail_back_buffer_before_the_upstream_expiry
    height.saturating_add(LATENCY_GRACE_PERIOD_BLOCKS)
//@with
    height.saturating_add(HTLC_FAIL_BACK_BUFFER)
//@end
//@extract lightning/src/chain/channelmonitor.rs :: impl ChannelMonitorImpl :: fn block_confirmed
//@slice R15 nth=2
    self.pending_monitor_events.push(MonitorEvent::HTLCEvent(HTLCUpdate { $f:any }));
//@with
    fn fail_back_event(source: &HTLCSource, htlc: &HTLCOutputInCommitment) -> HTLCUpdate { HTLCUpdate { $f } }
//@ret r
//@ensures P C08,C02 the-fail-back-event-names-the-forwarded-htlc-and-carries-no-preimage
    r.source == *source, r.payment_preimage is None, r.payment_hash == htlc.payment_hash, r.htlc_value_satoshis == htlc.amount_msat / 1000,
//@end
//@extract lightning/src/chain/channelmonitor.rs :: impl ChannelMonitorImpl :: fn block_confirmed
//@slice R15 nth=1
    self.pending_monitor_events.push(MonitorEvent::HTLCEvent(HTLCUpdate { $f:any }));
//@with
    fn event_for_matured_timeout(source: HTLCSource, payment_hash: PaymentHash, htlc_value_satoshis: u64) -> HTLCUpdate { HTLCUpdate { $f } }
//@ret r
//@ensures P C08,C02 the-event-for-a-timeout-spend-that-reached-its-confirmation-threshold-names-the-htlc-and-carries-no-preimage
    r.source == source, r.payment_preimage is None, r.payment_hash == payment_hash, r.htlc_value_satoshis == htlc_value_satoshis,
//@end
}
fn main() {}
