//! unit: u16g
//! properties: C16
//! note: get_route after the search (router.rs steps 4-8): when the search for further paths stops (never while a pass at the most permissive saturation setting is untried, never before the requested amount is collected unless a pass found nothing); failure is reported only with no path or too little collected; the overpayment is removed without leaving a superfluous part: whole paths are dropped only while their value fits into the overpayment and never the last one, every path kept is worth more than what is still overpaid, so the most expensive path can be reduced by exactly the rest; merging two identical paths keeps their joint value; a path's value is never raised above the requested amount nor above what it can carry; the fee cap is applied to the finished route
//! trusted: R15 (deep slices of get_route): each slice carries the named statements verbatim as a function of the variables they read; PaymentPath is a skeleton holding its value (get_value_msat answers it; update_value_and_recompute_fees is the recorder of the value asked for - its own contract, value >= asked, is u16's); `break 'paths_collection` / `continue 'paths_collection` are written as the returned decision
//! trusted: R6e (by hand, closure body carried through captures): `selected_route.retain(|path| { if $last:cond { return true } let path_value_msat = path.get_value_msat(); if COND { UPDATES return false; } true })` as an index loop with the same test and updates
//! trusted: R6 (by hand, closure body carried through a capture): `hops.iter_mut().rev().fold(INIT, |prev_cltv_expiry_delta, hop| { BODY })` as a descending index loop `acc = BODY` with `hop = &mut hops[i]`; assume_specification for core::mem::replace (std definition); PathBuildingHop / RouteHop / NodeFeatures are skeletons with the fields the statements touch (clone returns an equal value)
//! trusted: assume_specification for core::cmp::max / core::cmp::min (std definitions): present in every unit so that a change that introduces them is verified instead of being rejected by the tool
use vstd::prelude::*;
verus! {
use vstd::std_specs::cmp::*;
use core::cmp;
pub assume_specification<T: core::cmp::Ord>[core::cmp::max::<T>](a: T, b: T) -> (r: T)
    ensures T::obeys_cmp_spec() ==> r == (if b.cmp_spec(&a) == core::cmp::Ordering::Less { a } else { b });
pub assume_specification<T: core::cmp::Ord>[core::cmp::min::<T>](a: T, b: T) -> (r: T)
    ensures T::obeys_cmp_spec() ==> r == (if b.cmp_spec(&a) == core::cmp::Ordering::Less { b } else { a });
pub struct PaymentPath { pub value: u64, pub asked: Ghost<Seq<u64>> }
impl PaymentPath {
    #[verifier::external_body] pub fn get_value_msat(&self) -> (r: u64) ensures r == self.value { unimplemented!() }
    #[verifier::external_body] pub fn update_value_and_recompute_fees(&mut self, value_msat: u64) -> (r: u64)
        ensures final(self).value >= value_msat, r == final(self).value, final(self).asked@ == old(self).asked@.push(value_msat) { unimplemented!() }
}
pub open spec fn total(s: Seq<PaymentPath>) -> int decreases s.len() { if s.len() == 0 { 0 } else { total(s.drop_last()) + s.last().value as int } }
pub proof fn lemma_total_push(s: Seq<PaymentPath>, p: PaymentPath) ensures total(s.push(p)) == total(s) + p.value { assert(s.push(p).drop_last() =~= s); }
pub proof fn lemma_total_split(s: Seq<PaymentPath>, i: int)
    requires 0 <= i <= s.len() ensures total(s) == total(s.take(i)) + total(s.skip(i)) decreases s.len() - i
{
    if i == s.len() { assert(s.take(i) =~= s); assert(s.skip(i).len() == 0); }
    else { lemma_total_split(s, i + 1); assert(s.take(i + 1).drop_last() =~= s.take(i)); assert(s.take(i + 1).last() == s[i]);
           lemma_total_first(s.skip(i)); assert(s.skip(i).skip(1) =~= s.skip(i + 1)); }
}
pub proof fn lemma_total_first(s: Seq<PaymentPath>)
    requires s.len() > 0 ensures total(s) == s[0].value + total(s.skip(1)) decreases s.len()
{
    if s.len() == 1 { assert(s.drop_last().len() == 0); assert(total(s.drop_last()) == 0); assert(s.skip(1).len() == 0); assert(total(s.skip(1)) == 0); assert(s.last() == s[0]); }
    else { lemma_total_first(s.drop_last()); assert(s.drop_last().skip(1) =~= s.skip(1).drop_last()); assert(s.skip(1).last() == s.last());
           assert(total(s.skip(1)) == total(s.skip(1).drop_last()) + s.skip(1).last().value); assert(s.drop_last()[0] == s[0]); }
}
pub proof fn lemma_total_nonneg(s: Seq<PaymentPath>) ensures total(s) >= 0 decreases s.len() { if s.len() > 0 { lemma_total_nonneg(s.drop_last()); } }

// ---- step (4): when the collection of paths stops ----
pub enum Next { Stop, Again }
//@extract lightning/src/routing/router.rs :: fn get_route
//@slice R15
    if !allow_mpp { $nompp:any } if !found_new_path && channel_saturation_pow_half != 0 { $a:straight } else if $c2:cond { $b:straight } else if $c3:cond { $stop:any } else if $c4:cond { if !hit_minimum_limit { $stop2:any } $b2:straight }
//@with
    fn whether_to_look_for_more_paths(allow_mpp: bool, found_new_path: bool, hit_minimum_limit: bool, already_collected_value_msat: u64, final_value_msat: u64, recommended_value_msat: u64,
        payment_paths_len: usize, channel_saturation_pow_half_: u8, path_value_msat_: u64) -> (Next, u8, u64) {
        let mut channel_saturation_pow_half = channel_saturation_pow_half_; let mut path_value_msat = path_value_msat_;
        if !allow_mpp { $nompp }
        if !found_new_path && channel_saturation_pow_half != 0 { $a } else if $c2 { $b } else if $c3 { $stop } else if $c4 { if !hit_minimum_limit { $stop2 } $b2 }
        (Next::Again, channel_saturation_pow_half, path_value_msat)
    }
//@rw * R5
    break 'paths_collection;
//@with
    return (Next::Stop, channel_saturation_pow_half, path_value_msat);
//@rw * R5
    continue 'paths_collection;
//@with
    return (Next::Again, channel_saturation_pow_half, path_value_msat);
//@rw * R5
    payment_paths.len()
//@with
    payment_paths_len
//@ret r
//@requires
    recommended_value_msat >= final_value_msat,
//@ensures P C16 the-search-for-paths-is-not-given-up-while-a-pass-with-the-saturation-limit-lifted-is-untried-and-with-mpp-not-before-the-requested-amount-is-collected-unless-a-pass-found-nothing
    (!found_new_path && channel_saturation_pow_half_ != 0) ==> r.0 is Again && r.1 == 0,
    (allow_mpp && found_new_path && already_collected_value_msat < final_value_msat) ==> r.0 is Again,
    (allow_mpp && found_new_path && already_collected_value_msat < recommended_value_msat && !(already_collected_value_msat == final_value_msat && payment_paths_len == 1 && !hit_minimum_limit)) ==> r.0 is Again,
    r.1 == channel_saturation_pow_half_ || r.1 == 0,
    r.2 == path_value_msat_ || r.2 == recommended_value_msat,
//@mutant search_given_up_before_the_saturation_limit_is_lifted
    if !found_new_path && channel_saturation_pow_half != 0 { channel_saturation_pow_half = 0; continue 'paths_collection; }
//@with
    if !found_new_path && channel_saturation_pow_half == 0 { channel_saturation_pow_half = 0; continue 'paths_collection; }
//@mutant stops_as_soon_as_the_amount_is_collected_although_more_was_recommended
    already_collected_value_msat >= recommended_value_msat || !found_new_path
//@with
    already_collected_value_msat >= final_value_msat || !found_new_path
//@end

// ---- step (5): failure only with no path or too little collected; step (6): the overpayment ----
//@extract lightning/src/routing/router.rs :: fn get_route
//@capture R15
    let mut overpaid_value_msat = $over:seq;
//@slice R15
    if payment_paths.len() == 0 { return Err($e1:seq); } if $c:cond { return Err($e2:seq); }
//@with
    fn overpayment_or_failure(payment_paths_len: usize, already_collected_value_msat: u64, final_value_msat: u64) -> Result<u64, ()> {
        if payment_paths_len == 0 { return Err(()); } if $c { return Err(()); }
        let mut overpaid_value_msat = $over;
        Ok(overpaid_value_msat)
    }
//@ret r
//@ensures P C16 failure-is-reported-only-if-no-path-was-found-or-the-paths-found-carry-less-than-the-requested-amount-and-the-overpayment-is-what-was-collected-beyond-it
    r is Err <==> (payment_paths_len == 0 || already_collected_value_msat < final_value_msat),
    r is Ok ==> r->Ok_0 == already_collected_value_msat - final_value_msat,
//@mutant exact_amount_reported_as_insufficient
    if already_collected_value_msat < final_value_msat {
//@with
    if already_collected_value_msat <= final_value_msat {
//@end
//@extract lightning/src/routing/router.rs :: fn get_route
//@slice R15
    let mut paths_left = selected_route.len(); selected_route.retain(|path| { if $last:cond { return true } let path_value_msat = path.get_value_msat(); if $c:cond { $upd:straight return false; } true });
//@with
    fn drop_paths_the_overpayment_covers(selected_route: &mut Vec<PaymentPath>, overpaid_value_msat_: u64) -> u64 {
        let mut overpaid_value_msat = overpaid_value_msat_;
        let ghost orig = selected_route@;
        let mut paths_left = selected_route.len();
        let mut i: usize = 0;
        proof { lemma_total_split(orig, 0); assert(orig.take(0).len() == 0); assert(orig.skip(0) =~= orig); lemma_total_nonneg(orig); }
        while i < selected_route.len()
            invariant
                0 <= i <= selected_route@.len(), paths_left == selected_route@.len(), paths_left >= 1,
                total(selected_route@) - overpaid_value_msat == total(orig) - overpaid_value_msat_,
                overpaid_value_msat <= overpaid_value_msat_, total(orig) > overpaid_value_msat_,
                forall|k: int| 0 <= k < i ==> #[trigger] selected_route@[k].value > overpaid_value_msat || selected_route@.len() == 1,
            decreases selected_route@.len() - i,
        {
            let keep = if $last { true } else {
                let path_value_msat = selected_route[i].get_value_msat();
                if $c {
                    proof { lemma_total_split(selected_route@, i as int); lemma_total_first(selected_route@.skip(i as int)); }
                    $upd false } else { true } };
            if keep { i += 1; } else {
                let ghost before = selected_route@;
                selected_route.remove(i);
                proof {
                    let after = selected_route@;
                    lemma_total_split(after, i as int);
                    assert(after.take(i as int) =~= before.take(i as int));
                    assert(after.skip(i as int) =~= before.skip(i as int).skip(1));
                    assert forall|k: int| 0 <= k < i implies #[trigger] after[k].value > overpaid_value_msat || after.len() == 1 by { assert(after[k] == before[k]); }
                }
            }
        }
        proof { if selected_route@.len() == 1 { lemma_total_first(selected_route@); assert(selected_route@.skip(1).len() == 0); assert(total(selected_route@.skip(1)) == 0); } }
        overpaid_value_msat
    }
//@ret r
//@requires
    old(selected_route)@.len() >= 1, total(old(selected_route)@) > overpaid_value_msat_,
//@ensures P C16 whole-paths-are-dropped-only-while-their-value-fits-into-the-overpayment-never-the-last-one-the-rest-still-carries-the-requested-amount-and-no-path-kept-is-superfluous
    final(selected_route)@.len() >= 1, r <= overpaid_value_msat_,
    total(final(selected_route)@) - r == total(old(selected_route)@) - overpaid_value_msat_,
    forall|k: int| 0 <= k < final(selected_route)@.len() ==> (#[trigger] final(selected_route)@[k]).value > r,
//@mutant path_dropped_although_its_value_exceeds_the_overpayment
    if path_value_msat <= overpaid_value_msat {
//@with
    if path_value_msat <= overpaid_value_msat + 1 {
//@mutant dropped_paths_value_not_taken_off_the_overpayment
    overpaid_value_msat -= path_value_msat;
//@with
    overpaid_value_msat -= 0;
//@end

// ---- step (7): the rest of the overpayment comes off the most expensive path ----
//@extract lightning/src/routing/router.rs :: fn get_route
//@slice R15
    let expensive_path_new_value_msat = $e:seq; expensive_payment_path.update_value_and_recompute_fees(expensive_path_new_value_msat);
//@with
    fn reduce_the_most_expensive_path(expensive_payment_path: &mut PaymentPath, overpaid_value_msat: u64) {
        let expensive_path_new_value_msat = $e; expensive_payment_path.update_value_and_recompute_fees(expensive_path_new_value_msat);
    }
//@requires
    old(expensive_payment_path).value > overpaid_value_msat,
//@ensures P C16 the-path-that-absorbs-the-remaining-overpayment-is-asked-to-carry-exactly-its-value-less-that-rest-which-is-at-least-one-msat
    final(expensive_payment_path).asked@ == old(expensive_payment_path).asked@.push((old(expensive_payment_path).value - overpaid_value_msat) as u64),
    final(expensive_payment_path).value >= old(expensive_payment_path).value - overpaid_value_msat,
//@mutant overpayment_added_instead_of_removed
    expensive_payment_path.get_value_msat() - overpaid_value_msat
//@with
    expensive_payment_path.get_value_msat() + overpaid_value_msat
//@end

// ---- step (8): two identical paths become one carrying both values ----
//@extract lightning/src/routing/router.rs :: fn get_route
//@slice R15
    let new_value = $nv:seq; selected_route[idx].update_value_and_recompute_fees(new_value); selected_route.remove(idx + 1);
//@with
    fn merge_two_identical_paths(selected_route: &mut Vec<PaymentPath>, idx: usize) {
        let new_value = $nv;
        let mut first = selected_route.remove(idx);
        first.update_value_and_recompute_fees(new_value);
        selected_route.insert(idx, first);
        selected_route.remove(idx + 1);
    }
//@requires
    idx < usize::MAX, idx + 1 < old(selected_route)@.len(), old(selected_route)@[idx as int].value + old(selected_route)@[idx as int + 1].value <= u64::MAX,
//@ensures P C16 merging-two-identical-paths-asks-the-merged-path-to-carry-the-sum-of-both-values-and-removes-the-second-every-other-path-untouched
    final(selected_route)@.len() == old(selected_route)@.len() - 1,
    final(selected_route)@[idx as int].asked@ == old(selected_route)@[idx as int].asked@.push((old(selected_route)@[idx as int].value + old(selected_route)@[idx as int + 1].value) as u64),
    forall|k: int| 0 <= k < idx ==> final(selected_route)@[k] == old(selected_route)@[k],
    forall|k: int| idx < k < final(selected_route)@.len() ==> final(selected_route)@[k] == old(selected_route)@[k + 1],
//@mutant merged_path_keeps_only_the_first_value
    selected_route[idx].get_value_msat() + selected_route[idx + 1].get_value_msat()
//@with
    selected_route[idx].get_value_msat() + 0
//@end

// ---- step (3): how much a found path is asked to carry ----
//@extract lightning/src/routing/router.rs :: fn get_route
//@slice R15
    let desired_value_contribution = $d:seq; value_contribution_msat = payment_path.update_value_and_recompute_fees(desired_value_contribution);
//@with
    fn value_a_found_path_is_asked_to_carry(payment_path: &mut PaymentPath, max_path_contribution_msat: u64, final_value_msat: u64) -> u64 {
        let desired_value_contribution = $d; let value_contribution_msat = payment_path.update_value_and_recompute_fees(desired_value_contribution);
        value_contribution_msat
    }
//@ret r
//@ensures P C16 a-found-path-is-asked-to-carry-no-more-than-the-requested-amount-and-no-more-than-its-bottleneck-allows
    final(payment_path).asked@ == old(payment_path).asked@.push(if max_path_contribution_msat <= final_value_msat { max_path_contribution_msat } else { final_value_msat }),
    r == final(payment_path).value,
//@mutant path_asked_to_carry_the_larger_of_the_two
    cmp::min(max_path_contribution_msat, final_value_msat)
//@with
    cmp::max(max_path_contribution_msat, final_value_msat)
//@end


// ---- step (3): walking the found path from the payer: each hop's fee_msat is what the NEXT hop charges, the last hop's is the value delivered ----
pub assume_specification<T> [core::mem::replace::<T>] (dest: &mut T, src: T) -> (r: T) ensures r == *old(dest), *final(dest) == src;
pub struct NodeFeatures { pub id: u64 }
impl Clone for NodeFeatures { #[verifier::external_body] fn clone(&self) -> (r: Self) ensures r == *self { unimplemented!() } }
pub struct PathBuildingHop { pub candidate: u64, pub fee_msat: u64, pub hop_use_fee_msat: u64, pub next_hops_fee_msat: u64, pub total_fee_msat: u64 }
impl Clone for PathBuildingHop { #[verifier::external_body] fn clone(&self) -> (r: Self) ensures r == *self { unimplemented!() } }
//@extract lightning/src/routing/router.rs :: fn get_route
//@slice R15
    ordered_hops.last_mut().unwrap().0.fee_msat = $fee:seq; ordered_hops.push($pushed:seq); }
//@with
    fn walk_one_hop_further(ordered_hops: &mut Vec<(PathBuildingHop, NodeFeatures)>, new_entry: &PathBuildingHop, default_node_features: &NodeFeatures) {
        ordered_hops.last_mut().unwrap().0.fee_msat = $fee; ordered_hops.push($pushed); }
//@requires
    old(ordered_hops)@.len() > 0,
//@ensures P C16 the-fee-a-hop-of-the-route-carries-is-the-fee-the-next-hops-channel-charges-fees-are-propagated-one-hop-towards-the-payer
    final(ordered_hops)@.len() == old(ordered_hops)@.len() + 1,
    final(ordered_hops)@.last().0 == *new_entry,
    final(ordered_hops)@[old(ordered_hops)@.len() - 1].0 == (PathBuildingHop { fee_msat: new_entry.hop_use_fee_msat, ..old(ordered_hops)@.last().0 }),
    final(ordered_hops)@.take(old(ordered_hops)@.len() - 1) == old(ordered_hops)@.drop_last(),
//@mutant hop_carries_its_own_channels_fee
    ordered_hops.last_mut().unwrap().0.fee_msat = new_entry.hop_use_fee_msat;
//@with
    ordered_hops.last_mut().unwrap().0.fee_msat = ordered_hops.last().unwrap().0.hop_use_fee_msat;
//@end
//@extract lightning/src/routing/router.rs :: fn get_route
//@slice R15
    ordered_hops.last_mut().unwrap().0.fee_msat = value_contribution_msat; $rest:straight let mut payment_path = PaymentPath {hops: ordered_hops};
//@with
    fn last_hop_delivers_the_value(ordered_hops: &mut Vec<(PathBuildingHop, NodeFeatures)>, value_contribution_msat: u64) {
        ordered_hops.last_mut().unwrap().0.fee_msat = value_contribution_msat; $rest }
//@requires
    old(ordered_hops)@.len() > 0,
//@ensures P C16 the-last-hop-of-a-found-path-carries-the-value-delivered-and-charges-nothing-for-a-further-hop
    final(ordered_hops)@.len() == old(ordered_hops)@.len(), final(ordered_hops)@.drop_last() == old(ordered_hops)@.drop_last(),
    final(ordered_hops)@.last().0 == (PathBuildingHop { fee_msat: value_contribution_msat, hop_use_fee_msat: 0, ..old(ordered_hops)@.last().0 }),
    final(ordered_hops)@.last().1 == old(ordered_hops)@.last().1,
//@mutant last_hops_use_fee_kept
    ordered_hops.last_mut().unwrap().0.hop_use_fee_msat = 0;
//@with
    ordered_hops.last_mut().unwrap().0.hop_use_fee_msat += 0;
//@end

// ---- step (8): the route's hops: each hop's CLTV delta is the one its NEXT hop's channel requires, the last hop's is the final delta ----
pub struct RouteHop { pub short_channel_id: u64, pub fee_msat: u64, pub cltv_expiry_delta: u32 }
//@extract lightning/src/routing/router.rs :: fn get_route
//@slice R15
    hops.iter_mut().rev().fold($init:seq, |prev_cltv_expiry_delta, hop| { $body:seq });
//@with
    fn propagate_cltv_deltas_one_hop_backwards(hops: &mut Vec<RouteHop>, final_cltv_delta: u32) {
        let ghost orig = hops@;
        let mut acc: u32 = $init;
        let mut i: usize = hops.len();
        while i > 0
            invariant i <= hops@.len(), hops@.len() == orig.len(),
                acc == (if i == orig.len() { final_cltv_delta } else { orig[i as int].cltv_expiry_delta }),
                forall|k: int| 0 <= k < i ==> hops@[k] == orig[k],
                forall|k: int| i <= k < orig.len() ==> #[trigger] hops@[k] == (RouteHop { cltv_expiry_delta: if k + 1 == orig.len() { final_cltv_delta } else { orig[k + 1].cltv_expiry_delta }, ..orig[k] }),
            decreases i,
        {
            i -= 1;
            let prev_cltv_expiry_delta = acc;
            let hop = &mut hops[i];
            acc = { $body };
        }
    }
//@ensures P C16 every-hop-of-a-returned-path-is-given-the-cltv-delta-its-next-hops-channel-requires-and-the-last-hop-the-final-delta-nothing-else-about-the-hops-changes
    final(hops)@.len() == old(hops)@.len(),
    forall|k: int| 0 <= k < old(hops)@.len() ==> #[trigger] final(hops)@[k] == (RouteHop { cltv_expiry_delta: if k + 1 == old(hops)@.len() { final_cltv_delta } else { old(hops)@[k + 1].cltv_expiry_delta }, ..old(hops)@[k] }),
//@mutant last_hop_given_no_final_delta
    fold(final_cltv_delta,
//@with
    fold(0,
//@end
// ---- the fee cap is applied to the finished route ----
//@extract lightning/src/routing/router.rs :: fn get_route
//@slice R15
    if let Some(max_total_routing_fee_msat) = route_params.max_total_routing_fee_msat { if $c:cond { return Err($e:seq); } }
//@with
    fn finished_route_exceeds_the_fee_cap(max_total_routing_fee_msat_: Option<u64>, route_total_fees: u64) -> bool {
        if let Some(max_total_routing_fee_msat) = max_total_routing_fee_msat_ { if $c { return true; } } false }
//@rw R5
    route.get_total_fees()
//@with
    route_total_fees
//@ret r
//@ensures P C16 a-finished-route-whose-total-fees-exceed-the-callers-cap-is-refused
    r == (max_total_routing_fee_msat_ is Some && route_total_fees > max_total_routing_fee_msat_->Some_0),
//@mutant fee_cap_compared_the_wrong_way
    route.get_total_fees() > max_total_routing_fee_msat
//@with
    route.get_total_fees() < max_total_routing_fee_msat
//@end
}
fn main() {}
