//! unit: u11b
//! properties: C11
//! note: manager side of chain events (channel.rs): the number of confirmations of the funding transaction is a function of the best height and the confirmation height alone; a best block below the confirmation height forgets the confirmation entirely (height, block hash, short channel id) and any other height leaves it untouched; transaction_unconfirmed reports exactly such a height
//! trusted: R15 (deep slices): do_best_block_updated: the block "Check if the funding transaction was unconfirmed" (three reads, the confirmation count, the reset) verbatim as a method of a FundingScope skeleton {funding_tx_confirmation_height, short_channel_id, funding_tx_confirmed_in}; transaction_unconfirmed: the expression of the height handed to do_best_block_updated; FundingScope::get_funding_tx_confirmations is extracted whole; holding-cell time-outs of the same function are in unit u02; channel_ready / splice handling and the close decision are dropped and not claimed
//! trusted: R7: `x.checked_sub(y).map_or(0, |c| c + 1)` is written as a match on the checked_sub (std semantics of Option::map_or) -- Verus gives closures no specification
//! trusted: assume_specification for core::cmp::max / core::cmp::min (std definitions): present in every unit so that a change that introduces them is verified instead of being rejected by the tool
use vstd::prelude::*;
verus! {
use vstd::std_specs::cmp::*;
use core::cmp;
pub assume_specification<T: core::cmp::Ord>[core::cmp::max::<T>](a: T, b: T) -> (r: T)
    ensures T::obeys_cmp_spec() ==> r == (if b.cmp_spec(&a) == core::cmp::Ordering::Less { a } else { b });
pub assume_specification<T: core::cmp::Ord>[core::cmp::min::<T>](a: T, b: T) -> (r: T)
    ensures T::obeys_cmp_spec() ==> r == (if b.cmp_spec(&a) == core::cmp::Ordering::Less { b } else { a });
#[derive(Clone, Copy)] pub struct BlockHash(pub u64);
pub struct FundingScope { pub funding_tx_confirmation_height: u32, pub short_channel_id: Option<u64>, pub funding_tx_confirmed_in: Option<BlockHash> }
pub open spec fn confirmations_spec(conf_height: u32, best_height: u32) -> int {
    if conf_height == 0 || best_height < conf_height { 0 } else { best_height - conf_height + 1 }
}
impl FundingScope {
//@extract lightning/src/ln/channel.rs :: impl FundingScope :: fn get_funding_tx_confirmations
//@rw R7
    height.checked_sub($y:seq).map_or($d:seq, |c| $e:seq) }
//@with
    match height.checked_sub($y) { None => $d, Some(c) => $e } }
//@ret r
//@requires
    height < u32::MAX,
//@ensures P C11 the-confirmation-count-of-the-funding-transaction-depends-only-on-the-best-height-and-the-height-it-confirmed-at
    r as int == confirmations_spec(self.funding_tx_confirmation_height, height),
//@mutant confirming_block_not_counted
    |c| c + 1
//@with
    |c| c
//@end
}
pub struct FundedChannel { pub funding: FundingScope }
impl FundedChannel {
//@extract lightning/src/ln/channel.rs :: impl FundedChannel :: fn do_best_block_updated
//@slice R15
    let original_scid = $a:seq; let was_confirmed = $b:seq; let funding_tx_confirmations = $c:seq; if funding_tx_confirmations == 0 { $reset:straight } if let Some(channel_ready) = self.check_get_channel_ready(height, logger) {
//@with
    fn note_funding_confirmations(&mut self, height: u32) -> (Option<u64>, bool, u32) {
        let original_scid = $a; let was_confirmed = $b; let funding_tx_confirmations = $c;
        if funding_tx_confirmations == 0 { $reset }
        (original_scid, was_confirmed, funding_tx_confirmations)
    }
//@ret r
//@requires
    height < u32::MAX,
//@ensures P C11 a-best-block-below-the-funding-confirmation-forgets-the-confirmation-entirely-and-any-other-height-leaves-it-untouched
    r.0 == old(self).funding.short_channel_id, r.1 == (old(self).funding.funding_tx_confirmed_in is Some),
    r.2 as int == confirmations_spec(old(self).funding.funding_tx_confirmation_height, height),
    r.2 == 0 ==> final(self).funding.funding_tx_confirmation_height == 0 && final(self).funding.short_channel_id is None && final(self).funding.funding_tx_confirmed_in is None,
    r.2 != 0 ==> final(self).funding == old(self).funding,
//@mutant block_hash_kept_after_the_reorg
    self.funding.funding_tx_confirmed_in = None;
//@with
    
//@end
//@extract lightning/src/ln/channel.rs :: impl FundedChannel :: fn transaction_unconfirmed
//@slice R15
    let reorg_height = $h:seq; let signer_config
//@with
    fn height_reported_for_unconfirmed_funding(funding: &FundingScope) -> u32 { $h }
//@ret r
//@requires
    funding.funding_tx_confirmation_height != 0,
//@ensures P C11 an-unconfirmed-funding-transaction-is-handled-as-a-reorg-to-just-below-its-confirmation-so-no-confirmation-is-left
    confirmations_spec(funding.funding_tx_confirmation_height, r) == 0,
    r == funding.funding_tx_confirmation_height - 1,
//@mutant reorg_reported_at_the_confirmation_height
    funding.funding_tx_confirmation_height - 1
//@with
    funding.funding_tx_confirmation_height
//@end
}
}
fn main() {}
