//! unit: u14e
//! properties: C14
//! note: sender and hops walk the same chain of ephemeral keys (BOLT 4): the body of the per-hop closure of construct_onion_keys_generic (sender) and next_hop_pubkey WHOLE (each forwarding hop). For hop i the sender derives the shared secret from the hop's key and its current ephemeral secret, the blinding factor as SHA256(current ephemeral PUBLIC key || shared secret), hands the hop that public key, and multiplies its ephemeral secret by the factor; the hop computes SHA256(the public key it was handed || its shared secret) and multiplies THAT PUBLIC key by the result. lemma_hop_passes_on_the_senders_next_key: the key the hop puts in the packet for the next hop is the public key of the sender's next ephemeral secret, so the next hop derives the secret the sender used for it (given ECDH symmetry and pub(k*t) = pub(k)*t, the two group facts assumed)
//! trusted: R15 (deep slice): the closure body verbatim as a function of the two captured ephemeral values (passed by &mut); secp256k1 and SHA256 are uninterpreted: ecdh(point, secret), pk(secret), tweak of a secret / of a point by a scalar, sha256 of two byte strings fed one after the other (the engine records its inputs), scalar-from-bytes total (LDK unwraps: a SHA256 output outside the curve order has probability 2^-128; assumed); SharedSecret::as_ref / serialize()[..] hand the bytes on
//! assume: the two group facts ecdh(pk(a), b) == ecdh(pk(b), a) and pk(a*t) == pk(a)*t (secp256k1), stated as axioms ax_ecdh_symmetric / ax_pk_of_tweaked
//! plemma: C14 lemma_hop_passes_on_the_senders_next_key: the public key a forwarding hop derives for the next hop is the public key of the ephemeral secret the sender moved on to, and the hop's shared secret is the sender's
//! trusted: assume_specification for core::cmp::max / core::cmp::min (std definitions): present in every unit so that a change that introduces them is verified instead of being rejected by the tool
use vstd::prelude::*;
verus! {
use vstd::std_specs::cmp::*;
use core::cmp;
pub assume_specification<T: core::cmp::Ord>[core::cmp::max::<T>](a: T, b: T) -> (r: T)
    ensures T::obeys_cmp_spec() ==> r == (if b.cmp_spec(&a) == core::cmp::Ordering::Less { a } else { b });
pub assume_specification<T: core::cmp::Ord>[core::cmp::min::<T>](a: T, b: T) -> (r: T)
    ensures T::obeys_cmp_spec() ==> r == (if b.cmp_spec(&a) == core::cmp::Ordering::Less { b } else { a });
#[derive(Clone, Copy)] pub struct SecretKey(pub u64);
#[derive(Clone, Copy)] pub struct PublicKey(pub u64);
#[derive(Clone, Copy)] pub struct Scalar(pub u64);
#[derive(Clone, Copy)] pub struct SharedSecret(pub u64);
pub struct Ctx {}
#[derive(Debug)] pub enum Error { InvalidTweak }
pub uninterp spec fn pk(s: SecretKey) -> PublicKey;
pub uninterp spec fn ecdh(p: PublicKey, s: SecretKey) -> SharedSecret;
pub uninterp spec fn tweak_secret(s: SecretKey, t: Scalar) -> SecretKey;
pub uninterp spec fn tweak_point(p: PublicKey, t: Scalar) -> PublicKey;
pub uninterp spec fn ser_pk(p: PublicKey) -> Seq<u8>;
pub uninterp spec fn ss_bytes(s: SharedSecret) -> Seq<u8>;
pub uninterp spec fn sha256_2(a: Seq<u8>, b: Seq<u8>) -> [u8; 32];
pub uninterp spec fn scalar_of(b: [u8; 32]) -> Scalar;
#[verifier::external_body] pub broadcast proof fn ax_ecdh_symmetric(a: SecretKey, b: SecretKey) ensures #[trigger] ecdh(pk(a), b) == ecdh(pk(b), a) {}
#[verifier::external_body] pub broadcast proof fn ax_pk_of_tweaked(a: SecretKey, t: Scalar) ensures #[trigger] pk(tweak_secret(a, t)) == tweak_point(pk(a), t) {}
impl SharedSecret {
    #[verifier::external_body] pub fn new(p: &PublicKey, s: &SecretKey) -> (r: SharedSecret) ensures r == ecdh(*p, *s) { unimplemented!() }
    #[verifier::external_body] pub fn as_ref(&self) -> (r: Bytes) ensures r.b@ == ss_bytes(*self) { unimplemented!() }
}
pub struct Bytes { pub b: Ghost<Seq<u8>> }
pub struct Engine { pub fed: Ghost<Seq<Seq<u8>>> }
pub struct Sha256 {}
pub struct Digest { pub d: [u8; 32] }
impl Digest { pub fn to_byte_array(self) -> (r: [u8; 32]) ensures r == self.d { self.d } }
impl Sha256 {
    #[verifier::external_body] pub fn engine() -> (r: Engine) ensures r.fed@.len() == 0 { unimplemented!() }
    #[verifier::external_body] pub fn from_engine(e: Engine) -> (r: Digest) ensures e.fed@.len() == 2 ==> r.d == sha256_2(e.fed@[0], e.fed@[1]) { unimplemented!() }
}
impl Engine { #[verifier::external_body] pub fn input(&mut self, b: Bytes) ensures final(self).fed@ == old(self).fed@.push(b.b@) { unimplemented!() } }
impl PublicKey {
    #[verifier::external_body] pub fn from_secret_key(c: &Ctx, s: &SecretKey) -> (r: PublicKey) ensures r == pk(*s) { unimplemented!() }
    #[verifier::external_body] pub fn serialize(&self) -> (r: Bytes) ensures r.b@ == ser_pk(*self) { unimplemented!() }
    #[verifier::external_body] pub fn mul_tweak(&self, c: &Ctx, t: &Scalar) -> (r: Result<PublicKey, Error>) ensures r is Ok ==> r->Ok_0 == tweak_point(*self, *t) { unimplemented!() }
}
impl SecretKey { #[verifier::external_body] pub fn mul_tweak(&self, t: &Scalar) -> (r: Result<SecretKey, Error>) ensures r == Ok::<SecretKey, Error>(tweak_secret(*self, *t)) { unimplemented!() } }
impl Scalar { #[verifier::external_body] pub fn from_be_bytes(b: [u8; 32]) -> (r: Result<Scalar, Error>) ensures r == Ok::<Scalar, Error>(scalar_of(b)) { unimplemented!() } }
pub struct HopRef { pub id: u64 }
// the blinding factor both sides compute: SHA256(ephemeral public key || shared secret)
pub open spec fn factor(e: PublicKey, ss: SharedSecret) -> Scalar { scalar_of(sha256_2(ser_pk(e), ss_bytes(ss))) }
//@extract lightning/src/ln/onion_utils.rs :: fn construct_onion_keys_generic
//@slice R15
    .enumerate().map(move |(idx, (pubkey, route_hop_opt))| { $body:any })
//@with
    fn keys_for_one_hop(secp_ctx: &Ctx, idx: usize, pubkey: &PublicKey, route_hop_opt: Option<HopRef>, blinded_priv_: &mut SecretKey, blinded_pub_: &mut PublicKey) -> (SharedSecret, [u8; 32], PublicKey, Option<HopRef>, usize) {
        let mut blinded_priv = *blinded_priv_; let mut blinded_pub = *blinded_pub_;
        let __r = { $body };
        *blinded_priv_ = blinded_priv; *blinded_pub_ = blinded_pub; __r }
//@rw R8 *
    .serialize()[..]
//@with
    .serialize()
//@rw R8 *
    sha.input(&$x:ident.serialize());
//@with
    sha.input($x.serialize());
//@rw R8 ?
    .expect("You broke SHA-256")
//@with
    .unwrap()
//@rw R8 ?
    .expect("Blinding are never invalid as we picked the starting private key randomly")
//@with
    .unwrap()
//@ret r
//@requires
    *old(blinded_pub_) == pk(*old(blinded_priv_)),
//@ensures P C14 for-each-hop-the-sender-derives-the-shared-secret-from-the-hops-key-and-its-current-ephemeral-secret-hands-the-hop-the-matching-public-key-and-moves-on-to-that-secret-times-sha256-of-public-key-and-shared-secret
    r.0 == ecdh(*pubkey, *old(blinded_priv_)), r.2 == pk(*old(blinded_priv_)), r.1 == sha256_2(ser_pk(pk(*old(blinded_priv_))), ss_bytes(r.0)), r.3 == route_hop_opt, r.4 == idx,
    *final(blinded_priv_) == tweak_secret(*old(blinded_priv_), factor(pk(*old(blinded_priv_)), r.0)), *final(blinded_pub_) == pk(*final(blinded_priv_)),
//@mutant blinding_factor_hashes_the_hops_key_instead_of_the_ephemeral_key
    sha.input(&blinded_pub.serialize()[..]);
//@with
    sha.input(&pubkey.serialize()[..]);
//@mutant ephemeral_key_not_advanced
    blinded_pub = PublicKey::from_secret_key(secp_ctx, &blinded_priv); (shared_secret,
//@with
    (shared_secret,
//@end
//@extract lightning/src/ln/onion_utils.rs :: fn next_hop_pubkey
//@strip secp256k1
//@rw R5
    pub fn next_hop_pubkey<T: Verification>( secp_ctx: &Secp256k1<T>, curr_pubkey: PublicKey, shared_secret: &[u8], )
//@with
    pub fn next_hop_pubkey( secp_ctx: &Ctx, curr_pubkey: PublicKey, shared_secret: Bytes, )
//@rw R8 ?
    sha.input(&$x:ident.serialize()[..]);
//@with
    sha.input($x.serialize());
//@ret r
//@ensures P C14 a-forwarding-hop-hands-the-next-hop-the-public-key-it-was-handed-times-sha256-of-that-key-and-its-shared-secret
    r is Ok ==> r->Ok_0 == tweak_point(curr_pubkey, scalar_of(sha256_2(ser_pk(curr_pubkey), shared_secret.b@))),
//@mutant next_key_hashes_secret_and_key_in_the_other_order
    sha.input(&curr_pubkey.serialize()[..]); sha.input(shared_secret);
//@with
    sha.input(shared_secret); sha.input(&curr_pubkey.serialize()[..]);
//@end
// the hop's node secret is n (its key pk(n) is what the sender used); it was handed the sender's e = pk(ek)
pub proof fn lemma_hop_passes_on_the_senders_next_key(ek: SecretKey, n: SecretKey)
    ensures
        // the hop's shared secret is the sender's
        ecdh(pk(ek), n) == ecdh(pk(n), ek),
        // what next_hop_pubkey computes from (pk(ek), that secret) is the public key of the sender's next ephemeral secret
        tweak_point(pk(ek), factor(pk(ek), ecdh(pk(ek), n))) == pk(tweak_secret(ek, factor(pk(ek), ecdh(pk(n), ek)))),
{
    broadcast use ax_ecdh_symmetric, ax_pk_of_tweaked;
}
}
fn main() {}
