//! unit: u03e
//! properties: C03 C10 C02
//! note: what the monitor forgets when the counterparty revokes a commitment (ChannelMonitorImpl::provide_secret, the pruning closure): the record "the counterparty gave us the preimage for this HTLC of ours" (counterparty_fulfilled_htlcs: what lets a restart from a stale manager still report the payment as sent, or claim the forward upstream) is dropped for a source of the revoked commitment exactly when that source is no longer in the CURRENT counterparty commitment; while the HTLC is still there the record stays
//! trusted: R15 (deep slice): the body of the loop over the sources of the revoked commitment, verbatim as a function of the current commitment's claimables, one source and the map of fulfilled HTLCs; R6: `E.iter().any(|(_, cur_source_opt)| P)` through the contracted helper any_of with P carried verbatim as the closure's postcondition (the pair pattern is bound by name first); R8: equality of two optional boxed sources is the value equality opt_src_eq; the map is an environment map keyed by SentHTLCId::from_source (uninterpreted injection of the source)
//! trusted: assume_specification for core::cmp::max / core::cmp::min (std definitions): present in every unit so that a change that introduces them is verified instead of being rejected by the tool
use vstd::prelude::*;
verus! {
use vstd::std_specs::cmp::*;
use core::cmp;
pub assume_specification<T: core::cmp::Ord>[core::cmp::max::<T>](a: T, b: T) -> (r: T)
    ensures T::obeys_cmp_spec() ==> r == (if b.cmp_spec(&a) == core::cmp::Ordering::Less { a } else { b });
pub assume_specification<T: core::cmp::Ord>[core::cmp::min::<T>](a: T, b: T) -> (r: T)
    ensures T::obeys_cmp_spec() ==> r == (if b.cmp_spec(&a) == core::cmp::Ordering::Less { b } else { a });
#[derive(Clone, Copy)] pub struct HTLCSource { pub id: u64 }
#[derive(Clone, Copy)] pub struct SentHTLCId(pub u64);
impl SentHTLCId { #[verifier::external_body] pub fn from_source(s: &HTLCSource) -> (r: SentHTLCId) ensures r == SentHTLCId(s.id) { unimplemented!() } }
pub struct HTLCOutputInCommitment { pub id: u64 }
pub type Claimable = (HTLCOutputInCommitment, Option<HTLCSource>);
pub struct FulfilledMap { pub m: Ghost<Map<SentHTLCId, u64>> }
impl FulfilledMap { #[verifier::external_body] pub fn remove(&mut self, k: &SentHTLCId) -> (r: Option<u64>) ensures final(self).m@ == old(self).m@.remove(*k) { unimplemented!() } }
pub struct Mon { pub counterparty_fulfilled_htlcs: FulfilledMap }
#[verifier::external_body] pub fn opt_src_eq(a: &Option<HTLCSource>, b: &Option<HTLCSource>) -> (r: bool) ensures r == (*a == *b) { unimplemented!() }
// R6: `v.iter().any(f)`: true only if f answers true for some element, false only if it answers false for all (sound for any closure)
#[verifier::external_body] pub fn any_of<T, F: Fn(&T) -> bool>(v: &Vec<T>, f: F) -> (r: bool)
    ensures r ==> exists|k: int| 0 <= k < v@.len() && f.ensures((&#[trigger] v@[k],), true), !r ==> forall|k: int| 0 <= k < v@.len() ==> f.ensures((&#[trigger] v@[k],), false) { unimplemented!() }
pub open spec fn still_in(cur: Seq<Claimable>, s: Option<HTLCSource>) -> bool { exists|k: int| 0 <= k < cur.len() && (#[trigger] cur[k]).1 == s }
impl Mon {
//@extract lightning/src/chain/channelmonitor.rs :: impl ChannelMonitorImpl :: fn provide_secret
//@slice R15
    if let Some(source) = source_opt { if $c:cond { $rm:straight } }
//@with
    fn forget_the_counterpartys_fulfilment_of_a_pruned_htlc(&mut self, cur_claimables: &Vec<Claimable>, source_opt: &Option<HTLCSource>) { if let Some(source) = source_opt { if $c { $rm } } }
//@rw R6 ?
    cur_claimables.iter() .any(|(_, cur_source_opt)| $p:seq)
//@with
    any_of(cur_claimables, |__e: &Claimable| -> (b: bool) ensures b == (__e.1 == *source_opt) { let cur_source_opt = &__e.1; $p })
//@rw R8 ?
    cur_source_opt == source_opt
//@with
    opt_src_eq(cur_source_opt, source_opt)
//@ensures P C03,C10,C02 when-a-commitment-is-revoked-the-record-that-the-counterparty-fulfilled-one-of-its-htlcs-is-dropped-exactly-when-that-htlc-is-no-longer-in-the-current-commitment
    final(self).counterparty_fulfilled_htlcs.m@ == (if *source_opt is Some && !still_in(cur_claimables@, *source_opt) { old(self).counterparty_fulfilled_htlcs.m@.remove(SentHTLCId(source_opt->Some_0.id)) } else { old(self).counterparty_fulfilled_htlcs.m@ }),
//@mutant fulfilment_forgotten_while_the_htlc_is_still_in_the_current_commitment
    if !cur_claimables.iter()
//@with
    if cur_claimables.iter()
//@end
}
}
fn main() {}
