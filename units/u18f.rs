//! unit: u18f
//! properties: C18
//! note: BOLT-12 signatures cover every TLV record: the in-place loop of offers/merkle.rs root_hash leaves in position 0 the root of the full binary tree over ALL leaves (pairs of neighbours combined level by level, an unpaired node promoted unchanged), for every number of leaves; a loop that stops combining early, skips a pair or combines the wrong neighbours yields a root that does not depend on some record, so that record of a signed invoice request or invoice could be changed without invalidating the signature
//! trusted: R15 (deep slice): root_hash from `let num_leaves = leaves.len();` to the returned expression; the statements of both loops (step, offset, the exit test, the bounds and steps of the two stepped ranges, the update of the inner loop, the result) are captured verbatim
//! trusted: R13: `for level in RANGE` is a loop over an explicit counter: the range's lower bound and optional upper bound are taken from the source by the macros range_lo! / range_hi! (an absent upper bound is None); the counter is declared u32 (rustc infers i32 from `0..`; Verus's bit-vector reasoning refuses signed shift amounts; the values are the same in the range that occurs)
//! trusted: R6: `for (i, j) in (A..B).step_by(S).zip((C..D).step_by(T)) { U }` is `i = A; j = C; while i < B && j < D { U; i += S; j += T }` with the obligation S > 0 && T > 0 (step_by panics on 0); std's stepping does not overflow, the rewritten additions carry Verus's overflow obligations instead
//! trusted: R8: `leaves[i] = e;` is `let v = e; leaves.set(i, v);` (Verus has no IndexMut assignment on Vec); `leaves.first()` is the wrapper first_of (std: Some(&v[0]) for a non-empty vector)
//! trusted: R5: sha256::Hash is a Copy skeleton; tagged_branch_hash_from_engine (verified in u18c: the two children in sorted order under the branch tag) is an external_body stub returning the uninterpreted branch(a, b); the hash engine is an opaque Clone type
//! assume: usize is 64 bits (`global size_of usize == 8`); the vector holds at most 2^58 leaves (a Vec of 32-byte elements cannot allocate more than isize::MAX bytes)
//! trusted: assume_specification for core::cmp::max / core::cmp::min (std definitions): present in every unit so that a change that introduces them is verified instead of being rejected by the tool
use vstd::prelude::*;
macro_rules! range_lo { ($lo:tt ..) => { $lo }; ($lo:tt .. $hi:expr) => { $lo }; }
macro_rules! range_hi { ($lo:tt ..) => { None }; ($lo:tt .. $hi:expr) => { Some(($hi) as u64) }; }
verus! {
use vstd::std_specs::cmp::*;
use vstd::arithmetic::power2::*;
use vstd::arithmetic::div_mod::*;
use core::cmp;
global size_of usize == 8;
pub assume_specification<T: core::cmp::Ord>[core::cmp::max::<T>](a: T, b: T) -> (r: T)
    ensures T::obeys_cmp_spec() ==> r == (if b.cmp_spec(&a) == core::cmp::Ordering::Less { a } else { b });
pub assume_specification<T: core::cmp::Ord>[core::cmp::min::<T>](a: T, b: T) -> (r: T)
    ensures T::obeys_cmp_spec() ==> r == (if b.cmp_spec(&a) == core::cmp::Ordering::Less { b } else { a });
#[derive(Clone, Copy)] pub struct Hash(pub [u8; 32]);
pub struct Engine {}
impl Clone for Engine { #[verifier::external_body] fn clone(&self) -> Self { unimplemented!() } }
pub uninterp spec fn branch(a: Hash, b: Hash) -> Hash;
#[verifier::external_body] pub fn tagged_branch_hash_from_engine(e: Engine, a: Hash, b: Hash) -> (r: Hash) ensures r == branch(a, b) { unimplemented!() }
#[verifier::external_body] pub fn first_of(v: &Vec<Hash>) -> (r: Option<&Hash>) ensures v@.len() > 0 ==> r is Some && *r->Some_0 == v@[0], v@.len() == 0 ==> r is None { unimplemented!() }
// the tree: node(level, i) is the hash of the subtree over leaves i .. i + 2^level; a node without a right neighbour is promoted unchanged
pub open spec fn node(l0: Seq<Hash>, level: nat, i: int) -> Hash decreases level {
    if level == 0 { l0[i] } else {
        let h = pow2((level - 1) as nat) as int;
        if i + h < l0.len() { branch(node(l0, (level - 1) as nat, i), node(l0, (level - 1) as nat, i + h)) } else { node(l0, (level - 1) as nat, i) }
    }
}
pub open spec fn root_spec(l0: Seq<Hash>) -> Hash { node(l0, 64, 0) }
pub open spec fn aligned(level: nat, x: int) -> bool { x % (pow2(level) as int) == 0 }

pub proof fn lemma_shl_is_pow2(level: u32)
    requires level < 59
    ensures (2usize << level) as int == pow2((level + 1) as nat), pow2(level as nat) <= 0x400_0000_0000_0000, pow2(level as nat) > 0
{
    lemma2_to64(); lemma2_to64_rest();
    if level < 58 { lemma_pow2_strictly_increases(level as nat, 58); }
    lemma_pow2_unfold((level + 1) as nat);
    lemma_pow2_pos(level as nat);
    assert(2 * pow2(level as nat) <= u64::MAX);
    vstd::bits::lemma_u64_shl_is_mul(2u64, level as u64);
    assert((2usize << level) as u64 == 2u64 << (level as u64)) by (bit_vector) requires level < 59;
}
pub proof fn lemma_node_stable(l0: Seq<Hash>, lo: nat, hi: nat, i: int)
    requires lo <= hi, i + pow2(lo) >= l0.len(), 0 <= i
    ensures node(l0, hi, i) == node(l0, lo, i)
    decreases hi - lo
{
    if hi > lo {
        lemma_node_stable(l0, lo, (hi - 1) as nat, i);
        lemma_pow2_strictly_increases(lo, hi);
        if hi - 1 > lo { lemma_pow2_strictly_increases(lo, (hi - 1) as nat); }
    }
}
pub proof fn lemma_aligned_step(level: nat, x: int)
    requires aligned(level + 1, x), 0 <= x
    ensures aligned(level, x), aligned(level, x + pow2(level))
{
    let p = pow2(level) as int;
    lemma_pow2_pos(level);
    lemma_pow2_unfold(level + 1);
    assert(pow2(level + 1) == 2 * pow2(level));
    // x = q * 2p
    lemma_fundamental_div_mod(x, 2 * p);
    let q = x / (2 * p);
    assert(x == (2 * p) * q);
    assert(x == p * (2 * q)) by (nonlinear_arith) requires x == (2 * p) * q;
    lemma_mod_multiples_basic(2 * q, p);
    assert((2 * q) * p == p * (2 * q)) by (nonlinear_arith);
    assert(x + p == p * (2 * q + 1)) by (nonlinear_arith) requires x == p * (2 * q);
    lemma_mod_multiples_basic(2 * q + 1, p);
    assert((2 * q + 1) * p == p * (2 * q + 1)) by (nonlinear_arith);
}
pub proof fn lemma_no_aligned_between(level: nat, i: int, x: int)
    requires aligned(level, i), i < x < i + pow2(level), 0 <= i
    ensures !aligned(level, x)
{
    let s = pow2(level) as int;
    lemma_pow2_pos(level);
    lemma_fundamental_div_mod(i, s);
    let q = i / s;
    assert(i == s * q);
    // x = s*q + (x - i), 0 < x-i < s
    lemma_fundamental_div_mod_converse(x, s, q, x - i);
}


//@extract lightning/src/offers/merkle.rs :: fn root_hash
//@slice R15
    let num_leaves = leaves.len(); for level in $range:seq { let step = $st:seq; let offset = $of:seq; if $brk:cond { break; } let left_branches = ($ll:seq..$lh:seq).step_by($ls:seq); let right_branches = ($rl:seq..$rh:seq).step_by($rs:seq); for (i, j) in left_branches.zip(right_branches) { $upd:any } } $res:seq }
//@with
    fn merkle_root_in_place(leaves_: Vec<Hash>, branch_tag: &Engine) -> Hash {
        let mut leaves = leaves_;
        let ghost l0 = leaves@;
        let num_leaves = leaves.len();
        let mut level: u32 = range_lo!($range);
        let end: Option<u64> = range_hi!($range);
        proof { lemma2_to64(); }
        loop
            invariant_except_break
                0 <= level <= 58,
                // a bounded range must not run out before the levels do
                end is None || end->Some_0 >= 59,
            invariant
                leaves@.len() == num_leaves, num_leaves == l0.len(), 1 <= num_leaves <= 0x400_0000_0000_0000,
                0 <= level <= 59,
                forall|x: int| #![trigger aligned(level as nat, x)] 0 <= x < num_leaves && aligned(level as nat, x) ==> leaves@[x] == node(l0, level as nat, x),
            ensures
                leaves@.len() == num_leaves, 0 <= level <= 58, pow2(level as nat) >= num_leaves,
                forall|x: int| #![trigger aligned(level as nat, x)] 0 <= x < num_leaves && aligned(level as nat, x) ==> leaves@[x] == node(l0, level as nat, x),
            decreases 60 - level
        {
            match end { Some(h) => { if level as u64 >= h { break; } }, None => {} }
            let ghost lv = level as nat;
            proof { lemma_shl_is_pow2(level); lemma_pow2_unfold(lv + 1); }
            let step: usize = $st;
            let offset: usize = $of;
            if $brk { break; }
            proof { lemma2_to64_rest(); if level > 58 { lemma_pow2_strictly_increases(58, lv); } }
            let ghost s0 = leaves@;
            let mut i: usize = $ll;
            let mut j: usize = $rl;
            assert($ls > 0 && $rs > 0);
            proof { lemma_small_mod(0, pow2(lv + 1)); }
            while i < $lh && j < $rh
                invariant
                    leaves@.len() == num_leaves, j == i + offset, offset as int == pow2(lv), step as int == pow2(lv + 1), aligned(lv + 1, i as int),
                    num_leaves <= 0x400_0000_0000_0000, i as int <= num_leaves + step, offset < num_leaves, s0.len() == num_leaves, step as int == 2 * offset, offset > 0,
                    forall|x: int| #![trigger aligned(lv, x)] 0 <= x < num_leaves && aligned(lv, x) ==> s0[x] == node(l0, lv, x),
                    forall|x: int| #![trigger aligned(lv + 1, x)] 0 <= x < i && aligned(lv + 1, x) ==> x + offset < num_leaves && leaves@[x] == branch(s0[x], s0[x + offset]),
                    forall|x: int| #![trigger leaves@[x]] 0 <= x < num_leaves && (x >= i || !aligned(lv + 1, x)) ==> leaves@[x] == s0[x],
                decreases num_leaves + step - j
            {
                proof { lemma_aligned_step(lv, i as int); lemma_no_aligned_between(lv + 1, i as int, j as int); }
                $upd
                let ghost i0 = i as int;
                i = i + $ls; j = j + $rs;
                proof {
                    assert(aligned(lv + 1, i as int)) by { lemma_mod_add_multiples_vanish(i0, pow2(lv + 1) as int); }
                    assert forall|x: int| #![trigger aligned(lv + 1, x)] 0 <= x < i && aligned(lv + 1, x) implies x + offset < num_leaves && leaves@[x] == branch(s0[x], s0[x + offset]) by {
                        if x > i0 { lemma_no_aligned_between(lv + 1, i0, x); }
                    }
                }
            }
            proof {
                assert forall|x: int| #![trigger aligned(lv + 1, x)] 0 <= x < num_leaves && aligned(lv + 1, x) implies leaves@[x] == node(l0, lv + 1, x) by {
                    lemma_aligned_step(lv, x);
                }
            }
            level = level + 1;
        }
        proof { lemma_pow2_pos(level as nat); lemma_small_mod(0, pow2(level as nat)); assert(aligned(level as nat, 0)); lemma_node_stable(l0, level as nat, 64, 0); }
        $res }
//@rw R8
    leaves[i] = $v:seq;
//@with
    let __v = $v; leaves.set(i, __v);
//@rw R8
    leaves.first()
//@with
    first_of(&leaves)
//@ret r
//@requires
    1 <= leaves_@.len() <= 0x400_0000_0000_0000,
//@ensures P C18 the-signed-merkle-root-is-the-root-of-the-full-tree-over-every-tlv-record-of-the-stream
    r == root_spec(leaves_@),
//@mutant tree_built_for_at_most_eight_levels
    for level in 0.. {
//@with
    for level in 0..core::mem::size_of::<usize>() {
//@mutant right_neighbours_taken_one_position_too_far
    let right_branches = (offset..num_leaves).step_by(step);
//@with
    let right_branches = (offset + 1..num_leaves).step_by(step);
//@mutant every_other_pair_skipped
    let left_branches = (0..num_leaves).step_by(step);
//@with
    let left_branches = (0..num_leaves).step_by(step * 2);
//@mutant last_level_not_combined
    if offset >= num_leaves {
//@with
    if step >= num_leaves {
//@mutant parent_built_from_the_left_child_twice
    leaves[i] = tagged_branch_hash_from_engine(branch_tag.clone(), leaves[i], leaves[j]);
//@with
    leaves[i] = tagged_branch_hash_from_engine(branch_tag.clone(), leaves[i], leaves[i]);
//@end
}
fn main() {}
