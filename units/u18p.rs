//! unit: u18p
//! properties: C18
//! note: BOLT-11 description field (lightning-invoice de.rs `impl FromBase32 for Description`, whole; `FromBase32` is a public trait): the field's symbols are regrouped into bytes, the bytes must be UTF-8, and the text must fit a description (639 bytes); input that does not is REFUSED with an error - the parser is callable with any slice, not only with the at most 1023 symbols parse_tagged_parts (u18h) hands it, and must not panic on a longer one (finding F18: it did, through an `expect`)
//! trusted: R5: `Vec::<u8>::from_base32` and `String::from_utf8` are external_body stubs: any functions of their input (refusing when uninterpreted predicates say so); String is its length; Description::new as in u18o (accepts exactly up to 639 bytes); the `?` conversions of the two error types are opaque
//! trusted: assume_specification for core::cmp::max / core::cmp::min (std definitions): present in every unit so that a change that introduces them is verified instead of being rejected by the tool
use vstd::prelude::*;
verus! {
use vstd::std_specs::cmp::*;
use core::cmp;
pub assume_specification<T: core::cmp::Ord>[core::cmp::max::<T>](a: T, b: T) -> (r: T)
    ensures T::obeys_cmp_spec() ==> r == (if b.cmp_spec(&a) == core::cmp::Ordering::Less { a } else { b });
pub assume_specification<T: core::cmp::Ord>[core::cmp::min::<T>](a: T, b: T) -> (r: T)
    ensures T::obeys_cmp_spec() ==> r == (if b.cmp_spec(&a) == core::cmp::Ordering::Less { b } else { a });
pub struct Fe32(pub u8);
pub enum Bolt11ParseError { InvalidSliceLength(usize, usize, &'static str), DescriptionDecodeError, Other(u8) }
#[derive(Debug)] pub enum CreationError { DescriptionTooLong }
pub struct Str { pub n: usize }
pub uninterp spec fn decoded_len(f: Seq<Fe32>) -> Option<usize>;
pub uninterp spec fn is_utf8(f: Seq<Fe32>) -> bool;
pub struct Bytes { pub n: usize, pub utf8: bool }
#[verifier::external_body] pub fn bytes_from_base32(field_data: &[Fe32]) -> (r: Result<Bytes, Bolt11ParseError>)
    ensures (r is Ok) == (decoded_len(field_data@) is Some), r is Ok ==> Some(r->Ok_0.n) == decoded_len(field_data@) && r->Ok_0.utf8 == is_utf8(field_data@) { unimplemented!() }
pub struct StringStub {}
impl StringStub { #[verifier::external_body] pub fn from_utf8(b: Bytes) -> (r: Result<Str, Bolt11ParseError>) ensures (r is Ok) == b.utf8, r is Ok ==> r->Ok_0.n == b.n { unimplemented!() } }
pub struct Description(pub Str);
impl Description {
    pub fn new(description: Str) -> (r: Result<Description, CreationError>) ensures (r is Ok) == (description.n <= 639), r is Ok ==> r->Ok_0.0.n == description.n
    { if description.n > 639 { Err(CreationError::DescriptionTooLong) } else { Ok(Description(description)) } }   // proved against the source in u18o
//@extract lightning-invoice/src/de.rs :: impl FromBase32 for Description :: fn from_base32
//@rw R5
    Vec::<u8>::from_base32(field_data)?
//@with
    bytes_from_base32(field_data)?
//@rw R5
    String::from_utf8(bytes)?
//@with
    StringStub::from_utf8(bytes)?
//@rw R9 ?
    .map_err(|_| { Bolt11ParseError::InvalidSliceLength(field_data.len(), 1023, "Description") })
//@with
    .map_err(|_e: CreationError| -> (o: Bolt11ParseError) { Bolt11ParseError::InvalidSliceLength(field_data.len(), 1023, "Description") })
//@ret r
//@ensures P C18 a-description-field-is-read-exactly-when-it-decodes-to-utf8-text-of-at-most-639-bytes-and-is-refused-never-a-panic-otherwise
    r is Ok <==> (decoded_len(field_data@) is Some && is_utf8(field_data@) && decoded_len(field_data@)->Some_0 <= 639),
    r is Ok ==> r->Ok_0.0.n == decoded_len(field_data@)->Some_0,
//@end
}
}
fn main() {}
