//! unit: u01e
//! properties: C01
//! note: SpecTxBuilder::build_commitment_transaction: the commitment never pays out more than the funding output holds; the fee is the BOLT-3 formula on the kept (non-dust) HTLCs
//! trusted: assume_specification for core::cmp::max / core::cmp::min; ChannelTypeFeatures two-boolean stub (as in u01); HTLCOutputInCommitment / ChannelTransactionParameters are field skeletons of the real structs (fields the body reads); CommitmentTransaction::new is external_body and assumed to record its arguments (HTLC sorting = permutation, abstracted as equality of the sat sum and the length); as_holder_broadcastable/as_counterparty_broadcastable external_body; PublicKey, Secp256k1, PaymentHash opaque; trait Logger empty (R3)
//! trusted: R6e: `v.retain(|p| BODY)` rewritten into `while i < v.len() { let keep = { let p = &v[i]; BODY }; if keep { i += 1 } else { v.remove(i); } }` with BODY carried verbatim (definition of Vec::retain)
//! assume: channel value and dust limit <= 21e14 sat; <= 2000 HTLCs; each side covers its own HTLCs and the funder the anchors (i.e. get_next_commitment_stats returned Ok for this commitment, proved in unit u01)
use vstd::prelude::*;
verus! {
use vstd::std_specs::cmp::*;
use core::cmp;
pub assume_specification<T: core::cmp::Ord>[core::cmp::min::<T>](a: T, b: T) -> (r: T)
    ensures T::obeys_cmp_spec() ==> r == (if b.cmp_spec(&a) == core::cmp::Ordering::Less { b } else { a });
pub assume_specification<T: core::cmp::Ord>[core::cmp::max::<T>](a: T, b: T) -> (r: T)
    ensures T::obeys_cmp_spec() ==> r == (if b.cmp_spec(&a) == core::cmp::Ordering::Less { a } else { b });
pub struct ChannelTypeFeatures { pub anchors: bool, pub zfc: bool }
impl ChannelTypeFeatures {
    #[verifier::external_body]
    pub fn supports_anchors_zero_fee_htlc_tx(&self) -> (r: bool) ensures r == self.anchors { self.anchors }
    #[verifier::external_body]
    pub fn supports_anchor_zero_fee_commitments(&self) -> (r: bool) ensures r == self.zfc { self.zfc }
}
//@const lightning/src/ln/channel.rs ANCHOR_OUTPUT_VALUE_SATOSHI
//@const lightning/src/ln/chan_utils.rs COMMITMENT_TX_WEIGHT_PER_HTLC
pub open spec fn base_weight(ct: &ChannelTypeFeatures) -> int { if ct.anchors { 1124 } else { 724 } }
pub open spec fn commit_fee_spec(feerate: int, n: int, ct: &ChannelTypeFeatures) -> int {
    feerate * (base_weight(ct) + n * 172) / 1000
}
pub open spec fn success_w(ct: &ChannelTypeFeatures) -> int { if ct.anchors { 706 } else { 703 } }
pub open spec fn timeout_w(ct: &ChannelTypeFeatures) -> int { if ct.anchors { 666 } else { 663 } }
pub open spec fn second_stage_spec(ct: &ChannelTypeFeatures, feerate: int) -> (int, int) {
    if ct.anchors || ct.zfc { (0, 0) } else { (feerate * success_w(ct) / 1000, feerate * timeout_w(ct) / 1000) }
}
pub open spec fn anchors_spec(ct: &ChannelTypeFeatures) -> int { if ct.anchors { 660 } else { 0 } }

//@extract lightning/src/ln/chan_utils.rs :: fn htlc_success_tx_weight
//@ret r
//@ensures A
    r == success_w(channel_type_features)
//@end
//@extract lightning/src/ln/chan_utils.rs :: fn htlc_timeout_tx_weight
//@ret r
//@ensures A
    r == timeout_w(channel_type_features)
//@end
//@extract lightning/src/ln/chan_utils.rs :: fn commitment_tx_base_weight
//@ret r
//@ensures A
    r == base_weight(channel_type_features)
//@end
//@extract lightning/src/ln/chan_utils.rs :: fn commit_tx_fee_sat
//@ret r
//@requires
    num_htlcs <= 100_000,
//@ensures P C01 commitment-fee-is-the-BOLT3-formula
    r == commit_fee_spec(feerate_per_kw as int, num_htlcs as int, channel_type_features),
    r <= 0xffff_ffff * 17_300,
//@at body_start
    proof {
        assert(feerate_per_kw as int * (base_weight(channel_type_features) + num_htlcs as int * 172) <= 0xffff_ffff * (1124 + 100_000 * 172)) by (nonlinear_arith)
            requires 0 <= feerate_per_kw <= 0xffff_ffff, 0 <= num_htlcs <= 100_000, 0 < base_weight(channel_type_features) <= 1124;
        assert(feerate_per_kw as int * (base_weight(channel_type_features) + num_htlcs as int * 172) >= 0) by (nonlinear_arith)
            requires 0 <= feerate_per_kw, 0 <= num_htlcs, 0 < base_weight(channel_type_features);
    }
//@mutant division_moved_inside
    (commitment_tx_base_weight(channel_type_features) + num_htlcs as u64 * COMMITMENT_TX_WEIGHT_PER_HTLC) / 1000
//@with
    ((commitment_tx_base_weight(channel_type_features) + num_htlcs as u64 * COMMITMENT_TX_WEIGHT_PER_HTLC) / 1000)
//@end
//@extract lightning/src/sign/tx_builder.rs :: fn total_anchors_sat
//@ret r
//@ensures A
    r == anchors_spec(channel_type)
//@end
//@extract lightning/src/sign/tx_builder.rs :: fn saturating_sub_from_funder
//@ret r
//@ensures A
    r == (if is_outbound_from_holder {
        ((if value_to_holder >= value_to_subtract { (value_to_holder - value_to_subtract) as u64 } else { 0u64 }), value_to_counterparty)
      } else {
        (value_to_holder, (if value_to_counterparty >= value_to_subtract { (value_to_counterparty - value_to_subtract) as u64 } else { 0u64 })) })
//@end

pub struct PublicKey {}
pub struct All {}
pub struct Secp256k1<T> { pub t: T }
pub trait Logger {}
pub struct PaymentHash {}
pub struct HTLCOutputInCommitment { pub offered: bool, pub amount_msat: u64, pub cltv_expiry: u32, pub payment_hash: PaymentHash, pub transaction_output_index: Option<u32> }
pub struct ChannelTransactionParameters { pub channel_type_features: ChannelTypeFeatures, pub channel_value_satoshis: u64, pub is_outbound_from_holder: bool }
pub struct DirectedChannelTransactionParameters {}
impl ChannelTransactionParameters {
    #[verifier::external_body] pub fn as_holder_broadcastable(&self) -> DirectedChannelTransactionParameters { unimplemented!() }
    #[verifier::external_body] pub fn as_counterparty_broadcastable(&self) -> DirectedChannelTransactionParameters { unimplemented!() }
}
pub struct CommitmentTransaction { pub to_broadcaster_value_sat: u64, pub to_countersignatory_value_sat: u64, pub feerate_per_kw: u32, pub nondust_htlcs: Vec<HTLCOutputInCommitment> }
impl CommitmentTransaction {
    // assumed: the constructor records what it is given (sorting of HTLCs = permutation, abstracted as equality of the sat sum)
    #[verifier::external_body]
	pub fn new(commitment_number: u64, per_commitment_point: &PublicKey, to_broadcaster_value_sat: u64, to_countersignatory_value_sat: u64, feerate_per_kw: u32, nondust_htlcs: Vec<HTLCOutputInCommitment>, channel_parameters: &DirectedChannelTransactionParameters, secp_ctx: &Secp256k1<All>) -> (r: CommitmentTransaction)
        ensures r.to_broadcaster_value_sat == to_broadcaster_value_sat, r.to_countersignatory_value_sat == to_countersignatory_value_sat,
            r.feerate_per_kw == feerate_per_kw, sat_sum(r.nondust_htlcs@) == sat_sum(nondust_htlcs@), r.nondust_htlcs@.len() == nondust_htlcs@.len()
    { unimplemented!() }
}
//@extract lightning/src/ln/channel.rs :: struct CommitmentStats
//@end
pub struct SpecTxBuilder {}

pub open spec fn msat_sum(s: Seq<HTLCOutputInCommitment>) -> int decreases s.len() { if s.len() == 0 { 0 } else { msat_sum(s.drop_last()) + s.last().amount_msat as int } }
pub open spec fn sat_sum(s: Seq<HTLCOutputInCommitment>) -> int decreases s.len() { if s.len() == 0 { 0 } else { sat_sum(s.drop_last()) + s.last().amount_msat as int / 1000 } }
pub proof fn lemma_sat_le_msat(s: Seq<HTLCOutputInCommitment>) ensures 0 <= sat_sum(s) * 1000 <= msat_sum(s) decreases s.len()
{ if s.len() > 0 { lemma_sat_le_msat(s.drop_last()); } }


// is the HTLC trimmed on this commitment (spec of the is_dust closure)
pub open spec fn trimmed(offered: bool, amount_msat: u64, feerate: int, dust: int, ct: &ChannelTypeFeatures) -> bool {
    let fee = if ct.anchors { 0 } else { feerate * (if offered { timeout_w(ct) } else { success_w(ct) }) / 1000 };
    (amount_msat as int) / 1000 < dust + fee
}
// the HTLCs that get an output: exactly the non-trimmed ones, in order
pub open spec fn kept(s: Seq<HTLCOutputInCommitment>, feerate: int, dust: int, ct: &ChannelTypeFeatures) -> Seq<HTLCOutputInCommitment>
    decreases s.len()
{
    if s.len() == 0 { Seq::empty() } else {
        let k = kept(s.drop_last(), feerate, dust, ct);
        if trimmed(s.last().offered, s.last().amount_msat, feerate, dust, ct) { k } else { k.push(s.last()) }
    }
}
pub proof fn lemma_kept_step(s: Seq<HTLCOutputInCommitment>, i: int, feerate: int, dust: int, ct: &ChannelTypeFeatures)
    requires 0 <= i < s.len()
    ensures kept(s.take(i + 1), feerate, dust, ct) == (if trimmed(s[i].offered, s[i].amount_msat, feerate, dust, ct) { kept(s.take(i), feerate, dust, ct) } else { kept(s.take(i), feerate, dust, ct).push(s[i]) })
{ assert(s.take(i + 1).drop_last() =~= s.take(i)); }
impl SpecTxBuilder {
//@extract lightning/src/sign/tx_builder.rs :: impl TxBuilder for SpecTxBuilder :: fn build_commitment_transaction
//@strip secp256k1
//@ret r
//@requires
//@requires
    channel_parameters.channel_value_satoshis <= 21_000_000_0000_0000, broadcaster_dust_limit_satoshis <= 21_000_000_0000_0000,
            htlcs_in_tx@.len() <= 2000,
            
            value_to_self_msat <= channel_parameters.channel_value_satoshis * 1000,
            msat_sum(htlcs_in_tx@) <= channel_parameters.channel_value_satoshis * 1000,
            own_side_covered(htlcs_in_tx@, local, value_to_self_msat as int, channel_parameters.channel_value_satoshis as int * 1000),
            
            channel_parameters.is_outbound_from_holder ==> value_to_self_msat - dir_sum(htlcs_in_tx@, local) >= 1000 * anchors_spec(&channel_parameters.channel_type_features),
            !channel_parameters.is_outbound_from_holder ==> channel_parameters.channel_value_satoshis * 1000 - value_to_self_msat - dir_sum(htlcs_in_tx@, !local) >= 1000 * anchors_spec(&channel_parameters.channel_type_features),
//@ensures P C01 commitment-never-pays-out-more-than-the-funding-output-and-fee-is-the-BOLT3-formula-on-the-kept-HTLCs
//@ensures A
    ({
            let tx = r.0;
            let cv = channel_parameters.channel_value_satoshis as int;
            let outputs = tx.to_broadcaster_value_sat + tx.to_countersignatory_value_sat + sat_sum(tx.nondust_htlcs@) + anchors_spec(&channel_parameters.channel_type_features);
            
            &&& outputs <= cv
            
            &&& r.1.commit_tx_fee_sat == commit_fee_spec(feerate_per_kw as int, tx.nondust_htlcs@.len() as int, &channel_parameters.channel_type_features)
        }),
//@ensures P C01 the-funder-pays-the-whole-commitment-fee-whenever-it-can-afford-it
    ({
        let tx = r.0;
        let cv = channel_parameters.channel_value_satoshis as int;
        let outputs = tx.to_broadcaster_value_sat + tx.to_countersignatory_value_sat + sat_sum(tx.nondust_htlcs@) + anchors_spec(&channel_parameters.channel_type_features);
        let fb = if channel_parameters.is_outbound_from_holder { r.1.local_balance_before_fee_msat } else { r.1.remote_balance_before_fee_msat };
        fb as int / 1000 >= r.1.commit_tx_fee_sat ==> outputs + r.1.commit_tx_fee_sat <= cv
    }),
//@ensures P C01 a-balance-output-is-present-with-its-full-value-exactly-when-that-value-reaches-the-broadcasters-dust-limit-so-both-sides-build-the-same-transaction
    ({
        let fee = r.1.commit_tx_fee_sat as int;
        let ls = r.1.local_balance_before_fee_msat as int / 1000;
        let rs = r.1.remote_balance_before_fee_msat as int / 1000;
        let value_to_self = if channel_parameters.is_outbound_from_holder { if ls >= fee { ls - fee } else { 0 } } else { ls };
        let value_to_remote = if channel_parameters.is_outbound_from_holder { rs } else { if rs >= fee { rs - fee } else { 0 } };
        let b = if local { value_to_self } else { value_to_remote };
        let c = if local { value_to_remote } else { value_to_self };
        &&& r.0.to_broadcaster_value_sat == (if b >= broadcaster_dust_limit_satoshis { b } else { 0 })
        &&& r.0.to_countersignatory_value_sat == (if c >= broadcaster_dust_limit_satoshis { c } else { 0 })
    }),
//@ensures P C01 each-sides-balance-before-the-fee-is-its-share-less-its-own-pending-htlcs-dust-or-not-and-less-the-anchors-if-it-funds-the-channel
    r.1.local_balance_before_fee_msat == value_to_self_msat - dir_sum(htlcs_in_tx@, local) - (if channel_parameters.is_outbound_from_holder { 1000 * anchors_spec(&channel_parameters.channel_type_features) } else { 0 }),
    r.1.remote_balance_before_fee_msat == channel_parameters.channel_value_satoshis * 1000 - value_to_self_msat - dir_sum(htlcs_in_tx@, !local) - (if channel_parameters.is_outbound_from_holder { 0 } else { 1000 * anchors_spec(&channel_parameters.channel_type_features) }),
//@ensures P C01 kept-HTLCs-are-exactly-the-non-dust-ones
    r.0.nondust_htlcs@.len() == kept(htlcs_in_tx@, feerate_per_kw as int, broadcaster_dust_limit_satoshis as int, &channel_parameters.channel_type_features).len(),
    r.1.commit_tx_fee_sat == commit_fee_spec(feerate_per_kw as int, kept(htlcs_in_tx@, feerate_per_kw as int, broadcaster_dust_limit_satoshis as int, &channel_parameters.channel_type_features).len() as int, &channel_parameters.channel_type_features),
//@rw R9
    let is_dust = |offered: bool, amount_msat: u64| -> bool {
//@with
    let is_dust = |offered: bool, amount_msat: u64| -> (o: bool)
        requires true
        ensures o == trimmed(offered, amount_msat, feerate_per_kw as int, broadcaster_dust_limit_satoshis as int, channel_type)
    {
        proof { assert(feerate_per_kw as int * 706 <= 0xffff_ffff * 706) by (nonlinear_arith) requires 0 <= feerate_per_kw <= 0xffff_ffff;
                assert(feerate_per_kw as int * 703 <= 0xffff_ffff * 706) by (nonlinear_arith) requires 0 <= feerate_per_kw <= 0xffff_ffff;
                assert(feerate_per_kw as int * 666 <= 0xffff_ffff * 706) by (nonlinear_arith) requires 0 <= feerate_per_kw <= 0xffff_ffff;
                assert(feerate_per_kw as int * 663 <= 0xffff_ffff * 706) by (nonlinear_arith) requires 0 <= feerate_per_kw <= 0xffff_ffff; }
//@rw R6e
    $v:ident.retain(|$h:ident| $body);
//@with
    let ghost orig = $v@;
    proof { assert(orig.take(0) =~= Seq::<HTLCOutputInCommitment>::empty()); assert($v@.take(0) =~= Seq::<HTLCOutputInCommitment>::empty()); }
    {
        let mut __i: usize = 0;
        while __i < $v.len()
            invariant
                __i <= $v@.len() <= orig.len(), orig.len() <= 2000,
                // unprocessed tail is a suffix of the original vector
                $v@.skip(__i as int) == orig.skip(orig.len() - ($v@.len() - __i)),
                ({ let k = orig.len() - ($v@.len() - __i);
                   &&& local_htlc_total_msat == dir_sum(orig.take(k), local)
                   &&& remote_htlc_total_msat == dir_sum(orig.take(k), !local)
                   &&& msat_sum($v@.take(__i as int)) <= msat_sum(orig.take(k)) }),
                msat_sum(orig) <= channel_parameters.channel_value_satoshis * 1000, channel_parameters.channel_value_satoshis <= 21_000_000_0000_0000,
                forall|o: bool, a: u64| is_dust.requires((o, a)),
                forall|o: bool, a: u64, res: bool| is_dust.ensures((o, a), res) ==> res == trimmed(o, a, feerate_per_kw as int, broadcaster_dust_limit_satoshis as int, channel_type),
                // (P) what has been kept so far is exactly the non-dust part of what has been scanned
                $v@.take(__i as int) == kept(orig.take(orig.len() - ($v@.len() - __i)), feerate_per_kw as int, broadcaster_dust_limit_satoshis as int, channel_type),
            decreases $v@.len() - __i
        {
            let ghost k = orig.len() - ($v@.len() - __i);
            let ghost cur = $v@;
            proof {
                assert(cur[__i as int] == cur.skip(__i as int)[0]);
                assert(orig[k] == orig.skip(k)[0]);
                lemma_sums_step(orig, k, local);
                lemma_msat_prefix(orig, k + 1);
                lemma_dir_split(orig.take(k + 1), local);
                lemma_msat_step(cur, __i as int);
                lemma_kept_step(orig, k, feerate_per_kw as int, broadcaster_dust_limit_satoshis as int, channel_type);
                assert(orig.take(0) =~= Seq::<HTLCOutputInCommitment>::empty());
            }
            let __keep = { let $h = &$v[__i];
                $body
            };
            proof { assert(cur.skip(__i as int).skip(1) =~= cur.skip(__i as int + 1)); assert(orig.skip(k).skip(1) =~= orig.skip(k + 1)); }
            if __keep { __i = __i + 1;
                proof { assert($v@.take(__i as int) =~= cur.take(__i as int - 1).push(cur[__i as int - 1])); }
            } else { $v.remove(__i);
                proof { assert($v@ =~= cur.remove(__i as int)); assert($v@.skip(__i as int) =~= cur.skip(__i as int + 1)); assert($v@.take(__i as int) =~= cur.take(__i as int)); }
            }
        }
    }
    proof {
        assert(orig.take(orig.len() as int) =~= orig);
        assert($v@.take($v@.len() as int) =~= $v@);
        lemma_dir_split(orig, local);
        lemma_sat_le_msat($v@);
    }
//@at before `let mut to_broadcaster_value_sat`
    proof {
        let hb = local_balance_before_fee_msat as int; let cb = remote_balance_before_fee_msat as int;
        assert(hb + cb == channel_parameters.channel_value_satoshis * 1000 - msat_sum(orig) - 1000 * anchors_spec(&channel_parameters.channel_type_features));
        assert(hb / 1000 + cb / 1000 <= (hb + cb) / 1000);
        assert(value_to_self + value_to_remote <= hb / 1000 + cb / 1000);
        assert(sat_sum(htlcs_in_tx@) * 1000 <= msat_sum(orig));
    }
//@mutant fee_not_taken_from_the_funder
    remote_balance_before_fee_msat / 1000, commit_tx_fee_sat, );
//@with
    remote_balance_before_fee_msat / 1000, 0, );
//@mutant htlc_value_not_deducted_from_sender
    local_htlc_total_msat += htlc.amount_msat;
//@with
    local_htlc_total_msat += 0;
//@mutant fee_counts_dust_htlcs
    false } else { true }
//@with
    true } else { true }
//@end
}
pub open spec fn dir_sum(s: Seq<HTLCOutputInCommitment>, offered: bool) -> int decreases s.len() {
    if s.len() == 0 { 0 } else { dir_sum(s.drop_last(), offered) + (if s.last().offered == offered { s.last().amount_msat as int } else { 0 }) }
}
pub proof fn lemma_sums_step(s: Seq<HTLCOutputInCommitment>, i: int, d: bool)
    requires 0 <= i < s.len()
    ensures dir_sum(s.take(i + 1), d) == dir_sum(s.take(i), d) + (if s[i].offered == d { s[i].amount_msat as int } else { 0 }),
            dir_sum(s.take(i + 1), !d) == dir_sum(s.take(i), !d) + (if s[i].offered == !d { s[i].amount_msat as int } else { 0 }),
            msat_sum(s.take(i + 1)) == msat_sum(s.take(i)) + s[i].amount_msat
{ assert(s.take(i + 1).drop_last() =~= s.take(i)); }
pub proof fn lemma_msat_step(s: Seq<HTLCOutputInCommitment>, i: int)
    requires 0 <= i < s.len()
    ensures msat_sum(s.take(i + 1)) == msat_sum(s.take(i)) + s[i].amount_msat
{ assert(s.take(i + 1).drop_last() =~= s.take(i)); }
pub proof fn lemma_msat_prefix(s: Seq<HTLCOutputInCommitment>, i: int)
    requires 0 <= i <= s.len()
    ensures 0 <= msat_sum(s.take(i)) <= msat_sum(s)
    decreases s.len() - i
{
    if i < s.len() { lemma_msat_prefix(s, i + 1); lemma_msat_step(s, i); lemma_msat_nonneg(s.take(i)); } else { assert(s.take(i) =~= s); lemma_msat_nonneg(s); }
}
pub proof fn lemma_msat_nonneg(s: Seq<HTLCOutputInCommitment>) ensures msat_sum(s) >= 0 decreases s.len() { if s.len() > 0 { lemma_msat_nonneg(s.drop_last()); } }
pub proof fn lemma_dir_split(s: Seq<HTLCOutputInCommitment>, d: bool)
    ensures dir_sum(s, d) + dir_sum(s, !d) == msat_sum(s), dir_sum(s, d) >= 0, dir_sum(s, !d) >= 0
    decreases s.len()
{ if s.len() > 0 { lemma_dir_split(s.drop_last(), d); } }
pub open spec fn own_side_covered(s: Seq<HTLCOutputInCommitment>, local: bool, vts: int, cv_msat: int) -> bool { dir_sum(s, local) <= vts && dir_sum(s, !local) <= cv_msat - vts }


}
fn main() {}
