//! unit: u08d
//! properties: C08 C11 C02
//! note: an outbound HTLC that reaches the monitor only after the channel's funding output was spent (a counterparty-commitment update applied late) is failed back under the SAME conditions as the HTLCs the spending commitment did not contain (ChannelMonitorImpl::fail_htlcs_from_update_after_funding_spend, slices): its failure is queued with the txid, block and HEIGHT of the pending funding spend, so that it matures exactly when that spend has its anti-reorg depth and is retracted exactly when that spend is reorganised out - not with the height of the tip, which a reorg of the blocks above the spend alone would retract while marking the HTLC as already failed back
//! trusted: R15 (deep slices): the closure that takes (txid, transaction, height, block hash) off the pending FundingSpendConfirmation entry, and the construction of the queued entry in the branch taken while the spend waits for its depth, verbatim; env: OnchainEventEntry / OnchainEvent::HTLCUpdate field skeletons, transaction / source / hashes opaque clonable values
//! trusted: assume_specification for core::cmp::max / core::cmp::min (std definitions): present in every unit so that a change that introduces them is verified instead of being rejected by the tool
use vstd::prelude::*;
verus! {
use vstd::std_specs::cmp::*;
use core::cmp;
pub assume_specification<T: core::cmp::Ord>[core::cmp::max::<T>](a: T, b: T) -> (r: T)
    ensures T::obeys_cmp_spec() ==> r == (if b.cmp_spec(&a) == core::cmp::Ordering::Less { a } else { b });
pub assume_specification<T: core::cmp::Ord>[core::cmp::min::<T>](a: T, b: T) -> (r: T)
    ensures T::obeys_cmp_spec() ==> r == (if b.cmp_spec(&a) == core::cmp::Ordering::Less { b } else { a });
#[derive(Clone, Copy)] pub struct Txid(pub u64);
#[derive(Clone, Copy)] pub struct BlockHash(pub u64);
#[derive(Clone, Copy)] pub struct PaymentHash(pub u64);
#[derive(Copy)] pub struct Transaction { pub id: u64 }
impl Clone for Transaction { #[verifier::external_body] fn clone(&self) -> (r: Self) ensures r == *self { unimplemented!() } }
#[derive(Copy)] pub struct HTLCSource { pub id: u64 }
impl Clone for HTLCSource { #[verifier::external_body] fn clone(&self) -> (r: Self) ensures r == *self { unimplemented!() } }
pub enum OnchainEvent { HTLCUpdate { source: HTLCSource, payment_hash: PaymentHash, htlc_value_satoshis: Option<u64>, commitment_tx_output_idx: Option<u32> }, FundingSpendConfirmation { id: u64 } }
pub struct OnchainEventEntry { pub txid: Txid, pub transaction: Option<Transaction>, pub height: u32, pub block_hash: Option<BlockHash>, pub event: OnchainEvent }
pub struct BestBlock { pub height: u32 }
pub struct Mon { pub best_block: BestBlock }
impl Mon {
//@extract lightning/src/chain/channelmonitor.rs :: impl ChannelMonitorImpl :: fn fail_htlcs_from_update_after_funding_spend
//@slice R15
    .find(|event| matches!(event.event, OnchainEvent::FundingSpendConfirmation { .. })) .map(|entry| $m:seq);
//@with
    fn what_is_taken_off_the_pending_funding_spend(&self, entry: &OnchainEventEntry) -> (Txid, Option<Transaction>, u32, Option<BlockHash>) { $m }
//@ret r
//@ensures P C08,C11,C02 the-failure-of-an-htlc-learned-after-the-funding-spend-is-tied-to-that-spends-own-txid-block-and-height
    r == (entry.txid, entry.transaction, entry.height, entry.block_hash),
//@mutant late_htlc_failure_recorded_at_the_tip_height
    (entry.txid, entry.transaction.clone(), entry.height, entry.block_hash)
//@with
    (entry.txid, entry.transaction.clone(), self.best_block.height, entry.block_hash)
//@end
//@extract lightning/src/chain/channelmonitor.rs :: impl ChannelMonitorImpl :: fn fail_htlcs_from_update_after_funding_spend
//@slice R15
    let (txid, transaction, height, block_hash) = pending_spend_entry.clone().unwrap(); let entry = OnchainEventEntry { $fields:any };
//@with
    fn failure_queued_behind_the_pending_funding_spend(pending_spend_entry: (Txid, Option<Transaction>, u32, Option<BlockHash>), source: &HTLCSource, payment_hash: PaymentHash, htlc_value_satoshis: Option<u64>) -> OnchainEventEntry {
        let (txid, transaction, height, block_hash) = pending_spend_entry; let entry = OnchainEventEntry { $fields }; entry }
//@ret r
//@ensures P C08,C11,C02 the-queued-failure-matures-and-is-retracted-with-the-funding-spend-it-is-tied-to-and-names-the-htlc-its-hash-and-value
    r.txid == pending_spend_entry.0 && r.transaction == pending_spend_entry.1 && r.height == pending_spend_entry.2 && r.block_hash == pending_spend_entry.3,
    r.event == (OnchainEvent::HTLCUpdate { source: *source, payment_hash, htlc_value_satoshis, commitment_tx_output_idx: None }),
//@end
}
}
fn main() {}
