//! unit: u12b
//! properties: C12 C17 C10
//! note: FundedChannel::write and the disconnection it implies: inbound HTLCs the peer has announced but not yet committed (RemoteAnnounced) are not written, the written HTLC count is reduced by their number, and so is the written next_counterparty_htlc_id (the peer retransmits those adds with the same ids after the reload)
//! plemma: C12 lemma_channel_fields_are_read_in_the_order_written: the five fixed-position fields after funding_tx_confirmed_in (confirmation height, short channel id, the two dust limits, the in-flight limit) are read in the order FundedChannel::write emits them
//! plemma: C12 lemma_every_fixed_channel_field_is_read_in_the_order_written: all 28 fixed-position fields of FundedChannel::write that keep their name in read (among them the three monitor_pending flags and the two counterparty commitment points) are read in the order written (R21)
//! plemma: C12 lemma_every_fixed_monitor_field_is_read_in_the_order_written: the 12 fixed-position fields of write_chanmon_internal that keep their name in the reader (among them the two closing flags lockdown_from_offchain / holder_tx_signed) likewise (R21)
//! plemma: C12 lemma_channel_limits_are_read_in_the_order_written: the two fields after counterparty_htlc_minimum_msat likewise
//! trusted: R21 (field sequences): the names of the top-level `ROOT.a.NAME.write(w)?;` statements of a writer and of the `let NAME = Readable::read(r)?;` / `NAME: Readable::read(r)?` sites of a reader, in source order, restricted to a listed set (`only=`: nested records and renamed temporaries are left out), emitted as constant sequences; the lemmas compare them
//! trusted: R15 (deep slices): ChannelMonitorUpdate write / read: the count expression written in front of the steps and the range of the reader's loop, verbatim; the version prefix, the per-step codecs and the TLV suffix are not sliced (TLV macros: u13c / u12c)
//! trusted: R15 (deep slices): FundedChannel::write / read: the NAMES of consecutive fixed-position fields of the legacy section are captured on both sides as values of an enum; the lemmas state that the two sequences agree (same-typed neighbours such as the two dust limits can be swapped without a type error)
//! trusted: R15 (deep slice + capture): ChannelManager::write: the statement that decides whether the pending events go into the legacy list or into TLV 8, and the condition under which TLV 8 is written; R6: `E.iter().any(|p| P)` / `E.iter().all(|p| P)` is an index loop carrying P verbatim that accumulates both answers, the quantifier written in the source selects the result (macro iter_quantifier!)
//! trusted: R15 (statement slicing with captures): FundedChannel::write is ~500 lines of field-by-field serialization; the unit extracts, on every run, (a) the loop that counts the dropped inbound HTLCs, (b) the expression written as the inbound HTLC count, (c) the skip test of the loop that writes the inbound HTLCs, and (d) the expression written between next_holder_htlc_id and update_time_counter (the slot of next_counterparty_htlc_id), verbatim, as one function returning the two written numbers and the number of HTLCs not skipped; every other field of the channel is dropped and not claimed; `x.write(writer)?` of the two numbers becomes returning them
//! trusted: R6: `for htlc in self.context.pending_inbound_htlcs.iter() { B }` becomes an index loop; R16: `if let &P = &e` is written `if let P = e` / a match (Verus has no `&` patterns); env: InboundHTLCState is a 5-variant skeleton without payloads (the source variants carry resolutions), InboundHTLCOutput skeleton {htlc_id, state}; Ctx/FundedChannel self skeletons
//! trusted: R15 (deep slices): write_chanmon_internal: the filter predicate that counts the pending monitor events with a legacy record and the match of the loop that writes those records, verbatim; the writer counts record tags (u8 writes) in a ghost field; HTLCUpdate::write writes no tag; MonitorEvent is extracted with opaque payloads; every other field of the monitor is dropped and not claimed
//! trusted: R15 (deep slices): ChannelMonitor read: for each of the ten length-prefixed collections of the legacy section, the declaration of the length and the range of the `for _ in lo..n` loop that reads the elements, verbatim, as a function of the value read (`Readable::read(reader)?` of the length becomes the parameter); the loop bodies (element decoding, duplicate refusal) and the pre-allocation statement between the two are dropped; machine arithmetic is the verifier's (u64/usize casts checked)
//! trusted: R15 (deep slices): NetworkGraph read (routing/gossip.rs): the declaration of each of the two counts and the range of the loop that reads that many entries, the counter given to the i-th node, and the value next_node_counter starts from, verbatim as functions of the count read; entry decoding, the capacity computation, the node-count limit and the counter fix-up of the channels are dropped and not claimed
//! assume: every pending inbound HTLC consumed one counterparty HTLC id: next_counterparty_htlc_id >= pending_inbound_htlcs.len()
//! trusted: assume_specification for core::cmp::max / core::cmp::min (std definitions): present in every unit so that a change that introduces them is verified instead of being rejected by the tool
use vstd::prelude::*;
// R6: the quantifier of `E.iter().any(..)` / `E.iter().all(..)` selects which of the two accumulated answers is the result
macro_rules! iter_quantifier { (any, $some:expr, $every:expr) => { $some }; (all, $some:expr, $every:expr) => { $every }; }
verus! {
use vstd::std_specs::cmp::*;
use core::cmp;
pub assume_specification<T: core::cmp::Ord>[core::cmp::max::<T>](a: T, b: T) -> (r: T)
    ensures T::obeys_cmp_spec() ==> r == (if b.cmp_spec(&a) == core::cmp::Ordering::Less { a } else { b });
pub assume_specification<T: core::cmp::Ord>[core::cmp::min::<T>](a: T, b: T) -> (r: T)
    ensures T::obeys_cmp_spec() ==> r == (if b.cmp_spec(&a) == core::cmp::Ordering::Less { b } else { a });
pub enum InboundHTLCState { RemoteAnnounced(u8), AwaitingRemoteRevokeToAnnounce(u8), AwaitingAnnouncedRemoteRevoke(u8), Committed { update_add_htlc: u8 }, LocalRemoved(u8) }
pub struct InboundHTLCOutput { pub htlc_id: u64, pub state: InboundHTLCState }
pub struct Ctx { pub pending_inbound_htlcs: Vec<InboundHTLCOutput>, pub next_counterparty_htlc_id: u64 }
pub struct FundedChannel { pub context: Ctx }
pub open spec fn announced_only(h: InboundHTLCOutput) -> bool { h.state is RemoteAnnounced }
pub open spec fn n_dropped(s: Seq<InboundHTLCOutput>) -> int decreases s.len() {
    if s.len() == 0 { 0 } else { n_dropped(s.drop_last()) + (if announced_only(s.last()) { 1int } else { 0int }) }
}
pub proof fn lemma_n_dropped_bound(s: Seq<InboundHTLCOutput>) ensures 0 <= n_dropped(s) <= s.len() decreases s.len()
{ if s.len() > 0 { lemma_n_dropped_bound(s.drop_last()); } }

impl FundedChannel {
//@extract lightning/src/ln/channel.rs :: impl Writeable for FundedChannel :: fn write
//@capture R15
    let mut dropped_inbound_htlcs = 0; for htlc in self.context.pending_inbound_htlcs.iter() { $count_body:any } let mut removed_htlc_attribution_data
//@capture R15
    ($count_written).write(writer)?; for htlc in self.context.pending_inbound_htlcs.iter() { if let &InboundHTLCState::RemoteAnnounced(_) = &htlc.state { continue; } htlc.htlc_id.write(writer)?;
//@slice R15
    self.context.next_holder_htlc_id.write(writer)?; $idw:seq.write(writer)?; self.context.update_time_counter.write(writer)?;
//@with
    fn written_inbound_htlc_numbers(&self) -> (u64, u64, u64) {
        let mut dropped_inbound_htlcs: u64 = 0;
        let mut __i: usize = 0;
        while __i < self.context.pending_inbound_htlcs.len()
            invariant __i <= self.context.pending_inbound_htlcs@.len(), dropped_inbound_htlcs as int == n_dropped(self.context.pending_inbound_htlcs@.take(__i as int)),
            decreases self.context.pending_inbound_htlcs@.len() - __i
        {
            proof { assert(self.context.pending_inbound_htlcs@.take(__i as int + 1).drop_last() =~= self.context.pending_inbound_htlcs@.take(__i as int));
                    lemma_n_dropped_bound(self.context.pending_inbound_htlcs@.take(__i as int)); }
            let htlc = &self.context.pending_inbound_htlcs[__i];
            $count_body
            __i = __i + 1;
        }
        proof { assert(self.context.pending_inbound_htlcs@.take(self.context.pending_inbound_htlcs@.len() as int) =~= self.context.pending_inbound_htlcs@);
                lemma_n_dropped_bound(self.context.pending_inbound_htlcs@); }
        let count_written: u64 = $count_written;
        let mut written: u64 = 0;
        let mut __j: usize = 0;
        while __j < self.context.pending_inbound_htlcs.len()
            invariant __j <= self.context.pending_inbound_htlcs@.len(), written as int == __j - n_dropped(self.context.pending_inbound_htlcs@.take(__j as int)),
            decreases self.context.pending_inbound_htlcs@.len() - __j
        {
            proof { assert(self.context.pending_inbound_htlcs@.take(__j as int + 1).drop_last() =~= self.context.pending_inbound_htlcs@.take(__j as int));
                    lemma_n_dropped_bound(self.context.pending_inbound_htlcs@.take(__j as int)); }
            let htlc = &self.context.pending_inbound_htlcs[__j];
            __j = __j + 1;
            if let InboundHTLCState::RemoteAnnounced(_) = htlc.state { continue; }
            written = written + 1;
        }
        proof { assert(self.context.pending_inbound_htlcs@.take(self.context.pending_inbound_htlcs@.len() as int) =~= self.context.pending_inbound_htlcs@); }
        let next_id_written: u64 = $idw;
        (count_written, written, next_id_written)
    }
//@rw R16 ?
    if let InboundHTLCState::RemoteAnnounced(_) = htlc.state { dropped_inbound_htlcs += 1; }
//@with
    match htlc.state { InboundHTLCState::RemoteAnnounced(_) => { dropped_inbound_htlcs += 1; }, _ => {} }
//@ret r
//@requires
    self.context.next_counterparty_htlc_id >= self.context.pending_inbound_htlcs@.len(),
//@ensures P C12,C10 a-written-channel-is-the-channel-after-the-disconnection-writing-implies-announced-only-inbound-htlcs-are-left-out-and-their-ids-are-given-back
    r.0 as int == self.context.pending_inbound_htlcs@.len() - n_dropped(self.context.pending_inbound_htlcs@),
    r.1 == r.0,
    r.2 as int == self.context.next_counterparty_htlc_id - n_dropped(self.context.pending_inbound_htlcs@),
//@mutant ids_of_dropped_adds_not_given_back
    (self.context.next_counterparty_htlc_id - dropped_inbound_htlcs).write(writer)?;
//@with
    (self.context.next_counterparty_htlc_id - 0).write(writer)?;
//@mutant written_count_includes_dropped_adds
    (self.context.pending_inbound_htlcs.len() as u64 - dropped_inbound_htlcs).write(writer)?;
//@with
    (self.context.pending_inbound_htlcs.len() as u64).write(writer)?;
//@end
}

// ---- ChannelMonitor write: the legacy pending-monitor-event records announced are exactly the ones written (two deep R15 slices of write_chanmon_internal) ----
pub struct HTLCUpdate {} pub struct ClosureReason {} pub struct OutPoint {} pub struct ChannelId {}
//@extract lightning/src/chain/channelmonitor.rs :: enum MonitorEvent
//@end
pub struct Error {}
// a writer that counts record tags (one u8 tag opens every legacy record)
pub struct TagWriter { pub tags: Ghost<int> }
pub trait Writeable { fn write(&self, writer: &mut TagWriter) -> (r: Result<(), Error>); }
impl Writeable for u8 { #[verifier::external_body] fn write(&self, writer: &mut TagWriter) -> (r: Result<(), Error>) ensures r is Ok ==> final(writer).tags@ == old(writer).tags@ + 1, r is Err ==> final(writer).tags@ == old(writer).tags@ { unimplemented!() } }
impl Writeable for HTLCUpdate { #[verifier::external_body] fn write(&self, writer: &mut TagWriter) -> (r: Result<(), Error>) ensures final(writer).tags@ == old(writer).tags@ { unimplemented!() } }
pub open spec fn has_legacy_record(ev: MonitorEvent) -> bool { ev is HTLCEvent || ev is HolderForceClosed || ev is HolderForceClosedWithInfo }
//@extract lightning/src/chain/channelmonitor.rs :: fn write_chanmon_internal
//@slice R15
    channel_monitor .pending_monitor_events .iter() .filter(|ev| $pred) .count() as u64
//@with
    fn event_is_counted(ev: &MonitorEvent) -> bool { $pred }
//@ret r
//@ensures P C12 the-count-written-before-the-pending-monitor-events-covers-exactly-the-events-that-have-a-legacy-record
    r == has_legacy_record(*ev),
//@mutant force_closed_with_info_not_counted
    MonitorEvent::HolderForceClosedWithInfo { .. } => true, _ => false, }) .count() as u64)
//@with
    MonitorEvent::HolderForceClosedWithInfo { .. } => false, _ => false, }) .count() as u64)
//@end
//@extract lightning/src/chain/channelmonitor.rs :: fn write_chanmon_internal
//@slice R15
    for event in channel_monitor.pending_monitor_events.iter() { match event { $arms:any } }
//@with
    fn write_legacy_event_record(event: &MonitorEvent, writer: &mut TagWriter) -> Result<(), Error> {
        match event { $arms }
        Ok(())
    }
//@ret r
//@ensures P C12 every-counted-pending-monitor-event-writes-exactly-one-legacy-record-and-no-other-event-writes-any
    r is Ok ==> final(writer).tags@ == old(writer).tags@ + (if has_legacy_record(*event) { 1int } else { 0int }),
//@mutant force_closed_with_info_record_not_written
    MonitorEvent::HolderForceClosedWithInfo { .. } => 1u8.write(writer)?,
//@with
    MonitorEvent::HolderForceClosedWithInfo { .. } => {},
//@end

// ---- ChannelMonitor read: the length-prefixed collections ---------------------------------------
// The writer announces each collection with its element count; the reader must consume exactly that many
// elements (only the pre-allocation is clamped by MAX_ALLOC_SIZE).
pub mod monitor_read_bounds {
use vstd::prelude::*;
use vstd::std_specs::cmp::*;
use core::cmp;
//@const lightning/src/chain/channelmonitor.rs MAX_ALLOC_SIZE
//@extract lightning/src/chain/channelmonitor.rs :: impl ReadableArgs for Option :: fn read
//@slice R15
    let counterparty_claimable_outpoints_len $decl:any = $lenexpr:seq; $mid:straight for _ in $lo..$n:cond {
//@with
    fn counterparty_claimable_outpoints_len_loop_bound(len_read: u64) -> (u64, u64) {
        let counterparty_claimable_outpoints_len $decl = $lenexpr;
        (($lo) as u64, ($n) as u64)
    }
//@rw ? R10
    Readable::read(reader)?
//@with
    len_read
//@rw ? R10
    <u64 as Readable>::read(reader)?
//@with
    len_read
//@ret r
//@ensures P C12 the-reader-loops-over-exactly-as-many-counterparty_claimable_outpoints-entries-as-the-length-prefix-announces
    r.0 == 0 && r.1 == len_read,
//@mutant loop_bound_clamped_like_the_capacity
    for _ in 0..counterparty_claimable_outpoints_len { let txid: Txid
//@with
    for _ in 0..cmp::min(counterparty_claimable_outpoints_len, (MAX_ALLOC_SIZE / 64) as u64) { let txid: Txid
//@end
//@extract lightning/src/chain/channelmonitor.rs :: impl ReadableArgs for Option :: fn read
//@slice R15
    let htlcs_count $decl:any = $lenexpr:seq; $mid:straight for _ in $lo..$n:cond {
//@with
    fn htlcs_count_loop_bound(len_read: u64) -> (u64, u64) {
        let htlcs_count $decl = $lenexpr;
        (($lo) as u64, ($n) as u64)
    }
//@rw ? R10
    Readable::read(reader)?
//@with
    len_read
//@rw ? R10
    <u64 as Readable>::read(reader)?
//@with
    len_read
//@ret r
//@ensures P C12 the-reader-loops-over-exactly-as-many-htlcs-entries-as-the-length-prefix-announces
    r.0 == 0 && r.1 == len_read,
//@end
//@extract lightning/src/chain/channelmonitor.rs :: impl ReadableArgs for Option :: fn read
//@slice R15
    let counterparty_commitment_txn_on_chain_len $decl:any = $lenexpr:seq; $mid:straight for _ in $lo..$n:cond {
//@with
    fn counterparty_commitment_txn_on_chain_len_loop_bound(len_read: u64) -> (u64, u64) {
        let counterparty_commitment_txn_on_chain_len $decl = $lenexpr;
        (($lo) as u64, ($n) as u64)
    }
//@rw ? R10
    Readable::read(reader)?
//@with
    len_read
//@rw ? R10
    <u64 as Readable>::read(reader)?
//@with
    len_read
//@ret r
//@ensures P C12 the-reader-loops-over-exactly-as-many-counterparty_commitment_txn_on_chain-entries-as-the-length-prefix-announces
    r.0 == 0 && r.1 == len_read,
//@end
//@extract lightning/src/chain/channelmonitor.rs :: impl ReadableArgs for Option :: fn read
//@slice R15
    let counterparty_hash_commitment_number_len $decl:any = $lenexpr:seq; $mid:straight for _ in $lo..$n:cond {
//@with
    fn counterparty_hash_commitment_number_len_loop_bound(len_read: u64) -> (u64, u64) {
        let counterparty_hash_commitment_number_len $decl = $lenexpr;
        (($lo) as u64, ($n) as u64)
    }
//@rw ? R10
    Readable::read(reader)?
//@with
    len_read
//@rw ? R10
    <u64 as Readable>::read(reader)?
//@with
    len_read
//@ret r
//@ensures P C12 the-reader-loops-over-exactly-as-many-counterparty_hash_commitment_number-entries-as-the-length-prefix-announces
    r.0 == 0 && r.1 == len_read,
//@end
//@extract lightning/src/chain/channelmonitor.rs :: impl ReadableArgs for Option :: fn read
//@slice R15
    let payment_preimages_len $decl:any = $lenexpr:seq; $mid:straight for _ in $lo..$n:cond {
//@with
    fn payment_preimages_len_loop_bound(len_read: u64) -> (u64, u64) {
        let payment_preimages_len $decl = $lenexpr;
        (($lo) as u64, ($n) as u64)
    }
//@rw ? R10
    Readable::read(reader)?
//@with
    len_read
//@rw ? R10
    <u64 as Readable>::read(reader)?
//@with
    len_read
//@ret r
//@ensures P C12 the-reader-loops-over-exactly-as-many-payment_preimages-entries-as-the-length-prefix-announces
    r.0 == 0 && r.1 == len_read,
//@end
//@extract lightning/src/chain/channelmonitor.rs :: impl ReadableArgs for Option :: fn read
//@slice R15
    let pending_monitor_events_len $decl:any = $lenexpr:seq; $mid:straight for _ in $lo..$n:cond {
//@with
    fn pending_monitor_events_len_loop_bound(len_read: u64) -> (u64, u64) {
        let pending_monitor_events_len $decl = $lenexpr;
        (($lo) as u64, ($n) as u64)
    }
//@rw ? R10
    Readable::read(reader)?
//@with
    len_read
//@rw ? R10
    <u64 as Readable>::read(reader)?
//@with
    len_read
//@ret r
//@ensures P C12 the-reader-loops-over-exactly-as-many-pending_monitor_events-entries-as-the-length-prefix-announces
    r.0 == 0 && r.1 == len_read,
//@end
//@extract lightning/src/chain/channelmonitor.rs :: impl ReadableArgs for Option :: fn read
//@slice R15
    let pending_events_len $decl:any = $lenexpr:seq; $mid:straight for _ in $lo..$n:cond {
//@with
    fn pending_events_len_loop_bound(len_read: u64) -> (u64, u64) {
        let pending_events_len $decl = $lenexpr;
        (($lo) as u64, ($n) as u64)
    }
//@rw ? R10
    Readable::read(reader)?
//@with
    len_read
//@rw ? R10
    <u64 as Readable>::read(reader)?
//@with
    len_read
//@ret r
//@ensures P C12 the-reader-loops-over-exactly-as-many-pending_events-entries-as-the-length-prefix-announces
    r.0 == 0 && r.1 == len_read,
//@end
//@extract lightning/src/chain/channelmonitor.rs :: impl ReadableArgs for Option :: fn read
//@slice R15
    let waiting_threshold_conf_len $decl:any = $lenexpr:seq; $mid:straight for _ in $lo..$n:cond {
//@with
    fn waiting_threshold_conf_len_loop_bound(len_read: u64) -> (u64, u64) {
        let waiting_threshold_conf_len $decl = $lenexpr;
        (($lo) as u64, ($n) as u64)
    }
//@rw ? R10
    Readable::read(reader)?
//@with
    len_read
//@rw ? R10
    <u64 as Readable>::read(reader)?
//@with
    len_read
//@ret r
//@ensures P C12 the-reader-loops-over-exactly-as-many-waiting_threshold_conf-entries-as-the-length-prefix-announces
    r.0 == 0 && r.1 == len_read,
//@end
//@extract lightning/src/chain/channelmonitor.rs :: impl ReadableArgs for Option :: fn read
//@slice R15
    let outputs_to_watch_len $decl:any = $lenexpr:seq; $mid:straight for _ in $lo..$n:cond {
//@with
    fn outputs_to_watch_len_loop_bound(len_read: u64) -> (u64, u64) {
        let outputs_to_watch_len $decl = $lenexpr;
        (($lo) as u64, ($n) as u64)
    }
//@rw ? R10
    Readable::read(reader)?
//@with
    len_read
//@rw ? R10
    <u64 as Readable>::read(reader)?
//@with
    len_read
//@ret r
//@ensures P C12 the-reader-loops-over-exactly-as-many-outputs_to_watch-entries-as-the-length-prefix-announces
    r.0 == 0 && r.1 == len_read,
//@end
//@extract lightning/src/chain/channelmonitor.rs :: impl ReadableArgs for Option :: fn read
//@slice R15
    let outputs_len $decl:any = $lenexpr:seq; $mid:straight for _ in $lo..$n:cond {
//@with
    fn outputs_len_loop_bound(len_read: u64) -> (u64, u64) {
        let outputs_len $decl = $lenexpr;
        (($lo) as u64, ($n) as u64)
    }
//@rw ? R10
    Readable::read(reader)?
//@with
    len_read
//@rw ? R10
    <u64 as Readable>::read(reader)?
//@with
    len_read
//@ret r
//@ensures P C12 the-reader-loops-over-exactly-as-many-outputs-entries-as-the-length-prefix-announces
    r.0 == 0 && r.1 == len_read,
//@mutant inner_loop_runs_one_short
    for _ in 0..outputs_len { outputs.push
//@with
    for _ in 1..outputs_len { outputs.push
//@end
}

// ---- ChannelMonitorUpdate write / read: the number of steps announced is the number written, and the reader loops over exactly that many ----
pub mod monitor_update_codec {
use vstd::prelude::*;
pub struct Step { pub id: u64 }
pub struct UpdateStub { pub update_id: u64, pub updates: Vec<Step> }
impl UpdateStub {
//@extract lightning/src/chain/channelmonitor.rs :: impl Writeable for ChannelMonitorUpdate :: fn write
//@slice R15
    self.update_id.write(w)?; ($n:seq).write(w)?; for update_step in $it:seq { update_step.write(w)?; }
//@with
    fn announced_number_of_steps(&self) -> u64 { $n }
//@ret r
//@ensures P C12 a-monitor-update-announces-exactly-as-many-steps-as-it-then-writes
    r == self.updates@.len(),
//@mutant one_step_fewer_announced
    (self.updates.len() as u64).write(w)?;
//@with
    (self.updates.len() as u64 - 1).write(w)?;
//@end
}
//@extract lightning/src/chain/channelmonitor.rs :: impl Readable for ChannelMonitorUpdate :: fn read
//@slice R15
    let len $decl:any = $lenexpr:seq; $mid:any for _ in $lo..$n:cond { if let Some(upd) = MaybeReadable::read(r)? {
//@with
    fn steps_loop_bound(len_read: u64) -> (u64, u64) {
        let len $decl = $lenexpr;
        (($lo) as u64, ($n) as u64)
    }
//@rw ? R10
    Readable::read(r)?
//@with
    len_read
//@ret r
//@ensures P C12 the-reader-of-a-monitor-update-loops-over-exactly-as-many-steps-as-the-length-prefix-announces
    r.0 == 0 && r.1 == len_read,
//@mutant last_step_of_a_monitor_update_not_read
    for _ in 0..len {
//@with
    for _ in 1..len {
//@end
}
// ---- NetworkGraph read: the two length-prefixed maps and the node counters ---------------------------
pub mod graph_read_bounds {
use vstd::prelude::*;
//@extract lightning/src/routing/gossip.rs :: impl ReadableArgs for NetworkGraph :: fn read
//@slice R15
    let channels_count $decl:any = $lenexpr:seq; $mid:any for _ in $lo..$n:cond { let chan_id
//@with
    fn channels_loop_bound(len_read: u64) -> (u64, u64) {
        let channels_count $decl = $lenexpr;
        (($lo) as u64, ($n) as u64)
    }
//@rw ? R10
    Readable::read(reader)?
//@with
    len_read
//@ret r
//@ensures P C12,C17 the-reader-loops-over-exactly-as-many-channels-as-the-length-prefix-announces
    r.0 == 0 && r.1 == len_read,
//@end
//@extract lightning/src/routing/gossip.rs :: impl ReadableArgs for NetworkGraph :: fn read
//@slice R15
    let nodes_count $decl:any = $lenexpr:seq; $mid:any for i in $lo..$n:cond { let node_id = Readable::read(reader)?; let mut node_info: NodeInfo = Readable::read(reader)?; node_info.node_counter = $ctr:seq; nodes.insert(node_id, node_info); }
//@with
    fn nodes_loop_bound_and_counter(len_read: u64, i: u64) -> (u64, u64, u32) {
        let nodes_count $decl = $lenexpr;
        (($lo) as u64, ($n) as u64, $ctr)
    }
//@rw ? R10
    Readable::read(reader)?
//@with
    len_read
//@ret r
//@requires
    len_read <= u32::MAX as u64 / 2, i < len_read,
//@ensures P C12,C17 the-reader-loops-over-exactly-as-many-nodes-as-the-length-prefix-announces-and-numbers-them-by-position
    r.0 == 0 && r.1 == len_read, r.2 as u64 == i,
//@mutant node_loop_runs_one_short
    for i in 0..nodes_count {
//@with
    for i in 1..nodes_count {
//@end
//@extract lightning/src/routing/gossip.rs :: impl ReadableArgs for NetworkGraph :: fn read
//@slice R15
    let nodes_count: u64 = Readable::read(reader)?; if $c:cond { return Err(DecodeError::InvalidValue); }
//@with
    fn graph_with_that_many_nodes_is_refused(nodes_count: u64) -> bool { $c }
//@ret r
//@ensures P C12,C17 a-stored-graph-is-refused-for-its-size-only-if-its-nodes-could-not-be-numbered-with-half-the-u32-counters-and-an-accepted-one-always-can
    r ==> nodes_count > 0x7fff_ffff,
    !r ==> nodes_count <= u32::MAX as u64 / 2,
//@mutant graphs_above_32767_nodes_refused
    if nodes_count > u32::MAX as u64 / 2 {
//@with
    if nodes_count > u16::MAX as u64 / 2 {
//@end
//@extract lightning/src/routing/gossip.rs :: impl ReadableArgs for NetworkGraph :: fn read
//@slice R15
    next_node_counter: AtomicUsize::new($v:seq),
//@with
    fn next_node_counter_after_read(nodes_count: u64) -> usize { $v }
//@ret r
//@requires
    nodes_count <= u32::MAX as u64 / 2,
//@ensures P C17 after-reading-a-graph-the-next-node-counter-is-above-every-counter-handed-out-while-reading
    r as u64 == nodes_count,
//@mutant next_counter_collides_with_the_last_node
    AtomicUsize::new(nodes_count as usize)
//@with
    AtomicUsize::new(nodes_count as usize - 1)
//@end
}
// ---- FundedChannel legacy section: the reader takes the fixed-position fields in the order the writer put them --------------------
pub mod legacy_field_order {
use vstd::prelude::*;
#[allow(non_camel_case_types)]
pub enum Field { funding_tx_confirmed_in, funding_tx_confirmation_height, short_channel_id, counterparty_dust_limit_satoshis, holder_dust_limit_satoshis, counterparty_max_htlc_value_in_flight_msat,
    counterparty_htlc_minimum_msat, holder_htlc_minimum_msat, counterparty_max_accepted_htlcs, update_time_counter, feerate_per_kw, next_holder_htlc_id }
//@extract lightning/src/ln/channel.rs :: impl Writeable for FundedChannel :: fn write
//@slice R15
    self.funding.funding_tx_confirmed_in.write(writer)?; self.funding.$w1:ident.write(writer)?; self.funding.$w2:ident.write(writer)?; self.context.$w3:ident.write(writer)?; self.context.$w4:ident.write(writer)?; self.context.$w5:ident.write(writer)?;
//@with
    pub open spec fn written_order() -> Seq<Field> { seq![Field::$w1, Field::$w2, Field::$w3, Field::$w4, Field::$w5] }
//@end
//@extract lightning/src/ln/channel.rs :: impl ReadableArgs for FundedChannel :: fn read
//@slice R15
    let funding_tx_confirmed_in = Readable::read(reader)?; let $r1:ident = Readable::read(reader)?; let $r2:ident = Readable::read(reader)?; let $r3:ident = Readable::read(reader)?; let $r4:ident = Readable::read(reader)?; let $r5:ident = Readable::read(reader)?; let mut counterparty_selected_channel_reserve_satoshis
//@with
    pub open spec fn read_order() -> Seq<Field> { seq![Field::$r1, Field::$r2, Field::$r3, Field::$r4, Field::$r5] }
//@end
pub proof fn lemma_channel_fields_are_read_in_the_order_written()
    ensures written_order() =~= read_order()
{}
//@extract lightning/src/ln/channel.rs :: impl Writeable for FundedChannel :: fn write
//@slice R15
    self.context.counterparty_htlc_minimum_msat.write(writer)?; self.context.$w1:ident.write(writer)?; self.context.$w2:ident.write(writer)?;
//@with
    pub open spec fn written_order_2() -> Seq<Field> { seq![Field::$w1, Field::$w2] }
//@end
//@extract lightning/src/ln/channel.rs :: impl ReadableArgs for FundedChannel :: fn read
//@slice R15
    let counterparty_htlc_minimum_msat = Readable::read(reader)?; let $r1:ident = Readable::read(reader)?; let $r2:ident = Readable::read(reader)?;
//@with
    pub open spec fn read_order_2() -> Seq<Field> { seq![Field::$r1, Field::$r2] }
//@end
pub proof fn lemma_channel_limits_are_read_in_the_order_written()
    ensures written_order_2() =~= read_order_2()
{}
}
// ---- the same for ALL fixed-position fields of the two legacy sections that keep their name on both sides (R21) ----
pub mod fixed_fields {
use vstd::prelude::*;
//@extract lightning/src/ln/channel.rs :: impl Writeable for FundedChannel :: fn write
//@fields write channel_fields_written only=channel_id,latest_monitor_update_id,destination_script,counterparty_next_commitment_transaction_number,value_to_self_msat,monitor_pending_channel_ready,monitor_pending_revoke_and_ack,monitor_pending_commitment_signed,next_holder_htlc_id,next_counterparty_htlc_id,update_time_counter,feerate_per_kw,funding_tx_confirmed_in,funding_tx_confirmation_height,short_channel_id,counterparty_dust_limit_satoshis,holder_dust_limit_satoshis,counterparty_max_htlc_value_in_flight_msat,counterparty_htlc_minimum_msat,holder_htlc_minimum_msat,counterparty_max_accepted_htlcs,funding_transaction,counterparty_next_commitment_point,counterparty_current_commitment_point,counterparty_node_id,counterparty_shutdown_scriptpubkey,commitment_secrets,channel_update_status
//@mutant two_of_the_three_monitor_pending_flags_written_in_the_other_order
    self.context.monitor_pending_revoke_and_ack.write(writer)?; self.context.monitor_pending_commitment_signed.write(writer)?;
//@with
    self.context.monitor_pending_commitment_signed.write(writer)?; self.context.monitor_pending_revoke_and_ack.write(writer)?;
//@end
//@extract lightning/src/ln/channel.rs :: impl ReadableArgs<(&'a ES, &'b SP, &'c ChannelTypeFeatures)> for FundedChannel<SP> :: fn read
//@fields read channel_fields_read only=channel_id,latest_monitor_update_id,destination_script,counterparty_next_commitment_transaction_number,value_to_self_msat,monitor_pending_channel_ready,monitor_pending_revoke_and_ack,monitor_pending_commitment_signed,next_holder_htlc_id,next_counterparty_htlc_id,update_time_counter,feerate_per_kw,funding_tx_confirmed_in,funding_tx_confirmation_height,short_channel_id,counterparty_dust_limit_satoshis,holder_dust_limit_satoshis,counterparty_max_htlc_value_in_flight_msat,counterparty_htlc_minimum_msat,holder_htlc_minimum_msat,counterparty_max_accepted_htlcs,funding_transaction,counterparty_next_commitment_point,counterparty_current_commitment_point,counterparty_node_id,counterparty_shutdown_scriptpubkey,commitment_secrets,channel_update_status
//@mutant the_two_counterparty_commitment_points_read_in_the_other_order
    let counterparty_next_commitment_point = Readable::read(reader)?; let counterparty_current_commitment_point = Readable::read(reader)?;
//@with
    let counterparty_current_commitment_point = Readable::read(reader)?; let counterparty_next_commitment_point = Readable::read(reader)?;
//@end
pub proof fn lemma_every_fixed_channel_field_is_read_in_the_order_written() ensures channel_fields_written() =~= channel_fields_read() {}
//@extract lightning/src/chain/channelmonitor.rs :: fn write_chanmon_internal
//@fields write monitor_fields_written root=channel_monitor only=latest_update_id,destination_script,counterparty_payment_script,channel_keys_id,holder_revocation_basepoint,current_counterparty_commitment_txid,prev_counterparty_commitment_txid,counterparty_commitment_params,channel_value_satoshis,commitment_secrets,lockdown_from_offchain,holder_tx_signed
//@mutant the_two_closing_flags_written_in_the_other_order
    channel_monitor.lockdown_from_offchain.write(writer)?; channel_monitor.holder_tx_signed.write(writer)?;
//@with
    channel_monitor.holder_tx_signed.write(writer)?; channel_monitor.lockdown_from_offchain.write(writer)?;
//@end
//@extract lightning/src/chain/channelmonitor.rs :: impl ReadableArgs for Option :: fn read
//@fields read monitor_fields_read only=latest_update_id,destination_script,counterparty_payment_script,channel_keys_id,holder_revocation_basepoint,current_counterparty_commitment_txid,prev_counterparty_commitment_txid,counterparty_commitment_params,channel_value_satoshis,commitment_secrets,lockdown_from_offchain,holder_tx_signed
//@end
pub proof fn lemma_every_fixed_monitor_field_is_read_in_the_order_written() ensures monitor_fields_written() =~= monitor_fields_read() {}
}
// ---- ChannelManager::write: pending events go either all into the legacy list or all into the TLV that also carries their completion actions ----
pub mod manager_events {
use vstd::prelude::*;
pub struct Event { pub id: u64 }
pub struct EventCompletionAction { pub id: u64 }
pub struct EventsWriter { pub id: u64 }
//@extract lightning/src/ln/channelmanager.rs :: impl Writeable for ChannelManager :: fn write
//@capture R15
    (8, if $tlv:cond { Some(&pending_events_writer) } else { None }, option),
//@slice R15
    let events_not_backwards_compatible = events.iter().$q:ident(|$p:any| $body:seq); if events_not_backwards_compatible {
//@with
    fn where_pending_events_are_written(events: &Vec<(Event, Option<EventCompletionAction>)>) -> (bool, bool) {
        // R6: `E.iter().any(|p| P)` / `.all(|p| P)` as an index loop carrying P verbatim
        let mut __some = false; let mut __every = true; let mut __i: usize = 0;
        while __i < events.len()
            invariant __i <= events@.len(), __some == (exists|k: int| 0 <= k < __i && (#[trigger] events@[k]).1 is Some), __every == (forall|k: int| 0 <= k < __i ==> (#[trigger] events@[k]).1 is Some),
            decreases events@.len() - __i
        { let $p = &events[__i]; let __b: bool = $body; if __b { __some = true; } else { __every = false; } __i = __i + 1; }
        let events_not_backwards_compatible = iter_quantifier!($q, __some, __every);
        (events_not_backwards_compatible, $tlv)
    }
//@ret r
//@ensures P C12 pending-events-are-written-with-their-completion-actions-whenever-any-of-them-has-one-so-no-action-is-lost-across-a-restart
    // r.0: the legacy list is left empty; r.1: the TLV carrying (event, action) pairs is written
    r.0 == (exists|k: int| 0 <= k < events@.len() && (#[trigger] events@[k]).1 is Some),
    r.1 == r.0,
//@mutant actions_dropped_unless_every_event_has_one
    let events_not_backwards_compatible = events.iter().any(
//@with
    let events_not_backwards_compatible = events.iter().all(
//@end
}
}
fn main() {}
