//! unit: u01i
//! properties: C01 C02
//! note: also run for C02: the code it constrains lies inside mechanisms those properties name (a change made there for their sake must meet these clauses too)
//! note: FundedChannel::build_closing_transaction: a cooperative close pays each party its final balance less only the negotiated fee, paid by the funder
//! trusted: R5: FundedChannel / ChannelContext / FundingScope / ChannelTransactionParameters are self skeletons with exactly the fields the body reads; FundingScope::is_outbound / get_value_satoshis are extracted and verified; ClosingTransaction::new is external_body and assumed to record the two output values; get_closing_scriptpubkey / funding_outpoint / into_bitcoin_outpoint / ScriptBuf::clone are external_body (scripts and outpoints are opaque); R8: `ChannelError::close(format!(..))` replaced by a stub constructor (error text has no effect on the result value's variant)
//! trusted: R15 (deep slice): closing_signed: the unit extracts the whole fee-negotiation statement (fee-range and legacy branches) that follows calculate_closing_fee_limits, verbatim, as a function of (msg, our_min_fee, our_max_fee); the function-local macro propose_fee!(X) (builds, signs and returns the closing transaction with fee X) is replaced by `return Ok(X)`; signature checks and transaction building before it are dropped and not claimed; error strings dropped (R8); assume_specification for u64::div_ceil and core::cmp::min / core::cmp::max (std definitions)
//! trusted: calculate_closing_fee_limits whole: R5: self skeleton (funding: outbound / value / value_to_self_msat; context: cached limits, target feerate, current feerate, force_close_avoidance_max_fee_satoshis, the peer's shutdown script); the fee estimator answers an uninterpreted est(target); get_closing_transaction_weight answers the skeleton's weight; R8: `opt.clone().unwrap()` on the cached pair -> limits_of
//! assume: closing transaction weight <= 4e6 WU, force_close_avoidance_max_fee_satoshis < 2^63 (no overflow of the fee sums)
//! assume: closing_signed negotiation: our_min_fee <= our_max_fee; the fee we sent last lies within our limits; for the non-paying side our_max_fee is the peer's whole balance (no longer assumed: it is the postcondition of calculate_closing_fee_limits, verified whole in this unit)
//! assume: no pending HTLCs or fee update (LDK's assert!s); channel value <= 21e14 sat; value_to_self_msat <= channel value; the funder's balance covers the proposed fee (established by the closing-fee negotiation; LDK's own debug_assert!s)
use vstd::prelude::*;
verus! {
use vstd::std_specs::cmp::*;
use core::cmp;
pub assume_specification<T: core::cmp::Ord>[core::cmp::max::<T>](a: T, b: T) -> (r: T)
    ensures T::obeys_cmp_spec() ==> r == (if b.cmp_spec(&a) == core::cmp::Ordering::Less { a } else { b });
pub assume_specification<T: core::cmp::Ord>[core::cmp::min::<T>](a: T, b: T) -> (r: T)
    ensures T::obeys_cmp_spec() ==> r == (if b.cmp_spec(&a) == core::cmp::Ordering::Less { b } else { a });
pub struct ScriptBuf {}
impl Clone for ScriptBuf { #[verifier::external_body] fn clone(&self) -> Self { unimplemented!() } }
pub struct ShutdownScript {}
pub struct BitcoinOutPoint {}
pub struct OutPoint {}
impl OutPoint { #[verifier::external_body] pub fn into_bitcoin_outpoint(self) -> BitcoinOutPoint { unimplemented!() } }
pub struct ChannelError {}
impl ChannelError { #[verifier::external_body] pub fn close_msg() -> ChannelError { unimplemented!() } }
pub struct InboundHTLCOutput {} pub struct OutboundHTLCOutput {} pub struct FeeUpdate {}
pub struct ChannelTransactionParameters { pub channel_value_satoshis: u64, pub is_outbound_from_holder: bool }
pub struct FundingScope { pub value_to_self_msat: u64, pub channel_transaction_parameters: ChannelTransactionParameters }
impl FundingScope {
//@extract lightning/src/ln/channel.rs :: impl FundingScope :: fn is_outbound
//@ret r
//@ensures A
    r == self.channel_transaction_parameters.is_outbound_from_holder
//@end
//@extract lightning/src/ln/channel.rs :: impl FundingScope :: fn get_value_satoshis
//@ret r
//@ensures A
    r == self.channel_transaction_parameters.channel_value_satoshis
//@end
}
pub struct ChannelContext { pub pending_inbound_htlcs: Vec<InboundHTLCOutput>, pub pending_outbound_htlcs: Vec<OutboundHTLCOutput>, pub pending_update_fee: Option<FeeUpdate>,
    pub holder_dust_limit_satoshis: u64, pub shutdown_scriptpubkey: Option<ShutdownScript>, pub counterparty_shutdown_scriptpubkey: Option<ScriptBuf> }
pub struct FundedChannel { pub funding: FundingScope, pub context: ChannelContext }
pub struct ClosingTransaction { pub to_holder_value_sat: u64, pub to_counterparty_value_sat: u64 }
impl ClosingTransaction {
    #[verifier::external_body]
    pub fn new(to_holder_value_sat: u64, to_counterparty_value_sat: u64, a: ScriptBuf, b: ScriptBuf, o: BitcoinOutPoint) -> (r: Self)
        ensures r.to_holder_value_sat == to_holder_value_sat, r.to_counterparty_value_sat == to_counterparty_value_sat { unimplemented!() }
}
impl FundedChannel {
    #[verifier::external_body] fn get_closing_scriptpubkey(&self) -> ScriptBuf { unimplemented!() }
    #[verifier::external_body] fn funding_outpoint(&self) -> OutPoint { unimplemented!() }

//@extract lightning/src/ln/channel.rs :: impl FundedChannel :: fn build_closing_transaction
//@ret r
//@requires
    self.context.pending_inbound_htlcs@.len() == 0, self.context.pending_outbound_htlcs@.len() == 0, self.context.pending_update_fee is None,
    self.context.shutdown_scriptpubkey is Some, self.context.counterparty_shutdown_scriptpubkey is Some,
    self.funding.channel_transaction_parameters.channel_value_satoshis <= 21_000_000_0000_0000,
    self.funding.value_to_self_msat <= self.funding.channel_transaction_parameters.channel_value_satoshis * 1000,
    proposed_total_fee_satoshis <= 21_000_000_0000_0000,
    // the funder can pay the proposed fee (otherwise LDK's own debug_assert fires)
    (if self.funding.channel_transaction_parameters.is_outbound_from_holder { self.funding.value_to_self_msat / 1000 }
     else { (self.funding.channel_transaction_parameters.channel_value_satoshis * 1000 - self.funding.value_to_self_msat) as u64 / 1000 }) >= proposed_total_fee_satoshis,
//@ensures P C01 cooperative-close-pays-each-party-its-final-balance-less-only-the-negotiated-fee
    r is Ok, ({
        let (tx, fee) = r->Ok_0;
        let ob = self.funding.channel_transaction_parameters.is_outbound_from_holder;
        let cv = self.funding.channel_transaction_parameters.channel_value_satoshis;
        let mine = self.funding.value_to_self_msat as int / 1000;
        let theirs = (cv * 1000 - self.funding.value_to_self_msat) / 1000;
        let dust = self.context.holder_dust_limit_satoshis as int;
        &&& fee == proposed_total_fee_satoshis
        &&& tx.to_holder_value_sat as int == ({ let v = mine - (if ob { fee as int } else { 0 }); if v <= dust { 0 } else { v } })
        &&& tx.to_counterparty_value_sat as int == ({ let v = theirs - (if ob { 0 } else { fee as int }); if skip_remote_output || v <= dust { 0 } else { v } })
        &&& tx.to_holder_value_sat + tx.to_counterparty_value_sat + fee <= cv
    }),
//@rw ? R8
    ChannelError::close(format!($a))
//@with
    ChannelError::close_msg()
//@mutant fee_charged_to_the_non_funder
    - if self.funding.is_outbound() { total_fee_satoshis as i64 } else { 0 };
//@with
    - if self.funding.is_outbound() { 0 } else { total_fee_satoshis as i64 };
//@mutant counterparty_output_kept_when_skipped
    if skip_remote_output || value_to_counterparty as u64 <= self.context.holder_dust_limit_satoshis
//@with
    if value_to_counterparty as u64 <= self.context.holder_dust_limit_satoshis
//@end
}

// ---- cooperative close: which fee we answer a closing_signed with (R15 slice of FundedChannel::closing_signed) ----
pub assume_specification[u64::div_ceil](x: u64, rhs: u64) -> (r: u64)
    requires rhs != 0
    ensures r as int == (if x as int % rhs as int == 0 { x as int / rhs as int } else { x as int / rhs as int + 1 });
pub struct ClosingSignedFeeRange { pub min_fee_satoshis: u64, pub max_fee_satoshis: u64 }
pub struct ClosingSignedMsg { pub fee_satoshis: u64, pub fee_range: Option<ClosingSignedFeeRange> }
pub struct NegFunding { pub outbound: bool, pub value_satoshis: u64, pub value_to_self_msat: u64 }
impl NegFunding {
    #[verifier::external_body] pub fn is_outbound(&self) -> (r: bool) ensures r == self.outbound { unimplemented!() }
    #[verifier::external_body] pub fn get_value_satoshis(&self) -> (r: u64) ensures r == self.value_satoshis { unimplemented!() }
}

// ---- cooperative close: the fee limits we negotiate within (FundedChannel::calculate_closing_fee_limits whole) ----
pub enum ConfirmationTarget { ChannelCloseMinimum, NonAnchorChannelFee, Other }
pub uninterp spec fn est(t: ConfirmationTarget) -> u32;
pub struct LowerBoundedFeeEstimator {}
impl LowerBoundedFeeEstimator { #[verifier::external_body] pub fn bounded_sat_per_1000_weight(&self, t: ConfirmationTarget) -> (r: u32) ensures r == est(t) { unimplemented!() } }
pub struct LimOptions { pub force_close_avoidance_max_fee_satoshis: u64 }
pub struct LimConfig { pub options: LimOptions }
pub struct LimCtx { pub closing_fee_limits: Option<(u64, u64)>, pub target_closing_feerate_sats_per_kw: Option<u32>, pub feerate_per_kw: u32, pub config: LimConfig, pub counterparty_shutdown_scriptpubkey: Option<ScriptBuf>, pub weight: u64 }
pub struct LimChannel { pub funding: NegFunding, pub context: LimCtx }
#[verifier::external_body] pub fn limits_of(l: &Option<(u64, u64)>) -> (r: (u64, u64)) requires *l is Some ensures r == l->Some_0 { unimplemented!() }
pub open spec fn maxu32(a: u32, b: u32) -> u32 { if a >= b { a } else { b } }
pub open spec fn limits_spec(c: LimChannel) -> (int, int) {
    let bg = est(ConfirmationTarget::ChannelCloseMinimum); let normal = est(ConfirmationTarget::NonAnchorChannelFee); let w = c.context.weight as int; let ob = c.funding.outbound;
    let floor: u32 = match c.context.target_closing_feerate_sats_per_kw { Some(t) => if ob { t } else if c.context.feerate_per_kw <= t { c.context.feerate_per_kw } else { t }, None => 0u32 };
    let pf = maxu32(bg, floor);
    let pmf = maxu32(if ob { normal } else { u32::MAX }, floor);
    let a = normal as int * w / 1000 + c.context.config.options.force_close_avoidance_max_fee_satoshis as int; let b = pmf as int * w / 1000;
    (pf as int * w / 1000,
     if ob { if a >= b { a } else { b } }
     else { c.funding.value_satoshis as int - (if c.funding.value_to_self_msat as int % 1000 == 0 { c.funding.value_to_self_msat as int / 1000 } else { c.funding.value_to_self_msat as int / 1000 + 1 }) })
}
impl LimChannel {
    #[verifier::external_body] fn get_closing_scriptpubkey(&self) -> ScriptBuf { unimplemented!() }
    #[verifier::external_body] fn get_closing_transaction_weight(&self, a: Option<&ScriptBuf>, b: Option<&ScriptBuf>) -> (r: u64) ensures r == self.context.weight { unimplemented!() }
//@extract lightning/src/ln/channel.rs :: impl FundedChannel :: fn calculate_closing_fee_limits
//@rw R5
    fn calculate_closing_fee_limits<F: FeeEstimator>( &mut self, fee_estimator: &LowerBoundedFeeEstimator<F>, )
//@with
    fn calculate_closing_fee_limits( &mut self, fee_estimator: &LowerBoundedFeeEstimator, )
//@rw R8
    self.context.closing_fee_limits.clone().unwrap()
//@with
    limits_of(&self.context.closing_fee_limits)
//@ret r
//@requires
    old(self).context.weight <= 4_000_000, old(self).context.config.options.force_close_avoidance_max_fee_satoshis <= 0x7fff_ffff_ffff_ffff,
    old(self).context.counterparty_shutdown_scriptpubkey is Some,
    old(self).funding.value_to_self_msat <= old(self).funding.value_satoshis * 1000, old(self).funding.value_satoshis <= 21_000_000_0000_0000,
//@at before `let proposed_total_fee_satoshis`
    proof {
        assert(proposed_feerate as int * tx_weight as int <= 0xffff_ffff * 4_000_000) by (nonlinear_arith) requires proposed_feerate <= 0xffff_ffff, 0 <= tx_weight <= 4_000_000;
        assert(normal_feerate as int * tx_weight as int <= 0xffff_ffff * 4_000_000) by (nonlinear_arith) requires normal_feerate <= 0xffff_ffff, 0 <= tx_weight <= 4_000_000;
        assert(proposed_max_feerate as int * tx_weight as int <= 0xffff_ffff * 4_000_000) by (nonlinear_arith) requires proposed_max_feerate <= 0xffff_ffff, 0 <= tx_weight <= 4_000_000;
    }
//@ensures P C01 the-closing-fee-limits-are-computed-once-and-kept-the-lowest-fee-we-propose-is-the-estimators-minimum-or-the-users-target-and-as-the-side-that-does-not-pay-we-accept-up-to-the-payers-whole-balance-never-more
    old(self).context.closing_fee_limits is Some ==> r == old(self).context.closing_fee_limits->Some_0 && final(self).context.closing_fee_limits == old(self).context.closing_fee_limits,
    old(self).context.closing_fee_limits is None ==> (r.0 as int, r.1 as int) == limits_spec(*old(self)) && final(self).context.closing_fee_limits == Some(r),
    final(self).funding == old(self).funding,
//@mutant non_payers_ceiling_rounds_our_own_balance_down
    self.funding.value_to_self_msat.div_ceil(1000)
//@with
    self.funding.value_to_self_msat / 1000
//@mutant payers_ceiling_set_for_the_side_that_does_not_pay
    if self.funding.is_outbound() { normal_feerate } else { u32::MAX };
//@with
    if !self.funding.is_outbound() { normal_feerate } else { u32::MAX };
//@mutant cached_limits_recomputed
    if let Some((min, max)) = self.context.closing_fee_limits { return (min, max); }
//@with
    if let Some((min, max)) = self.context.closing_fee_limits { return (max, max); }
//@end
}
pub struct NegCtx { pub last_sent_closing_fee: Option<(u64, u8, u8, u8)> }
pub struct NegChannel { pub funding: NegFunding, pub context: NegCtx }
pub enum NegError { Close(u8), Warn(u8) }
impl NegError { #[verifier::external_body] pub fn close(_m: u8) -> (r: NegError) { unimplemented!() } }
impl NegChannel {
//@extract lightning/src/ln/channel.rs :: impl FundedChannel :: fn closing_signed
//@strip msgs
//@slice R15
    let (our_min_fee, our_max_fee) = self.calculate_closing_fee_limits(fee_estimator); macro_rules! propose_fee { $m:any } $neg:any }
//@with
    fn answer_fee(&self, msg: &ClosingSignedMsg, our_min_fee: u64, our_max_fee: u64) -> Result<u64, NegError> {
        $neg
    }
//@rw R8 *
    propose_fee!($x);
//@with
    return Ok($x);
//@rw R8 *
    ChannelError::close(format!($f:any))
//@with
    NegError::close(0)
//@rw R8 *
    ChannelError::Warn(format!($f:any))
//@with
    NegError::Warn(0)
//@ret r
//@requires
    our_min_fee <= our_max_fee,
    self.funding.value_satoshis <= 21_000_000_0000_0000, self.funding.value_to_self_msat as int <= self.funding.value_satoshis as int * 1000,
    // how calculate_closing_fee_limits defines the maximum for the side that does not pay (the code's debug_assert)
    !self.funding.outbound ==> our_max_fee as int == self.funding.value_satoshis as int - (self.funding.value_to_self_msat as int + 999) / 1000,
    // the fee we sent last was one of our own proposals
    self.context.last_sent_closing_fee is Some ==> our_min_fee <= self.context.last_sent_closing_fee->Some_0.0 <= our_max_fee,
//@ensures P C01 every-closing-fee-we-propose-or-accept-lies-within-our-own-limits-and-within-the-peers-announced-range
    r is Ok ==> our_min_fee <= r->Ok_0 <= our_max_fee,
    r is Ok && msg.fee_range is Some ==> msg.fee_range->Some_0.min_fee_satoshis <= msg.fee_satoshis <= msg.fee_range->Some_0.max_fee_satoshis
        && r->Ok_0 <= msg.fee_range->Some_0.max_fee_satoshis,
    r is Ok && msg.fee_range is Some && self.funding.outbound ==> r->Ok_0 == msg.fee_satoshis,
//@mutant funder_accepts_a_fee_above_its_maximum
    if msg.fee_satoshis < our_min_fee || msg.fee_satoshis > our_max_fee {
//@with
    if msg.fee_satoshis < our_min_fee {
//@end
}
}
fn main() {}
