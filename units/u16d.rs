//! unit: u16d
//! properties: C16
//! note: how much the router may send over one channel: EffectiveCapacity::as_msat, DirectedChannelInfo::effective_capacity and max_htlc_from_capacity (the per-channel liquidity limit used by get_route) never exceed the channel's capacity or its advertised htlc_maximum_msat
//! trusted: assume_specification for u64::checked_shr (std definition: None when the shift is >= 64) and core::cmp::min / core::cmp::max; R5: DirectedChannelInfo / ChannelInfo / ChannelUpdateInfo are skeletons with the fields effective_capacity reads, direction() is an external_body accessor; R8: `.map(|capacity_sats| capacity_sats * 1000)` -> match on the option (definition of Option::map)
//! assume: capacity_sats <= 21e14 (total bitcoin supply), so capacity_sats * 1000 fits u64
use vstd::prelude::*;
verus! {
pub assume_specification[u64::checked_shr](x: u64, rhs: u32) -> (r: Option<u64>)
    ensures r == (if rhs < 64 { Some(x >> rhs) } else { None::<u64> });
use vstd::std_specs::cmp::*;
use core::cmp;
pub assume_specification<T: core::cmp::Ord>[core::cmp::max::<T>](a: T, b: T) -> (r: T)
    ensures T::obeys_cmp_spec() ==> r == (if b.cmp_spec(&a) == core::cmp::Ordering::Less { a } else { b });
pub assume_specification<T: core::cmp::Ord>[core::cmp::min::<T>](a: T, b: T) -> (r: T)
    ensures T::obeys_cmp_spec() ==> r == (if b.cmp_spec(&a) == core::cmp::Ordering::Less { b } else { a });
//@extract lightning/src/routing/gossip.rs :: enum EffectiveCapacity
//@derive Clone Copy
//@end
//@const lightning/src/routing/gossip.rs UNKNOWN_CHANNEL_CAPACITY_MSAT
pub open spec fn cap_msat(c: EffectiveCapacity) -> int {
    match c {
        EffectiveCapacity::ExactLiquidity { liquidity_msat } => liquidity_msat as int,
        EffectiveCapacity::AdvertisedMaxHTLC { amount_msat } => amount_msat as int,
        EffectiveCapacity::Total { capacity_msat, .. } => capacity_msat as int,
        EffectiveCapacity::HintMaxHTLC { amount_msat } => amount_msat as int,
        EffectiveCapacity::Infinite => u64::MAX as int,
        EffectiveCapacity::Unknown => 250_000_000int,
    }
}
impl EffectiveCapacity {
//@extract lightning/src/routing/gossip.rs :: impl EffectiveCapacity :: fn as_msat
//@ret r
//@ensures A
    r as int == cap_msat(*self),
//@end
}
pub proof fn lemma_shr_le(x: u64, s: u32) requires s < 64 ensures (x >> s) <= x
{ assert((x >> s) <= x) by (bit_vector) requires s < 64; }

//@extract lightning/src/routing/router.rs :: fn max_htlc_from_capacity
//@ret r
//@ensures P C16 the-amount-the-router-allows-over-a-channel-never-exceeds-its-capacity-nor-its-advertised-htlc-maximum
    r as int <= cap_msat(capacity),
    capacity matches EffectiveCapacity::Total { capacity_msat, htlc_maximum_msat } ==> r <= htlc_maximum_msat && r <= capacity_msat,
    capacity matches EffectiveCapacity::AdvertisedMaxHTLC { amount_msat } ==> r <= amount_msat,
    max_channel_saturation_power_of_half == 0 ==> (capacity matches EffectiveCapacity::Total { capacity_msat, htlc_maximum_msat } ==> r == (if capacity_msat <= htlc_maximum_msat { capacity_msat } else { htlc_maximum_msat })),
//@at body_start
    proof {
        match capacity {
            EffectiveCapacity::AdvertisedMaxHTLC { amount_msat } => { if max_channel_saturation_power_of_half < 64 { lemma_shr_le(amount_msat, max_channel_saturation_power_of_half as u32); } },
            EffectiveCapacity::Total { capacity_msat, htlc_maximum_msat } => { if max_channel_saturation_power_of_half < 64 { lemma_shr_le(capacity_msat, max_channel_saturation_power_of_half as u32); }
                assert(capacity_msat >> 0u32 == capacity_msat) by (bit_vector); },
            _ => {},
        }
    }
//@mutant saturation_limit_ignores_the_htlc_maximum
    cmp::min(capacity_msat.checked_shr(saturation_shift).unwrap_or(0), htlc_maximum_msat)
//@with
    cmp::max(capacity_msat.checked_shr(saturation_shift).unwrap_or(0), htlc_maximum_msat)
//@end

pub struct ChannelUpdateInfo { pub htlc_maximum_msat: u64 }
pub struct ChannelInfo { pub capacity_sats: Option<u64> }
pub struct DirectedChannelInfo<'a> { pub channel: &'a ChannelInfo, pub direction: &'a ChannelUpdateInfo }
impl<'a> DirectedChannelInfo<'a> {
    #[verifier::external_body] pub fn direction(&self) -> (r: &'a ChannelUpdateInfo) ensures r == self.direction { unimplemented!() }
//@extract lightning/src/routing/gossip.rs :: impl DirectedChannelInfo :: fn effective_capacity
//@rw R8
    self.channel.capacity_sats.map(|capacity_sats| capacity_sats * 1000)
//@with
    match self.channel.capacity_sats { Some(capacity_sats) => Some(capacity_sats * 1000), None => None }
//@ret r
//@requires
    self.channel.capacity_sats is Some ==> self.channel.capacity_sats->Some_0 <= 21_000_000_0000_0000,
//@ensures P C16 a-channels-effective-capacity-is-its-funding-amount-with-the-advertised-maximum-capped-by-it-or-the-advertised-maximum-alone
    self.channel.capacity_sats is Some ==> r == (EffectiveCapacity::Total { capacity_msat: (self.channel.capacity_sats->Some_0 * 1000) as u64,
        htlc_maximum_msat: (if self.direction.htlc_maximum_msat as int <= self.channel.capacity_sats->Some_0 * 1000 { self.direction.htlc_maximum_msat } else { (self.channel.capacity_sats->Some_0 * 1000) as u64 }) }),
    self.channel.capacity_sats is None ==> r == (EffectiveCapacity::AdvertisedMaxHTLC { amount_msat: self.direction.htlc_maximum_msat }),
//@mutant advertised_maximum_not_capped_by_capacity
    htlc_maximum_msat = cmp::min(htlc_maximum_msat, capacity_msat);
//@with
    htlc_maximum_msat = cmp::max(htlc_maximum_msat, capacity_msat);
//@end
}
}
fn main() {}
