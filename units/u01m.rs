//! unit: u01m
//! properties: C01 C07
//! note: second-stage HTLC transactions (chan_utils.rs build_htlc_transaction / build_htlc_input / build_htlc_output): an HTLC-success / HTLC-timeout transaction spends exactly the HTLC's own output of the given commitment, pays the HTLC amount less exactly the second-stage fee of its kind to the revocable delayed script, and is time-locked to the HTLC's expiry iff it is a timeout transaction (BOLT 3)
//! trusted: env: bitcoin types are skeletons: Txid, ScriptBuf, Witness opaque; Amount(u64) with from_sat and a checked `-` (bitcoin::Amount panics on underflow: the subtraction carries the no-underflow obligation); Sequence(u32), LockTime::from_consensus, Version::{TWO, non_standard} record their argument; OutPoint / TxIn / TxOut / Transaction are field skeletons of the bitcoin structs; get_revokeable_redeemscript(..).to_p2wsh() is an uninterpreted function of the three arguments; ChannelTypeFeatures two-boolean stub (as in u01); HTLCOutputInCommitment is a field skeleton (payment_hash dropped); `vec![x]` is vstd's vec! (one-element vector)
//! assume: the HTLC is non-dust on this commitment: its amount in sat is at least the second-stage fee of its kind (that is what keeps it in the commitment, proved for the builder in u01/u01e), and it has an output index
//! trusted: assume_specification for core::cmp::max / core::cmp::min (std definitions): present in every unit so that a change that introduces them is verified instead of being rejected by the tool
use vstd::prelude::*;
verus! {
use vstd::std_specs::cmp::*;
use core::cmp;
pub assume_specification<T: core::cmp::Ord>[core::cmp::max::<T>](a: T, b: T) -> (r: T)
    ensures T::obeys_cmp_spec() ==> r == (if b.cmp_spec(&a) == core::cmp::Ordering::Less { a } else { b });
pub assume_specification<T: core::cmp::Ord>[core::cmp::min::<T>](a: T, b: T) -> (r: T)
    ensures T::obeys_cmp_spec() ==> r == (if b.cmp_spec(&a) == core::cmp::Ordering::Less { b } else { a });
use vstd::std_specs::ops::*;
pub struct ChannelTypeFeatures { pub anchors: bool, pub zfc: bool }
impl ChannelTypeFeatures {
    #[verifier::external_body]
    pub fn supports_anchors_zero_fee_htlc_tx(&self) -> (r: bool) ensures r == self.anchors { self.anchors }
    #[verifier::external_body]
    pub fn supports_anchor_zero_fee_commitments(&self) -> (r: bool) ensures r == self.zfc { self.zfc }
}
pub open spec fn success_w(ct: &ChannelTypeFeatures) -> int { if ct.anchors { 706 } else { 703 } }
pub open spec fn timeout_w(ct: &ChannelTypeFeatures) -> int { if ct.anchors { 666 } else { 663 } }
pub open spec fn second_stage_spec(ct: &ChannelTypeFeatures, feerate: int) -> (int, int) {
    if ct.anchors || ct.zfc { (0, 0) } else { (feerate * success_w(ct) / 1000, feerate * timeout_w(ct) / 1000) }
}
// the fee BOLT 3 takes out of this HTLC's second-stage transaction
pub open spec fn htlc_tx_fee_spec(ct: &ChannelTypeFeatures, feerate: int, offered: bool) -> int {
    if offered { second_stage_spec(ct, feerate).1 } else { second_stage_spec(ct, feerate).0 }
}
#[derive(Clone, Copy)] pub struct Txid(pub u64);
pub struct ScriptBuf(pub u64);
impl ScriptBuf {
    #[verifier::external_body] pub fn new() -> (r: ScriptBuf) ensures r.0 == 0 { unimplemented!() }
    #[verifier::external_body] pub fn to_p2wsh(&self) -> (r: ScriptBuf) ensures r.0 == p2wsh_of(self.0) { unimplemented!() }
}
pub uninterp spec fn p2wsh_of(s: u64) -> u64;
pub struct Witness(pub u64);
impl Witness { #[verifier::external_body] pub fn new() -> (r: Witness) ensures r.0 == 0 { unimplemented!() } }
#[derive(Clone, Copy)] pub struct Amount(pub u64);
impl Amount { pub fn from_sat(s: u64) -> (r: Amount) ensures r.0 == s { Amount(s) } }
impl SubSpecImpl<Amount> for Amount {
    open spec fn obeys_sub_spec() -> bool { true }
    open spec fn sub_req(self, rhs: Amount) -> bool { self.0 >= rhs.0 }
    open spec fn sub_spec(self, rhs: Amount) -> Amount { Amount((self.0 - rhs.0) as u64) }
}
impl core::ops::Sub<Amount> for Amount { type Output = Amount; fn sub(self, rhs: Amount) -> (r: Amount) { Amount(self.0 - rhs.0) } }
pub struct Sequence(pub u32);
pub struct LockTime(pub u32);
impl LockTime { pub fn from_consensus(n: u32) -> (r: LockTime) ensures r.0 == n { LockTime(n) } }
pub struct Version(pub i32);
impl Version {
    pub const TWO: Version = Version(2);
    pub fn non_standard(v: i32) -> (r: Version) ensures r.0 == v { Version(v) }
}
pub struct OutPoint { pub txid: Txid, pub vout: u32 }
pub struct TxIn { pub previous_output: OutPoint, pub script_sig: ScriptBuf, pub sequence: Sequence, pub witness: Witness }
pub struct TxOut { pub script_pubkey: ScriptBuf, pub value: Amount }
pub struct Transaction { pub version: Version, pub lock_time: LockTime, pub input: Vec<TxIn>, pub output: Vec<TxOut> }
pub struct DelayedPaymentKey(pub u64);
pub struct RevocationKey(pub u64);
pub uninterp spec fn revokeable_script(revocation_key: u64, contest_delay: u16, delayed_key: u64) -> u64;
#[verifier::external_body]
pub fn get_revokeable_redeemscript(revocation_key: &RevocationKey, contest_delay: u16, broadcaster_delayed_payment_key: &DelayedPaymentKey) -> (r: ScriptBuf)
    ensures r.0 == revokeable_script(revocation_key.0, contest_delay, broadcaster_delayed_payment_key.0) { unimplemented!() }
pub struct HTLCOutputInCommitment { pub offered: bool, pub amount_msat: u64, pub cltv_expiry: u32, pub transaction_output_index: Option<u32> }
impl HTLCOutputInCommitment {
//@extract lightning/src/ln/chan_utils.rs :: impl HTLCOutputInCommitment :: fn to_bitcoin_amount
//@rw R1
    pub const fn
//@with
    pub fn
//@ret r
//@ensures A
    r.0 == self.amount_msat / 1000,
//@end
}
pub open spec fn nondust(htlc: &HTLCOutputInCommitment, ct: &ChannelTypeFeatures, feerate: int) -> bool {
    htlc.amount_msat as int / 1000 >= htlc_tx_fee_spec(ct, feerate, htlc.offered) && htlc.transaction_output_index is Some
}
//@extract lightning/src/ln/chan_utils.rs :: fn htlc_success_tx_weight
//@ret r
//@ensures A
    r == success_w(channel_type_features)
//@end
//@extract lightning/src/ln/chan_utils.rs :: fn htlc_timeout_tx_weight
//@ret r
//@ensures A
    r == timeout_w(channel_type_features)
//@end
//@extract lightning/src/ln/chan_utils.rs :: fn second_stage_tx_fees_sat
//@ret r
//@ensures A
    (r.0 as int, r.1 as int) == second_stage_spec(channel_type, feerate_sat_per_1000_weight as int),
    r.0 <= 0xffff_ffff, r.1 <= 0xffff_ffff,
//@at body_start
    proof {
        assert(feerate_sat_per_1000_weight as int * 703 / 1000 <= 0xffff_ffff) by (nonlinear_arith) requires 0 <= feerate_sat_per_1000_weight <= 0xffff_ffff;
        assert(feerate_sat_per_1000_weight as int * 663 / 1000 <= 0xffff_ffff) by (nonlinear_arith) requires 0 <= feerate_sat_per_1000_weight <= 0xffff_ffff;
    }
//@end
//@extract lightning/src/ln/chan_utils.rs :: fn build_htlc_input
//@rw R10
    .expect("Can't build an HTLC transaction for a dust output")
//@with
    .unwrap()
//@ret r
//@requires
    htlc.transaction_output_index is Some,
//@ensures P C01,C07 an-htlc-transaction-spends-exactly-the-htlcs-own-output-of-the-given-commitment
    r.previous_output.txid == *commitment_txid,
    r.previous_output.vout == htlc.transaction_output_index->Some_0,
    r.sequence.0 == (if channel_type_features.anchors { 1u32 } else { 0u32 }),
//@mutant htlc_input_points_at_the_next_output
    vout: htlc.transaction_output_index.expect("Can't build an HTLC transaction for a dust output"),
//@with
    vout: htlc.transaction_output_index.expect("Can't build an HTLC transaction for a dust output") + 1,
//@end
//@extract lightning/src/ln/chan_utils.rs :: fn build_htlc_output
//@ret r
//@requires
    nondust(htlc, channel_type_features, feerate_per_kw as int),
//@ensures P C01,C07 an-htlc-transaction-pays-the-htlc-amount-less-exactly-the-second-stage-fee-of-its-kind-to-the-revocable-delayed-script
    r.value.0 as int == htlc.amount_msat as int / 1000 - htlc_tx_fee_spec(channel_type_features, feerate_per_kw as int, htlc.offered),
    r.script_pubkey.0 == p2wsh_of(revokeable_script(revocation_key.0, contest_delay, broadcaster_delayed_payment_key.0)),
//@mutant timeout_and_success_fees_swapped
    let total_fee = if htlc.offered { htlc_timeout_tx_fee_sat } else { htlc_success_tx_fee_sat };
//@with
    let total_fee = if htlc.offered { htlc_success_tx_fee_sat } else { htlc_timeout_tx_fee_sat };
//@end
//@extract lightning/src/ln/chan_utils.rs :: fn build_htlc_transaction
//@ret r
//@requires
    nondust(htlc, channel_type_features, feerate_per_kw as int),
//@ensures P C01,C07 an-htlc-transaction-has-one-input-and-one-output-and-is-time-locked-to-the-htlcs-expiry-iff-it-is-a-timeout-transaction
    r.input@.len() == 1 && r.output@.len() == 1,
    r.input@[0].previous_output.txid == *commitment_txid && r.input@[0].previous_output.vout == htlc.transaction_output_index->Some_0,
    r.output@[0].value.0 as int == htlc.amount_msat as int / 1000 - htlc_tx_fee_spec(channel_type_features, feerate_per_kw as int, htlc.offered),
    r.lock_time.0 == (if htlc.offered { htlc.cltv_expiry } else { 0u32 }),
    r.version.0 == (if channel_type_features.zfc { 3i32 } else { 2i32 }),
//@mutant success_transaction_time_locked_instead
    if htlc.offered { htlc.cltv_expiry } else { 0 }
//@with
    if htlc.offered { 0 } else { htlc.cltv_expiry }
//@end
}
fn main() {}
