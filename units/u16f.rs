//! unit: u16f
//! properties: C16
//! note: get_route's add_entry! (the relaxation step of the reverse Dijkstra): a candidate hop is refused if it would take the path over the caller's hop-count or total-CLTV limit, its contribution is capped by what the later hops can carry, and the path's htlc_minimum is met by the amount actually sent over it
//! trusted: R15 (deep slices of a function-local macro_rules body): add_entry! inside get_route: the statements computing exceeds_max_path_length, exceeds_cltv_delta_limit, value_contribution_msat / contributes_sufficient_value, amount_to_transfer_over_msat and over_path_minimum_msat, verbatim as functions; R18: the macro's metavariables `$x` are alpha-renamed to identifiers `m_x` and bound as parameters; the candidate is a stub with blinded_hint_idx(); scoring, the heap update and everything else of the macro are dropped and not claimed
//! trusted: R15 (deep slice): get_route: the per-hop statement that records the liquidity a collected path uses (the amount, the `and_modify` update and the `or_insert` value), verbatim as a function of the path value, the hop's next_hops_fee_msat and the amount already used (HashMap entry API dropped: the closure body is applied to the existing amount, the or_insert argument returned)
//! trusted: R15 (deep slices of add_entry!, second half): the statements computing curr_min / candidate_fees / path_htlc_minimum_msat; hop_use_fee_msat / total_fee_msat and the test against max_total_routing_fee_msat; old_fee_cost / new_fee_cost / old_cost / new_cost; and the block that records the cheaper way in the node's entry and pushes it on the heap (taken with cfg(test)=cfg(fuzzing)=false: the test-only assertions are dropped) — each verbatim as a function of the values in scope; compute_fees_saturating is a stub carrying the contract proved on the real function in u16; the candidate is a skeleton {src_node_counter, fees}; scoring (channel_penalty_msat) is outside: path_penalty_msat is a parameter
//! assume: the amounts used on a hop fit u64 (the source adds them unchecked; they are bounded by max_htlc_from_capacity, LDK's own debug_assert after the statement)
//! assume: the caller's max_total_cltv_expiry_delta is below u32::MAX, or the delta sum fits u32 (the sum saturates; with the limit at u32::MAX a saturated sum would not be refused)
//! trusted: assume_specification for core::cmp::max / core::cmp::min (std definitions)
use vstd::prelude::*;
verus! {
use vstd::std_specs::cmp::*;
use core::cmp;
pub assume_specification<T: core::cmp::Ord>[core::cmp::max::<T>](a: T, b: T) -> (r: T)
    ensures T::obeys_cmp_spec() ==> r == (if b.cmp_spec(&a) == core::cmp::Ordering::Less { a } else { b });
pub assume_specification<T: core::cmp::Ord>[core::cmp::min::<T>](a: T, b: T) -> (r: T)
    ensures T::obeys_cmp_spec() ==> r == (if b.cmp_spec(&a) == core::cmp::Ordering::Less { b } else { a });
pub struct Candidate { pub blinded: bool }
impl Candidate { #[verifier::external_body] pub fn blinded_hint_idx(&self) -> (r: Option<usize>) ensures r is Some == self.blinded { unimplemented!() } }
//@extract lightning/src/routing/router.rs :: fn get_route
//@metavars
//@slice R15
    let path_length_to_node = $a:seq; let exceeds_max_path_length = $b:seq;
//@with
    fn hop_would_exceed_max_path_length(m_candidate: &Candidate, m_next_hops_path_length: u8, max_path_length: u8) -> bool {
        let path_length_to_node = $a; let exceeds_max_path_length = $b; exceeds_max_path_length }
//@ret r
//@requires
    m_next_hops_path_length < 255,
//@ensures P C16 a-candidate-hop-is-refused-if-the-path-through-it-would-have-more-hops-than-the-callers-limit
    r == (m_next_hops_path_length + (if m_candidate.blinded { 0int } else { 1int }) > max_path_length),
//@mutant a_path_one_hop_too_long_accepted
    path_length_to_node > max_path_length;
//@with
    path_length_to_node > max_path_length + 1;
//@end
//@extract lightning/src/routing/router.rs :: fn get_route
//@metavars
//@slice R15
    let hop_total_cltv_delta = $a:seq; let exceeds_cltv_delta_limit = $b:seq;
//@with
    fn hop_would_exceed_cltv_limit(m_next_hops_cltv_delta: u32, cltv_expiry_delta: u32, max_total_cltv_expiry_delta: u32) -> bool {
        let hop_total_cltv_delta = $a; let exceeds_cltv_delta_limit = $b; exceeds_cltv_delta_limit }
//@ret r
//@requires
    m_next_hops_cltv_delta as int + cltv_expiry_delta as int <= u32::MAX || max_total_cltv_expiry_delta < u32::MAX,
//@ensures P C16 a-candidate-hop-is-refused-if-the-total-cltv-delta-through-it-would-exceed-the-callers-limit
    r == (m_next_hops_cltv_delta as int + cltv_expiry_delta as int > max_total_cltv_expiry_delta as int),
//@mutant cltv_limit_tested_without_this_hops_delta
    .saturating_add(cltv_expiry_delta);
//@with
    .saturating_add(0);
//@end
//@extract lightning/src/routing/router.rs :: fn get_route
//@metavars
//@slice R15
    let value_contribution_msat = $a:seq; let contributes_sufficient_value = $b:seq; let amount_to_transfer_over_msat: u64 = $c:seq; let over_path_minimum_msat = $d:seq;
//@with
    fn contribution_and_minimum(available_value_contribution_msat: u64, m_next_hops_value_contribution: u64, minimal_value_contribution_msat: u64, m_next_hops_fee_msat: u64, htlc_minimum_msat: u64, m_next_hops_path_htlc_minimum_msat: u64) -> (u64, bool, u64, bool) {
        let value_contribution_msat = $a; let contributes_sufficient_value = $b; let amount_to_transfer_over_msat: u64 = $c; let over_path_minimum_msat = $d;
        (value_contribution_msat, contributes_sufficient_value, amount_to_transfer_over_msat, over_path_minimum_msat) }
//@ret r
//@requires
    available_value_contribution_msat as int + m_next_hops_fee_msat as int <= u64::MAX,
//@ensures P C16 a-hops-contribution-is-capped-by-what-it-and-the-later-hops-can-carry-and-the-amount-sent-over-it-meets-its-and-the-paths-minimum
    r.0 <= available_value_contribution_msat && r.0 <= m_next_hops_value_contribution && (r.0 == available_value_contribution_msat || r.0 == m_next_hops_value_contribution),
    r.1 == (r.0 >= minimal_value_contribution_msat),
    r.2 == r.0 + m_next_hops_fee_msat,
    r.3 == (r.2 >= htlc_minimum_msat && r.2 >= m_next_hops_path_htlc_minimum_msat),
//@mutant either_minimum_suffices
    let over_path_minimum_msat = amount_to_transfer_over_msat >= htlc_minimum_msat && amount_to_transfer_over_msat >=
//@with
    let over_path_minimum_msat = amount_to_transfer_over_msat >= htlc_minimum_msat || amount_to_transfer_over_msat >=
//@end
// ---- add_entry!: the minimum a path through this hop must carry, the fees it accumulates, and the test against the caller's fee limit ----
#[derive(Clone, Copy)] pub struct RoutingFees { pub base_msat: u32, pub proportional_millionths: u32 }
pub open spec fn fees_spec(amt: int, f: RoutingFees) -> int { f.base_msat as int + amt * (f.proportional_millionths as int) / 1_000_000 }
pub open spec fn fees_sat(amt: int, f: RoutingFees) -> int {
    if amt * f.proportional_millionths as int > u64::MAX || fees_spec(amt, f) > u64::MAX { u64::MAX as int } else { fees_spec(amt, f) }
}
// compute_fees_saturating: contract proved on the real function in u16
#[verifier::external_body] pub fn compute_fees_saturating(amount_msat: u64, channel_fees: RoutingFees) -> (r: u64) ensures r as int == fees_sat(amount_msat as int, channel_fees) { unimplemented!() }
pub struct FeeCandidate { pub src_counter: u32, pub fees: RoutingFees }
impl FeeCandidate {
    #[verifier::external_body] pub fn src_node_counter(&self) -> (r: u32) ensures r == self.src_counter { unimplemented!() }
    #[verifier::external_body] pub fn fees(&self) -> (r: RoutingFees) ensures r == self.fees { unimplemented!() }
}
pub open spec fn sat_add(a: int, b: int) -> int { if a + b > u64::MAX { u64::MAX as int } else { a + b } }
pub open spec fn umax(a: int, b: int) -> int { if a >= b { a } else { b } }
//@extract lightning/src/routing/router.rs :: fn get_route
//@metavars
//@slice R15
    let curr_min = $a:seq; let src_node_counter = $b:seq; let mut candidate_fees = $c:seq; if $own:cond { $zero:straight } let path_htlc_minimum_msat = $d:seq; let dist_entry
//@with
    fn minimum_a_path_through_this_hop_must_carry(m_candidate: &FeeCandidate, m_next_hops_path_htlc_minimum_msat: u64, htlc_minimum_msat: u64, payer_node_counter: u32) -> (u64, RoutingFees) {
        let curr_min = $a; let src_node_counter = $b; let mut candidate_fees = $c; if $own { $zero } let path_htlc_minimum_msat = $d;
        (path_htlc_minimum_msat, candidate_fees) }
//@ret r
//@ensures P C16 the-minimum-recorded-for-a-path-covers-this-hops-and-the-later-hops-minimums-plus-the-fee-this-hop-charges-on-it-and-our-own-channels-charge-nothing
    r.1 == (if m_candidate.src_counter == payer_node_counter { RoutingFees { base_msat: 0, proportional_millionths: 0 } } else { m_candidate.fees }),
    r.0 as int == sat_add(fees_sat(umax(m_next_hops_path_htlc_minimum_msat as int, htlc_minimum_msat as int), r.1), umax(m_next_hops_path_htlc_minimum_msat as int, htlc_minimum_msat as int)),
//@mutant path_minimum_forgets_the_later_hops
    let curr_min = cmp::max( m_next_hops_path_htlc_minimum_msat, htlc_minimum_msat );
//@with
    let curr_min = cmp::max( htlc_minimum_msat, htlc_minimum_msat );
//@mutant path_minimum_without_the_fee_charged_on_it
    let path_htlc_minimum_msat = compute_fees_saturating(curr_min, candidate_fees) .saturating_add(curr_min);
//@with
    let path_htlc_minimum_msat = compute_fees_saturating(0, candidate_fees) .saturating_add(curr_min);
//@end
pub struct NodeId { pub id: u64 }
impl vstd::std_specs::cmp::PartialEqSpecImpl for NodeId { open spec fn obeys_eq_spec() -> bool { true } open spec fn eq_spec(&self, other: &NodeId) -> bool { self.id == other.id } }
impl PartialEq for NodeId { #[verifier::external_body] fn eq(&self, o: &NodeId) -> (r: bool) { self.id == o.id } }
//@extract lightning/src/routing/router.rs :: fn get_route
//@metavars
//@slice R15
    let mut hop_use_fee_msat = 0; let mut total_fee_msat: u64 = $t:seq; if $notus:cond { $acc:straight } if $over:cond { $ign:any } else {
//@with
    fn fees_accumulated_through_this_hop(m_next_hops_fee_msat: u64, amount_to_transfer_over_msat: u64, candidate_fees: RoutingFees, src_node_id: &NodeId, our_node_id: &NodeId, max_total_routing_fee_msat: u64) -> (u64, u64, bool) {
        let mut hop_use_fee_msat = 0; let mut total_fee_msat: u64 = $t; if $notus { $acc }
        (hop_use_fee_msat, total_fee_msat, $over) }
//@ret r
//@ensures P C16 the-fee-total-recorded-for-a-hop-is-the-later-hops-fees-plus-this-hops-fee-on-the-amount-crossing-it-and-a-total-above-the-callers-limit-is-refused
    src_node_id.id != our_node_id.id ==> r.0 as int == fees_sat(amount_to_transfer_over_msat as int, candidate_fees) && r.1 as int == sat_add(m_next_hops_fee_msat as int, r.0 as int),
    src_node_id.id == our_node_id.id ==> r.0 == 0 && r.1 == m_next_hops_fee_msat,
    r.2 == (r.1 > max_total_routing_fee_msat),
//@mutant hop_fee_computed_on_the_minimum_instead_of_the_amount_sent
    hop_use_fee_msat = compute_fees_saturating(amount_to_transfer_over_msat, candidate_fees);
//@with
    hop_use_fee_msat = compute_fees_saturating(max_total_routing_fee_msat, candidate_fees);
//@mutant fee_limit_tested_on_this_hops_fee_alone
    if total_fee_msat > max_total_routing_fee_msat {
//@with
    if hop_use_fee_msat > max_total_routing_fee_msat {
//@end
// the record of the best known way to reach a node
pub struct CandidateId { pub id: u64 }
impl Clone for CandidateId { #[verifier::external_body] fn clone(&self) -> (r: Self) ensures r == *self { unimplemented!() } }
pub struct PathBuildingHop { pub candidate: CandidateId, pub fee_msat: u64, pub next_hops_fee_msat: u64, pub hop_use_fee_msat: u64, pub total_fee_msat: u64, pub path_htlc_minimum_msat: u64,
    pub path_penalty_msat: u64, pub was_processed: bool, pub value_contribution_msat: u64 }
pub struct RouteGraphNode { pub node_counter: u32, pub score: u128, pub total_cltv_delta: u16, pub value_contribution_msat: u64, pub path_length_to_node: u8 }
//@extract lightning/src/routing/router.rs :: fn get_route
//@cfg test=false
//@cfg fuzzing=false
//@metavars
//@slice R15
    if !old_entry.was_processed && new_cost < old_cost { $upd:straight } else if old_entry.was_processed && new_cost < old_cost {
//@with
    fn record_the_cheaper_way_to_reach_the_node(old_entry: &mut PathBuildingHop, targets: &mut Vec<RouteGraphNode>, m_candidate: &CandidateId, new_cost: u128, old_cost: u128, src_node_counter: u32, hop_total_cltv_delta: u32, cltv_expiry_delta: u32,
        value_contribution_msat: u64, path_length_to_node: u8, m_next_hops_fee_msat: u64, hop_use_fee_msat: u64, total_fee_msat: u64, path_htlc_minimum_msat: u64, path_penalty_msat: u64) -> Option<u64> {
        let mut hop_contribution_amt_msat = None;
        if !old_entry.was_processed && new_cost < old_cost { $upd }
        hop_contribution_amt_msat }
//@ret r
//@ensures P C16 a-cheaper-way-to-reach-a-node-not-yet-processed-replaces-the-known-one-with-exactly-the-fees-minimum-penalty-and-contribution-computed-for-it
    !(!old(old_entry).was_processed && new_cost < old_cost) ==> *final(old_entry) == *old(old_entry) && final(targets)@ == old(targets)@ && r is None,
    !old(old_entry).was_processed && new_cost < old_cost ==> r == Some(value_contribution_msat)
        && *final(old_entry) == (PathBuildingHop { candidate: *m_candidate, fee_msat: 0, next_hops_fee_msat: m_next_hops_fee_msat, hop_use_fee_msat, total_fee_msat, path_htlc_minimum_msat, path_penalty_msat,
                                                  was_processed: old(old_entry).was_processed, value_contribution_msat })
        && final(targets)@ == old(targets)@.push(RouteGraphNode { node_counter: src_node_counter, score: new_cost, total_cltv_delta: hop_total_cltv_delta as u16, value_contribution_msat, path_length_to_node }),
//@mutant heap_entry_carries_this_hops_delta_instead_of_the_total
    total_cltv_delta: hop_total_cltv_delta as u16,
//@with
    total_cltv_delta: cltv_expiry_delta as u16,
//@mutant this_hops_fee_recorded_as_the_fee_of_the_later_hops
    old_entry.next_hops_fee_msat = m_next_hops_fee_msat;
//@with
    old_entry.next_hops_fee_msat = hop_use_fee_msat;
//@mutant fee_total_recorded_without_this_hop
    old_entry.total_fee_msat = total_fee_msat;
//@with
    old_entry.total_fee_msat = m_next_hops_fee_msat;
//@end
// the two costs compared: cost of a way = (max(fees, minimum it must carry) + penalty) per msat it contributes, in 64.64 fixed point
pub open spec fn fee_cost(total_fee: int, path_min: int, penalty: int) -> int { sat_add(umax(total_fee, path_min), penalty) }
//@extract lightning/src/routing/router.rs :: fn get_route
//@metavars
//@slice R15
    let old_fee_cost = $a:seq; let new_fee_cost = $b:seq; let old_cost = $c:seq; let new_cost = $d:seq; if !old_entry.was_processed && new_cost < old_cost {
//@with
    fn costs_of_the_known_and_the_new_way(old_entry: &PathBuildingHop, total_fee_msat: u64, path_htlc_minimum_msat: u64, path_penalty_msat: u64, value_contribution_msat: u64) -> (u128, u128) {
        let old_fee_cost = $a; let new_fee_cost = $b;
        proof { assert(forall|x: u64| #![trigger (x as u128) << 64u128] ((x as u128) << 64u128) == (x as u128) * 0x1_0000_0000_0000_0000u128) by (bit_vector); }
        let old_cost = $c; let new_cost = $d; (old_cost, new_cost) }
//@ret r
//@requires
    value_contribution_msat >= 1,
//@ensures P C16 ways-to-reach-a-node-are-compared-by-fees-or-the-minimum-to-carry-plus-penalty-per-msat-contributed-each-with-its-own-numbers
    ({ let o = fee_cost(old_entry.total_fee_msat as int, old_entry.path_htlc_minimum_msat as int, old_entry.path_penalty_msat as int);
       r.0 as int == (if o != u64::MAX && old_entry.value_contribution_msat != 0 { o * 0x1_0000_0000_0000_0000 / (old_entry.value_contribution_msat as int) } else { u128::MAX as int }) }),
    ({ let n = fee_cost(total_fee_msat as int, path_htlc_minimum_msat as int, path_penalty_msat as int);
       r.1 as int == (if n != u64::MAX { n * 0x1_0000_0000_0000_0000 / (value_contribution_msat as int) } else { u128::MAX as int }) }),
//@mutant new_way_costed_with_the_known_ways_penalty
    let new_fee_cost = cmp::max(total_fee_msat, path_htlc_minimum_msat) .saturating_add(path_penalty_msat);
//@with
    let new_fee_cost = cmp::max(total_fee_msat, path_htlc_minimum_msat) .saturating_add(old_entry.path_penalty_msat);
//@mutant new_way_costed_per_msat_of_the_known_ways_contribution
    ((new_fee_cost as u128) << 64) / value_contribution_msat as u128
//@with
    ((new_fee_cost as u128) << 64) / old_entry.value_contribution_msat as u128
//@end
// ---- get_route: what a collected path uses up on each of its hops (so that later paths do not count on the same liquidity) ----
pub struct UsedHop { pub next_hops_fee_msat: u64 }
//@extract lightning/src/routing/router.rs :: fn get_route
//@slice R15
    for (hop, _) in payment_path.hops.iter() { let spent_on_hop_msat = $e:seq; let used_liquidity_msat = used_liquidities .entry(hop.candidate.id()) .and_modify(|used_liquidity_msat| $m:seq) .or_insert($i:seq); let hop_capacity
//@with
    fn liquidity_used_on_hop(value_contribution_msat: u64, hop: &UsedHop, used_liquidity_msat: &mut u64) -> (u64, u64) {
        let spent_on_hop_msat = $e;
        $m;
        (spent_on_hop_msat, $i)
    }
//@ret r
//@requires
    value_contribution_msat as int + hop.next_hops_fee_msat as int + *old(used_liquidity_msat) as int <= u64::MAX,
//@ensures P C16 a-collected-path-uses-up-on-each-hop-the-amount-that-actually-crosses-it-its-value-plus-the-fees-of-the-later-hops
    r.0 == value_contribution_msat + hop.next_hops_fee_msat,
    *final(used_liquidity_msat) == *old(used_liquidity_msat) + value_contribution_msat + hop.next_hops_fee_msat,
    r.1 == value_contribution_msat + hop.next_hops_fee_msat,
//@mutant later_hops_fees_not_counted_as_used
    let spent_on_hop_msat = value_contribution_msat + hop.next_hops_fee_msat;
//@with
    let spent_on_hop_msat = value_contribution_msat;
//@end
}
fn main() {}
