//! unit: u16f
//! properties: C16
//! note: get_route's add_entry! (the relaxation step of the reverse Dijkstra): a candidate hop is refused if it would take the path over the caller's hop-count or total-CLTV limit, its contribution is capped by what the later hops can carry, and the path's htlc_minimum is met by the amount actually sent over it
//! trusted: R15 (deep slices of a function-local macro_rules body): add_entry! inside get_route: the statements computing exceeds_max_path_length, exceeds_cltv_delta_limit, value_contribution_msat / contributes_sufficient_value, amount_to_transfer_over_msat and over_path_minimum_msat, verbatim as functions; R18: the macro's metavariables `$x` are alpha-renamed to identifiers `m_x` and bound as parameters; the candidate is a stub with blinded_hint_idx(); scoring, the heap update and everything else of the macro are dropped and not claimed
//! trusted: R15 (deep slice): get_route: the per-hop statement that records the liquidity a collected path uses (the amount, the `and_modify` update and the `or_insert` value), verbatim as a function of the path value, the hop's next_hops_fee_msat and the amount already used (HashMap entry API dropped: the closure body is applied to the existing amount, the or_insert argument returned)
//! assume: the amounts used on a hop fit u64 (the source adds them unchecked; they are bounded by max_htlc_from_capacity, LDK's own debug_assert after the statement)
//! assume: the caller's max_total_cltv_expiry_delta is below u32::MAX, or the delta sum fits u32 (the sum saturates; with the limit at u32::MAX a saturated sum would not be refused)
//! trusted: assume_specification for core::cmp::max / core::cmp::min (std definitions)
use vstd::prelude::*;
verus! {
use vstd::std_specs::cmp::*;
use core::cmp;
pub assume_specification<T: core::cmp::Ord>[core::cmp::max::<T>](a: T, b: T) -> (r: T)
    ensures T::obeys_cmp_spec() ==> r == (if b.cmp_spec(&a) == core::cmp::Ordering::Less { a } else { b });
pub assume_specification<T: core::cmp::Ord>[core::cmp::min::<T>](a: T, b: T) -> (r: T)
    ensures T::obeys_cmp_spec() ==> r == (if b.cmp_spec(&a) == core::cmp::Ordering::Less { b } else { a });
pub struct Candidate { pub blinded: bool }
impl Candidate { #[verifier::external_body] pub fn blinded_hint_idx(&self) -> (r: Option<usize>) ensures r is Some == self.blinded { unimplemented!() } }
//@extract lightning/src/routing/router.rs :: fn get_route
//@metavars
//@slice R15
    let path_length_to_node = $a:seq; let exceeds_max_path_length = $b:seq;
//@with
    fn hop_would_exceed_max_path_length(m_candidate: &Candidate, m_next_hops_path_length: u8, max_path_length: u8) -> bool {
        let path_length_to_node = $a; let exceeds_max_path_length = $b; exceeds_max_path_length }
//@ret r
//@requires
    m_next_hops_path_length < 255,
//@ensures P C16 a-candidate-hop-is-refused-if-the-path-through-it-would-have-more-hops-than-the-callers-limit
    r == (m_next_hops_path_length + (if m_candidate.blinded { 0int } else { 1int }) > max_path_length),
//@mutant a_path_one_hop_too_long_accepted
    path_length_to_node > max_path_length;
//@with
    path_length_to_node > max_path_length + 1;
//@end
//@extract lightning/src/routing/router.rs :: fn get_route
//@metavars
//@slice R15
    let hop_total_cltv_delta = $a:seq; let exceeds_cltv_delta_limit = $b:seq;
//@with
    fn hop_would_exceed_cltv_limit(m_next_hops_cltv_delta: u32, cltv_expiry_delta: u32, max_total_cltv_expiry_delta: u32) -> bool {
        let hop_total_cltv_delta = $a; let exceeds_cltv_delta_limit = $b; exceeds_cltv_delta_limit }
//@ret r
//@requires
    m_next_hops_cltv_delta as int + cltv_expiry_delta as int <= u32::MAX || max_total_cltv_expiry_delta < u32::MAX,
//@ensures P C16 a-candidate-hop-is-refused-if-the-total-cltv-delta-through-it-would-exceed-the-callers-limit
    r == (m_next_hops_cltv_delta as int + cltv_expiry_delta as int > max_total_cltv_expiry_delta as int),
//@mutant cltv_limit_tested_without_this_hops_delta
    .saturating_add(cltv_expiry_delta);
//@with
    .saturating_add(0);
//@end
//@extract lightning/src/routing/router.rs :: fn get_route
//@metavars
//@slice R15
    let value_contribution_msat = $a:seq; let contributes_sufficient_value = $b:seq; let amount_to_transfer_over_msat: u64 = $c:seq; let over_path_minimum_msat = $d:seq;
//@with
    fn contribution_and_minimum(available_value_contribution_msat: u64, m_next_hops_value_contribution: u64, minimal_value_contribution_msat: u64, m_next_hops_fee_msat: u64, htlc_minimum_msat: u64, m_next_hops_path_htlc_minimum_msat: u64) -> (u64, bool, u64, bool) {
        let value_contribution_msat = $a; let contributes_sufficient_value = $b; let amount_to_transfer_over_msat: u64 = $c; let over_path_minimum_msat = $d;
        (value_contribution_msat, contributes_sufficient_value, amount_to_transfer_over_msat, over_path_minimum_msat) }
//@ret r
//@requires
    available_value_contribution_msat as int + m_next_hops_fee_msat as int <= u64::MAX,
//@ensures P C16 a-hops-contribution-is-capped-by-what-it-and-the-later-hops-can-carry-and-the-amount-sent-over-it-meets-its-and-the-paths-minimum
    r.0 <= available_value_contribution_msat && r.0 <= m_next_hops_value_contribution && (r.0 == available_value_contribution_msat || r.0 == m_next_hops_value_contribution),
    r.1 == (r.0 >= minimal_value_contribution_msat),
    r.2 == r.0 + m_next_hops_fee_msat,
    r.3 == (r.2 >= htlc_minimum_msat && r.2 >= m_next_hops_path_htlc_minimum_msat),
//@mutant either_minimum_suffices
    let over_path_minimum_msat = amount_to_transfer_over_msat >= htlc_minimum_msat && amount_to_transfer_over_msat >=
//@with
    let over_path_minimum_msat = amount_to_transfer_over_msat >= htlc_minimum_msat || amount_to_transfer_over_msat >=
//@end
// ---- get_route: what a collected path uses up on each of its hops (so that later paths do not count on the same liquidity) ----
pub struct UsedHop { pub next_hops_fee_msat: u64 }
//@extract lightning/src/routing/router.rs :: fn get_route
//@slice R15
    for (hop, _) in payment_path.hops.iter() { let spent_on_hop_msat = $e:seq; let used_liquidity_msat = used_liquidities .entry(hop.candidate.id()) .and_modify(|used_liquidity_msat| $m:seq) .or_insert($i:seq); let hop_capacity
//@with
    fn liquidity_used_on_hop(value_contribution_msat: u64, hop: &UsedHop, used_liquidity_msat: &mut u64) -> (u64, u64) {
        let spent_on_hop_msat = $e;
        $m;
        (spent_on_hop_msat, $i)
    }
//@ret r
//@requires
    value_contribution_msat as int + hop.next_hops_fee_msat as int + *old(used_liquidity_msat) as int <= u64::MAX,
//@ensures P C16 a-collected-path-uses-up-on-each-hop-the-amount-that-actually-crosses-it-its-value-plus-the-fees-of-the-later-hops
    r.0 == value_contribution_msat + hop.next_hops_fee_msat,
    *final(used_liquidity_msat) == *old(used_liquidity_msat) + value_contribution_msat + hop.next_hops_fee_msat,
    r.1 == value_contribution_msat + hop.next_hops_fee_msat,
//@mutant later_hops_fees_not_counted_as_used
    let spent_on_hop_msat = value_contribution_msat + hop.next_hops_fee_msat;
//@with
    let spent_on_hop_msat = value_contribution_msat;
//@end
}
fn main() {}
