//! unit: u15g
//! properties: C15
//! note: the handshake state machine of PeerChannelEncryptor never reaches one of its `panic!("Requested act at wrong step")` / `panic!("Wrong direction for act")` under the peer handler's dispatch: get_noise_step WHOLE (which act the encryptor says comes next), and for each of get_act_one / process_act_one_with_keys / process_act_two / process_act_three the direction it insists on, the step it insists on and the step it leaves behind (literal slices), tied together by lemma_dispatch_never_panics: the responder starts before act one, is asked for act one, then stands after act two and is asked for act three; the initiator sends act one when it is created, stands after act one and is asked for act two. No byte a peer sends changes which function runs except through these steps
//! trusted: R15 (deep slices): the guard `if *state != NoiseStep::X { panic!(..) }` of each function under the direction arm it sits in, and the assignment of the next step, verbatim (the identifiers are captured); get_noise_step extracted whole (R16 on its reference patterns); NoiseState is a skeleton (the keys are dropped); that the peer handler calls exactly the function named by get_noise_step is the `match next_step` of do_read_event, and that an outbound encryptor has get_act_one called on it when it is created is new_outbound_connection (both read, not verified); act two and act three end the handshake by replacing the whole state (Finished), which this unit does not model beyond "no step left"
//! plemma: C15 lemma_dispatch_never_panics: under the peer handler's dispatch every handshake function is entered in the direction and at the step it insists on
//! trusted: assume_specification for core::cmp::max / core::cmp::min (std definitions): present in every unit so that a change that introduces them is verified instead of being rejected by the tool
use vstd::prelude::*;
verus! {
use vstd::std_specs::cmp::*;
use core::cmp;
pub assume_specification<T: core::cmp::Ord>[core::cmp::max::<T>](a: T, b: T) -> (r: T)
    ensures T::obeys_cmp_spec() ==> r == (if b.cmp_spec(&a) == core::cmp::Ordering::Less { a } else { b });
pub assume_specification<T: core::cmp::Ord>[core::cmp::min::<T>](a: T, b: T) -> (r: T)
    ensures T::obeys_cmp_spec() ==> r == (if b.cmp_spec(&a) == core::cmp::Ordering::Less { b } else { a });
//@extract lightning/src/ln/peer_channel_encryptor.rs :: enum NextNoiseStep
//@end
//@extract lightning/src/ln/peer_channel_encryptor.rs :: enum NoiseStep
//@end
pub enum Direction { Outbound, Inbound }
pub enum NoiseState { InProgress { state: NoiseStep, dir: Direction }, Finished { sn: u64 } }
pub struct PeerChannelEncryptor { pub noise_state: NoiseState }
pub open spec fn next_of(s: NoiseStep) -> NextNoiseStep { match s { NoiseStep::PreActOne => NextNoiseStep::ActOne, NoiseStep::PostActOne => NextNoiseStep::ActTwo, NoiseStep::PostActTwo => NextNoiseStep::ActThree } }
impl PeerChannelEncryptor {
//@extract lightning/src/ln/peer_channel_encryptor.rs :: impl PeerChannelEncryptor :: fn get_noise_step
//@rw R16
    NoiseState::InProgress { ref state, .. } => match state { &NoiseStep::$x:ident => $a:seq, &NoiseStep::$y:ident => $b:seq, &NoiseStep::$z:ident => $c:seq, },
//@with
    NoiseState::InProgress { state, .. } => match state { NoiseStep::$x => $a, NoiseStep::$y => $b, NoiseStep::$z => $c, },
//@rw R16
    match self.noise_state {
//@with
    match &self.noise_state {
//@ret r
//@ensures P C15 the-encryptor-names-the-act-that-follows-the-step-it-stands-at-and-completion-once-the-handshake-is-over
    r == (match self.noise_state { NoiseState::InProgress { state, .. } => next_of(state), NoiseState::Finished { .. } => NextNoiseStep::NoiseComplete }),
//@mutant act_two_and_act_three_exchanged
    &NoiseStep::PostActOne => NextNoiseStep::ActTwo,
//@with
    &NoiseStep::PostActOne => NextNoiseStep::ActThree,
//@end
}
// what each handshake function insists on and leaves behind
pub struct Needs { pub dir: Direction, pub at: NoiseStep }
//@extract lightning/src/ln/peer_channel_encryptor.rs :: impl PeerChannelEncryptor :: fn get_act_one
//@slice R15
    &DirectionalNoiseState::$d:ident { ref ie } => { if *state != NoiseStep::$s:ident { panic!("Requested act at wrong step"); }
//@with
    fn get_act_one_needs() -> Needs { Needs { dir: Direction::$d, at: NoiseStep::$s } }
//@ret r
//@ensures P C15 act-one-is-sent-only-by-an-initiator-that-has-sent-nothing-yet
    r.dir is Outbound && r.at is PreActOne,
//@end
//@extract lightning/src/ln/peer_channel_encryptor.rs :: impl PeerChannelEncryptor :: fn get_act_one
//@slice R15
    *state = NoiseStep::$n:ident; res
//@with
    fn get_act_one_leaves() -> NoiseStep { NoiseStep::$n }
//@ret r
//@ensures P C15 after-sending-act-one-the-initiator-stands-after-act-one
    r is PostActOne,
//@end
//@extract lightning/src/ln/peer_channel_encryptor.rs :: impl PeerChannelEncryptor :: fn process_act_one_with_keys
//@slice R15
    &mut DirectionalNoiseState::$d:ident { ref mut ie, ref mut re, ref mut temp_k2 } => { if *state != NoiseStep::$s:ident { panic!("Requested act at wrong step"); }
//@with
    fn process_act_one_needs() -> Needs { Needs { dir: Direction::$d, at: NoiseStep::$s } }
//@ret r
//@ensures P C15 act-one-is-processed-only-by-a-responder-that-has-seen-nothing-yet
    r.dir is Inbound && r.at is PreActOne,
//@mutant act_one_accepted_again_after_act_two_was_sent
    if *state != NoiseStep::PreActOne {
//@with
    if *state != NoiseStep::PostActTwo {
//@end
//@extract lightning/src/ln/peer_channel_encryptor.rs :: impl PeerChannelEncryptor :: fn process_act_one_with_keys
//@slice R15
    *state = NoiseStep::$n:ident; Ok(res)
//@with
    fn process_act_one_leaves() -> NoiseStep { NoiseStep::$n }
//@ret r
//@ensures P C15 after-answering-act-one-the-responder-stands-after-act-two
    r is PostActTwo,
//@end
//@extract lightning/src/ln/peer_channel_encryptor.rs :: impl PeerChannelEncryptor :: fn process_act_two
//@slice R15
    &DirectionalNoiseState::$d:ident { ref ie } => { if *state != NoiseStep::$s:ident { panic!("Requested act at wrong step"); }
//@with
    fn process_act_two_needs() -> Needs { Needs { dir: Direction::$d, at: NoiseStep::$s } }
//@ret r
//@ensures P C15 act-two-is-processed-only-by-an-initiator-that-has-sent-act-one
    r.dir is Outbound && r.at is PostActOne,
//@end
//@extract lightning/src/ln/peer_channel_encryptor.rs :: impl PeerChannelEncryptor :: fn process_act_three
//@slice R15
    &DirectionalNoiseState::$d:ident { ie: _, ref re, ref temp_k2 } => { if *state != NoiseStep::$s:ident { panic!("Requested act at wrong step"); }
//@with
    fn process_act_three_needs() -> Needs { Needs { dir: Direction::$d, at: NoiseStep::$s } }
//@ret r
//@ensures P C15 act-three-is-processed-only-by-a-responder-that-has-sent-act-two
    r.dir is Inbound && r.at is PostActTwo,
//@end
// the dispatch of the peer handler, over the constants proved above: (direction, step) pairs that exist, and the function each is handed to
pub open spec fn reachable(dir: Direction, at: NoiseStep) -> bool {
    (dir is Inbound && (at is PreActOne || at is PostActTwo)) || (dir is Outbound && at is PostActOne)
}
pub open spec fn handed_to_needs(dir: Direction, at: NoiseStep) -> (Direction, NoiseStep) {
    match next_of(at) { NextNoiseStep::ActOne => (Direction::Inbound, NoiseStep::PreActOne), NextNoiseStep::ActTwo => (Direction::Outbound, NoiseStep::PostActOne),
        NextNoiseStep::ActThree => (Direction::Inbound, NoiseStep::PostActTwo), NextNoiseStep::NoiseComplete => (dir, at) }
}
pub proof fn lemma_dispatch_never_panics(dir: Direction, at: NoiseStep)
    requires reachable(dir, at)
    ensures handed_to_needs(dir, at) == (dir, at),
        // and the steps left behind are reachable again (or the handshake is over): a responder after act one stands after act two
        reachable(Direction::Inbound, NoiseStep::PostActTwo), reachable(Direction::Outbound, NoiseStep::PostActOne)
{}
}
fn main() {}
