//! unit: u01n
//! properties: C01
//! note: CommitmentTransaction output construction (chan_utils.rs): HTLC outputs are built one per non-dust HTLC with the HTLC's own amount, sorted in BOLT-3 order (value, then script, then CLTV expiry) while each HTLC's data stays paired with its own output, and no HTLC is lost or duplicated by the sort (the library's insertion sort, verified as written); the non-HTLC outputs are exactly the non-zero balances and the anchors BOLT 3 prescribes, with a shared anchor never taking more than what the trimmed amounts leave
//! trusted: env: Amount(u64), ScriptBuf(u64), PaymentHash(u64) skeletons whose Ord is the order of the wrapped number (bitcoin::Amount orders by value; scripts and hashes are opaque, totally ordered); TxOut / HTLCOutputInCommitment field skeletons; get_htlc_redeemscript(..).to_p2wsh() is an uninterpreted function of (htlc, channel type, keys); TxCreationKeys and ChannelTypeFeatures opaque
//! trusted: R5: insert_non_htlc_outputs takes an `FnMut(TxOut)` callback (a closure that inserts the output at its sorted position); the parameter is replaced by `out: &mut Vec<TxOut>` and each `insert_non_htlc_output(x)` by `out.push(x)`: the contract is about which outputs are handed over, with which value and script, in which order; the position the closure inserts at (binary_search_by) is dropped and not claimed; env: DirectedChannelTransactionParameters / ChannelPublicKeys / TxCreationKeys are field skeletons with accessor stubs, scripts and hashes are uninterpreted functions of the keys, Amount has bitcoin::Amount's ordering and a checked `-`; assume_specification for core::cmp::min / max
//! assume: insert_non_htlc_outputs: with a shared (P2A) anchor the channel value covers the HTLC sum and both balances (the subtraction panics otherwise; that the builder never hands over more than the funding output holds is proved in u01e)
//! trusted: R6 (adapter chain): build_outputs_and_htlcs fixes up the HTLC output indices after each insertion with `nondust_htlcs.iter_mut()[.rev()].map_while(|htlc| { let i = ..; (C).then(|| i) }).for_each(|i| F)`; the unit captures the direction tokens, the condition C and the effect F verbatim and places them in the loop that is the definition of that chain (visit the elements in that direction, apply F while C holds, stop at the first element where C fails); the loop skeleton, its invariants and the copy-out / write-back of the element's index are the unit's, the direction, C and F are the source's
//! assume: fix-up: the HTLC output indices are strictly ascending with the HTLC order (they were initialised to the positions in the sorted list) and below 0xffff_0000
//! trusted: assume_specification for <[T]>::swap (std: exchanges the two elements), Ordering::then and Ordering::is_gt (std definitions), Vec::with_capacity is vstd's
//! trusted: R6: `for htlc in nondust_htlcs { B }` over a `&Vec` becomes `for htlc in nondust_htlcs.iter() { B }` (IntoIterator for &Vec is iter()); R10: `&nondust_htlcs` where nondust_htlcs is already a `&mut Vec` is written `&*nondust_htlcs` (the deref coercion rustc inserts)
//! plemma: C01 lemma_shared_anchor_conserves: with a shared (P2A) anchor the non-HTLC outputs BOLT 3 prescribes, plus the HTLC sum, never exceed the channel value
use vstd::prelude::*;
macro_rules! walk_is_reversed { () => { false }; (. rev ( )) => { true }; }
verus! {
use vstd::std_specs::cmp::*;
use core::cmp::Ordering;
use core::cmp;
use vstd::std_specs::ops::*;
pub assume_specification<T: core::cmp::Ord>[core::cmp::max::<T>](a: T, b: T) -> (r: T)
    ensures T::obeys_cmp_spec() ==> r == (if b.cmp_spec(&a) == core::cmp::Ordering::Less { a } else { b });
pub assume_specification<T: core::cmp::Ord>[core::cmp::min::<T>](a: T, b: T) -> (r: T)
    ensures T::obeys_cmp_spec() ==> r == (if b.cmp_spec(&a) == core::cmp::Ordering::Less { b } else { a });
//@const lightning/src/ln/channel.rs ANCHOR_OUTPUT_VALUE_SATOSHI
//@const lightning/src/ln/chan_utils.rs P2A_MAX_VALUE
pub assume_specification<T> [<[T]>::swap] (s: &mut [T], a: usize, b: usize)
    requires a < old(s)@.len(), b < old(s)@.len(),
    ensures final(s)@ == old(s)@.update(a as int, old(s)@[b as int]).update(b as int, old(s)@[a as int]);
pub assume_specification [Ordering::is_gt] (o: Ordering) -> (r: bool) ensures r == (o == Ordering::Greater);
pub assume_specification [Ordering::then] (o: Ordering, p: Ordering) -> (r: Ordering) ensures r == (if o == Ordering::Equal { p } else { o });
pub open spec fn ord_u64(a: u64, b: u64) -> Ordering { if a < b { Ordering::Less } else if a == b { Ordering::Equal } else { Ordering::Greater } }
#[derive(Clone, Copy)] pub struct Amount(pub u64);
pub struct ScriptBuf(pub u64);
#[derive(Clone, Copy)] pub struct PaymentHash(pub u64);
impl Amount { #[verifier::external_body] pub fn cmp(&self, o: &Amount) -> (r: Ordering) ensures r == ord_u64(self.0, o.0) { unimplemented!() }
    pub fn from_sat(s: u64) -> (r: Amount) ensures r.0 == s { Amount(s) }
    pub const ZERO: Amount = Amount(0); }
impl ScriptBuf { #[verifier::external_body] pub fn new_p2wpkh(h: &WPubkeyHash) -> (r: ScriptBuf) ensures r.0 == p2wpkh_of(h.0) { unimplemented!() }
    #[verifier::external_body] pub fn cmp(&self, o: &ScriptBuf) -> (r: Ordering) ensures r == ord_u64(self.0, o.0) { unimplemented!() }
    #[verifier::external_body] pub fn to_p2wsh(&self) -> (r: ScriptBuf) ensures r.0 == p2wsh_of(self.0) { unimplemented!() } }
impl PaymentHash { #[verifier::external_body] pub fn cmp(&self, o: &PaymentHash) -> (r: Ordering) ensures r == ord_u64(self.0, o.0) { unimplemented!() } }
pub uninterp spec fn p2wsh_of(s: u64) -> u64;
pub struct TxOut { pub script_pubkey: ScriptBuf, pub value: Amount }
#[derive(Clone, Copy)] pub struct HTLCOutputInCommitment { pub offered: bool, pub amount_msat: u64, pub cltv_expiry: u32, pub payment_hash: PaymentHash, pub transaction_output_index: Option<u32> }
impl HTLCOutputInCommitment {
//@extract lightning/src/ln/chan_utils.rs :: impl HTLCOutputInCommitment :: fn to_bitcoin_amount
//@rw R1
    pub const fn
//@with
    pub fn
//@ret r
//@ensures A
    r.0 == self.amount_msat / 1000,
//@end
}
pub struct RevocationKey(pub u64);
pub struct DelayedPaymentKey(pub u64);
pub struct TxCreationKeys { pub revocation_key: RevocationKey, pub broadcaster_delayed_payment_key: DelayedPaymentKey, pub opaque: u64 }
pub struct ChannelTypeFeatures { pub anchors: bool, pub zfc: bool }
impl ChannelTypeFeatures {
    #[verifier::external_body]
    pub fn supports_anchors_zero_fee_htlc_tx(&self) -> (r: bool) ensures r == self.anchors { self.anchors }
    #[verifier::external_body]
    pub fn supports_anchor_zero_fee_commitments(&self) -> (r: bool) ensures r == self.zfc { self.zfc }
}
impl PartialEqSpecImpl for Amount { open spec fn obeys_eq_spec() -> bool { true } open spec fn eq_spec(&self, other: &Amount) -> bool { self.0 == other.0 } }
impl PartialEq for Amount { fn eq(&self, o: &Amount) -> (r: bool) { self.0 == o.0 } }
impl Eq for Amount {}
impl PartialOrdSpecImpl for Amount {
    open spec fn obeys_partial_cmp_spec() -> bool { true }
    open spec fn partial_cmp_spec(&self, other: &Amount) -> Option<Ordering> { Some(ord_u64(self.0, other.0)) }
}
impl PartialOrd for Amount { #[verifier::external_body] fn partial_cmp(&self, o: &Amount) -> (r: Option<Ordering>) { self.0.partial_cmp(&o.0) } }
impl OrdSpecImpl for Amount {
    open spec fn obeys_cmp_spec() -> bool { true }
    open spec fn cmp_spec(&self, other: &Amount) -> Ordering { ord_u64(self.0, other.0) }
}
impl Ord for Amount { #[verifier::external_body] fn cmp(&self, o: &Amount) -> (r: Ordering) { self.0.cmp(&o.0) } }
impl SubSpecImpl<Amount> for Amount {
    open spec fn obeys_sub_spec() -> bool { true }
    open spec fn sub_req(self, rhs: Amount) -> bool { self.0 >= rhs.0 }
    open spec fn sub_spec(self, rhs: Amount) -> Amount { Amount((self.0 - rhs.0) as u64) }
}
impl core::ops::Sub<Amount> for Amount { type Output = Amount; fn sub(self, rhs: Amount) -> (r: Amount) { Amount(self.0 - rhs.0) } }
pub struct PublicKey(pub u64);
pub uninterp spec fn ser33(pk: u64) -> Seq<u8>;
impl PublicKey { #[verifier::external_body] pub fn serialize(&self) -> (r: [u8; 33]) ensures r@ == ser33(self.0) { unimplemented!() } }
pub struct Hash160(pub u64);
pub uninterp spec fn hash160_spec(b: Seq<u8>) -> u64;
impl Hash160 { #[verifier::external_body] pub fn hash(b: &[u8]) -> (r: Hash160) ensures r.0 == hash160_spec(b@) { unimplemented!() } }
pub struct WPubkeyHash(pub u64);
impl vstd::std_specs::convert::FromSpecImpl<Hash160> for WPubkeyHash { open spec fn obeys_from_spec() -> bool { true } open spec fn from_spec(h: Hash160) -> WPubkeyHash { WPubkeyHash(h.0) } }
impl From<Hash160> for WPubkeyHash { fn from(h: Hash160) -> (r: WPubkeyHash) { WPubkeyHash(h.0) } }
pub uninterp spec fn p2wpkh_of(h: u64) -> u64;
pub uninterp spec fn countersigner_anchor_script(pk: u64) -> u64;
pub uninterp spec fn keyed_anchor_script(pk: u64) -> u64;
pub uninterp spec fn revokeable_script(revocation_key: u64, contest_delay: u16, delayed_key: u64) -> u64;
pub uninterp spec fn shared_anchor_spk() -> u64;
#[verifier::external_body] pub fn get_to_countersigner_keyed_anchor_redeemscript(pk: &PublicKey) -> (r: ScriptBuf) ensures r.0 == countersigner_anchor_script(pk.0) { unimplemented!() }
#[verifier::external_body] pub fn get_keyed_anchor_redeemscript(pk: &PublicKey) -> (r: ScriptBuf) ensures r.0 == keyed_anchor_script(pk.0) { unimplemented!() }
#[verifier::external_body] pub fn get_revokeable_redeemscript(revocation_key: &RevocationKey, contest_delay: u16, broadcaster_delayed_payment_key: &DelayedPaymentKey) -> (r: ScriptBuf)
    ensures r.0 == revokeable_script(revocation_key.0, contest_delay, broadcaster_delayed_payment_key.0) { unimplemented!() }
#[verifier::external_body] pub fn shared_anchor_script_pubkey() -> (r: ScriptBuf) ensures r.0 == shared_anchor_spk() { unimplemented!() }
pub struct ChannelPublicKeys { pub payment_point: PublicKey, pub funding_pubkey: PublicKey }
pub struct DirectedChannelTransactionParameters { pub cs: ChannelPublicKeys, pub br: ChannelPublicKeys, pub ct: ChannelTypeFeatures, pub delay: u16, pub value: u64 }
impl DirectedChannelTransactionParameters {
    #[verifier::external_body] pub fn countersignatory_pubkeys(&self) -> (r: &ChannelPublicKeys) ensures *r == self.cs { &self.cs }
    #[verifier::external_body] pub fn broadcaster_pubkeys(&self) -> (r: &ChannelPublicKeys) ensures *r == self.br { &self.br }
    #[verifier::external_body] pub fn channel_type_features(&self) -> (r: &ChannelTypeFeatures) ensures *r == self.ct { &self.ct }
    #[verifier::external_body] pub fn contest_delay(&self) -> (r: u16) ensures r == self.delay { self.delay }
    #[verifier::external_body] pub fn channel_value_satoshis(&self) -> (r: u64) ensures r == self.value { self.value }
}
// BOLT 3: the non-HTLC outputs of a commitment transaction (the contract compares multisets: the order in which the builder hands them to
// the sorting insertion is not part of the property)
pub open spec fn nh_to_remote(to_c: u64, p: DirectedChannelTransactionParameters) -> Seq<TxOut> {
    if to_c > 0 { seq![TxOut { script_pubkey: ScriptBuf(if p.ct.anchors { p2wsh_of(countersigner_anchor_script(p.cs.payment_point.0)) } else { p2wpkh_of(hash160_spec(ser33(p.cs.payment_point.0))) }), value: Amount(to_c) }] } else { Seq::empty() } }
pub open spec fn nh_to_local(keys: TxCreationKeys, to_b: u64, p: DirectedChannelTransactionParameters) -> Seq<TxOut> {
    if to_b > 0 { seq![TxOut { script_pubkey: ScriptBuf(p2wsh_of(revokeable_script(keys.revocation_key.0, p.delay, keys.broadcaster_delayed_payment_key.0))), value: Amount(to_b) }] } else { Seq::empty() } }
pub open spec fn nh_anchor_b(to_b: u64, p: DirectedChannelTransactionParameters, htlc_sum: u64) -> Seq<TxOut> {
    if p.ct.anchors && (to_b > 0 || htlc_sum != 0) { seq![TxOut { script_pubkey: ScriptBuf(p2wsh_of(keyed_anchor_script(p.br.funding_pubkey.0))), value: Amount(330) }] } else { Seq::empty() } }
pub open spec fn nh_anchor_c(to_c: u64, p: DirectedChannelTransactionParameters, htlc_sum: u64) -> Seq<TxOut> {
    if p.ct.anchors && (to_c > 0 || htlc_sum != 0) { seq![TxOut { script_pubkey: ScriptBuf(p2wsh_of(keyed_anchor_script(p.cs.funding_pubkey.0))), value: Amount(330) }] } else { Seq::empty() } }
pub open spec fn p2a_value(to_b: u64, to_c: u64, p: DirectedChannelTransactionParameters, htlc_sum: u64) -> u64 { if p.value - htlc_sum - to_b - to_c < 240 { (p.value - htlc_sum - to_b - to_c) as u64 } else { 240u64 } }
pub open spec fn nh_p2a(to_b: u64, to_c: u64, p: DirectedChannelTransactionParameters, htlc_sum: u64) -> Seq<TxOut> {
    if p.ct.zfc { seq![TxOut { script_pubkey: ScriptBuf(shared_anchor_spk()), value: Amount(p2a_value(to_b, to_c, p, htlc_sum)) }] } else { Seq::empty() } }
pub open spec fn non_htlc_outputs(keys: TxCreationKeys, to_b: u64, to_c: u64, p: DirectedChannelTransactionParameters, htlc_sum: u64) -> Seq<TxOut> {
    (((nh_to_remote(to_c, p) + nh_to_local(keys, to_b, p)) + nh_anchor_b(to_b, p, htlc_sum)) + nh_anchor_c(to_c, p, htlc_sum)) + nh_p2a(to_b, to_c, p, htlc_sum)
}
pub proof fn lemma_non_htlc_multiset(keys: TxCreationKeys, to_b: u64, to_c: u64, p: DirectedChannelTransactionParameters, htlc_sum: u64)
    ensures non_htlc_outputs(keys, to_b, to_c, p, htlc_sum).to_multiset() =~= nh_to_remote(to_c, p).to_multiset().add(nh_to_local(keys, to_b, p).to_multiset())
        .add(nh_anchor_b(to_b, p, htlc_sum).to_multiset()).add(nh_anchor_c(to_c, p, htlc_sum).to_multiset()).add(nh_p2a(to_b, to_c, p, htlc_sum).to_multiset())
{
    let a = nh_to_remote(to_c, p); let b = nh_to_local(keys, to_b, p); let c = nh_anchor_b(to_b, p, htlc_sum); let d = nh_anchor_c(to_c, p, htlc_sum); let e = nh_p2a(to_b, to_c, p, htlc_sum);
    vstd::seq_lib::lemma_multiset_commutative(a, b);
    vstd::seq_lib::lemma_multiset_commutative(a + b, c);
    vstd::seq_lib::lemma_multiset_commutative((a + b) + c, d);
    vstd::seq_lib::lemma_multiset_commutative(((a + b) + c) + d, e);
}
// with a shared anchor (and no keyed anchors) the prescribed outputs never add up to more than the channel value
pub proof fn lemma_shared_anchor_conserves(keys: TxCreationKeys, to_b: u64, to_c: u64, p: DirectedChannelTransactionParameters, htlc_sum: u64)
    requires p.ct.zfc, !p.ct.anchors, p.value >= htlc_sum + to_b + to_c
    ensures htlc_sum + total_value(non_htlc_outputs(keys, to_b, to_c, p, htlc_sum)) <= p.value
{
    let a = nh_to_remote(to_c, p); let b = nh_to_local(keys, to_b, p); let e = nh_p2a(to_b, to_c, p, htlc_sum);
    let z = Seq::<TxOut>::empty();
    assert(total_value(z) == 0);
    assert(non_htlc_outputs(keys, to_b, to_c, p, htlc_sum) =~= (a + b) + e);
    if to_c > 0 { lemma_total_push(z, a[0]); assert(z.push(a[0]) =~= a); }
    if to_b > 0 { lemma_total_push(a, b[0]); assert(a.push(b[0]) =~= a + b); } else { assert(a + b =~= a); }
    lemma_total_push(a + b, e[0]); assert((a + b).push(e[0]) =~= (a + b) + e);
}
pub open spec fn total_value(s: Seq<TxOut>) -> int decreases s.len() { if s.len() == 0 { 0 } else { total_value(s.drop_last()) + s.last().value.0 } }
pub proof fn lemma_total_push(s: Seq<TxOut>, o: TxOut) ensures total_value(s.push(o)) == total_value(s) + o.value.0
{ assert(s.push(o).drop_last() =~= s); }

pub uninterp spec fn htlc_script(htlc: HTLCOutputInCommitment, ct: ChannelTypeFeatures, keys: TxCreationKeys) -> u64;
#[verifier::external_body]
pub fn get_htlc_redeemscript(htlc: &HTLCOutputInCommitment, channel_type_features: &ChannelTypeFeatures, keys: &TxCreationKeys) -> (r: ScriptBuf)
    ensures r.0 == htlc_script(*htlc, *channel_type_features, *keys) { unimplemented!() }
// the output BOLT 3 gives an HTLC: its own amount (in whole satoshis) to its own script
pub open spec fn txout_of(h: HTLCOutputInCommitment, ct: ChannelTypeFeatures, keys: TxCreationKeys) -> TxOut {
    TxOut { script_pubkey: ScriptBuf(p2wsh_of(htlc_script(h, ct, keys))), value: Amount(h.amount_msat / 1000) }
}
pub open spec fn paired(txouts: Seq<TxOut>, htlcs: Seq<HTLCOutputInCommitment>, ct: ChannelTypeFeatures, keys: TxCreationKeys) -> bool {
    txouts.len() == htlcs.len() && forall|k: int| 0 <= k < htlcs.len() ==> #[trigger] txouts[k] == txout_of(htlcs[k], ct, keys)
}
// BOLT 3 output order: value, then script, then CLTV expiry (then, as the library's tie-break, payment hash)
pub open spec fn left_gt(ao: TxOut, ah: HTLCOutputInCommitment, bo: TxOut, bh: HTLCOutputInCommitment) -> bool {
    ao.value.0 > bo.value.0 || (ao.value.0 == bo.value.0 && (ao.script_pubkey.0 > bo.script_pubkey.0 || (ao.script_pubkey.0 == bo.script_pubkey.0 &&
        (ah.cltv_expiry > bh.cltv_expiry || (ah.cltv_expiry == bh.cltv_expiry && ah.payment_hash.0 > bh.payment_hash.0)))))
}
pub open spec fn in_order(txouts: Seq<TxOut>, htlcs: Seq<HTLCOutputInCommitment>) -> bool {
    forall|k: int| 1 <= k < txouts.len() ==> #[trigger] ok_at(txouts, htlcs, k)
}
pub proof fn lemma_swap_multiset<A>(s: Seq<A>, a: int, b: int)
    requires 0 <= a < s.len(), 0 <= b < s.len()
    ensures s.update(a, s[b]).update(b, s[a]).to_multiset() =~= s.to_multiset()
{
    broadcast use vstd::seq_lib::group_to_multiset_ensures;
    let s1 = s.update(a, s[b]);
    assert(s1[b] == s[b]);
}
pub open spec fn ok_at(txouts: Seq<TxOut>, htlcs: Seq<HTLCOutputInCommitment>, k: int) -> bool {
    !left_gt(txouts[k - 1], htlcs[k - 1], txouts[k], htlcs[k])
}
pub open spec fn indices_ascending(s: Seq<HTLCOutputInCommitment>) -> bool {
    forall|a: int, b: int| 0 <= a < b < s.len() ==> (#[trigger] s[a]).transaction_output_index->Some_0 < (#[trigger] s[b]).transaction_output_index->Some_0
}
pub proof fn lemma_ascending(s: Seq<HTLCOutputInCommitment>, a: int, b: int) requires indices_ascending(s), 0 <= a <= b < s.len()
    ensures s[a].transaction_output_index->Some_0 <= s[b].transaction_output_index->Some_0 {}
pub open spec fn same_but_index(a: HTLCOutputInCommitment, b: HTLCOutputInCommitment) -> bool {
    a.offered == b.offered && a.amount_msat == b.amount_msat && a.cltv_expiry == b.cltv_expiry && a.payment_hash == b.payment_hash }
pub open spec fn shifted(i: u32, idx: usize) -> u32 { if i >= idx { (i + 1) as u32 } else { i } }
pub open spec fn was_visited(k: int, visited: int, n: int, backwards: bool) -> bool { if backwards { k >= n - visited } else { k < visited } }
pub struct CommitmentTransaction {}
impl CommitmentTransaction {
//@extract lightning/src/ln/chan_utils.rs :: impl CommitmentTransaction :: fn is_left_greater
//@ret r
//@requires
    1 <= i < txouts.len(), txouts.len() == nondust_htlcs.len(),
//@ensures P C01 htlc-outputs-are-compared-in-bolt3-order-value-then-script-then-cltv-expiry
    r == left_gt(txouts@[i - 1], nondust_htlcs@[i - 1], txouts@[i as int], nondust_htlcs@[i as int]),
//@mutant cltv_compared_before_script
    .then(txouts[i - 1].script_pubkey.cmp(&txouts[i].script_pubkey)) .then(nondust_htlcs[i - 1].cltv_expiry.cmp(&nondust_htlcs[i].cltv_expiry))
//@with
    .then(nondust_htlcs[i - 1].cltv_expiry.cmp(&nondust_htlcs[i].cltv_expiry)) .then(txouts[i - 1].script_pubkey.cmp(&txouts[i].script_pubkey))
//@end
//@extract lightning/src/ln/chan_utils.rs :: impl CommitmentTransaction :: fn build_htlc_outputs
//@rw R6
    in nondust_htlcs {
//@with
    in nondust_htlcs.iter() {
//@ret r
//@requires
    nondust_htlcs.len() <= 100_000,
//@ensures P C01 every-non-dust-htlc-gets-one-output-of-its-own-amount-and-script
    paired(r@, nondust_htlcs@, *channel_type, *keys),
//@loop 1 iter=it
    invariant it.seq().len() == nondust_htlcs@.len(), forall|k: int| 0 <= k < nondust_htlcs@.len() ==> *it.seq()[k] == nondust_htlcs@[k],
        txouts@.len() == it.index@,
        forall|k: int| 0 <= k < it.index@ ==> #[trigger] txouts@[k] == txout_of(nondust_htlcs@[k], *channel_type, *keys),
//@mutant output_carries_the_msat_amount
    value: htlc.to_bitcoin_amount(),
//@with
    value: Amount::from_sat(htlc.amount_msat),
//@end
//@extract lightning/src/ln/chan_utils.rs :: impl CommitmentTransaction :: fn build_sorted_htlc_outputs
//@rw R10
    &nondust_htlcs)
//@with
    &*nondust_htlcs)
//@ret r
//@requires
    old(nondust_htlcs).len() <= 100_000,
//@ensures P C01 sorting-the-htlc-outputs-keeps-every-htlc-paired-with-its-own-output-loses-or-duplicates-none-and-yields-bolt3-order
    paired(r@, final(nondust_htlcs)@, *channel_type, *keys),
    final(nondust_htlcs)@.to_multiset() =~= old(nondust_htlcs)@.to_multiset(),
    in_order(r@, final(nondust_htlcs)@),
//@loop 1 iter=it
    invariant
        it.iter.end == txouts@.len(), 1 <= it.iter.start, it.index@ + 1 == it.iter.start,
        txouts@.len() == old(nondust_htlcs)@.len(), nondust_htlcs@.len() == old(nondust_htlcs)@.len(),
        paired(txouts@, nondust_htlcs@, *channel_type, *keys),
        nondust_htlcs@.to_multiset() =~= old(nondust_htlcs)@.to_multiset(),
        forall|k: int| 1 <= k < it.iter.start && k < txouts@.len() ==> #[trigger] ok_at(txouts@, nondust_htlcs@, k),
//@loop 2
    invariant
        0 <= j <= i < txouts@.len(), txouts@.len() == old(nondust_htlcs)@.len(), nondust_htlcs@.len() == old(nondust_htlcs)@.len(),
        paired(txouts@, nondust_htlcs@, *channel_type, *keys),
        nondust_htlcs@.to_multiset() =~= old(nondust_htlcs)@.to_multiset(),
        forall|k: int| 1 <= k <= i && k != j && k != j + 1 ==> #[trigger] ok_at(txouts@, nondust_htlcs@, k),
        0 < j < i ==> !left_gt(txouts@[j - 1], nondust_htlcs@[j - 1], txouts@[j + 1], nondust_htlcs@[j + 1]),
        j < i ==> ok_at(txouts@, nondust_htlcs@, j + 1),
    decreases j,
//@at loop_body_start 2
    let ghost t0 = txouts@; let ghost h0 = nondust_htlcs@;
//@at loop_body_end 2
    proof {
        lemma_swap_multiset(h0, j as int, j as int + 1);
        if j >= 1 { assert(ok_at(t0, h0, j as int)); }
        assert forall|k: int| 1 <= k <= i && k != j && k != j + 1 implies #[trigger] ok_at(txouts@, nondust_htlcs@, k) by {
            if k == j + 2 { } else { assert(ok_at(t0, h0, k)); }
        }
    }
//@mutant htlc_data_not_moved_with_its_output
    nondust_htlcs.swap(j - 1, j);
//@with
    
//@mutant sort_stops_one_short
    while j > 0 &&
//@with
    while j > 1 &&
//@end
//@extract lightning/src/ln/chan_utils.rs :: impl CommitmentTransaction :: fn insert_non_htlc_outputs
//@rw R5
    fn insert_non_htlc_outputs<F>( $params:any mut insert_non_htlc_output: F, ) where F: FnMut(TxOut), {
//@with
    fn insert_non_htlc_outputs( $params out: &mut Vec<TxOut>, ) {
//@rw * R5
    insert_non_htlc_output(
//@with
    out.push(
//@requires
    old(out)@.len() == 0,
    channel_parameters.ct.zfc ==> channel_parameters.value >= nondust_htlcs_value_sum_sat.0 + to_broadcaster_value_sat.0 + to_countersignatory_value_sat.0,
//@ensures P C01 the-non-htlc-outputs-are-the-two-balances-that-are-non-zero-the-anchors-bolt3-prescribes-and-nothing-else
    final(out)@.to_multiset() =~= non_htlc_outputs(*keys, to_broadcaster_value_sat.0, to_countersignatory_value_sat.0, *channel_parameters, nondust_htlcs_value_sum_sat.0).to_multiset(),
//@at body_start
    broadcast use vstd::seq_lib::group_to_multiset_ensures;
    proof { lemma_non_htlc_multiset(*keys, to_broadcaster_value_sat.0, to_countersignatory_value_sat.0, *channel_parameters, nondust_htlcs_value_sum_sat.0); }
//@mutant counterparty_balance_output_dropped_at_exactly_one_sat
    if to_countersignatory_value_sat > Amount::ZERO {
//@with
    if to_countersignatory_value_sat > Amount::from_sat(1) {
//@mutant broadcaster_anchor_without_any_output_to_protect
    if to_broadcaster_value_sat > Amount::ZERO || tx_has_htlc_outputs {
//@with
    if to_broadcaster_value_sat > Amount::ZERO || !tx_has_htlc_outputs {
//@mutant shared_anchor_takes_the_larger
    cmp::min(Amount::from_sat(P2A_MAX_VALUE), trimmed_sum_sat)
//@with
    cmp::max(Amount::from_sat(P2A_MAX_VALUE), trimmed_sum_sat)
//@end
//@extract lightning/src/ln/chan_utils.rs :: impl CommitmentTransaction :: fn build_outputs_and_htlcs
//@slice R15
    nondust_htlcs .iter_mut() $dir:any .map_while(|htlc| { let i = htlc.transaction_output_index.as_mut().unwrap(); ($cond:seq).then(|| i) }) .for_each(|i| $f:seq);
//@with
    fn shift_htlc_indices_after_insert(nondust_htlcs: &mut Vec<HTLCOutputInCommitment>, idx: usize) {
        // R6: `v.iter_mut() D .map_while(|htlc| { let i = <index of htlc>; (C).then(|| i) }).for_each(|i| F)` is the loop that visits the
        // elements in the direction D (`.rev()`: from the last one down; nothing: from the first one up), runs F on the index while C holds and
        // stops at the first element for which C fails (definition of map_while)
        let ghost old_v = nondust_htlcs@;
        let n = nondust_htlcs.len();
        let backwards: bool = walk_is_reversed!($dir);
        let mut visited: usize = 0;
        while visited < n
            invariant
                nondust_htlcs@.len() == n, old_v.len() == n, visited <= n, idx < 0xffff_0000, indices_ascending(old_v),
                forall|k: int| 0 <= k < n ==> (#[trigger] old_v[k]).transaction_output_index is Some && old_v[k].transaction_output_index->Some_0 < 0xffff_0000,
                forall|k: int| 0 <= k < n ==> (#[trigger] nondust_htlcs@[k]).transaction_output_index is Some,
                forall|k: int| 0 <= k < n ==> same_but_index(#[trigger] nondust_htlcs@[k], old_v[k]),
                // the elements already visited were all at or above idx and have been shifted; the others are untouched
                forall|k: int| 0 <= k < n && was_visited(k, visited as int, n as int, backwards) ==> old_v[k].transaction_output_index->Some_0 >= idx && (#[trigger] nondust_htlcs@[k]).transaction_output_index->Some_0 == old_v[k].transaction_output_index->Some_0 + 1,
                forall|k: int| 0 <= k < n && !was_visited(k, visited as int, n as int, backwards) ==> (#[trigger] nondust_htlcs@[k]).transaction_output_index == old_v[k].transaction_output_index,
            ensures
                nondust_htlcs@.len() == n,
                forall|k: int| 0 <= k < n ==> same_but_index(#[trigger] nondust_htlcs@[k], old_v[k]),
                forall|k: int| 0 <= k < n ==> (#[trigger] nondust_htlcs@[k]).transaction_output_index is Some,
                backwards ==> forall|k: int| 0 <= k < n ==> (#[trigger] nondust_htlcs@[k]).transaction_output_index->Some_0 == shifted(old_v[k].transaction_output_index->Some_0, idx),
            decreases n - visited
        {
            let pos: usize = if backwards { n - 1 - visited } else { visited };
            let mut cur: u32 = nondust_htlcs[pos].transaction_output_index.unwrap();
            let keep_going: bool;
            {
                let i = &mut cur;
                if $cond { $f; keep_going = true; } else { keep_going = false; }
            }
            if !keep_going {
                proof { if backwards { assert forall|k: int| 0 <= k <= pos implies old_v[k].transaction_output_index->Some_0 < idx by { lemma_ascending(old_v, k, pos as int); } } }
                break;
            }
            let mut e = nondust_htlcs[pos];
            e.transaction_output_index = Some(cur);
            nondust_htlcs.set(pos, e);
            visited = visited + 1;
        }
    }
//@requires
    idx < 0xffff_0000, indices_ascending(old(nondust_htlcs)@),
    forall|k: int| 0 <= k < old(nondust_htlcs)@.len() ==> (#[trigger] old(nondust_htlcs)@[k]).transaction_output_index is Some && old(nondust_htlcs)@[k].transaction_output_index->Some_0 < 0xffff_0000,
//@ensures P C01 after-a-non-htlc-output-is-inserted-every-htlc-whose-output-sat-at-or-above-the-insertion-point-names-the-next-index-and-every-other-htlc-keeps-its-index
    final(nondust_htlcs)@.len() == old(nondust_htlcs)@.len(),
    forall|k: int| 0 <= k < old(nondust_htlcs)@.len() ==> same_but_index(#[trigger] final(nondust_htlcs)@[k], old(nondust_htlcs)@[k])
        && final(nondust_htlcs)@[k].transaction_output_index == Some(shifted(old(nondust_htlcs)@[k].transaction_output_index->Some_0, idx)),
//@mutant htlc_indices_walked_from_the_low_end
    .iter_mut() .rev() .map_while(
//@with
    .iter_mut() .map_while(
//@end
}
}
fn main() {}
