//! unit: u18d
//! properties: C18
//! note: BOLT-12 amounts: the set of amounts an offer / refund builder accepts is the set its parser accepts (an amount a builder lets through must parse back, and the parser must not admit what no builder can produce): offers 1..=MAX_VALUE_MSAT, refunds 0..=MAX_VALUE_MSAT
//! trusted: R15 (deep slices): the refusal condition of (a) `build` in macro offer_builder_methods (the guard of the `Some(Amount::Bitcoin { amount_msats })` arm), (b) the `(None, Some(amount_msats)) if ..` arm of TryFrom<FullOfferTlvStream> for OfferContents, (c) RefundBuilder::new and (d) RefundBuilder::deriving_signing_pubkey (macros refund_explicit_metadata_builder_methods / refund_builder_methods), (e) the `Some(amount_msats) if ..` arm of TryFrom<RefundTlvStream> for RefundContents, each verbatim as the body of a bool function of the amount; everything else of the five functions is dropped and not claimed (currency amounts, descriptions, chains, paths, metadata)
//! trusted: the statement that the refusing branch returns Err(InvalidAmount) and the accepting one continues is carried by the anchors of the slices (the `return Err(Bolt12SemanticError::InvalidAmount)` that follows each condition is part of the pattern)
//! trusted: assume_specification for core::cmp::max / core::cmp::min (std definitions): present in every unit so that a change that introduces them is verified instead of being rejected by the tool
use vstd::prelude::*;
verus! {
use vstd::std_specs::cmp::*;
use core::cmp;
pub assume_specification<T: core::cmp::Ord>[core::cmp::max::<T>](a: T, b: T) -> (r: T)
    ensures T::obeys_cmp_spec() ==> r == (if b.cmp_spec(&a) == core::cmp::Ordering::Less { a } else { b });
pub assume_specification<T: core::cmp::Ord>[core::cmp::min::<T>](a: T, b: T) -> (r: T)
    ensures T::obeys_cmp_spec() ==> r == (if b.cmp_spec(&a) == core::cmp::Ordering::Less { b } else { a });
//@const lightning/src/ln/msgs.rs MAX_VALUE_MSAT
pub open spec fn offer_amount_ok(a: u64) -> bool { 1 <= a <= 21_000_000u64 * 1_0000_0000u64 * 1000u64 }
pub open spec fn refund_amount_ok(a: u64) -> bool { a <= 21_000_000u64 * 1_0000_0000u64 * 1000u64 }

//@extract lightning/src/offers/offer.rs :: macro_rules offer_builder_methods
//@slice R15
    Some(Amount::Bitcoin { amount_msats }) => { if $c:cond { return Err(Bolt12SemanticError::InvalidAmount); } },
//@with
    fn offer_builder_refuses_amount(amount_msats: u64) -> bool { $c }
//@ret r
//@ensures P C18 the-offer-builder-refuses-exactly-the-amounts-outside-1..=MAX_VALUE_MSAT
    r == !offer_amount_ok(amount_msats),
//@mutant builder_admits_zero
    amount_msats == 0 ||
//@with
    amount_msats == u64::MAX ||
//@end

//@extract lightning/src/offers/offer.rs :: impl TryFrom<FullOfferTlvStream> for OfferContents :: fn try_from
//@slice R15
    (None, Some(amount_msats)) if $c:cond => { return Err(Bolt12SemanticError::InvalidAmount); }, (None, Some(amount_msats)) => Some(Amount::Bitcoin { amount_msats }),
//@with
    fn offer_parser_refuses_amount(amount_msats: u64) -> bool { $c }
//@ret r
//@ensures P C18 the-offer-parser-refuses-exactly-the-amounts-the-builder-refuses-so-every-built-offer-parses-back
    r == !offer_amount_ok(amount_msats),
//@mutant parser_refuses_the_maximum
    amount_msats > MAX_VALUE_MSAT
//@with
    amount_msats >= MAX_VALUE_MSAT
//@end

//@extract lightning/src/offers/refund.rs :: macro_rules refund_explicit_metadata_builder_methods
//@slice R15
    if $c:cond { return Err(Bolt12SemanticError::InvalidAmount); } let metadata = Metadata::Bytes(metadata);
//@with
    fn refund_builder_new_refuses_amount(amount_msats: u64) -> bool { $c }
//@ret r
//@ensures P C18 the-refund-builder-refuses-exactly-the-amounts-above-MAX_VALUE_MSAT
    r == !refund_amount_ok(amount_msats),
//@end

//@extract lightning/src/offers/refund.rs :: macro_rules refund_builder_methods
//@slice R15
    if $c:cond { return Err(Bolt12SemanticError::InvalidAmount); } let payment_id = Some(payment_id);
//@with
    fn refund_builder_derived_refuses_amount(amount_msats: u64) -> bool { $c }
//@ret r
//@ensures P C18 the-refund-builder-with-a-derived-key-refuses-exactly-the-amounts-above-MAX_VALUE_MSAT
    r == !refund_amount_ok(amount_msats),
//@end

//@extract lightning/src/offers/refund.rs :: impl TryFrom<RefundTlvStream> for RefundContents :: fn try_from
//@slice R15
    Some(amount_msats) if $c:cond => { return Err(Bolt12SemanticError::InvalidAmount); }, Some(amount_msats) => amount_msats,
//@with
    fn refund_parser_refuses_amount(amount_msats: u64) -> bool { $c }
//@ret r
//@ensures P C18 the-refund-parser-refuses-exactly-the-amounts-the-builder-refuses-so-every-built-refund-parses-back
    r == !refund_amount_ok(amount_msats),
//@mutant refund_parser_refuses_the_maximum
    amount_msats > MAX_VALUE_MSAT
//@with
    amount_msats >= MAX_VALUE_MSAT
//@end
}
fn main() {}
