//! unit: u01s
//! properties: C01
//! note: the value of the HTLC outputs that CommitmentTransaction::build_outputs_and_htlcs (building) and rebuild_transaction (verifying a counterparty's) hand to insert_non_htlc_outputs - from which the shared P2A anchor of a zero-fee-commitment channel gets what is left of the channel value (u01n): it is the SUM OF THE OUTPUT VALUES, each HTLC's amount rounded down to whole satoshis on its own (to_bitcoin_amount, as its output is built), not the rounded sum of the amounts; with the latter the sub-satoshi remainders of several HTLCs add up to whole satoshis that appear in no output, and the commitment transaction of a zero-fee channel pays a miner fee out of the channel value
//! trusted: R15 (deep slices): the statement `let nondust_htlcs_value_sum_sat = ..;` of each of the two functions, verbatim; R6: `LIST.iter().map(|htlc| F).sum()` (a sum of Amounts) and `LIST.iter().map(|htlc| F).sum::<u64>()` (a sum of integers) are index loops adding F of each element, F verbatim (both shapes are read so that a sum taken over other quantities is verified, not rejected by the tool; the integer sum wraps like the release build's); env: HTLCOutputInCommitment field skeleton, Amount(u64) with from_sat; to_bitcoin_amount extracted
//! assume: the HTLC amounts of one commitment sum to less than 2^64 msat (they are bounded by the channel value, at most 21 million bitcoin)
//! trusted: assume_specification for core::cmp::max / core::cmp::min (std definitions): present in every unit so that a change that introduces them is verified instead of being rejected by the tool
use vstd::prelude::*;
verus! {
use vstd::std_specs::cmp::*;
use core::cmp;
pub assume_specification<T: core::cmp::Ord>[core::cmp::max::<T>](a: T, b: T) -> (r: T)
    ensures T::obeys_cmp_spec() ==> r == (if b.cmp_spec(&a) == core::cmp::Ordering::Less { a } else { b });
pub assume_specification<T: core::cmp::Ord>[core::cmp::min::<T>](a: T, b: T) -> (r: T)
    ensures T::obeys_cmp_spec() ==> r == (if b.cmp_spec(&a) == core::cmp::Ordering::Less { b } else { a });
#[derive(Clone, Copy)] pub struct Amount(pub u64);
impl Amount { pub const fn from_sat(s: u64) -> (r: Amount) ensures r.0 == s { Amount(s) } }
#[derive(Clone, Copy)] pub struct HTLCOutputInCommitment { pub offered: bool, pub amount_msat: u64, pub cltv_expiry: u32 }
pub open spec fn outputs_value(s: Seq<HTLCOutputInCommitment>) -> int decreases s.len() { if s.len() == 0 { 0 } else { outputs_value(s.drop_last()) + (s.last().amount_msat / 1000) as int } }
pub open spec fn amounts_msat(s: Seq<HTLCOutputInCommitment>) -> int decreases s.len() { if s.len() == 0 { 0 } else { amounts_msat(s.drop_last()) + s.last().amount_msat as int } }
pub proof fn lemma_outputs_below_amounts(s: Seq<HTLCOutputInCommitment>) ensures 0 <= outputs_value(s) <= amounts_msat(s) decreases s.len() { if s.len() > 0 { lemma_outputs_below_amounts(s.drop_last()); } }
impl HTLCOutputInCommitment {
//@extract lightning/src/ln/chan_utils.rs :: impl HTLCOutputInCommitment :: fn to_bitcoin_amount
//@ret r
//@ensures A the-output-of-an-htlc-carries-its-amount-rounded-down-to-whole-satoshis
    r.0 == self.amount_msat / 1000,
//@end
}
pub proof fn lemma_take_below(s: Seq<HTLCOutputInCommitment>, k: int) requires 0 <= k <= s.len() ensures amounts_msat(s.take(k)) <= amounts_msat(s) decreases s.len() - k
{ if k < s.len() { lemma_take_below(s, k + 1); assert(s.take(k + 1).drop_last() =~= s.take(k)); } else { assert(s.take(k) =~= s); } }
//@extract lightning/src/ln/chan_utils.rs :: impl CommitmentTransaction :: fn build_outputs_and_htlcs
//@slice R15
    let nondust_htlcs_value_sum_sat = $e:seq;
//@with
    fn value_of_the_htlc_outputs_when_building(nondust_htlcs: &Vec<HTLCOutputInCommitment>) -> Amount { let nondust_htlcs_value_sum_sat = $e; nondust_htlcs_value_sum_sat }
//@rw R6 ?
    nondust_htlcs.iter().map(|htlc| $f:seq).sum()
//@with
    { let mut __s: u64 = 0; let mut __k: usize = 0;
      while __k < nondust_htlcs.len() invariant __k <= nondust_htlcs@.len(), amounts_msat(nondust_htlcs@) < 0x1_0000_0000_0000_0000, __s as int == outputs_value(nondust_htlcs@.take(__k as int)), decreases nondust_htlcs@.len() - __k
      { let htlc = &nondust_htlcs[__k]; let __a: Amount = $f;
        proof { assert(nondust_htlcs@.take(__k as int + 1).drop_last() =~= nondust_htlcs@.take(__k as int)); lemma_outputs_below_amounts(nondust_htlcs@.take(__k as int + 1)); lemma_take_below(nondust_htlcs@, __k as int + 1); }
        __s = __s + __a.0; __k = __k + 1; }
      proof { assert(nondust_htlcs@.take(__k as int) =~= nondust_htlcs@); }
      Amount(__s) }
//@rw R6 ?
    nondust_htlcs.iter().map(|htlc| $f:seq).sum::<u64>()
//@with
    { let mut __s: u64 = 0; let mut __k: usize = 0;
      while __k < nondust_htlcs.len() invariant __k <= nondust_htlcs@.len(), decreases nondust_htlcs@.len() - __k
      { let htlc = &nondust_htlcs[__k]; let __a: u64 = $f; __s = __s.wrapping_add(__a); __k = __k + 1; }
      __s }
//@ret r
//@requires
    amounts_msat(nondust_htlcs@) < 0x1_0000_0000_0000_0000,
//@ensures P C01 the-value-the-shared-anchor-is-computed-from-is-the-sum-of-the-htlc-outputs-each-amount-rounded-down-on-its-own
    r.0 as int == outputs_value(nondust_htlcs@),
//@mutant anchor_value_from_amounts_summed_before_rounding
    nondust_htlcs.iter().map(|htlc| htlc.to_bitcoin_amount()).sum()
//@with
    Amount::from_sat(nondust_htlcs.iter().map(|htlc| htlc.amount_msat).sum::<u64>() / 1000)
//@end
pub struct CommitmentTransaction { pub nondust_htlcs: Vec<HTLCOutputInCommitment> }
impl CommitmentTransaction {
//@extract lightning/src/ln/chan_utils.rs :: impl CommitmentTransaction :: fn rebuild_transaction
//@slice R15
    let nondust_htlcs_value_sum_sat = $e:seq;
//@with
    fn value_of_the_htlc_outputs_when_verifying(&self) -> Amount { let nondust_htlcs_value_sum_sat = $e; nondust_htlcs_value_sum_sat }
//@rw R6 ?
    self.nondust_htlcs.iter().map(|htlc| $f:seq).sum()
//@with
    { let mut __s: u64 = 0; let mut __k: usize = 0;
      while __k < self.nondust_htlcs.len() invariant __k <= self.nondust_htlcs@.len(), amounts_msat(self.nondust_htlcs@) < 0x1_0000_0000_0000_0000, __s as int == outputs_value(self.nondust_htlcs@.take(__k as int)), decreases self.nondust_htlcs@.len() - __k
      { let htlc = &self.nondust_htlcs[__k]; let __a: Amount = $f;
        proof { assert(self.nondust_htlcs@.take(__k as int + 1).drop_last() =~= self.nondust_htlcs@.take(__k as int)); lemma_outputs_below_amounts(self.nondust_htlcs@.take(__k as int + 1)); lemma_take_below(self.nondust_htlcs@, __k as int + 1); }
        __s = __s + __a.0; __k = __k + 1; }
      proof { assert(self.nondust_htlcs@.take(__k as int) =~= self.nondust_htlcs@); }
      Amount(__s) }
//@rw R6 ?
    self.nondust_htlcs.iter().map(|htlc| $f:seq).sum::<u64>()
//@with
    { let mut __s: u64 = 0; let mut __k: usize = 0;
      while __k < self.nondust_htlcs.len() invariant __k <= self.nondust_htlcs@.len(), decreases self.nondust_htlcs@.len() - __k
      { let htlc = &self.nondust_htlcs[__k]; let __a: u64 = $f; __s = __s.wrapping_add(__a); __k = __k + 1; }
      __s }
//@ret r
//@requires
    amounts_msat(self.nondust_htlcs@) < 0x1_0000_0000_0000_0000,
//@ensures P C01 a-counterpartys-commitment-is-rebuilt-with-the-same-sum-of-output-values
    r.0 as int == outputs_value(self.nondust_htlcs@),
//@end
}
}
fn main() {}
