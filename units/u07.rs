//! unit: u07
//! properties: C07 C06 C08
//! note: on-chain claim fee bumping: compute_fee_from_spent_amounts / feerate_bump (package.rs) and the fee-estimator floor wrapper (chaininterface.rs)
//! trusted: assume_specification for core::cmp::max / core::cmp::min / Result::unwrap_or (std definitions); trait FeeEstimator is reduced to get_est_sat_per_1000_weight with an unconstrained result (any estimator); trait Logger empty (R3 removes log statements)
//! assume: compute_package_feerate: the fee estimator never returns more than u32::MAX/5 = 858_993_459 sat/kW (`feerate_estimate * 5` is computed in u32; observation O4 in DESIGN)
//! trusted: payload structs of PackageSolvingData (RevokedOutput, ... HolderHTLCOutput) are skeletons keeping the fields the code reads; PackageSolvingData::amount() is external_body with an uninterpreted result; BitcoinOutPoint opaque; AggregationCluster is extracted, its derived == is modelled as structural equality
//! trusted: R15 (deep slice): handle_channel_close (async, wallet coin selection, PSBTs): the unit extracts the test that decides whether the pre-signed commitment is broadcast as is, verbatim, as a function of (commitment weight, its fee, the target feerate), checked against the proved contract of compute_feerate_sat_per_1000_weight; and, as a second slice with captures, the statements that build the fee-credited copy of the anchor output for coin selection and the statement that records the anchor's previous output in the PSBT the wallet signs (bitcoin::Amount `+=` written as a checked add on a u64 stub, R8); coin selection and the rest of the anchor transaction are dropped and not claimed; Transaction/Weight/TxOut/AnchorDescriptor are stubs
//! trusted: R6: in merge_package `for (k, v) in merge_from.inputs.drain(..) { self.inputs.push((k, v)); }` becomes `self.inputs.append(&mut merge_from.inputs)` (same effect on both vectors); R5: the `mut` by-value parameter is rebound to a local
//! trusted: R6: `.iter().find_map(|(_, outp)| V)` and `.iter().filter_map(|(_, outp)| V).max()` in PackageTemplate::signed_locktime / package_locktime become index loops carrying V verbatim
//! assume: HolderHTLCOutput invariant (preimage is Some ==> cltv_expiry == 0, established by its constructors, checked by a debug_assert in the source); PackageTemplate::signed_locktime is extracted with cfg(debug_assertions) off (its debug-only consistency loop is dropped)
//! trusted: can_merge_with is extracted with release semantics: the cfg(debug_assertions) consistency loops and the `debug_assert!(false, ..)` on its defensive different-tx-tree branch are dropped (the branch itself, returning false, is kept and verified)
//! assume: heights and CLTV expiries <= 2^31-1; total claimable value of a package <= 21e14 sat; compute_package_output is called with input_amounts >= dust_limit_sats for the "never above the inputs" clause (observation O3 in DESIGN)
//! assume: 100 <= predicted_weight <= 4_000_000; input_amounts <= 21e14 sat; 1 <= previous_feerate <= 2^32-1; dust_limit_sats >= 1 (the caller asserts it)
use vstd::prelude::*;
verus! {
use vstd::std_specs::cmp::*;
use core::cmp;
pub assume_specification<T: core::cmp::Ord>[core::cmp::max::<T>](a: T, b: T) -> (r: T)
    ensures T::obeys_cmp_spec() ==> r == (if b.cmp_spec(&a) == core::cmp::Ordering::Less { a } else { b });
pub assume_specification<T: core::cmp::Ord>[core::cmp::min::<T>](a: T, b: T) -> (r: T)
    ensures T::obeys_cmp_spec() ==> r == (if b.cmp_spec(&a) == core::cmp::Ordering::Less { b } else { a });
pub assume_specification<T, E>[core::result::Result::<T, E>::unwrap_or](r: Result<T, E>, d: T) -> (o: T)
    ensures o == (match r { Ok(v) => v, Err(_) => d });
//@const lightning/src/chain/chaininterface.rs INCREMENTAL_RELAY_FEE_SAT_PER_1000_WEIGHT FEERATE_FLOOR_SATS_PER_KW
//@extract lightning/src/chain/chaininterface.rs :: enum ConfirmationTarget
//@end
//@extract lightning/src/chain/onchaintx.rs :: enum FeerateStrategy
//@end
pub trait Logger {}
pub trait FeeEstimator {
    // the largest value this estimator ever returns (unconstrained: any estimator; only compute_package_feerate bounds it)
    spec fn max_est(&self) -> u32;
    fn get_est_sat_per_1000_weight(&self, confirmation_target: ConfirmationTarget) -> (r: u32) ensures r <= self.max_est();
}
//@extract lightning/src/chain/chaininterface.rs :: struct LowerBoundedFeeEstimator
//@end
impl<F: FeeEstimator> LowerBoundedFeeEstimator<F> {
//@extract lightning/src/chain/chaininterface.rs :: impl LowerBoundedFeeEstimator :: fn bounded_sat_per_1000_weight
//@ret r
//@ensures A estimator-result-never-below-the-floor
    r >= FEERATE_FLOOR_SATS_PER_KW, r <= self.0.max_est() || r == FEERATE_FLOOR_SATS_PER_KW
//@end
}

//@extract lightning/src/chain/chaininterface.rs :: fn compute_feerate_sat_per_1000_weight
//@ret r
//@requires
    weight > 0, fee_sat <= 21_000_000_0000_0000,
//@ensures A
    r as int == (if fee_sat as int * 1000 / weight as int > u32::MAX { u32::MAX as int } else { fee_sat as int * 1000 / weight as int })
//@end

// ---- anchor channels: is the pre-signed commitment's own fee enough, or must it be bumped through its anchor (deep R15 slice of BumpTransactionEventHandler::handle_channel_close) ----
pub struct WeightStub { pub wu: u64 }
impl WeightStub { #[verifier::external_body] pub fn to_wu(&self) -> (r: u64) ensures r == self.wu { unimplemented!() } }
pub struct TransactionStub { pub w: WeightStub }
impl TransactionStub { #[verifier::external_body] pub fn weight(&self) -> (r: WeightStub) ensures r == self.w { unimplemented!() } }
//@extract lightning/src/events/bump_transaction/mod.rs :: impl BumpTransactionEventHandler :: fn handle_channel_close
//@slice R15
    let commitment_tx_feerate_sat_per_1000_weight = $fr; if $c:cond { $b:any return Ok(()); }
//@with
    fn commitment_needs_no_bump(commitment_tx: &TransactionStub, commitment_tx_fee_sat: u64, package_target_feerate_sat_per_1000_weight: u32) -> bool {
        let commitment_tx_feerate_sat_per_1000_weight = $fr;
        $c
    }
//@ret r
//@requires
    commitment_tx.w.wu > 0, commitment_tx_fee_sat <= 21_000_000_0000_0000,
//@ensures P C07 a-commitment-is-broadcast-without-an-anchor-bump-only-if-its-own-feerate-already-meets-the-target
    r <==> (if commitment_tx_fee_sat as int * 1000 / commitment_tx.w.wu as int > u32::MAX { u32::MAX as int } else { commitment_tx_fee_sat as int * 1000 / commitment_tx.w.wu as int }) >= package_target_feerate_sat_per_1000_weight,
//@mutant underpaying_commitment_broadcast_unbumped
    commitment_tx_feerate_sat_per_1000_weight >= package_target_feerate_sat_per_1000_weight
//@with
    commitment_tx_feerate_sat_per_1000_weight * 2 >= package_target_feerate_sat_per_1000_weight
//@end

// ---- anchor bump: coin selection sees the anchor credited with the commitment's own fee, the wallet signs over the real previous output (R15 slice with captures of handle_channel_close) ----
#[derive(Clone, Copy)] pub struct Amount(pub u64);
impl Amount {
    pub fn from_sat(s: u64) -> (r: Amount) ensures r.0 == s { Amount(s) }
    pub fn plus(self, o: Amount) -> (r: Amount) requires self.0 + o.0 <= u64::MAX ensures r.0 == self.0 + o.0 { Amount(self.0 + o.0) }
}
#[derive(Clone, Copy)] pub struct TxOutStub { pub value: Amount, pub script: u64 }
pub struct AnchorDescriptor { pub prev: TxOutStub }
impl AnchorDescriptor { #[verifier::external_body] pub fn previous_utxo(&self) -> (r: TxOutStub) ensures r == self.prev { unimplemented!() } }
//@extract lightning/src/events/bump_transaction/mod.rs :: impl BumpTransactionEventHandler :: fn handle_channel_close
//@capture R15
    let mut anchor_utxo = $au; let commitment_tx_fee_sat = $cf; let commitment_tx_weight = $cw; anchor_utxo.value += $add;
//@slice R15
    anchor_psbt.inputs[0].witness_utxo = Some($w);
//@with
    fn anchor_input_values(anchor_descriptor: &AnchorDescriptor, commitment_tx_fee_sat_: u64) -> (TxOutStub, TxOutStub) {
        let commitment_tx_fee_sat = commitment_tx_fee_sat_;
        let mut anchor_utxo = $au;
        let commitment_tx_fee_sat = $cf;
        anchor_utxo.value = anchor_utxo.value.plus($add);   // R8: `anchor_utxo.value += X` on bitcoin::Amount
        (anchor_utxo.clone(), $w)
    }
//@ret r
//@requires
    anchor_descriptor.prev.value.0 + commitment_tx_fee_sat_ <= u64::MAX,
//@ensures P C07 the-anchor-child-is-signed-over-the-anchors-real-previous-output-while-coin-selection-credits-it-with-the-fee-the-commitment-already-pays
    r.0.value.0 == anchor_descriptor.prev.value.0 + commitment_tx_fee_sat_ && r.0.script == anchor_descriptor.prev.script,
    r.1 == anchor_descriptor.prev,
//@end

pub open spec fn valid_w(w: u64) -> bool { 100 <= w <= 4_000_000 }

//@extract lightning/src/chain/package.rs :: fn compute_fee_from_spent_amounts
//@ret r
//@requires
    valid_w(predicted_weight), input_amounts <= 21_000_000_0000_0000,
//@ensures A fee-is-rate-times-weight-and-at-most-half-the-inputs
    r is Some ==> ({ let (fee, rate) = r->Some_0;
        &&& rate >= FEERATE_FLOOR_SATS_PER_KW && rate <= u32::MAX
        &&& fee == rate * predicted_weight / 1000
        &&& fee <= input_amounts / 2 + 1 })
//@at before `let fee = fee_rate as u64`
    proof {
        assert(fee_rate as int * predicted_weight as int <= 0xffff_ffff * 4_000_000) by (nonlinear_arith) requires 0 <= fee_rate <= 0xffff_ffff, 0 <= predicted_weight <= 4_000_000;
        let h = input_amounts as int / 2; let w = predicted_weight as int;
        assert(fee_rate as int <= h * 1000 / w);
        assert((h * 1000 / w) * w <= h * 1000) by (nonlinear_arith) requires w > 0, h >= 0;
        assert(fee_rate as int * w <= h * 1000) by (nonlinear_arith) requires fee_rate as int <= h * 1000 / w, (h * 1000 / w) * w <= h * 1000, w > 0, fee_rate >= 0;
    }
//@end

//@extract lightning/src/chain/package.rs :: fn feerate_bump
//@ret r
//@requires
    valid_w(predicted_weight), input_amounts <= 21_000_000_0000_0000, 1 <= previous_feerate <= u32::MAX, dust_limit_sats >= 1,
//@ensures P C07,C06 fees-are-raised-monotonically-real-bumps-respect-BIP125-and-never-go-into-dust
    r is Some ==> ({ let (fee, rate) = r->Some_0;
        let previous_fee = previous_feerate * predicted_weight / 1000;
        // (P) fees are raised monotonically
        &&& rate >= previous_feerate
        &&& fee >= previous_fee
        // (P) a real bump respects BIP125 rules 3 and 4 and never spends the output into dust
        &&& rate > previous_feerate ==> fee >= previous_fee + INCREMENTAL_RELAY_FEE_SAT_PER_1000_WEIGHT * predicted_weight / 1000
        &&& rate > previous_feerate ==> input_amounts - fee >= dust_limit_sats && fee <= input_amounts })
//@at body_start
    proof { assert(previous_feerate as int * predicted_weight as int <= 0xffff_ffff * 4_000_000) by (nonlinear_arith) requires 0 <= previous_feerate <= 0xffff_ffff, 0 <= predicted_weight <= 4_000_000; }
//@at before `let bumped_fee =`
    proof { assert(bumped_feerate as int * predicted_weight as int <= 2 * 0xffff_ffff * 4_000_000) by (nonlinear_arith) requires 0 <= bumped_feerate <= 2 * 0xffff_ffff, 0 <= predicted_weight <= 4_000_000; }
//@at before `let new_feerate = new_fee * 1000 / predicted_weight;`
    proof { lemma_rate_back(new_fee as int, previous_feerate as int, predicted_weight as int); }
//@mutant bip125_rule4_dropped
    cmp::max(new_fee, previous_fee + min_relay_fee)
//@with
    cmp::max(new_fee, previous_fee)
//@mutant dust_check_dropped
    if remaining_output_amount < dust_limit_sats {
//@with
    if remaining_output_amount < 0 {
//@mutant force_bump_lowers_feerate
    let bumped_feerate = previous_feerate + (previous_feerate / 4);
//@with
    let bumped_feerate = previous_feerate - (previous_feerate / 4);
//@end

// new_fee >= floor(pf*w/1000) + floor(253*w/1000) and w >= 100  ==>  floor(new_fee*1000/w) >= pf
pub proof fn lemma_rate_back(new_fee: int, pf: int, w: int)
    requires 100 <= w <= 4_000_000, 1 <= pf <= 0xffff_ffff, new_fee >= pf * w / 1000 + 253 * w / 1000, new_fee <= 18_446_744_073_709_551
    ensures new_fee * 1000 / w >= pf, new_fee * 1000 <= 0xffff_ffff_ffff_ffff
{
    assert(pf * w >= 0) by (nonlinear_arith) requires pf >= 0, w >= 0;
    let x = pf * w;
    vstd::arithmetic::div_mod::lemma_fundamental_div_mod(x, 1000);
    vstd::arithmetic::div_mod::lemma_mod_bound(x, 1000);
    assert(x / 1000 * 1000 >= x - 999);
    vstd::arithmetic::div_mod::lemma_fundamental_div_mod(253 * w, 1000);
    vstd::arithmetic::div_mod::lemma_mod_bound(253 * w, 1000);
    assert(253 * w / 1000 * 1000 >= 253 * w - 999);
    assert(253 * w - 999 - 999 >= 0);
    assert(new_fee * 1000 >= pf * w) by (nonlinear_arith)
        requires new_fee >= x / 1000 + 253 * w / 1000, x == pf * w, x / 1000 * 1000 >= x - 999, 253 * w / 1000 * 1000 >= 253 * w - 999, 253 * w - 1998 >= 0;
    assert(new_fee * 1000 / w >= pf) by (nonlinear_arith) requires new_fee * 1000 >= pf * w, w > 0;
}

// ---------- PackageTemplate methods ----------
//@const lightning/src/chain/package.rs LOW_FREQUENCY_BUMP_INTERVAL MIDDLE_FREQUENCY_BUMP_INTERVAL HIGH_FREQUENCY_BUMP_INTERVAL
//@const lightning/src/ln/channelmanager.rs MIN_CLTV_EXPIRY_DELTA
//@const lightning/src/chain/channelmonitor.rs COUNTERPARTY_CLAIMABLE_WITHIN_BLOCKS_PINNABLE
pub struct HTLCOutputInCommitment { pub cltv_expiry: u32 }
pub struct RevokedOutput {}
pub struct RevokedHTLCOutput {}
pub struct CounterpartyOfferedHTLCOutput { pub htlc: HTLCOutputInCommitment }
pub struct CounterpartyReceivedHTLCOutput { pub htlc: HTLCOutputInCommitment }
pub struct HolderHTLCOutput { pub preimage: Option<[u8; 32]>, pub cltv_expiry: u32 }
pub struct HolderFundingOutput {}
pub struct BitcoinOutPoint {}
//@extract lightning/src/chain/package.rs :: enum AggregationCluster
//@derive Clone Copy
//@end
impl vstd::std_specs::cmp::PartialEqSpecImpl for AggregationCluster { open spec fn obeys_eq_spec() -> bool { true } open spec fn eq_spec(&self, other: &AggregationCluster) -> bool { *self == *other } }
impl PartialEq for AggregationCluster { #[verifier::external_body] fn eq(&self, o: &AggregationCluster) -> (r: bool) { core::mem::discriminant(self) == core::mem::discriminant(o) } }
//@extract lightning/src/chain/package.rs :: enum PackageSolvingData
//@end
//@extract lightning/src/chain/package.rs :: enum PackageMalleability
//@derive Clone Copy
//@end
//@extract lightning/src/chain/package.rs :: struct PackageTemplate
//@end
pub uninterp spec fn amount_spec(d: PackageSolvingData) -> u64;
impl PackageSolvingData {
    #[verifier::external_body]
    fn amount(&self) -> (r: u64) ensures r == amount_spec(*self) { unimplemented!() }
//@extract lightning/src/chain/package.rs :: impl PackageSolvingData :: fn is_possibly_from_same_tx_tree
//@r7
//@ret r
//@ensures P C06,C07 claims-are-classed-by-the-commitment-they-spend-from-justice-counterparty-holder
    r == (tree_of(*self) == tree_of(*other)),
//@end
//@extract lightning/src/chain/package.rs :: impl PackageSolvingData :: fn minimum_locktime
//@ret r
//@ensures A only-claims-of-received-htlcs-on-the-counterpartys-commitment-are-timelocked
    r == min_lock_of(*self),
//@end
//@extract lightning/src/chain/package.rs :: impl PackageSolvingData :: fn signed_locktime
//@ret r
//@requires
    // type invariant of HolderHTLCOutput (its constructors): a success (preimage) claim is pre-signed with locktime 0
    holder_htlc_wf(*self),
//@ensures A pre-signed-holder-htlc-transactions-fix-their-locktime
    r == signed_lock_of(*self),
//@end
}
// which transaction tree an input spends from: 0 = a revoked counterparty commitment (justice), 1 = the counterparty's current commitment, 2 = ours
pub open spec fn tree_of(d: PackageSolvingData) -> int {
    match d {
        PackageSolvingData::RevokedOutput(_) => 0, PackageSolvingData::RevokedHTLCOutput(_) => 0,
        PackageSolvingData::CounterpartyOfferedHTLCOutput(_) => 1, PackageSolvingData::CounterpartyReceivedHTLCOutput(_) => 1,
        PackageSolvingData::HolderHTLCOutput(_) => 2, PackageSolvingData::HolderFundingOutput(_) => 2,
    }
}
pub open spec fn min_lock_of(d: PackageSolvingData) -> Option<u32> {
    match d { PackageSolvingData::CounterpartyReceivedHTLCOutput(o) => Some(o.htlc.cltv_expiry), _ => None }
}
pub open spec fn holder_htlc_wf(d: PackageSolvingData) -> bool {
    match d { PackageSolvingData::HolderHTLCOutput(o) => o.preimage is Some ==> o.cltv_expiry == 0, _ => true }
}
pub open spec fn signed_lock_of(d: PackageSolvingData) -> Option<u32> {
    match d { PackageSolvingData::HolderHTLCOutput(o) => Some(o.cltv_expiry), _ => None }
}
pub open spec fn sum_amounts(s: Seq<(BitcoinOutPoint, PackageSolvingData)>) -> int
    decreases s.len()
{ if s.len() == 0 { 0 } else { sum_amounts(s.drop_last()) + amount_spec(s.last().1) as int } }
pub proof fn lemma_sum_amounts_prefix(s: Seq<(BitcoinOutPoint, PackageSolvingData)>, i: int)
    requires 0 <= i <= s.len()
    ensures 0 <= sum_amounts(s.take(i)) <= sum_amounts(s),
            i < s.len() ==> sum_amounts(s.take(i + 1)) == sum_amounts(s.take(i)) + amount_spec(s[i].1) as int
    decreases s.len() - i
{
    if i < s.len() {
        assert(s.take(i + 1).drop_last() =~= s.take(i));
        lemma_sum_amounts_prefix(s, i + 1);
        lemma_nonneg(s.take(i));
    } else { assert(s.take(i) =~= s); lemma_nonneg(s); }
}
pub proof fn lemma_nonneg(s: Seq<(BitcoinOutPoint, PackageSolvingData)>)
    ensures sum_amounts(s) >= 0
    decreases s.len()
{ if s.len() > 0 { lemma_nonneg(s.drop_last()); } }

pub open spec fn input_sane(d: PackageSolvingData) -> bool {
    match d {
        PackageSolvingData::CounterpartyOfferedHTLCOutput(o) => o.htlc.cltv_expiry <= 0x7fff_ffff,
        PackageSolvingData::CounterpartyReceivedHTLCOutput(o) => o.htlc.cltv_expiry <= 0x7fff_ffff,
        PackageSolvingData::HolderHTLCOutput(o) => o.cltv_expiry <= 0x7fff_ffff,
        _ => true }
}
// the deadline (height by which the claim must confirm) of one input, as get_height_timer reads it
pub open spec fn deadline_of(d: PackageSolvingData, csh: u32) -> Option<int> {
    match d {
        PackageSolvingData::RevokedOutput(_) => Some(csh as int),
        PackageSolvingData::RevokedHTLCOutput(_) => None,
        PackageSolvingData::CounterpartyOfferedHTLCOutput(o) => Some(o.htlc.cltv_expiry as int),
        PackageSolvingData::CounterpartyReceivedHTLCOutput(o) => Some(o.htlc.cltv_expiry as int + MIN_CLTV_EXPIRY_DELTA as int),
        PackageSolvingData::HolderHTLCOutput(o) => if o.preimage is Some { Some(csh as int) } else { Some(o.cltv_expiry as int + MIN_CLTV_EXPIRY_DELTA as int) },
        PackageSolvingData::HolderFundingOutput(_) => Some(0),
    }
}
pub open spec fn pkg_wf(p: PackageTemplate) -> bool {
    &&& forall|k: int| 0 <= k < p.inputs@.len() ==> holder_htlc_wf(#[trigger] p.inputs@[k].1)
    &&& ((exists|k: int| 0 <= k < p.inputs@.len() && signed_lock_of(#[trigger] p.inputs@[k].1) is Some)
        ==> (forall|k: int| 0 <= k < p.inputs@.len() ==> min_lock_of(#[trigger] p.inputs@[k].1) is None))
}
// an output the counterparty can (or within COUNTERPARTY_CLAIMABLE_WITHIN_BLOCKS_PINNABLE blocks will be able to) spend as well
pub open spec fn pinnable(p: PackageTemplate, cur_height: u32) -> bool {
    p.malleability == PackageMalleability::Malleable(AggregationCluster::Pinnable)
        || p.counterparty_spendable_height as int <= cur_height + COUNTERPARTY_CLAIMABLE_WITHIN_BLOCKS_PINNABLE
}
impl PackageTemplate {
//@extract lightning/src/chain/package.rs :: impl PackageTemplate :: fn package_amount
//@ret r
//@requires
    sum_amounts(self.inputs@) <= 21_000_000_0000_0000,
//@ensures A package-amount-is-the-sum-of-input-amounts
    r as int == sum_amounts(self.inputs@)
//@loop 1 iter=it
    invariant amounts as int == sum_amounts(self.inputs@.take(it.index@ as int)), sum_amounts(self.inputs@) <= 21_000_000_0000_0000,
        it.seq().len() == self.inputs@.len(), forall|k: int| 0 <= k < self.inputs@.len() ==> *it.seq()[k] == self.inputs@[k],
//@at loop_body_start 1
    proof { lemma_sum_amounts_prefix(self.inputs@, it.index@ as int); lemma_sum_amounts_prefix(self.inputs@, it.index@ as int + 1); }
//@at after_loop 1
    proof { assert(self.inputs@.take(self.inputs@.len() as int) =~= self.inputs@); }
//@end

//@extract lightning/src/chain/package.rs :: impl PackageTemplate :: fn get_height_timer
//@ret r
//@requires
    current_height <= 0x7fff_ffff, self.counterparty_spendable_height <= 0x7fff_ffff,
    forall|k: int| 0 <= k < self.inputs@.len() ==> input_sane(#[trigger] self.inputs@[k].1),
//@ensures P C07,C06,C08 next-bump-is-in-the-future-at-most-15-blocks-away-and-every-block-when-a-deadline-is-within-3
    current_height < r <= current_height + LOW_FREQUENCY_BUMP_INTERVAL,
    r == current_height + 1 || r == current_height + 3 || r == current_height + 15,
    forall|k: int| 0 <= k < self.inputs@.len() && deadline_of(#[trigger] self.inputs@[k].1, self.counterparty_spendable_height) is Some
        && deadline_of(self.inputs@[k].1, self.counterparty_spendable_height)->Some_0 <= current_height + MIDDLE_FREQUENCY_BUMP_INTERVAL ==> r == current_height + HIGH_FREQUENCY_BUMP_INTERVAL,
//@rw R9
    let timer_for_target_conf = |$t:ident| -> u32 $body;
//@with
    let timer_for_target_conf = |$t: u32| -> (o: u32)
        requires $t <= 0x7fff_ffff + 48
        ensures o == current_height + 1 || o == current_height + 3 || o == current_height + 15,
            $t <= current_height + MIDDLE_FREQUENCY_BUMP_INTERVAL ==> o == current_height + HIGH_FREQUENCY_BUMP_INTERVAL
        $body;
//@loop 1 iter=it
    invariant current_height <= 0x7fff_ffff, self.counterparty_spendable_height <= 0x7fff_ffff,
        height_timer == current_height + 1 || height_timer == current_height + 3 || height_timer == current_height + 15,
        it.seq().len() == self.inputs@.len(), forall|k: int| 0 <= k < self.inputs@.len() ==> *it.seq()[k] == self.inputs@[k],
        forall|k: int| 0 <= k < self.inputs@.len() ==> input_sane(#[trigger] self.inputs@[k].1),
        forall|t: u32| t <= 0x7fff_ffff + 48 ==> timer_for_target_conf.requires((t,)),
        forall|t: u32, o: u32| timer_for_target_conf.ensures((t,), o) ==> (o == current_height + 1 || o == current_height + 3 || o == current_height + 15)
            && (t <= current_height + MIDDLE_FREQUENCY_BUMP_INTERVAL ==> o == current_height + HIGH_FREQUENCY_BUMP_INTERVAL),
        forall|k: int| 0 <= k < it.index@ && deadline_of(#[trigger] self.inputs@[k].1, self.counterparty_spendable_height) is Some
            && deadline_of(self.inputs@[k].1, self.counterparty_spendable_height)->Some_0 <= current_height + MIDDLE_FREQUENCY_BUMP_INTERVAL ==> height_timer == current_height + HIGH_FREQUENCY_BUMP_INTERVAL,
//@at loop_body_start 1
    proof { assert(self.inputs@[it.index@ as int].1 == *input); assert(input_sane(self.inputs@[it.index@ as int].1)); }
//@mutant urgent_inputs_not_bumped_every_block
    if target_conf <= current_height + MIDDLE_FREQUENCY_BUMP_INTERVAL { current_height + HIGH_FREQUENCY_BUMP_INTERVAL }
//@with
    if target_conf <= current_height + MIDDLE_FREQUENCY_BUMP_INTERVAL { current_height + MIDDLE_FREQUENCY_BUMP_INTERVAL }
//@mutant received_htlc_deadline_ignored
    timer_for_target_conf(outp.htlc.cltv_expiry + MIN_CLTV_EXPIRY_DELTA as u32),
//@with
    timer_for_target_conf(outp.htlc.cltv_expiry + 4 * MIN_CLTV_EXPIRY_DELTA as u32),
//@end

//@extract lightning/src/chain/package.rs :: impl PackageTemplate :: fn signed_locktime
//@cfg debug_assertions=false
//@ret r
//@requires
    forall|k: int| 0 <= k < self.inputs@.len() ==> holder_htlc_wf(#[trigger] self.inputs@[k].1),
//@ensures A the-first-pre-signed-locktime-among-the-inputs
    r is None <==> (forall|k: int| 0 <= k < self.inputs@.len() ==> signed_lock_of(#[trigger] self.inputs@[k].1) is None),
    r is Some ==> exists|k: int| 0 <= k < self.inputs@.len() && signed_lock_of(#[trigger] self.inputs@[k].1) == r,
//@rw R6
    self.inputs.iter().find_map(|(_, outp)| outp.signed_locktime())
//@with
    { // R6: self.inputs.iter().find_map(|(_, outp)| V)
        let mut __r: Option<u32> = None; let mut __i: usize = 0;
        while __i < self.inputs.len() && __r.is_none()
            invariant __i <= self.inputs@.len(), forall|k: int| 0 <= k < self.inputs@.len() ==> holder_htlc_wf(#[trigger] self.inputs@[k].1),
                __r is None ==> (forall|k: int| 0 <= k < __i ==> signed_lock_of(#[trigger] self.inputs@[k].1) is None),
                __r is Some ==> exists|k: int| 0 <= k < self.inputs@.len() && signed_lock_of(#[trigger] self.inputs@[k].1) == __r,
            decreases self.inputs@.len() - __i + (if __r is None { 1int } else { 0int })
        {
            let outp = &self.inputs[__i].1;
            __r = outp.signed_locktime();
            __i = __i + 1;
        }
        __r
    }
//@end

//@extract lightning/src/chain/package.rs :: impl PackageTemplate :: fn package_locktime
//@ret r
//@requires
    forall|k: int| 0 <= k < self.inputs@.len() ==> holder_htlc_wf(#[trigger] self.inputs@[k].1),
    // (the code's debug_assert) a package with a pre-signed input has no separately timelocked input
    (exists|k: int| 0 <= k < self.inputs@.len() && signed_lock_of(#[trigger] self.inputs@[k].1) is Some)
        ==> (forall|k: int| 0 <= k < self.inputs@.len() ==> min_lock_of(#[trigger] self.inputs@[k].1) is None),
//@ensures P C07 the-claim-transactions-locktime-satisfies-every-inputs-timelock-and-is-the-current-height-otherwise
    forall|k: int| 0 <= k < self.inputs@.len() && min_lock_of(#[trigger] self.inputs@[k].1) is Some ==> r >= min_lock_of(self.inputs@[k].1)->Some_0,
    (forall|k: int| 0 <= k < self.inputs@.len() ==> signed_lock_of(#[trigger] self.inputs@[k].1) is None) ==> r >= current_height
        && (r == current_height || exists|k: int| 0 <= k < self.inputs@.len() && min_lock_of(#[trigger] self.inputs@[k].1) == Some(r)),
    (exists|k: int| 0 <= k < self.inputs@.len() && signed_lock_of(#[trigger] self.inputs@[k].1) is Some)
        ==> exists|k: int| 0 <= k < self.inputs@.len() && signed_lock_of(#[trigger] self.inputs@[k].1) == Some(r),
//@rw R6
    self.inputs.iter().filter_map(|(_, outp)| outp.minimum_locktime()).max()
//@with
    { // R6: self.inputs.iter().filter_map(|(_, outp)| V).max()
        let mut __m: Option<u32> = None; let mut __i: usize = 0;
        while __i < self.inputs.len()
            invariant __i <= self.inputs@.len(),
                forall|k: int| 0 <= k < __i && min_lock_of(#[trigger] self.inputs@[k].1) is Some ==> __m is Some && __m->Some_0 >= min_lock_of(self.inputs@[k].1)->Some_0,
                __m is Some ==> exists|k: int| 0 <= k < __i && min_lock_of(#[trigger] self.inputs@[k].1) == __m,
            decreases self.inputs@.len() - __i
        {
            let outp = &self.inputs[__i].1;
            match outp.minimum_locktime() {
                Some(__v) => { __m = match __m { None => Some(__v), Some(__c) => if __v >= __c { Some(__v) } else { Some(__c) } }; },
                None => {},
            }
            __i = __i + 1;
        }
        __m
    }
//@mutant locktime_ignores_the_inputs_timelock
    core::cmp::max(current_height, minimum_locktime.unwrap_or(0))
//@with
    current_height
//@end

//@extract lightning/src/chain/package.rs :: impl PackageTemplate :: fn can_merge_with
//@cfg debug_assertions=false
//@rw R10
    debug_assert!(false);
//@with
    
//@ret r
//@requires
    cur_height <= 0x7fff_ffff,
    pkg_wf(*self), pkg_wf(*other),
//@ensures P C06,C07 claims-are-aggregated-only-within-one-transaction-tree-with-one-locktime-and-never-across-the-pinnable-unpinnable-divide
    r ==> self.malleability is Malleable && other.malleability is Malleable
        && self.inputs@.len() > 0 && other.inputs@.len() > 0
        && tree_of(self.inputs@[0].1) == tree_of(other.inputs@[0].1)
        && (pinnable(*self, cur_height) <==> pinnable(*other, cur_height)),
//@mutant pinnable_merged_with_unpinnable
    if self_pinnable && other_pinnable {
//@with
    if self_pinnable || other_pinnable {
//@mutant different_tx_trees_merged
    if !self.inputs[0].1.is_possibly_from_same_tx_tree(&other.inputs[0].1) {
//@with
    if false {
//@end

//@extract lightning/src/chain/package.rs :: impl PackageTemplate :: fn merge_package
//@rw R5
    &mut self, mut merge_from: PackageTemplate, cur_height: u32, ) -> Result<(), PackageTemplate> {
//@with
    &mut self, merge_from_: PackageTemplate, cur_height: u32, ) -> Result<(), PackageTemplate> {
        let mut merge_from = merge_from_;
//@rw R6
    for (k, v) in merge_from.inputs.drain(..) { self.inputs.push((k, v)); }
//@with
    self.inputs.append(&mut merge_from.inputs);
//@ret r
//@requires
    cur_height <= 0x7fff_ffff, pkg_wf(*old(self)), pkg_wf(merge_from_),
//@ensures P C06,C07 an-aggregated-claim-keeps-every-input-and-the-most-urgent-deadline-timer-and-lowest-previous-feerate-of-its-parts
    r is Ok ==> final(self).inputs@ == old(self).inputs@ + merge_from_.inputs@
        && final(self).counterparty_spendable_height == (if old(self).counterparty_spendable_height <= merge_from_.counterparty_spendable_height { old(self).counterparty_spendable_height } else { merge_from_.counterparty_spendable_height })
        && final(self).height_timer == (if old(self).height_timer <= merge_from_.height_timer { old(self).height_timer } else { merge_from_.height_timer })
        && final(self).feerate_previous == (if old(self).feerate_previous <= merge_from_.feerate_previous { old(self).feerate_previous } else { merge_from_.feerate_previous })
        && final(self).malleability == old(self).malleability,
    r is Err ==> *final(self) == *old(self) && r->Err_0 == merge_from_,
//@mutant merged_claim_keeps_the_later_deadline
    if self.counterparty_spendable_height > merge_from.counterparty_spendable_height {
//@with
    if self.counterparty_spendable_height < merge_from.counterparty_spendable_height {
//@mutant merged_claim_keeps_the_later_timer
    cmp::min(self.height_timer, merge_from.height_timer)
//@with
    cmp::max(self.height_timer, merge_from.height_timer)
//@end

//@extract lightning/src/chain/package.rs :: impl PackageTemplate :: fn compute_package_feerate
//@ret r
//@requires
    // `feerate_estimate * 5` is computed in u32: the estimator must stay below u32::MAX / 5 sat/kW (3.4 million sat/vB)
    fee_estimator.0.max_est() <= 858_993_459,
//@ensures P C07 anchor-claim-feerate-never-below-the-floor-and-never-below-the-previous-feerate
    r >= FEERATE_FLOOR_SATS_PER_KW || self.feerate_previous != 0,
    self.feerate_previous != 0 ==> r as int >= (if self.feerate_previous <= u32::MAX { self.feerate_previous as int } else { u32::MAX as int }),
    self.feerate_previous == 0 ==> r >= FEERATE_FLOOR_SATS_PER_KW,
//@mutant force_bump_may_lower_feerate
    new_feerate = cmp::max(feerate_estimate * 5, previous_feerate);
//@with
    new_feerate = feerate_estimate * 5;
//@end

//@extract lightning/src/chain/package.rs :: impl PackageTemplate :: fn compute_package_output
//@ret r
//@requires
    valid_w(predicted_weight), self.malleability is Malleable, 1 <= dust_limit_sats <= 0x7fff_ffff_ffff_ffff,
    self.feerate_previous <= u32::MAX, sum_amounts(self.inputs@) <= 21_000_000_0000_0000,
//@ensures P C07 claim-output-at-least-dust-and-never-above-the-claimed-inputs
    r is Some ==> r->Some_0.0 >= dust_limit_sats,
    r is Some && sum_amounts(self.inputs@) >= dust_limit_sats ==> r->Some_0.0 as int <= sum_amounts(self.inputs@),
    r is Some && self.feerate_previous != 0 ==> r->Some_0.1 >= self.feerate_previous,
//@mutant output_not_reduced_by_fee
    return Some((cmp::max(input_amounts.saturating_sub(new_fee), dust_limit_sats), feerate)); } } else {
//@with
    return Some((cmp::max(input_amounts.saturating_add(new_fee), dust_limit_sats), feerate)); } } else {
//@end
}

}
fn main() {}
